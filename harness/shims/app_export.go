//go:build verif

package app

// Verification shims for package app, injected with `go build -overlay`.

import (
	"context"
	"io"
	"log/slog"
	"net"
	"sort"
	"time"

	"github.com/sheerbytes/sheerbytes/internal/quictransport"
	"github.com/sheerbytes/sheerbytes/internal/transfer"
	"github.com/sheerbytes/sheerbytes/internal/transferquic"
	"github.com/sheerbytes/sheerbytes/pkg/protocol"
)

// ---- admission scheduler (C12) ----------------------------------------------

// VerifSender wraps a real SnapshotSender built like the package's own
// newTestSender (plus a logger, which the failure path needs).
type VerifSender struct {
	S   *SnapshotSender
	Now time.Time
}

func VerifNewSender(maxReceivers int, ttl time.Duration, transferFn func(ctx context.Context, peerID string) error) *VerifSender {
	v := &VerifSender{Now: time.Unix(1_700_000_000, 0)}
	v.S = &SnapshotSender{
		logger:      slog.New(slog.NewTextHandler(io.Discard, nil)),
		maxRecv:     maxReceivers,
		receiverTTL: ttl,
		receivers:   make(map[string]*ReceiverState),
		active:      make(map[string]*transferSlot),
		signalCh:    make(map[string]chan protocol.Envelope),
		progress:    make(map[string]*senderProgress),
		now:         func() time.Time { return v.Now },
		exitFn:      func(int) {},
		closeConn:   func() {},
		transferFn:  transferFn,
	}
	// as RunSnapshotSender does: the state-change callback is the status logger (it takes the sender's lock itself)
	v.S.onChange = v.S.logSnapshotState
	return v
}

func (v *VerifSender) Join(p string) { v.S.handlePeerJoined(p) }
func (v *VerifSender) Accept(ctx context.Context, p string) {
	v.S.handleManifestAccept(p, protocol.ManifestAccept{})
	v.S.maybeStartTransfers(ctx)
}
func (v *VerifSender) Leave(p string) { v.S.handlePeerLeft(p) }

// Enqueue is the read loop's handling of manifest_accept without the dispatch that follows it.
func (v *VerifSender) Enqueue(p string) { v.S.handleManifestAccept(p, protocol.ManifestAccept{}) }

// Dispatch is one call of the scheduler loop.
func (v *VerifSender) Dispatch(ctx context.Context) { v.S.maybeStartTransfers(ctx) }

// SetOnChange installs the state-change callback (the CLI installs its status logger there).
func (v *VerifSender) SetOnChange(f func()) { v.S.onChange = f }
func (v *VerifSender) Cleanup()       { v.S.cleanup() }

type VerifSenderSnap struct {
	Queue  []string
	Active []string
	Status map[string]string
}

func (v *VerifSender) Snap() VerifSenderSnap {
	v.S.mu.Lock()
	defer v.S.mu.Unlock()
	out := VerifSenderSnap{Queue: append([]string{}, v.S.queue...), Status: map[string]string{}}
	for p := range v.S.active {
		out.Active = append(out.Active, p)
	}
	sort.Strings(out.Active)
	for p, st := range v.S.receivers {
		out.Status[p] = st.Status
	}
	return out
}

// ---- transport authentication (C08) -------------------------------------------

const (
	VerifRoleSender   = authRoleSender
	VerifRoleReceiver = authRoleReceive
)

func VerifAuthenticate(ctx context.Context, conn transfer.Conn, joinCode string, role byte) error {
	return authenticateTransport(ctx, conn, joinCode, role)
}

// VerifAcceptExtraConns runs the receiver's real acceptExtraConns loop on a listener transport.
func VerifAcceptExtraConns(ctx context.Context, joinCode string, t *transferquic.QUICTransport, extra int) ([]transfer.Conn, error) {
	r := &snapshotReceiver{joinCode: joinCode, logger: slog.New(slog.NewTextHandler(io.Discard, nil))}
	return r.acceptExtraConns(ctx, t, extra)
}

// VerifDialExtraConns runs the sender's real dialExtraConns loop against one remote address.
func VerifDialExtraConns(ctx context.Context, joinCode string, remote *net.UDPAddr, extra int) ([]transfer.Conn, func(), error) {
	s := &SnapshotSender{joinCode: joinCode, logger: slog.New(slog.NewTextHandler(io.Discard, nil))}
	ecs, err := s.dialExtraConns(ctx, "peer", remote, quictransport.ClientConfig(), quictransport.DefaultClientQUICConfig(), extra)
	conns := make([]transfer.Conn, 0, len(ecs))
	for _, ec := range ecs {
		conns = append(conns, ec.conn)
	}
	return conns, func() {
		for _, ec := range ecs {
			ec.close()
		}
	}, err
}

// ---- path resolver / URL helpers (C13, C16) ------------------------------------

func VerifBuildPathResolver(paths []string) (func(string) string, error) {
	return buildPathResolver(paths)
}

func VerifBuildWebSocketURL(serverURL, joinCode, peerID, role string, maxReceivers int) (string, error) {
	return buildWebSocketURL(serverURL, joinCode, peerID, role, maxReceivers)
}

// ---- dumb-mode record (C15) -----------------------------------------------------

func VerifRecvDumbDiscardReader(r io.Reader) (string, error) { return recvDumbDiscardReader(r, nil) }
func VerifSendDumbDataWriter(w io.Writer, name []byte, size int64) error {
	return sendDumbDataWriter(w, name, size)
}
func VerifRecvDumbDiscardMulti(ctx context.Context, conns []transfer.Conn) error {
	return recvDumbDiscardMulti(ctx, conns, nil)
}
func VerifRecvDumbDiscard(ctx context.Context, conn transfer.Conn) (string, error) {
	return recvDumbDiscard(ctx, conn, nil)
}

// ---- dumb-tcp connection set-up (C09) ---------------------------------------------

func VerifDialAddrs(ctx context.Context, addrs []string) (net.Conn, error) { return dialAddrs(ctx, addrs) }
func VerifAcceptWithContext(ctx context.Context, ln net.Listener) (net.Conn, error) {
	return acceptWithContext(ctx, ln)
}
