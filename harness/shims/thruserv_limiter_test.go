//go:build verif

package main

// Injected into cmd/thruserv with `go test -overlay` by /verif (C14): the
// atomicity Server.tla assumes for the connection limiter, the per-session
// receiver slots and the token bucket, under a spin barrier.

import (
	"runtime"
	"sync"
	"sync/atomic"
	"testing"
	"time"
)

func burst(n int, f func() bool) int {
	var ready, granted atomic.Int64
	var wg sync.WaitGroup
	start := make(chan struct{})
	for i := 0; i < n; i++ {
		wg.Add(1)
		go func() {
			defer wg.Done()
			ready.Add(1)
			<-start
			for ready.Load() < int64(n) {
				runtime.Gosched()
			}
			if f() {
				granted.Add(1)
			}
		}()
	}
	close(start)
	wg.Wait()
	return int(granted.Load())
}

func TestVerifConnLimiterAtomic(t *testing.T) {
	deadline := time.Now().Add(4 * time.Second)
	for round := 0; time.Now().Before(deadline) && round < 30000; round++ {
		limit := 1 + round%4
		l := newConnLimiter(limit)
		if got := burst(32, l.Acquire); got > limit {
			t.Fatalf("VERIF-VIOLATION more_sockets_than_max_ws_connections: %d slots granted with limit %d (round %d)", got, limit, round)
		} else if got < limit {
			t.Fatalf("VERIF-VIOLATION connection_limit_rejects_below_limit: %d of %d", got, limit)
		}
		for i := 0; i < limit; i++ {
			l.Release()
		}
		if !l.Acquire() {
			t.Fatalf("VERIF-VIOLATION connection_slot_not_released")
		}
	}
	l0 := newConnLimiter(0)
	if burst(64, l0.Acquire) != 64 {
		t.Fatalf("VERIF-VIOLATION limit_zero_still_limits: connections")
	}
}

func TestVerifReceiverSlotsAtomic(t *testing.T) {
	deadline := time.Now().Add(3 * time.Second)
	for round := 0; time.Now().Before(deadline) && round < 30000; round++ {
		limit := 1 + round%3
		s := &sessionSlots{inUse: make(map[string]int)}
		if got := burst(24, func() bool { return s.acquire("sess", limit) }); got != limit {
			t.Fatalf("VERIF-VIOLATION more_receivers_than_max_receivers_per_sender: %d granted with limit %d", got, limit)
		}
		if !s.acquire("other", limit) {
			t.Fatalf("VERIF-VIOLATION receiver_limit_counts_other_sessions")
		}
		for i := 0; i < limit; i++ {
			s.release("sess")
		}
		if !s.acquire("sess", limit) {
			t.Fatalf("VERIF-VIOLATION receiver_slot_not_released_on_leave")
		}
	}
}

func TestVerifTokenBucketBound(t *testing.T) {
	for _, burstN := range []int{1, 3, 10} {
		b := newTokenBucket(50, burstN)
		t0 := time.Now()
		ok := burst(64, b.Allow)
		el := time.Since(t0).Seconds()
		if float64(ok) > float64(burstN)+50*el+1 {
			t.Fatalf("VERIF-VIOLATION more_messages_accepted_than_the_rate_allows: %d with burst %d in %.4fs", ok, burstN, el)
		}
		if ok < burstN {
			t.Fatalf("VERIF-VIOLATION rate_limit_rejects_within_the_burst: %d of %d", ok, burstN)
		}
	}
}

// A client that spends its burst, stays silent and comes back gets what the rate yields for the
// silent time - never the whole burst again (burst larger than the per-minute rate).
func TestVerifIPLimiterAfterSilence(t *testing.T) {
	for _, silent := range []time.Duration{61 * time.Second, 5 * time.Minute, 30 * time.Second} {
		l := newIPLimiter(2.0/60.0, 5) // 2 per minute, burst 5
		ip := "198.51.100.7"
		first := 0
		for i := 0; i < 8; i++ {
			if l.Allow(ip) {
				first++
			}
		}
		if first != 5 {
			t.Fatalf("VERIF-VIOLATION rate_limit_rejects_within_the_burst: %d of 5", first)
		}
		// the silent time: every bucket's clock is moved back
		l.mu.Lock()
		for _, b := range l.buckets {
			b.mu.Lock()
			b.last = b.last.Add(-silent)
			b.mu.Unlock()
		}
		l.mu.Unlock()
		after := 0
		for i := 0; i < 8; i++ {
			if l.Allow(ip) {
				after++
			}
		}
		earned := int(silent.Seconds()*2.0/60.0) + 1
		if earned > 5 {
			earned = 5
		}
		if after > earned {
			t.Fatalf("VERIF-VIOLATION more_connects_accepted_than_the_rate_allows: %d admitted after %v of silence, the rate yields at most %d (burst 5, 2 per minute)", after, silent, earned)
		}
	}
}
