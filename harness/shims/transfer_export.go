//go:build verif

package transfer

// Verification shims: exported access to unexported symbols of this package,
// injected at build time with `go build -overlay` from /verif (never
// committed to the repository).

import (
	"io"

	"github.com/sheerbytes/sheerbytes/pkg/manifest"
)

// ---- chunk geometry (C19) ---------------------------------------------------

func VerifChunkTotal(fileSize int64, chunkSize uint32) uint32 { return chunkTotal(fileSize, chunkSize) }
func VerifChunkSizeForIndex(fileSize int64, chunkSize uint32, idx uint32) uint32 {
	return chunkSizeForIndex(fileSize, chunkSize, idx)
}

// ---- sendFileState (C17) ------------------------------------------------------

type VerifSendState struct{ s *sendFileState }

func VerifNewSendState(size int64, chunkSize uint32) *VerifSendState {
	st := &sendFileState{
		key:       1,
		item:      manifest.FileItem{RelPath: "f", Size: size, ID: "id"},
		chunkSize: chunkSize,
		readyCh:   make(chan struct{}),
	}
	st.totalChunks = chunkTotal(size, chunkSize)
	return &VerifSendState{s: st}
}

func (v *VerifSendState) TotalChunks() uint32 { return v.s.totalChunks }

func (v *VerifSendState) Take() (uint32, uint32, bool) { return v.s.nextChunkToSend() }
func (v *VerifSendState) Finish() bool                 { return v.s.markChunkDone() }
func (v *VerifSendState) TryEnd() bool                 { return v.s.trySendEnd() }
func (v *VerifSendState) Ready()                       { v.s.setReady(nil) }
func (v *VerifSendState) IsReady() bool {
	select {
	case <-v.s.readyCh:
		return true
	default:
		return false
	}
}

// The following three mirror the lock regions of the closures applyResumeInfo
// and the verification goroutine inside SendManifestMultiStream (which cannot
// be called in isolation); the end-to-end driver exercises the real closures.
func (v *VerifSendState) SetVerifyPending() {
	v.s.mu.Lock()
	v.s.verifyPending = true
	v.s.mu.Unlock()
}
func (v *VerifSendState) SetPlan(bits []int, forceFrom uint32) {
	bm := NewBitmap(int(v.s.totalChunks))
	for _, b := range bits {
		bm.Set(b)
	}
	v.s.mu.Lock()
	v.s.plan = &resumePlan{bitmap: bm, forceSendFrom: forceFrom, totalChunks: v.s.totalChunks}
	v.s.mu.Unlock()
}
func (v *VerifSendState) Verdict(mismatch bool, chunk uint32) {
	v.s.mu.Lock()
	if mismatch {
		v.s.resendChunk = chunk
		v.s.resendPending = true
	}
	v.s.verifyPending = false
	v.s.mu.Unlock()
}
func (v *VerifSendState) EndSent() bool {
	v.s.mu.Lock()
	defer v.s.mu.Unlock()
	return v.s.endSent
}

type VerifSendSnap struct {
	Next          uint32
	InFlight      int
	SchedDone     bool
	EndSent       bool
	VerifyPending bool
	ResendPending bool
	PlanSet       bool
}

func (v *VerifSendState) Snap() VerifSendSnap {
	v.s.mu.Lock()
	defer v.s.mu.Unlock()
	return VerifSendSnap{v.s.nextChunk, v.s.inFlight, v.s.scheduleDone, v.s.endSent, v.s.verifyPending, v.s.resendPending, v.s.plan != nil}
}

// ---- control protocol (C15, C18, C04) ---------------------------------------------

type verifRW struct {
	r io.Reader
	w io.Writer
}

func (s verifRW) Read(p []byte) (int, error) {
	if s.r == nil {
		return 0, io.EOF
	}
	return s.r.Read(p)
}
func (s verifRW) Write(p []byte) (int, error) {
	if s.w == nil {
		return len(p), nil
	}
	return s.w.Write(p)
}
func (s verifRW) Close() error { return nil }

const (
	VerifTypeFileBegin      = controlTypeFileBegin
	VerifTypeCredit         = controlTypeCredit
	VerifTypeFileEnd        = controlTypeFileEnd
	VerifTypeFileDone       = controlTypeFileDone
	VerifTypeFileResumeInfo = controlTypeFileResumeInfo
	VerifTypeResumeRequest  = controlTypeResumeRequest
	VerifTypeCreditBatch    = controlTypeCreditBatch
	VerifTypeDataStreams    = controlTypeDataStreams
	VerifTypeEnd            = controlTypeEnd
	VerifMaxRelPath         = maxRelPathLength
)

func VerifReadControlMessage(r io.Reader) (byte, any, error) {
	return readControlMessage(verifRW{r: r})
}
func VerifReadControlHeader(r io.Reader) (manifest.Manifest, error) {
	return readControlHeader(verifRW{r: r})
}
func VerifWriteControlHeader(w io.Writer, m manifest.Manifest) error {
	return writeControlHeader(verifRW{w: w}, m)
}

// VerifWriteRecord encodes one control record with the real encoder.
func VerifWriteRecord(w io.Writer, msg any) error {
	s := verifRW{w: w}
	switch m := msg.(type) {
	case FileBegin:
		return writeFileBegin(s, m)
	case Credit:
		return writeCredit(s, m)
	case CreditBatch:
		return writeCreditBatch(s, m)
	case FileEnd:
		return writeFileEnd(s, m)
	case FileDone:
		return writeFileDone(s, m)
	case FileResumeInfo:
		return writeFileResumeInfo(s, m)
	case ResumeRequest:
		return writeResumeRequest(s, m)
	case DataStreams:
		return writeDataStreams(s, m)
	case nil:
		return writeControlEnd(s)
	}
	return io.ErrUnexpectedEOF
}

// VerifHashFileChunk hashes one chunk the way the resume verification does.
func VerifHashFileChunk(path string, idx uint32, chunkSize uint32, size int64, alg string) (uint64, error) {
	a, err := parseHashAlg(alg)
	if err != nil {
		return 0, err
	}
	return hashFileChunk(path, idx, chunkSize, size, a)
}

func VerifValidateRelPath(p string) error          { return validateRelPath(p) }
func VerifFileKey(item manifest.FileItem) uint64   { return fileKeyForItem(item) }
func VerifSidecarID(item manifest.FileItem) string { return sidecarIdentifier(item) }

// VerifSidecarBits returns the set chunk indices of a loaded sidecar.
func VerifSidecarBits(sc *Sidecar) []int {
	var out []int
	for i := 0; i < int(sc.TotalChunks); i++ {
		if sc.bitmap.Get(i) {
			out = append(out, i)
		}
	}
	return out
}
