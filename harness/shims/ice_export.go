//go:build verif

package ice

// VerifTurnServer is the client's view of a TURN server URL.
type VerifTurnServer struct {
	Addr, Username, Password, ServerName string
	UseTCP, UseTLS                       bool
}

func VerifParseTurnServer(raw string) (VerifTurnServer, error) {
	c, err := parseTurnServer(raw)
	return VerifTurnServer{Addr: c.addr, Username: c.username, Password: c.password, ServerName: c.serverName, UseTCP: c.useTCP, UseTLS: c.useTLS}, err
}
