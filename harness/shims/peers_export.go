//go:build verif

package peers

import "sort"

// VerifSessSnap is the routing state of one session.
type VerifSessSnap struct {
	Present bool
	Members []string          // conn ids in h.sessions[s]
	ByPeer  map[string]string // peer id -> conn id
	HasIdx  bool              // h.byPeerID has an entry for the session
}

// VerifSnap returns the hub's maps (read under the hub lock).
func (h *Hub) VerifSnap(sessions []string) map[string]VerifSessSnap {
	h.mu.RLock()
	defer h.mu.RUnlock()
	out := map[string]VerifSessSnap{}
	for _, s := range sessions {
		sn := VerifSessSnap{ByPeer: map[string]string{}}
		if m, ok := h.sessions[s]; ok {
			sn.Present = true
			for c := range m {
				sn.Members = append(sn.Members, c)
			}
			sort.Strings(sn.Members)
		}
		if idx, ok := h.byPeerID[s]; ok {
			sn.HasIdx = true
			for p, c := range idx {
				sn.ByPeer[p] = c
			}
		}
		out[s] = sn
	}
	return out
}

// VerifSessionCount is the number of entries in h.sessions (leak check).
func (h *Hub) VerifSessionCount() (int, int) {
	h.mu.RLock()
	defer h.mu.RUnlock()
	return len(h.sessions), len(h.byPeerID)
}
