//go:build verif

package session

// Injected into internal/session with `go test -overlay` by /verif (C14): join codes of live sessions
// are pairwise distinct and each resolves to its own session even when the random draw collides.
// crypto/rand.Reader is replaced by a scripted reader that repeats earlier output, which forces the
// collision-retry path that 8-character random codes practically never take.

import (
	"crypto/rand"
	"io"
	"sync"
	"testing"
)

type scriptedReader struct {
	mu     sync.Mutex
	real   io.Reader
	replay [][]byte // recorded reads (by length) to be handed out again
	record bool
	log    [][]byte
}

func (r *scriptedReader) Read(p []byte) (int, error) {
	r.mu.Lock()
	defer r.mu.Unlock()
	for i, b := range r.replay {
		if len(b) == len(p) {
			copy(p, b)
			r.replay = append(r.replay[:i], r.replay[i+1:]...)
			return len(p), nil
		}
	}
	n, err := r.real.Read(p)
	if r.record {
		r.log = append(r.log, append([]byte(nil), p[:n]...))
	}
	return n, err
}

func TestVerifJoinCodeCollision(t *testing.T) {
	old := rand.Reader
	defer func() { rand.Reader = old }()
	for _, limited := range []bool{false, true} {
		sr := &scriptedReader{real: old, record: true}
		rand.Reader = sr
		st := NewStore(0)
		create := func() Session {
			// (looked up through an interface: a tree whose store has no CreateLimited must still build)
			if cl, has := any(st).(interface{ CreateLimited(int) (Session, bool) }); limited && has {
				s, ok := cl.CreateLimited(10)
				if !ok {
					t.Fatalf("CreateLimited refused")
				}
				return s
			}
			return st.Create()
		}
		a := create()
		// the second session draws the very bytes the first one drew for its code (and fresh ones for its id)
		sr.mu.Lock()
		var codeDraw []byte
		if len(sr.log) >= 2 {
			codeDraw = sr.log[1] // draws: session id, join code
		}
		sr.record = false
		if codeDraw != nil {
			sr.replay = [][]byte{codeDraw}
		}
		sr.mu.Unlock()
		if codeDraw == nil {
			t.Fatalf("could not identify the code draw")
		}
		b := create()
		if a.JoinCode == b.JoinCode {
			t.Errorf("VERIF-VIOLATION join_codes_of_live_sessions_not_distinct: both sessions report code %s (limited=%v)", a.JoinCode, limited)
			continue
		}
		ga, oka := st.GetByJoinCode(a.JoinCode)
		gb, okb := st.GetByJoinCode(b.JoinCode)
		if !oka || ga.ID != a.ID || !okb || gb.ID != b.ID {
			t.Errorf("VERIF-VIOLATION join_code_resolves_to_another_session: a=%v/%v b=%v/%v (limited=%v)", oka, ga.ID == a.ID, okb, gb.ID == b.ID, limited)
			continue
		}
		st.Delete(b.ID)
		if g, ok := st.GetByJoinCode(a.JoinCode); !ok || g.ID != a.ID {
			t.Errorf("VERIF-VIOLATION deleting_one_session_killed_another_code: (limited=%v)", limited)
		}
		if _, ok := st.GetByJoinCode(b.JoinCode); ok {
			t.Errorf("VERIF-VIOLATION join_admitted_after_session_ended: code of a deleted session still resolves (limited=%v)", limited)
		}
	}
}
