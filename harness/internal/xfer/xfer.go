// Package xfer runs the real SendManifestMultiStream / RecvManifestMultiStream
// pair end to end over the simulated transport (vnet) or a real loopback QUIC
// connection, and provides the ground-truth oracle shared by C01..C06: the
// digest of the source tree versus the output directory.
package xfer

import (
	"syscall"
	"context"
	"crypto/sha256"
	"encoding/hex"
	"fmt"
	"io"
	"io/fs"
	"log/slog"
	"math/rand"
	"net"
	"os"
	"path/filepath"
	"runtime"
	"sort"
	"strings"
	"sync"
	"sync/atomic"
	"time"

	"github.com/sheerbytes/sheerbytes/internal/quictransport"
	"github.com/sheerbytes/sheerbytes/internal/transfer"
	"github.com/sheerbytes/sheerbytes/internal/transferquic"
	"github.com/sheerbytes/sheerbytes/pkg/manifest"
	"github.com/sheerbytes/sheerbytes/verifharness/internal/vnet"
)

// FileSpec describes one entry of a generated tree.
type FileSpec struct {
	Rel  string `json:"rel"`
	Size int64  `json:"size"` // -1: directory
	Link string `json:"link,omitempty"` // when set: a symbolic link with this target (relative to the link's directory), Size ignored
	Fifo bool   `json:"fifo,omitempty"` // a named pipe (an entry that is neither file, directory nor link: not part of the hosted tree)
	Zero [][2]int64 `json:"zero,omitempty"` // byte ranges [from, to) that hold zeros (holes of a disk image, padding)
}

// MakeTree materialises specs under root with seeded contents.
func MakeTree(root string, specs []FileSpec, seed int64) error {
	if err := os.MkdirAll(root, 0755); err != nil {
		return err
	}
	rng := rand.New(rand.NewSource(seed))
	for _, s := range specs {
		p := filepath.Join(root, filepath.FromSlash(s.Rel))
		if s.Size < 0 {
			if err := os.MkdirAll(p, 0755); err != nil {
				return err
			}
			continue
		}
		if err := os.MkdirAll(filepath.Dir(p), 0755); err != nil {
			return err
		}
		if s.Link != "" {
			if err := os.Symlink(s.Link, p); err != nil {
				return err
			}
			continue
		}
		if s.Fifo {
			if err := syscall.Mkfifo(p, 0644); err != nil {
				return err
			}
			continue
		}
		buf := make([]byte, s.Size)
		rng.Read(buf)
		// make every chunk position recognisable: never all zero
		for i := range buf {
			if buf[i] == 0 {
				buf[i] = byte(1 + i%250)
			}
		}
		for _, z := range s.Zero {
			for i := z[0]; i < z[1] && i < int64(len(buf)); i++ {
				buf[i] = 0
			}
		}
		if err := os.WriteFile(p, buf, 0644); err != nil {
			return err
		}
	}
	return nil
}

// Digest maps every relative path under root (except the resume metadata
// directory) to "dir" or "<size>:<sha256>".
func Digest(root string) (map[string]string, error) {
	out := map[string]string{}
	if _, err := os.Lstat(root); os.IsNotExist(err) {
		// nothing was created (e.g. the receiver refused the manifest before touching the disk): an empty tree
		return out, nil
	}
	err := filepath.WalkDir(root, func(p string, d fs.DirEntry, err error) error {
		if err != nil {
			return err
		}
		rel, _ := filepath.Rel(root, p)
		rel = filepath.ToSlash(rel)
		if rel == "." {
			return nil
		}
		if d.IsDir() {
			if d.Name() == ".thruflux_resumedata" {
				return fs.SkipDir
			}
			out[rel] = "dir"
			return nil
		}
		// entries that are not part of a hosted tree: pipes, sockets, devices, links that lead nowhere or to a directory
		if d.Type()&(fs.ModeNamedPipe|fs.ModeSocket|fs.ModeDevice|fs.ModeCharDevice) != 0 {
			return nil
		}
		if d.Type()&fs.ModeSymlink != 0 {
			if ti, terr := os.Stat(p); terr != nil || ti.IsDir() {
				return nil
			}
		}
		f, err := os.Open(p)
		if err != nil {
			return err
		}
		defer f.Close()
		h := sha256.New()
		n, err := io.Copy(h, f)
		if err != nil {
			return err
		}
		out[rel] = fmt.Sprintf("%d:%s", n, hex.EncodeToString(h.Sum(nil))[:16])
		return nil
	})
	return out, err
}

// DiffDigests lists differences (missing / extra / different).
func DiffDigests(want, got map[string]string) []string {
	var diffs []string
	for k, v := range want {
		g, ok := got[k]
		if !ok {
			diffs = append(diffs, "missing:"+k)
		} else if g != v {
			diffs = append(diffs, "differs:"+k)
		}
	}
	for k := range got {
		if _, ok := want[k]; !ok {
			diffs = append(diffs, "extra:"+k)
		}
	}
	sort.Strings(diffs)
	return diffs
}

// Config of one end-to-end run.
type Config struct {
	Transport  string        `json:"transport"` // "mock" (vnet, streams visible on open) | "vquic" (vnet, QUIC visibility, seeded arrival order) | "vlag" (as vquic, data streams lag behind the control stream) | "quic" (real loopback)
	Conns      int           `json:"conns"`
	Streams    int           `json:"streams"`
	ChunkSize  uint32        `json:"chunk"`
	Resume     bool          `json:"resume"`
	NoRootDir  bool          `json:"noRootDir"`
	ScanPaths  bool          `json:"scanPaths"`
	Seed       int64         `json:"seed"`
	VerifyTail uint32        `json:"tail"`
	CtlYield   bool          `json:"ctlYield,omitempty"`   // vnet: the sender yields after every write on the control stream
	SenderHash string        `json:"senderHash,omitempty"` // sender's Options.HashAlg ("" = default)
	DataLag    time.Duration `json:"dataLag,omitempty"`    // vlag: quiet period on the control stream before data arrives
	CtlBackLag time.Duration `json:"ctlBackLag,omitempty"` // vquic / vlag: the receiver's control records arrive this much later
	DataWriteDelay   time.Duration `json:"dataWriteDelay,omitempty"`   // vnet: every data-stream write of the sender takes this long
	Manifest         *manifest.Manifest `json:"-"` // when set: this manifest value is sent instead of a fresh scan (a host serves every receiver from the one manifest it scanned)
	ResumeStatsDelay time.Duration `json:"resumeStatsDelay,omitempty"` // the sender's ResumeStatsFn callback (a status line, a log write) takes this long
	SmallBelow int64         `json:"smallBelow,omitempty"` // scheduler: files below this many bytes count as small (0: the default of 4 MiB)
	Watchdog   time.Duration `json:"-"`
	// faults (vnet only)
	Fault       *vnet.FaultSpec         `json:"fault,omitempty"`
	Flip        *vnet.FlipSpec          `json:"flip,omitempty"`
	CancelSide  string                  `json:"cancelSide,omitempty"`  // "sender" | "receiver": cancel that side's context ...
	CancelAfter int64                   `json:"cancelAfter,omitempty"` // ... once this many bytes were written by the sender side
	ResolveFn   func(rel string) string `json:"-"`
	Tap         func(p *vnet.Pair)      `json:"-"` // called with the first vnet pair before the transfer starts
	AfterScan   func()                  `json:"-"` // called after the manifest was built (source-side faults)
}

// Outcome of a run.
type Outcome struct {
	SendErr     string   `json:"sendErr"`
	RecvErr     string   `json:"recvErr"`
	SendOK      bool     `json:"sendOK"`
	RecvOK      bool     `json:"recvOK"`
	Hung        bool     `json:"hung"`
	HangWhere   []string `json:"hangWhere,omitempty"`
	Diffs       []string `json:"diffs,omitempty"`
	TreeEqual   bool     `json:"treeEqual"`
	WallMs      int64    `json:"wallMs"`
	FaultFired  bool     `json:"faultFired"`
	StreamBytes [][2]int `json:"streamBytes,omitempty"`
}

var quietLogger = slog.New(slog.NewTextHandler(io.Discard, nil))

type connSet struct {
	send, recv transfer.Conn
	pairs      []*vnet.Pair
	cleanup    func()
}

func openConns(cfg Config) (*connSet, error) {
	n := cfg.Conns
	if n < 1 {
		n = 1
	}
	cs := &connSet{}
	var sc, rc []transfer.Conn
	var cleanups []func()
	switch cfg.Transport {
	case "mock", "vquic", "vlag":
		for i := 0; i < n; i++ {
			p := vnet.NewPair(vnet.Options{Mock: cfg.Transport == "mock", Hold: cfg.Transport != "mock", AutoRelease: cfg.Transport != "mock", LagData: cfg.Transport == "vlag", YieldOnCtl: cfg.CtlYield, DataLag: cfg.DataLag, CtlBackLag: cfg.CtlBackLag, DataWriteDelay: cfg.DataWriteDelay, Seed: cfg.Seed + int64(i)})
			cs.pairs = append(cs.pairs, p)
			sc = append(sc, p.End(vnet.A))
			rc = append(rc, p.End(vnet.B))
			cleanups = append(cleanups, p.Shutdown)
		}
	case "quic":
		udp, err := net.ListenUDP("udp", &net.UDPAddr{IP: net.IPv4(127, 0, 0, 1)})
		if err != nil {
			return nil, err
		}
		ctx, cancel := context.WithTimeout(context.Background(), 10*time.Second)
		defer cancel()
		ln, err := quictransport.ListenWithConfig(ctx, udp, quietLogger, quictransport.DefaultServerQUICConfig())
		if err != nil {
			udp.Close()
			return nil, err
		}
		lt := transferquic.NewListener(ln, quietLogger)
		cleanups = append(cleanups, func() { lt.Close(); udp.Close() })
		for i := 0; i < n; i++ {
			cudp, err := net.ListenUDP("udp", &net.UDPAddr{IP: net.IPv4(127, 0, 0, 1)})
			if err != nil {
				return nil, err
			}
			accCh := make(chan transfer.Conn, 1)
			errCh := make(chan error, 1)
			go func() {
				c, err := lt.Accept(ctx)
				if err != nil {
					errCh <- err
					return
				}
				accCh <- c
			}()
			qc, err := quictransport.DialWithConfig(ctx, cudp, udp.LocalAddr(), quietLogger, quictransport.DefaultClientQUICConfig())
			if err != nil {
				return nil, err
			}
			dc, err := transferquic.NewDialer(qc, quietLogger).Dial(ctx, "peer")
			if err != nil {
				return nil, err
			}
			select {
			case c := <-accCh:
				rc = append(rc, c)
			case err := <-errCh:
				return nil, err
			}
			sc = append(sc, dc)
			cleanups = append(cleanups, func() { qc.CloseWithError(0, ""); cudp.Close() })
		}
	default:
		return nil, fmt.Errorf("unknown transport %q", cfg.Transport)
	}
	if n == 1 {
		cs.send, cs.recv = sc[0], rc[0]
	} else {
		ms, err := transfer.NewMultiConn(sc)
		if err != nil {
			return nil, err
		}
		mr, err := transfer.NewMultiConn(rc)
		if err != nil {
			return nil, err
		}
		cs.send, cs.recv = ms, mr
	}
	cs.cleanup = func() {
		for i := len(cleanups) - 1; i >= 0; i-- {
			cleanups[i]()
		}
	}
	return cs, nil
}

// Scan builds the manifest for srcRoot the way the CLI does (ScanPaths) or the
// way the package tests do (Scan).
func Scan(srcRoot string, scanPaths bool) (manifest.Manifest, string, error) {
	if scanPaths {
		m, err := manifest.ScanPaths([]string{srcRoot})
		return m, ".", err
	}
	m, err := manifest.Scan(srcRoot)
	return m, srcRoot, err
}

// ExpectedDigest is the digest the output directory must have after a
// successful transfer of srcRoot with the given options.
func ExpectedDigest(srcRoot string, m manifest.Manifest, cfg Config) (map[string]string, error) {
	src, err := Digest(srcRoot)
	if err != nil {
		return nil, err
	}
	prefix := ""
	if cfg.ScanPaths {
		// ScanPaths lists the selection under its base name
		prefix = filepath.Base(srcRoot) + "/"
		if fi, err := os.Stat(srcRoot); err == nil && !fi.IsDir() {
			prefix = ""
		}
	}
	want := map[string]string{}
	add := func(k, v string) {
		want[k] = v
		// every ancestor is a directory
		for d := filepath.ToSlash(filepath.Dir(k)); d != "." && d != "/"; d = filepath.ToSlash(filepath.Dir(d)) {
			want[d] = "dir"
		}
	}
	root := ""
	if !cfg.NoRootDir {
		root = m.Root + "/"
	}
	if fi, err := os.Stat(srcRoot); err == nil && !fi.IsDir() {
		b, _ := os.ReadFile(srcRoot)
		h := sha256.Sum256(b)
		add(root+filepath.Base(srcRoot), fmt.Sprintf("%d:%s", len(b), hex.EncodeToString(h[:])[:16]))
		return want, nil
	}
	if root != "" {
		want[strings.TrimSuffix(root, "/")] = "dir"
	}
	if prefix != "" {
		add(root+strings.TrimSuffix(prefix, "/"), "dir")
	}
	for k, v := range src {
		add(root+prefix+k, v)
	}
	return want, nil
}

// Run performs one transfer of srcRoot into outDir and evaluates the tree oracle.
func Run(cfg Config, srcRoot, outDir string) (Outcome, error) {
	var out Outcome
	t0 := time.Now()
	traceReset(cfg.Resume)
	m, sendRoot, err := Scan(srcRoot, cfg.ScanPaths)
	if err != nil {
		return out, fmt.Errorf("scan: %w", err)
	}
	if cfg.Manifest != nil {
		m = *cfg.Manifest
	}
	want, err := ExpectedDigest(srcRoot, m, cfg)
	if err != nil {
		return out, err
	}
	if cfg.AfterScan != nil {
		cfg.AfterScan()
	}
	cs, err := openConns(cfg)
	if err != nil {
		return out, fmt.Errorf("transport: %w", err)
	}
	defer cs.cleanup()
	if len(cs.pairs) > 0 {
		if cfg.Fault != nil {
			cs.pairs[0].SetFault(*cfg.Fault)
		}
		if cfg.Flip != nil {
			cs.pairs[0].AddFlip(*cfg.Flip)
		}
		if cfg.Tap != nil {
			cfg.Tap(cs.pairs[0])
		}
	}
	wd := cfg.Watchdog
	if wd == 0 {
		wd = 10 * time.Second
	}
	sctx, scancel := context.WithCancel(context.Background())
	rctx, rcancel := context.WithCancel(context.Background())
	defer scancel()
	defer rcancel()
	sopts := transfer.Options{ChunkSize: cfg.ChunkSize, ParallelFiles: cfg.Streams, Resume: cfg.Resume, ResumeVerifyTail: cfg.VerifyTail, NoRootDir: cfg.NoRootDir, SmallThreshold: cfg.SmallBelow, HashAlg: cfg.SenderHash}
	if cfg.ResumeStatsDelay > 0 {
		d := cfg.ResumeStatsDelay
		sopts.ResumeStatsFn = func(string, uint32, uint32, uint32, int64, uint32) { time.Sleep(d) }
	}
	if cfg.ScanPaths {
		base := filepath.Base(srcRoot)
		sopts.ResolveFilePath = func(rel string) string {
			if rel == base {
				return srcRoot
			}
			return filepath.Join(filepath.Dir(srcRoot), filepath.FromSlash(rel))
		}
	}
	if cfg.ResolveFn != nil {
		sopts.ResolveFilePath = cfg.ResolveFn
	}
	ropts := transfer.Options{ParallelFiles: cfg.Streams, Resume: cfg.Resume, NoRootDir: cfg.NoRootDir, HashAlg: "crc32c"}
	if cfg.CancelSide != "" && len(cs.pairs) > 0 {
		p := cs.pairs[0]
		go func() {
			for {
				select {
				case <-sctx.Done():
					return
				case <-rctx.Done():
					return
				default:
				}
				if p.Written[vnet.A] >= cfg.CancelAfter {
					if cfg.CancelSide == "sender" {
						scancel()
					} else {
						rcancel()
					}
					return
				}
				runtime.Gosched()
				time.Sleep(20 * time.Microsecond)
			}
		}()
	}
	var wg sync.WaitGroup
	var sendErr, recvErr error
	sendDone, recvDone := make(chan struct{}), make(chan struct{})
	wg.Add(2)
	go func() {
		defer wg.Done()
		_, recvErr = transfer.RecvManifestMultiStream(rctx, cs.recv, outDir, ropts)
		close(recvDone)
		// the application exits / closes its connection once the receive call returns
		cs.recv.Close()
	}()
	go func() {
		defer wg.Done()
		sendErr = transfer.SendManifestMultiStream(sctx, cs.send, sendRoot, m, sopts)
		close(sendDone)
		cs.send.Close()
	}()
	all := make(chan struct{})
	go func() { wg.Wait(); close(all) }()
	// progress-based watchdog: the transfer is declared hung only when neither a byte moved on the
	// simulated transport nor a hook point was passed for the whole window (a wall-clock limit alone
	// would mistake a slow, loaded machine for a deadlock); 8 windows bound a transfer that keeps
	// moving without ever finishing
	progress := func() int64 {
		n := HookTicks.Load()
		for _, p := range cs.pairs {
			for _, sb := range p.StreamBytes() {
				n += int64(sb[0]) + int64(sb[1])
			}
		}
		return n
	}
	hung := false
	last, lastChange := progress(), time.Now()
	tick := time.NewTicker(100 * time.Millisecond)
watch:
	for {
		select {
		case <-all:
			break watch
		case <-tick.C:
			if p := progress(); p != last {
				last, lastChange = p, time.Now()
			}
			if time.Since(lastChange) > wd || time.Since(t0) > 8*wd {
				hung = true
				break watch
			}
		}
	}
	tick.Stop()
	if hung {
		out.Hung = true
		out.HangWhere = classifyGoroutines()
		select {
		case <-sendDone:
		default:
			out.HangWhere = append(out.HangWhere, "sender-not-returned")
		}
		select {
		case <-recvDone:
		default:
			out.HangWhere = append(out.HangWhere, "receiver-not-returned")
		}
		// unblock everything so goroutines do not pile up
		scancel()
		rcancel()
		cs.send.Close()
		cs.recv.Close()
		select {
		case <-all:
		case <-time.After(3 * time.Second):
		}
	}
	if !out.Hung {
		if sendErr != nil {
			out.SendErr = sendErr.Error()
		}
		if recvErr != nil {
			out.RecvErr = recvErr.Error()
		}
		out.SendOK = sendErr == nil
		out.RecvOK = recvErr == nil
	}
	if len(cs.pairs) > 0 {
		out.FaultFired = cs.pairs[0].FaultFired()
		out.StreamBytes = cs.pairs[0].StreamBytes()
	}
	got, err := Digest(outDir)
	if err != nil {
		return out, err
	}
	out.Diffs = DiffDigests(want, got)
	out.TreeEqual = len(out.Diffs) == 0
	out.WallMs = time.Since(t0).Milliseconds()
	return out, nil
}

// ---- in-process hook traces for SessionTrace.tla -------------------------------------------------
// When a sink is set, Run writes a `trace.reset` line at the start of every transfer and TraceEvent
// (called from the drivers' hook handler) appends one normalised line per hook point: 64-bit file
// keys become small per-transfer ids, other numbers are capped for TLC's 32-bit integers.

var (
	traceMu      sync.Mutex
	traceSink    io.Writer
	traceKeys    map[uint64]int
	traceN       int
	traceBase    int
	traceMuted   bool
	traceSkipped int
)

// TraceSkipped reports how many transfers were not traced because goroutines of an earlier one lingered.
func TraceSkipped() int {
	traceMu.Lock()
	defer traceMu.Unlock()
	return traceSkipped
}

// SetTraceSink directs the hook trace of the following transfers to w (nil: off).
func SetTraceSink(w io.Writer) {
	traceMu.Lock()
	traceSink, traceKeys = w, map[uint64]int{}
	traceBase = runtime.NumGoroutine() + 1
	traceMu.Unlock()
}

func traceReset(resume bool) {
	traceMu.Lock()
	sinkOn := traceSink != nil
	base := traceBase
	traceMu.Unlock()
	if !sinkOn {
		return
	}
	// goroutines of the previous transfer that are still winding down would write their events into
	// this transfer's segment: wait for them; if they do not go away, this transfer is not traced
	_ = base
	quiet := false
	for i := 0; i < 60; i++ {
		if lingeringTransferGoroutines() == 0 {
			quiet = true
			break
		}
		time.Sleep(5 * time.Millisecond)
	}
	traceMu.Lock()
	defer traceMu.Unlock()
	traceMuted = !quiet
	if traceMuted {
		traceSkipped++
		if traceSkipped == 1 && os.Getenv("VERIF_TRACE_DEBUG") != "" {
			buf := make([]byte, 1<<18)
			n := runtime.Stack(buf, true)
			fmt.Fprintf(os.Stderr, "trace muted: %d goroutines (base %d)\n%s\n", runtime.NumGoroutine(), base, buf[:n])
		}
		return
	}
	traceKeys = map[uint64]int{}
	traceN++
	a := 0
	if resume {
		a = 1
	}
	fmt.Fprintf(traceSink, "{\"pt\":\"trace.reset\",\"a\":%d,\"b\":0,\"s\":\"inproc\",\"sess\":%d}\n", a, traceN)
}

// lingeringTransferGoroutines counts goroutines that still execute transfer code (the package's
// permanent read pool excluded).
func lingeringTransferGoroutines() int {
	buf := make([]byte, 1<<20)
	n := runtime.Stack(buf, true)
	c := 0
	for _, g := range strings.Split(string(buf[:n]), "\n\n") {
		if strings.Contains(g, "sheerbytes/internal/transfer.") && !strings.Contains(g, "newReadPool") {
			c++
		}
	}
	return c
}

// TraceEvent appends one hook event to the sink.
func TraceEvent(name string, a, b uint64, s string) {
	traceMu.Lock()
	defer traceMu.Unlock()
	if traceSink == nil || traceMuted {
		return
	}
	if strings.HasPrefix(name, "recv.chunk") || name == "recv.filebegin" || name == "recv.finalize" ||
		(strings.HasPrefix(name, "send.") && name != "send.worker.take") {
		id, ok := traceKeys[a]
		if !ok {
			id = len(traceKeys) + 1
			traceKeys[a] = id
		}
		a = uint64(id)
	}
	if a > 1<<30 {
		a = 1 << 30
	}
	if b > 1<<30 {
		b = 1 << 30
	}
	fmt.Fprintf(traceSink, "{\"pt\":%q,\"a\":%d,\"b\":%d,\"s\":%q,\"sess\":%d}\n", name, a, b, s, traceN)
}

// HookTicks counts verifhook events (incremented by the drivers' hook handler); part of the
// watchdog's notion of progress.
var HookTicks atomic.Int64

// classifyGoroutines names the blocking sites of the transfer goroutines in a dump.
func classifyGoroutines() []string {
	buf := make([]byte, 1<<20)
	n := runtime.Stack(buf, true)
	dump := string(buf[:n])
	found := map[string]bool{}
	for _, g := range strings.Split(dump, "\n\n") {
		if !strings.Contains(g, "internal/transfer.") {
			continue
		}
		switch {
		case strings.Contains(g, "fileWaitRegistry).wait"):
			found["fileReady.wait (chunk or request for a file that has no state)"] = true
		case strings.Contains(g, "AcceptStream") && strings.Contains(g, "RecvManifestMultiStream"):
			found["receiver blocked accepting announced data streams"] = true
		case strings.Contains(g, "fileDoneRegistry).wait"):
			found["sender waiting for FileDone"] = true
		case strings.Contains(g, "SendManifestMultiStream") && strings.Contains(g, "sync.(*WaitGroup).Wait"):
			found["sender waiting for its workers"] = true
		}
	}
	var out []string
	for k := range found {
		out = append(out, k)
	}
	sort.Strings(out)
	return out
}
