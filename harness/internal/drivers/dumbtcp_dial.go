package drivers

import (
	"context"
	"flag"
	"fmt"
	"io"
	"net"
	"time"

	"github.com/sheerbytes/sheerbytes/internal/app"
)

// ---- C09 for the TCP variant of the connection set-up (dumb-tcp mode) --------------------------------
//
// The sender announces every local address of its one TCP listener and commits to the first connection
// Accept returns; the receiver goes through the announced addresses (real dialAddrs).  The sender's
// listener sits behind one forwarder per announced address, so that the driver decides in which order
// the listener sees the connections (the paths of a real network differ in latency the same way).
// Both ends must be on the same connection: what the sender writes on the connection it accepted must
// arrive on the connection the receiver got, and nothing else may stay connected to the listener.

type tcpFwd struct {
	ln    net.Listener
	delay time.Duration
	up    string
}

func (f *tcpFwd) run() {
	for {
		c, err := f.ln.Accept()
		if err != nil {
			return
		}
		go func(c net.Conn) {
			time.Sleep(f.delay)
			u, err := net.DialTimeout("tcp", f.up, 2*time.Second)
			if err != nil {
				c.Close()
				return
			}
			go func() { io.Copy(u, c); u.Close() }()
			io.Copy(c, u)
			c.Close()
		}(c)
	}
}

func DumbTCPDial(args []string) {
	fs := flag.NewFlagSet("dumbtcp-dial", flag.ExitOnError)
	rounds := fs.Int("rounds", 16, "rounds (over all shards)")
	shard := fs.Int("shard", 0, "shard")
	shards := fs.Int("shards", 1, "shards")
	fs.Parse(args)
	res := &Result{Extra: map[string]any{}}
	outcomes := map[string]int{}
	for round := 0; round < *rounds; round++ {
		if round%*shards != *shard {
			continue
		}
		nAddr := 2 + round%2
		ln, err := net.Listen("tcp", "127.0.0.1:0")
		if err != nil {
			res.AddDrift(map[string]any{"why": err.Error()})
			continue
		}
		var fwds []*tcpFwd
		var addrs []string
		for k := 0; k < nAddr; k++ {
			fl, err := net.Listen("tcp", "127.0.0.1:0")
			if err != nil {
				continue
			}
			// which path reaches the listener first varies from round to round
			d := time.Duration(((k+round/2)%nAddr)*25) * time.Millisecond
			f := &tcpFwd{ln: fl, delay: d, up: ln.Addr().String()}
			go f.run()
			fwds = append(fwds, f)
			addrs = append(addrs, fl.Addr().String())
		}
		if round%4 == 3 {
			// plus an address nobody listens on, first in the list
			dead, _ := net.Listen("tcp", "127.0.0.1:0")
			da := dead.Addr().String()
			dead.Close()
			addrs = append([]string{da}, addrs...)
		}
		ctx, cancel := context.WithTimeout(context.Background(), 6*time.Second)
		marker := fmt.Sprintf("MARK-%04d", round)
		sendErr := make(chan error, 1)
		go func() {
			c, err := app.VerifAcceptWithContext(ctx, ln)
			if err != nil {
				sendErr <- err
				return
			}
			_, err = c.Write([]byte(marker))
			sendErr <- err
			<-ctx.Done()
			c.Close()
		}()
		c, derr := app.VerifDialAddrs(ctx, addrs)
		res.Behaviours++
		res.Steps++
		got := ""
		if derr == nil {
			buf := make([]byte, len(marker))
			c.SetReadDeadline(time.Now().Add(3 * time.Second))
			n, _ := io.ReadFull(c, buf)
			got = string(buf[:n])
		}
		replay := map[string]any{"round": round, "announced": addrs, "dial_error": fmt.Sprint(derr), "receiver_read": got, "expected": marker}
		switch {
		case derr != nil:
			outcomes["dial failed"]++
			res.AddViolation(map[string]any{"kind": "no_connection_although_reachable", "via": "dumbtcp-dial"}, replay)
		case got != marker:
			outcomes["different connections"]++
			res.AddViolation(map[string]any{"kind": "two_ends_on_different_connections", "via": "dumbtcp-dial"}, replay)
		default:
			outcomes["same connection"]++
		}
		if c != nil {
			c.Close()
		}
		cancel()
		ln.Close()
		for _, f := range fwds {
			f.ln.Close()
		}
	}
	res.Distinct = res.Behaviours
	res.Extra["outcomes"] = outcomes
	res.Print()
}
