package drivers

import (
	"os"
	"context"
	"flag"
	"fmt"
	"strings"
	"time"

	"github.com/sheerbytes/sheerbytes/internal/wsclient"
	"github.com/sheerbytes/sheerbytes/pkg/protocol"
)

// ---- C10 on the client's side of the path: what the real signaling client accepted for sending -----------
//
// A peer's messages travel client send queue -> server -> recipient. The clients (thru host / thru join) use
// internal/wsclient: Send puts an envelope into a queue and returns nil, a writer goroutine puts it on the socket,
// Close ends the connection. The author here is the real wsclient.Conn against a real thruserv: it sends a batch
// of addressed envelopes and closes at once, as a client does that is done. The recipient is connected and reads
// all the while: it must get every envelope for which Send returned nil, in order, once.
func ClientClose(args []string) {
	fs := flag.NewFlagSet("client-close", flag.ExitOnError)
	bin := fs.String("thruserv", "", "thruserv binary")
	rounds := fs.Int("rounds", 6, "rounds (over all shards)")
	shard := fs.Int("shard", 0, "shard")
	shards := fs.Int("shards", 1, "shards")
	fs.Parse(args)
	res := &Result{Extra: map[string]any{}}
	outcomes := map[string]int{}
	for round := 0; round < *rounds; round++ {
		if round%*shards != *shard {
			continue
		}
		srv, err := startServer(*bin, nil, append([]string{"--max-message-bytes", "65536"}, unlimited...)...)
		if err != nil {
			res.AddDrift(map[string]any{"why": err.Error()})
			continue
		}
		func() {
			defer srv.stop()
			codes := mustCreate(srv, 1)
			bob, _, err := dialWS(wsURL(srv, codes[0], "bob", "receiver"))
			if err != nil {
				res.AddDrift(map[string]any{"why": "bob: " + err.Error()})
				return
			}
			defer bob.conn.Close()
			if !bob.waitFor(stuckBound, func(e protocol.Envelope) bool { return e.Type == protocol.TypePeerList }) {
				res.AddDrift(map[string]any{"why": "bob got no peer list"})
				return
			}
			ctx, cancel := context.WithTimeout(context.Background(), 30*time.Second)
			defer cancel()
			alice, err := wsclient.Dial(ctx, wsURL(srv, codes[0], "alice", "sender"), authQuiet)
			if err != nil {
				res.AddDrift(map[string]any{"why": "alice: " + err.Error()})
				return
			}
			// every other round the client's reader is not running yet when it sends and closes (what the server sent it -
			// its peer list - is still unread then)
			if round%2 == 0 && os.Getenv("VERIF_NO_READLOOP") == "" {
				go alice.ReadLoop(ctx, func(protocol.Envelope) {})
			}
			// the server has entered alice into the session once bob is told
			if !bob.waitFor(stuckBound, func(e protocol.Envelope) bool { return e.Type == protocol.TypePeerJoined }) {
				res.AddDrift(map[string]any{"why": "bob was not told that alice joined"})
				alice.Close()
				return
			}
			n, size := []int{200, 60, 230}[round%3], []int{16000, 40000, 300}[round%3] // (fewer than the 256 envelopes the server queues per recipient: it never has a reason to drop one)
			accepted := 0
			for i := 0; i < n; i++ {
				env, _ := protocol.NewEnvelope("app", fmt.Sprintf("c%d", i), map[string]any{"author": "alice", "n": i, "pad": strings.Repeat("x", size)})
				env.To = "bob"
				if alice.Send(env) != nil {
					break
				}
				accepted++
			}
			alice.Close()
			// bob keeps reading: everything that was accepted arrives (he is also told that alice left)
			deadline := time.Now().Add(15 * time.Second)
			var ids []string
			for time.Now().Before(deadline) {
				ids = ids[:0]
				for _, e := range bob.snapshot() {
					if e.Type == "app" {
						ids = append(ids, e.MsgID)
					}
				}
				if len(ids) >= accepted {
					break
				}
				time.Sleep(20 * time.Millisecond)
			}
			res.Behaviours++
			res.Steps += accepted
			inOrder := true
			for i, id := range ids {
				if id != fmt.Sprintf("c%d", i) {
					inOrder = false
					break
				}
			}
			replay := map[string]any{"envelopes_accepted_by_Send": accepted, "bytes_each": size, "received_by_the_recipient": len(ids), "in_order": inOrder,
				"recipient_connection_closed": bob.isDead(), "server_log_tail": trunc(srv.out.String())}
			switch {
			case len(ids) < accepted:
				outcomes["lost"]++
				res.AddViolation(map[string]any{"kind": "message_lost", "where": "between the client's Send and its Close"}, replay)
			case !inOrder || len(ids) > accepted:
				outcomes["reordered or duplicated"]++
				res.AddViolation(map[string]any{"kind": "messages_reordered", "where": "client send queue"}, replay)
			default:
				outcomes["all delivered in order"]++
			}
		}()
	}
	res.Distinct = res.Behaviours
	res.Extra["outcomes"] = outcomes
	res.Print()
}
