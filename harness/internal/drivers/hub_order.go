package drivers

import (
	"flag"
	"fmt"
	"sync"
	"time"

	"github.com/sheerbytes/sheerbytes/internal/peers"
	"github.com/sheerbytes/sheerbytes/pkg/protocol"
)

// ---- C10 at the hub: a recipient whose connection stalls and comes back ---------------------------------
//
// The hub keeps a bounded queue per connection; what does not fit is dropped (the protocol's answer to a
// peer that does not read). What is delivered must still be a subsequence of what the author sent, in the
// author's order, nothing twice. Here the recipient's send function blocks (a stalled socket) until the
// queue has overflowed, then runs again - slowly enough for the queue to stay near its limit - while the
// author keeps sending through the real Hub.SendTo.
func HubOrder(args []string) {
	fs := flag.NewFlagSet("hub-order", flag.ExitOnError)
	rounds := fs.Int("rounds", 6, "rounds (over all shards)")
	shard := fs.Int("shard", 0, "shard")
	shards := fs.Int("shards", 1, "shards")
	fs.Parse(args)
	res := &Result{Extra: map[string]any{}}
	outcomes := map[string]int{}
	for round := 0; round < *rounds; round++ {
		if round%*shards != *shard {
			continue
		}
		hub := peers.NewHub()
		gate := make(chan struct{})
		var mu sync.Mutex
		var got []int
		slow := time.Duration(5+10*(round%3)) * time.Microsecond
		send := func(env protocol.Envelope) error {
			<-gate
			var pl struct {
				N int `json:"n"`
			}
			env.DecodePayload(&pl)
			mu.Lock()
			got = append(got, pl.N)
			mu.Unlock()
			time.Sleep(slow)
			return nil
		}
		remove := hub.Add("s", peers.Peer{PeerID: "bob", Role: "receiver", ConnID: "c1"}, send, func() {})
		mk := func(n int) protocol.Envelope {
			env, _ := protocol.NewEnvelope("app", fmt.Sprintf("m%d", n), map[string]any{"n": n})
			env.To, env.From, env.SessionID = "bob", "alice", "s"
			return env
		}
		n := 0
		for ; n < 400; n++ { // the connection is stalled: the queue (256) overflows
			hub.SendTo("s", "bob", mk(n))
		}
		close(gate) // it comes back
		end := time.Now().Add(150 * time.Millisecond)
		for time.Now().Before(end) {
			hub.SendTo("s", "bob", mk(n))
			n++
		}
		// let the queue drain, and whatever the hub may still have in store arrive
		time.Sleep(120 * time.Millisecond)
		remove()
		mu.Lock()
		seq := append([]int(nil), got...)
		mu.Unlock()
		res.Behaviours++
		res.Steps += len(seq)
		bad := ""
		for i := 1; i < len(seq); i++ {
			if seq[i] <= seq[i-1] {
				bad = fmt.Sprintf("message %d delivered after message %d", seq[i], seq[i-1])
				break
			}
		}
		if bad != "" {
			outcomes["reordered or duplicated"]++
			res.AddViolation(map[string]any{"kind": "messages_reordered", "where": "hub queue of a connection that stalled and came back"},
				map[string]any{"sent": n, "delivered": len(seq), "first_inversion": bad, "per_message_write_time_us": slow.Microseconds()})
		} else {
			outcomes["delivered subsequence in order"]++
		}
	}
	res.Distinct = res.Behaviours
	res.Extra["outcomes"] = outcomes
	res.Print()
}
