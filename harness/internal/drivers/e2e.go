package drivers

import (
	"bufio"
	"bytes"
	"context"
	"encoding/json"
	"fmt"
	"io"
	"net"
	"os"
	"os/exec"
	"path/filepath"
	"strings"
	"sync"
	"time"

	"github.com/quic-go/quic-go"
	"github.com/sheerbytes/sheerbytes/internal/app"
	"github.com/sheerbytes/sheerbytes/internal/clienthttp"
	"github.com/sheerbytes/sheerbytes/internal/quictransport"
	"github.com/sheerbytes/sheerbytes/internal/transfer"
	"github.com/sheerbytes/sheerbytes/internal/transferquic"
	"github.com/sheerbytes/sheerbytes/pkg/protocol"
)

// ---- real binaries as child processes with hook traces -------------------------------------------

type hookEv struct {
	Pid int    `json:"pid"`
	Seq int    `json:"seq"`
	Pt  string `json:"pt"`
	A   uint64 `json:"a"`
	B   uint64 `json:"b"`
	S   string `json:"s"`
}

type childProc struct {
	cmd    *exec.Cmd
	stdin  io.WriteCloser
	out    *bytes.Buffer
	trace  string
	done   chan struct{}
	exit   int
	exited bool
	mu     sync.Mutex
}

func startChild(bin string, args []string, tracePath string, env []string, stdinText string) (*childProc, error) {
	c := &childProc{out: &bytes.Buffer{}, trace: tracePath, done: make(chan struct{})}
	c.cmd = exec.Command(bin, args...)
	c.cmd.Env = append(append(os.Environ(), "VERIF_HOOK_TRACE="+tracePath), env...)
	c.cmd.Stdout, c.cmd.Stderr = c.out, c.out
	in, err := c.cmd.StdinPipe()
	if err != nil {
		return nil, err
	}
	c.stdin = in
	if err := c.cmd.Start(); err != nil {
		return nil, err
	}
	if stdinText != "" {
		_, _ = io.WriteString(in, stdinText)
	}
	go func() {
		err := c.cmd.Wait()
		c.mu.Lock()
		c.exited = true
		if err != nil {
			c.exit = 1
			if ee, ok := err.(*exec.ExitError); ok {
				c.exit = ee.ExitCode()
			}
		}
		c.mu.Unlock()
		close(c.done)
	}()
	return c, nil
}

func (c *childProc) wait(d time.Duration) (int, bool) {
	select {
	case <-c.done:
		c.mu.Lock()
		defer c.mu.Unlock()
		return c.exit, true
	case <-time.After(d):
		return -1, false
	}
}

func (c *childProc) kill() {
	if c.cmd != nil && c.cmd.Process != nil {
		_ = c.cmd.Process.Kill()
	}
	<-c.done
}

func (c *childProc) events() []hookEv {
	f, err := os.Open(c.trace)
	if err != nil {
		return nil
	}
	defer f.Close()
	var out []hookEv
	sc := bufio.NewScanner(f)
	sc.Buffer(make([]byte, 1<<16), 1<<22)
	for sc.Scan() {
		var e hookEv
		if json.Unmarshal(sc.Bytes(), &e) == nil {
			out = append(out, e)
		}
	}
	return out
}

// waitEvent polls the child's trace for an event satisfying ok.
func (c *childProc) waitEvent(d time.Duration, ok func(hookEv) bool) (hookEv, bool) {
	deadline := time.Now().Add(d)
	for {
		for _, e := range c.events() {
			if ok(e) {
				return e, true
			}
		}
		if time.Now().After(deadline) {
			return hookEv{}, false
		}
		select {
		case <-c.done:
			for _, e := range c.events() {
				if ok(e) {
					return e, true
				}
			}
			return hookEv{}, false
		case <-time.After(15 * time.Millisecond):
		}
	}
}

// ---- the driver as a host on the real signaling server ----------------------------------------------

type scriptedHost struct {
	srvURL    string
	code      string
	sessionID string
	peerID    string
	ws        *wsClient
	recvID    string
	cands     []string
	child     *childProc
	outDir    string
}

func (h *scriptedHost) send(typ, to string, payload any) error {
	env, err := protocol.NewEnvelope(typ, protocol.NewMsgID(), payload)
	if err != nil {
		return err
	}
	env.SessionID, env.From, env.To = h.sessionID, h.peerID, to
	h.ws.mu.Lock()
	defer h.ws.mu.Unlock()
	return h.ws.conn.WriteJSON(env)
}

func (h *scriptedHost) waitEnv(d time.Duration, ok func(protocol.Envelope) bool) (protocol.Envelope, bool) {
	deadline := time.Now().Add(d)
	for {
		for _, e := range h.ws.snapshot() {
			if ok(e) {
				return e, true
			}
		}
		if time.Now().After(deadline) {
			return protocol.Envelope{}, false
		}
		time.Sleep(10 * time.Millisecond)
	}
}

func (h *scriptedHost) close() {
	if h.child != nil {
		h.child.kill()
	}
	if h.ws != nil {
		h.ws.conn.Close()
	}
}

// startScriptedHost creates a session, starts a real `thru join` against it, plays the host's part
// of the signaling up to the exchange of candidates and returns with the receiver's candidates.
func startScriptedHost(srvURL, thruBin, work string, parallelConns int, joinExtra []string) (*scriptedHost, error) {
	ctx, cancel := context.WithTimeout(context.Background(), 10*time.Second)
	defer cancel()
	sid, code, _, err := clienthttp.CreateSession(ctx, srvURL, 1)
	if err != nil {
		return nil, fmt.Errorf("create session: %w", err)
	}
	h := &scriptedHost{srvURL: srvURL, code: code, sessionID: sid, peerID: "hostpeer01", outDir: filepath.Join(work, "out")}
	wsURL, err := app.VerifBuildWebSocketURL(srvURL, code, h.peerID, "sender", 1)
	if err != nil {
		return nil, err
	}
	ws, _, err := dialWS(wsURL)
	if err != nil {
		return nil, fmt.Errorf("host ws: %w", err)
	}
	h.ws = ws
	_ = os.MkdirAll(h.outDir, 0o755)
	args := append([]string{"join", code, "--out", h.outDir, "--server-url", srvURL, "--stun-server", "stun:127.0.0.1:9"}, joinExtra...)
	child, err := startChild(thruBin, args, filepath.Join(work, "join.trace"), nil, "y\n")
	if err != nil {
		h.close()
		return nil, err
	}
	h.child = child
	env, ok := h.waitEnv(8*time.Second, func(e protocol.Envelope) bool {
		if e.Type != protocol.TypePeerJoined {
			return false
		}
		var pj protocol.PeerJoined
		return e.DecodePayload(&pj) == nil && pj.Peer.Role == "receiver"
	})
	if !ok {
		h.close()
		return nil, fmt.Errorf("receiver did not join: %s", tailText(child.out.String(), 300))
	}
	var pj protocol.PeerJoined
	_ = env.DecodePayload(&pj)
	h.recvID = pj.Peer.PeerID
	const manifestID = "verif-manifest-0001"
	if err := h.send(protocol.TypeManifestOffer, h.recvID, protocol.ManifestOffer{Summary: protocol.ManifestSummary{
		ManifestID: manifestID, TotalBytes: 5, FileCount: 1, FolderCount: 0, RootName: "selection"}}); err != nil {
		h.close()
		return nil, err
	}
	if _, ok := h.waitEnv(8*time.Second, func(e protocol.Envelope) bool { return e.Type == protocol.TypeManifestAccept }); !ok {
		h.close()
		return nil, fmt.Errorf("no manifest_accept: %s", tailText(child.out.String(), 300))
	}
	if err := h.send(protocol.TypeTransferStart, h.recvID, protocol.TransferStart{ManifestID: manifestID, SenderPeerID: h.peerID,
		ReceiverPeerID: h.recvID, TransferID: "verif-transfer", ParallelConnections: parallelConns}); err != nil {
		h.close()
		return nil, err
	}
	cenv, ok := h.waitEnv(10*time.Second, func(e protocol.Envelope) bool { return e.Type == protocol.TypeIceCandidates })
	if !ok {
		h.close()
		return nil, fmt.Errorf("no candidates from the receiver: %s", tailText(child.out.String(), 300))
	}
	var cands protocol.IceCandidates
	if err := cenv.DecodePayload(&cands); err != nil {
		h.close()
		return nil, err
	}
	for _, c := range cands.Candidates {
		if strings.Contains(c, "%") || strings.HasPrefix(c, "turn:") {
			continue // link-local with zone, relays: not used by the scripts
		}
		h.cands = append(h.cands, c)
	}
	return h, nil
}

func tailText(s string, n int) string {
	if len(s) > n {
		return s[len(s)-n:]
	}
	return s
}

// dialCandidate establishes one QUIC connection from its own socket (so that the receiver's trace
// identifies it by the port).
type hostConn struct {
	udp  *net.UDPConn
	qc   *quic.Conn
	tc   transfer.Conn
	port int
}

func dialCandidate(addr string) (*hostConn, error) {
	ra, err := net.ResolveUDPAddr("udp", addr)
	if err != nil {
		return nil, err
	}
	udp, err := net.ListenUDP("udp", &net.UDPAddr{})
	if err != nil {
		return nil, err
	}
	ctx, cancel := context.WithTimeout(context.Background(), 5*time.Second)
	defer cancel()
	qc, err := quictransport.DialWithConfig(ctx, udp, ra, authQuiet, quictransport.DefaultClientQUICConfig())
	if err != nil {
		udp.Close()
		return nil, err
	}
	tc, err := transferquic.NewDialer(qc, authQuiet).Dial(ctx, "peer")
	if err != nil {
		udp.Close()
		return nil, err
	}
	return &hostConn{udp: udp, qc: qc, tc: tc, port: udp.LocalAddr().(*net.UDPAddr).Port}, nil
}

func (c *hostConn) abandon() { _ = c.qc.CloseWithError(0, "race_lost") }
func (c *hostConn) close()   { _ = c.qc.CloseWithError(0, ""); c.udp.Close() }

func portOf(addr string) int {
	_, p, err := net.SplitHostPort(addr)
	if err != nil {
		return 0
	}
	var n int
	fmt.Sscan(p, &n)
	return n
}
