package drivers

import (
	"bufio"
	"bytes"
	"context"
	"crypto/sha256"
	"encoding/json"
	"flag"
	"fmt"
	"io"
	"net"
	"os"
	"os/exec"
	"path/filepath"
	"strings"
	"sync"
	"time"

	"github.com/quic-go/quic-go"
	"github.com/sheerbytes/sheerbytes/internal/app"
	"github.com/sheerbytes/sheerbytes/internal/clienthttp"
	"github.com/sheerbytes/sheerbytes/internal/quictransport"
	"github.com/sheerbytes/sheerbytes/internal/transfer"
	"github.com/sheerbytes/sheerbytes/internal/transferquic"
	"github.com/sheerbytes/sheerbytes/pkg/protocol"
)

// ---- real binaries as child processes with hook traces -------------------------------------------

type hookEv struct {
	Pid int    `json:"pid"`
	Seq int    `json:"seq"`
	Pt  string `json:"pt"`
	A   uint64 `json:"a"`
	B   uint64 `json:"b"`
	S   string `json:"s"`
}

type childProc struct {
	cmd    *exec.Cmd
	stdin  io.WriteCloser
	out    *bytes.Buffer
	trace  string
	done   chan struct{}
	exit   int
	exited bool
	mu     sync.Mutex
}

func startChild(bin string, args []string, tracePath string, env []string, stdinText string) (*childProc, error) {
	c := &childProc{out: &bytes.Buffer{}, trace: tracePath, done: make(chan struct{})}
	c.cmd = exec.Command(bin, args...)
	c.cmd.Env = append(append(os.Environ(), "VERIF_HOOK_TRACE="+tracePath), env...)
	c.cmd.Stdout, c.cmd.Stderr = c.out, c.out
	in, err := c.cmd.StdinPipe()
	if err != nil {
		return nil, err
	}
	c.stdin = in
	if err := c.cmd.Start(); err != nil {
		return nil, err
	}
	if stdinText != "" {
		_, _ = io.WriteString(in, stdinText)
	}
	go func() {
		err := c.cmd.Wait()
		c.mu.Lock()
		c.exited = true
		if err != nil {
			c.exit = 1
			if ee, ok := err.(*exec.ExitError); ok {
				c.exit = ee.ExitCode()
			}
		}
		c.mu.Unlock()
		close(c.done)
	}()
	return c, nil
}

func (c *childProc) wait(d time.Duration) (int, bool) {
	select {
	case <-c.done:
		c.mu.Lock()
		defer c.mu.Unlock()
		return c.exit, true
	case <-time.After(d):
		return -1, false
	}
}

func (c *childProc) kill() {
	if c.cmd != nil && c.cmd.Process != nil {
		_ = c.cmd.Process.Kill()
	}
	<-c.done
}

func (c *childProc) events() []hookEv {
	f, err := os.Open(c.trace)
	if err != nil {
		return nil
	}
	defer f.Close()
	var out []hookEv
	sc := bufio.NewScanner(f)
	sc.Buffer(make([]byte, 1<<16), 1<<22)
	for sc.Scan() {
		var e hookEv
		if json.Unmarshal(sc.Bytes(), &e) == nil {
			out = append(out, e)
		}
	}
	return out
}

// waitEvent polls the child's trace for an event satisfying ok.
func (c *childProc) waitEvent(d time.Duration, ok func(hookEv) bool) (hookEv, bool) {
	deadline := time.Now().Add(d)
	for {
		for _, e := range c.events() {
			if ok(e) {
				return e, true
			}
		}
		if time.Now().After(deadline) {
			return hookEv{}, false
		}
		select {
		case <-c.done:
			for _, e := range c.events() {
				if ok(e) {
					return e, true
				}
			}
			return hookEv{}, false
		case <-time.After(15 * time.Millisecond):
		}
	}
}

// ---- the driver as a host on the real signaling server ----------------------------------------------

type scriptedHost struct {
	srvURL    string
	code      string
	sessionID string
	peerID    string
	ws        *wsClient
	recvID    string
	cands     []string
	child     *childProc
	outDir    string
}

func (h *scriptedHost) send(typ, to string, payload any) error {
	env, err := protocol.NewEnvelope(typ, protocol.NewMsgID(), payload)
	if err != nil {
		return err
	}
	env.SessionID, env.From, env.To = h.sessionID, h.peerID, to
	h.ws.mu.Lock()
	defer h.ws.mu.Unlock()
	return h.ws.conn.WriteJSON(env)
}

func (h *scriptedHost) waitEnv(d time.Duration, ok func(protocol.Envelope) bool) (protocol.Envelope, bool) {
	deadline := time.Now().Add(d)
	for {
		for _, e := range h.ws.snapshot() {
			if ok(e) {
				return e, true
			}
		}
		if time.Now().After(deadline) {
			return protocol.Envelope{}, false
		}
		if h.child != nil {
			// a receiver that has exited will not answer any more
			if _, gone := h.child.wait(0); gone {
				for _, e := range h.ws.snapshot() {
					if ok(e) {
						return e, true
					}
				}
				return protocol.Envelope{}, false
			}
		}
		time.Sleep(10 * time.Millisecond)
	}
}

func (h *scriptedHost) close() {
	if h.child != nil {
		h.child.kill()
	}
	if h.ws != nil {
		h.ws.conn.Close()
	}
}

// scriptedRootName / scriptedStdin let a driver change what the scripted host offers and what the
// receiver's user types.
var (
	scriptedRootName = "selection"
	scriptedStdin    = "y\n"
)

// startScriptedHost creates a session, starts a real `thru join` against it, plays the host's part
// of the signaling up to the exchange of candidates and returns with the receiver's candidates.
func startScriptedHost(srvURL, thruBin, work string, parallelConns int, joinExtra []string) (*scriptedHost, error) {
	return startScriptedHostOut(srvURL, thruBin, filepath.Join(work, "out"), filepath.Join(work, "join.trace"), parallelConns, joinExtra)
}

// startScriptedHostIn: the receiver writes into outDir (which may already exist); its trace goes to a temp file.
func startScriptedHostIn(srvURL, thruBin, outDir string) (*scriptedHost, error) {
	tf, err := os.CreateTemp("", "vh-join-*.trace")
	if err != nil {
		return nil, err
	}
	tf.Close()
	defer os.Remove(tf.Name())
	return startScriptedHostOut(srvURL, thruBin, outDir, tf.Name(), 1, nil)
}

func startScriptedHostOut(srvURL, thruBin, outDir, tracePath string, parallelConns int, joinExtra []string) (*scriptedHost, error) {
	ctx, cancel := context.WithTimeout(context.Background(), 10*time.Second)
	defer cancel()
	sid, code, _, err := clienthttp.CreateSession(ctx, srvURL, 1)
	if err != nil {
		return nil, fmt.Errorf("create session: %w", err)
	}
	h := &scriptedHost{srvURL: srvURL, code: code, sessionID: sid, peerID: "hostpeer01", outDir: outDir}
	wsURL, err := app.VerifBuildWebSocketURL(srvURL, code, h.peerID, "sender", 1)
	if err != nil {
		return nil, err
	}
	ws, _, err := dialWS(wsURL)
	if err != nil {
		return nil, fmt.Errorf("host ws: %w", err)
	}
	h.ws = ws
	_ = os.MkdirAll(h.outDir, 0o755)
	args := append([]string{"join", code, "--out", h.outDir, "--server-url", srvURL, "--stun-server", "stun:127.0.0.1:9"}, joinExtra...)
	child, err := startChild(thruBin, args, tracePath, nil, scriptedStdin)
	if err != nil {
		h.close()
		return nil, err
	}
	h.child = child
	env, ok := h.waitEnv(8*time.Second, func(e protocol.Envelope) bool {
		if e.Type != protocol.TypePeerJoined {
			return false
		}
		var pj protocol.PeerJoined
		return e.DecodePayload(&pj) == nil && pj.Peer.Role == "receiver"
	})
	if !ok {
		h.close()
		return nil, fmt.Errorf("receiver did not join: %s", tailText(child.out.String(), 300))
	}
	var pj protocol.PeerJoined
	_ = env.DecodePayload(&pj)
	h.recvID = pj.Peer.PeerID
	const manifestID = "verif-manifest-0001"
	if err := h.send(protocol.TypeManifestOffer, h.recvID, protocol.ManifestOffer{Summary: protocol.ManifestSummary{
		ManifestID: manifestID, TotalBytes: 5, FileCount: 1, FolderCount: 0, RootName: scriptedRootName}}); err != nil {
		h.close()
		return nil, err
	}
	if _, ok := h.waitEnv(8*time.Second, func(e protocol.Envelope) bool { return e.Type == protocol.TypeManifestAccept }); !ok {
		h.close()
		return nil, fmt.Errorf("no manifest_accept: %s", tailText(child.out.String(), 300))
	}
	if err := h.send(protocol.TypeTransferStart, h.recvID, protocol.TransferStart{ManifestID: manifestID, SenderPeerID: h.peerID,
		ReceiverPeerID: h.recvID, TransferID: "verif-transfer", ParallelConnections: parallelConns}); err != nil {
		h.close()
		return nil, err
	}
	cenv, ok := h.waitEnv(10*time.Second, func(e protocol.Envelope) bool { return e.Type == protocol.TypeIceCandidates })
	if !ok {
		h.close()
		return nil, fmt.Errorf("no candidates from the receiver: %s", tailText(child.out.String(), 300))
	}
	var cands protocol.IceCandidates
	if err := cenv.DecodePayload(&cands); err != nil {
		h.close()
		return nil, err
	}
	for _, c := range cands.Candidates {
		if strings.Contains(c, "%") || strings.HasPrefix(c, "turn:") {
			continue // link-local with zone, relays: not used by the scripts
		}
		h.cands = append(h.cands, c)
	}
	return h, nil
}

func tailText(s string, n int) string {
	if len(s) > n {
		return s[len(s)-n:]
	}
	return s
}

// dialCandidate establishes one QUIC connection from its own socket (so that the receiver's trace
// identifies it by the port).
type hostConn struct {
	udp  *net.UDPConn
	qc   *quic.Conn
	tc   transfer.Conn
	port int
}

func dialCandidate(addr string) (*hostConn, error) {
	ra, err := net.ResolveUDPAddr("udp", addr)
	if err != nil {
		return nil, err
	}
	udp, err := net.ListenUDP("udp", &net.UDPAddr{})
	if err != nil {
		return nil, err
	}
	ctx, cancel := context.WithTimeout(context.Background(), 5*time.Second)
	defer cancel()
	qc, err := quictransport.DialWithConfig(ctx, udp, ra, authQuiet, quictransport.DefaultClientQUICConfig())
	if err != nil {
		udp.Close()
		return nil, err
	}
	tc, err := transferquic.NewDialer(qc, authQuiet).Dial(ctx, "peer")
	if err != nil {
		udp.Close()
		return nil, err
	}
	return &hostConn{udp: udp, qc: qc, tc: tc, port: udp.LocalAddr().(*net.UDPAddr).Port}, nil
}

func (c *hostConn) abandon() { _ = c.qc.CloseWithError(0, "race_lost") }
func (c *hostConn) close()   { _ = c.qc.CloseWithError(0, ""); c.udp.Close() }

func portOf(addr string) int {
	_, p, err := net.SplitHostPort(addr)
	if err != nil {
		return 0
	}
	var n int
	fmt.Sscan(p, &n)
	return n
}

// ---- whole sessions with the real binaries ---------------------------------------------------------

type e2eOutcome struct {
	Session   int      `json:"session"`
	Args      []string `json:"host_args"`
	Tree      string   `json:"tree"`
	HostExit  int      `json:"host_exit"`
	JoinExit  int      `json:"join_exit"`
	JoinDone  bool     `json:"join_done"`
	Equal     bool     `json:"equal"`
	Diff      []string `json:"diff,omitempty"`
	DurMs     int64    `json:"dur_ms"`
	HostPrim  string   `json:"host_primary"`
	JoinPrim  string   `json:"join_primary"`
	SameConn  bool     `json:"same_conn"`
	HostConns int      `json:"host_conns"`
	JoinConns int      `json:"join_conns"`
	Requested int      `json:"requested_conns"`
	Trouble   string   `json:"trouble,omitempty"`
	JoinTail  string   `json:"join_tail,omitempty"`
	HostTail  string   `json:"host_tail,omitempty"`
	NumEvents int      `json:"events"`
}

func treeDigest(root string) (map[string]string, error) {
	out := map[string]string{}
	err := filepath.Walk(root, func(p string, info os.FileInfo, err error) error {
		if err != nil {
			return err
		}
		rel, _ := filepath.Rel(root, p)
		if rel == "." || strings.HasPrefix(rel, ".thruflux_resumedata") {
			if info.IsDir() && rel != "." {
				return filepath.SkipDir
			}
			return nil
		}
		if info.IsDir() {
			out[rel+"/"] = "dir"
			return nil
		}
		b, err := os.ReadFile(p)
		if err != nil {
			return err
		}
		out[rel] = fmt.Sprintf("%d:%x", len(b), sha256Sum(b))
		return nil
	})
	return out, err
}

type treeShape struct {
	name  string
	specs []fileSpecLite
}

type fileSpecLite struct {
	rel  string
	size int64 // -1 dir
}

var e2eTrees = []treeShape{
	{"two-small", []fileSpecLite{{"a.txt", 6}, {"b.bin", 300000}}},
	{"nested-empty", []fileSpecLite{{"sub/x.bin", 70000}, {"sub/deep/y.bin", 1}, {"empty.dat", 0}, {"emptydir", -1}}},
	{"multi-chunk", []fileSpecLite{{"big.bin", 1<<20 + 123}, {"c.txt", 10}}},
	{"many", []fileSpecLite{{"f1", 100}, {"f2", 200}, {"f3", 300}, {"d/f4", 4096}, {"d/f5", 65536}, {"d/e/f6", 65537}}},
}

func makeLiteTree(root string, specs []fileSpecLite, seed int64) error {
	for i, s := range specs {
		p := filepath.Join(root, filepath.FromSlash(s.rel))
		if s.size < 0 {
			if err := os.MkdirAll(p, 0o755); err != nil {
				return err
			}
			continue
		}
		if err := os.MkdirAll(filepath.Dir(p), 0o755); err != nil {
			return err
		}
		buf := make([]byte, s.size)
		x := uint64(seed)*2654435761 + uint64(i)*40503 + 1
		for j := range buf {
			x = x*6364136223846793005 + 1442695040888963407
			buf[j] = byte(x>>33) | 1
		}
		if err := os.WriteFile(p, buf, 0o644); err != nil {
			return err
		}
	}
	return nil
}

// runE2ESession runs one real host + one real join and appends their normalised traces to w.
func runE2ESession(idx int, srvURL, thruBin string, seed int64, w io.Writer) e2eOutcome {
	o := e2eOutcome{Session: idx}
	work, err := os.MkdirTemp("", "vh-e2e-")
	if err != nil {
		o.Trouble = err.Error()
		return o
	}
	defer os.RemoveAll(work)
	shape := e2eTrees[(int(seed)+idx)%len(e2eTrees)]
	o.Tree = shape.name
	src := filepath.Join(work, "src", "share")
	if err := makeLiteTree(src, shape.specs, seed+int64(idx)); err != nil {
		o.Trouble = err.Error()
		return o
	}
	outDir := filepath.Join(work, "out")
	_ = os.MkdirAll(outDir, 0o755)
	conns := []string{"1", "2", "4"}[(int(seed)+idx)%3]
	hostArgs := []string{"host", src, "--server-url", srvURL, "--stun-server", "stun:127.0.0.1:9", "--total-connections", conns}
	if (int(seed)+idx)%2 == 0 {
		hostArgs = append(hostArgs, "--chunk-size", "65536")
	}
	o.Args = hostArgs[2:]
	fmt.Sscan(conns, &o.Requested)
	t0 := time.Now()
	host, err := startChild(thruBin, hostArgs, filepath.Join(work, "host.trace"), nil, "")
	if err != nil {
		o.Trouble = err.Error()
		return o
	}
	defer host.kill()
	code := ""
	for i := 0; i < 400 && code == ""; i++ {
		txt := host.out.String()
		if j := strings.Index(txt, "Join Code: "); j >= 0 {
			rest := txt[j+len("Join Code: "):]
			if k := strings.IndexAny(rest, " \n"); k > 0 {
				code = rest[:k]
			}
		}
		if code == "" {
			time.Sleep(20 * time.Millisecond)
		}
	}
	if code == "" {
		o.Trouble = "no join code from host: " + tailText(host.out.String(), 200)
		return o
	}
	join, err := startChild(thruBin, []string{"join", code, "--out", outDir, "--server-url", srvURL, "--stun-server", "stun:127.0.0.1:9"},
		filepath.Join(work, "join.trace"), nil, "y\n")
	if err != nil {
		o.Trouble = err.Error()
		return o
	}
	defer join.kill()
	jc, done := join.wait(45 * time.Second)
	o.JoinExit, o.JoinDone = jc, done
	host.waitEvent(3*time.Second, func(e hookEv) bool { return e.Pt == "host.transfer.done" })
	o.DurMs = time.Since(t0).Milliseconds()
	hc, hdone := host.wait(10 * time.Millisecond)
	if hdone {
		o.HostExit = hc
	}
	want, _ := treeDigest(filepath.Join(work, "src"))
	got, _ := treeDigest(outDir)
	o.Equal = true
	for k, v := range want {
		if got[k] != v {
			o.Equal = false
			o.Diff = append(o.Diff, fmt.Sprintf("%s: want %s got %s", k, v, got[k]))
		}
	}
	for k := range got {
		if _, ok := want[k]; !ok {
			o.Equal = false
			o.Diff = append(o.Diff, "unexpected "+k)
		}
	}
	if len(o.Diff) > 6 {
		o.Diff = o.Diff[:6]
	}
	o.JoinTail, o.HostTail = tailText(join.out.String(), 300), tailText(host.out.String(), 200)
	// normalised traces
	for _, pr := range []struct {
		role string
		c    *childProc
	}{{"host", host}, {"join", join}} {
		evs := pr.c.events()
		o.NumEvents += len(evs)
		writeNormalisedTrace(w, pr.role, idx, evs, true)
		for _, e := range evs {
			if e.Pt == "xfer.begin" {
				if pr.role == "host" {
					o.HostConns = int(e.A)
				} else {
					o.JoinConns = int(e.A)
				}
			}
			if e.Pt == "conn.primary" {
				if pr.role == "host" {
					o.HostPrim = e.S
				} else {
					o.JoinPrim = e.S
				}
			}
		}
	}
	// host: "local>remote"; join: remote address of its primary = the host's local socket
	if i := strings.Index(o.HostPrim, ">"); i > 0 {
		o.SameConn = portOf(o.HostPrim[:i]) != 0 && portOf(o.HostPrim[:i]) == portOf(o.JoinPrim)
	}
	return o
}

// writeNormalisedTrace appends one process's hook trace in the form SessionTrace.tla reads: a reset
// line naming the role (a = 0: a fresh transfer, 1: resume state may exist), 64-bit file keys mapped to
// small ids, numbers capped for TLC's integers.
func writeNormalisedTrace(w io.Writer, role string, idx int, evs []hookEv, fresh bool) {
	keys := map[uint64]int{}
	f := 0
	if !fresh {
		f = 1
	}
	fmt.Fprintf(w, "{\"pt\":\"trace.reset\",\"a\":%d,\"b\":0,\"s\":%q,\"sess\":%d}\n", f, role, idx)
	for _, e := range evs {
		a := e.A
		if strings.HasPrefix(e.Pt, "recv.chunk") || e.Pt == "recv.filebegin" || e.Pt == "recv.finalize" ||
			(strings.HasPrefix(e.Pt, "send.") && e.Pt != "send.worker.take") {
			id, ok := keys[a]
			if !ok {
				id = len(keys) + 1
				keys[a] = id
			}
			a = uint64(id)
		}
		if a > 1<<30 {
			a = 1 << 30
		}
		b := e.B
		if b > 1<<30 {
			b = 1 << 30
		}
		fmt.Fprintf(w, "{\"pt\":%q,\"a\":%d,\"b\":%d,\"s\":%q,\"sess\":%d}\n", e.Pt, a, b, e.S, idx)
	}
}

func readHookTrace(path string) []hookEv {
	c := &childProc{trace: path}
	return c.events()
}

func sha256Sum(b []byte) []byte {
	h := sha256.Sum256(b)
	return h[:]
}

// E2ESessions runs whole sessions with the real thruserv / thru host / thru join binaries, judges the
// outcome (bytes, exit status, same connection) and writes the normalised hook traces for SessionTrace.tla.
func E2ESessions(args []string) {
	fs := flag.NewFlagSet("e2e-sessions", flag.ExitOnError)
	n := fs.Int("n", 4, "sessions (over all shards)")
	shard := fs.Int("shard", 0, "shard")
	shards := fs.Int("shards", 1, "shards")
	thruserv := fs.String("thruserv", "", "thruserv binary")
	thru := fs.String("thru", "", "thru binary (built with -tags verif)")
	seed := fs.Int64("seed", 1, "seed")
	traceOut := fs.String("trace-out", "", "prefix of the combined trace file (the shard number is appended)")
	fs.Parse(args)
	srv, err := startServer(*thruserv, nil, unlimited...)
	if err != nil {
		fmt.Fprintln(os.Stderr, err)
		os.Exit(3)
	}
	defer srv.stop()
	f, err := os.Create(fmt.Sprintf("%s.%d", *traceOut, *shard))
	if err != nil {
		fmt.Fprintln(os.Stderr, err)
		os.Exit(3)
	}
	defer f.Close()
	res := &Result{Extra: map[string]any{}}
	outcomes := map[string]int{}
	trouble := 0
	for i := 0; i < *n; i++ {
		if i%*shards != *shard {
			continue
		}
		o := runE2ESession(i, srv.url, *thru, *seed, f)
		if o.Trouble != "" {
			trouble++
			fmt.Fprintln(os.Stderr, "trouble:", o.Trouble)
			continue
		}
		res.Behaviours++
		res.Steps += o.NumEvents
		replay := o
		ok := o.JoinDone && o.JoinExit == 0
		switch {
		case !ok && !o.SameConn:
			res.AddViolation(map[string]any{"prop": "C09", "kind": "session_failed_on_different_connections", "side": "both"}, replay)
		case !ok:
			res.AddViolation(map[string]any{"prop": "C03", "kind": "session_did_not_complete", "tree": o.Tree}, replay)
		case !o.Equal:
			res.AddViolation(map[string]any{"prop": "C01", "kind": "bytes_differ_after_successful_session", "tree": o.Tree}, replay)
		}
		if ok && o.HostConns != o.JoinConns {
			res.AddViolation(map[string]any{"prop": "C09", "kind": "peers_disagree_on_the_connections_in_use", "side": "both"}, replay)
		}
		if ok && o.HostConns < o.Requested && o.DurMs > 9000 {
			// fewer connections than asked for after a stall of the length of the authentication timeout
			res.AddViolation(map[string]any{"prop": "C09", "kind": "authentication_timed_out_on_an_extra_connection", "side": "both"}, replay)
		}
		if ok && !o.SameConn {
			res.AddViolation(map[string]any{"prop": "C09", "kind": "peers_on_different_connections", "side": "both"}, replay)
		}
		outcomes[fmt.Sprintf("ok=%v equal=%v same_conn=%v conns=%d/%d", ok, o.Equal, o.SameConn, o.HostConns, o.JoinConns)]++
		res.AddSample(map[string]any{"tree": o.Tree, "args": o.Args, "ms": o.DurMs, "events": o.NumEvents, "ok": ok}, 4)
	}
	res.Distinct = res.Behaviours
	res.Extra["outcomes"] = outcomes
	res.Extra["trouble"] = trouble
	res.Print()
	if trouble > res.Behaviours/4+1 {
		os.Exit(3)
	}
}

// ---- interrupted and resumed sessions with the real binaries (C04 at the application level) -------

type e2eResumeOutcome struct {
	Session    int      `json:"session"`
	KillAt     string   `json:"kill_at"`
	Choice     string   `json:"second_run_choice"`
	Conns      string   `json:"connections"`
	FirstExit  int      `json:"first_exit"`
	FirstDead  bool     `json:"first_killed"`
	SecondExit int      `json:"second_exit"`
	SecondDone bool     `json:"second_done"`
	Equal      bool     `json:"equal"`
	Diff       []string `json:"diff,omitempty"`
	Written1   int      `json:"chunks_written_first_run"`
	Written2   int      `json:"chunks_written_second_run"`
	Total      int      `json:"chunks_total"`
	Sidecars   int      `json:"sidecars_after_kill"`
	JoinTail   string   `json:"join_tail,omitempty"`
	Trouble    string   `json:"trouble,omitempty"`
	Stale      bool     `json:"file_changed_then_overwrite,omitempty"`
	Damaged    bool     `json:"file_was_changed,omitempty"`
}

func countPt(evs []hookEv, pt string) int {
	n := 0
	for _, e := range evs {
		if e.Pt == pt {
			n++
		}
	}
	return n
}

func runE2EResume(idx int, srvURL, thruBin string, seed int64, w io.Writer, stale bool) e2eResumeOutcome {
	o := e2eResumeOutcome{Session: idx, Stale: stale}
	work, err := os.MkdirTemp("", "vh-e2er-")
	if err != nil {
		o.Trouble = err.Error()
		return o
	}
	defer os.RemoveAll(work)
	src := filepath.Join(work, "src", "share")
	const chunk = 65536
	bigSize := int64(40*chunk + 1234)
	if err := makeLiteTree(src, []fileSpecLite{{"big.bin", bigSize}, {"small.txt", 77}, {"sub/mid.bin", 3*chunk + 5}}, seed+int64(idx)); err != nil {
		o.Trouble = err.Error()
		return o
	}
	o.Total = 41 + 1 + 4
	outDir := filepath.Join(work, "out")
	_ = os.MkdirAll(outDir, 0o755)
	o.Conns = []string{"1", "2"}[(int(seed)+idx)%2]
	kills := []string{"recv.chunk.marked@3", "recv.chunk.written@12", "recv.chunk.marked@30", "sidecar.flush.tmp@2", "recv.chunk.header@20", "recv.finalize@1"}
	o.KillAt = kills[(int(seed)+idx)%len(kills)]
	o.Choice = []string{"resume", "resume", "overwrite"}[(int(seed)/2+idx)%3]
	if stale {
		// the user changes the partly downloaded file after the interruption and then answers "overwrite":
		// the old metadata must not be trusted for the new download
		// (odd sessions: the first download is not interrupted at all - its metadata marks every chunk)
		o.Choice = "overwrite"
		o.KillAt = []string{"recv.chunk.marked@30", "", "recv.finalize@1", ""}[(int(seed)+idx)%4]
	}
	host, err := startChild(thruBin, []string{"host", src, "--server-url", srvURL, "--stun-server", "stun:127.0.0.1:9", "--total-connections", o.Conns, "--chunk-size", fmt.Sprint(chunk)},
		filepath.Join(work, "host.trace"), nil, "")
	if err != nil {
		o.Trouble = err.Error()
		return o
	}
	defer host.kill()
	code := ""
	for i := 0; i < 400 && code == ""; i++ {
		txt := host.out.String()
		if j := strings.Index(txt, "Join Code: "); j >= 0 {
			rest := txt[j+len("Join Code: "):]
			if k := strings.IndexAny(rest, " \n"); k > 0 {
				code = rest[:k]
			}
		}
		if code == "" {
			time.Sleep(20 * time.Millisecond)
		}
	}
	if code == "" {
		o.Trouble = "no join code"
		return o
	}
	joinArgs := []string{"join", code, "--out", outDir, "--server-url", srvURL, "--stun-server", "stun:127.0.0.1:9"}
	var killEnv []string
	if o.KillAt != "" {
		killEnv = []string{"VERIF_HOOK_KILL=" + o.KillAt}
	}
	j1, err := startChild(thruBin, joinArgs, filepath.Join(work, "join1.trace"), killEnv, "y\n")
	if err != nil {
		o.Trouble = err.Error()
		return o
	}
	c1, done1 := j1.wait(45 * time.Second)
	if !done1 {
		j1.kill()
		o.Trouble = "first join neither finished nor died: " + tailText(j1.out.String(), 200)
		return o
	}
	o.FirstExit = c1
	o.FirstDead = c1 == -1
	ev1 := j1.events()
	o.Written1 = countPt(ev1, "recv.chunk.written")
	writeNormalisedTrace(w, "join", idx*10+1, ev1, true)
	if !o.FirstDead {
		// the kill point was not reached (the transfer was over before the k-th hit): nothing to resume
		o.Trouble = ""
	}
	sc, _ := filepath.Glob(filepath.Join(outDir, ".thruflux_resumedata", "*.sbxmap"))
	sc2, _ := filepath.Glob(filepath.Join(outDir, "share", ".thruflux_resumedata", "*.sbxmap"))
	o.Sidecars = len(sc) + len(sc2)
	if stale {
		// damage bytes inside chunks 1..3 of every partly written file (never the highest recorded chunk alone)
		filepath.Walk(outDir, func(p string, fi os.FileInfo, err error) error {
			if err == nil && fi.Mode().IsRegular() && filepath.Base(p) == "big.bin" && fi.Size() > 4*chunk {
				if f, err := os.OpenFile(p, os.O_RDWR, 0); err == nil {
					junk := bytes.Repeat([]byte{0xEE}, 2*chunk)
					f.WriteAt(junk, chunk+100)
					f.Close()
					o.Damaged = true
				}
			}
			return nil
		})
	}
	// the host learns that the receiver is gone, then the second join
	time.Sleep(300 * time.Millisecond)
	answers := "y\n"
	if o.Sidecars > 0 {
		if o.Choice == "overwrite" {
			answers += "o\n"
		} else {
			answers += "y\n"
		}
	}
	j2, err := startChild(thruBin, joinArgs, filepath.Join(work, "join2.trace"), nil, answers)
	if err != nil {
		o.Trouble = err.Error()
		return o
	}
	defer j2.kill()
	c2, done2 := j2.wait(60 * time.Second)
	o.SecondExit, o.SecondDone = c2, done2
	ev2 := j2.events()
	o.Written2 = countPt(ev2, "recv.chunk.written")
	writeNormalisedTrace(w, "join", idx*10+2, ev2, false)
	host.waitEvent(2*time.Second, func(e hookEv) bool { return e.Pt == "host.transfer.done" })
	// (the host's own trace interleaves the cancelled first transfer with the second one and is not validated)
	want, _ := treeDigest(filepath.Join(work, "src"))
	got, _ := treeDigest(outDir)
	o.Equal = true
	for k, v := range want {
		if got[k] != v {
			o.Equal = false
			o.Diff = append(o.Diff, fmt.Sprintf("%s: want %s got %s", k, v, got[k]))
		}
	}
	for k := range got {
		if _, ok := want[k]; !ok {
			o.Equal = false
			o.Diff = append(o.Diff, "unexpected "+k)
		}
	}
	if len(o.Diff) > 5 {
		o.Diff = o.Diff[:5]
	}
	o.JoinTail = tailText(j2.out.String(), 300)
	return o
}

// E2EResume: real host, a real join that is killed in mid-transfer, a second real join into the same
// directory (answering the resume / overwrite prompt); the second run must succeed with the identical tree.
func E2EResume(args []string) {
	fs := flag.NewFlagSet("e2e-resume", flag.ExitOnError)
	n := fs.Int("n", 6, "sessions (over all shards)")
	shard := fs.Int("shard", 0, "shard")
	shards := fs.Int("shards", 1, "shards")
	thruserv := fs.String("thruserv", "", "thruserv binary")
	thru := fs.String("thru", "", "thru binary (built with -tags verif)")
	seed := fs.Int64("seed", 1, "seed")
	traceOut := fs.String("trace-out", "", "prefix of the combined trace file (the shard number is appended)")
	stale := fs.Bool("stale", false, "C06: the partly downloaded file is changed after the interruption and the user answers 'overwrite'")
	fs.Parse(args)
	srv, err := startServer(*thruserv, nil, unlimited...)
	if err != nil {
		fmt.Fprintln(os.Stderr, err)
		os.Exit(3)
	}
	defer srv.stop()
	f, err := os.Create(fmt.Sprintf("%s.%d", *traceOut, *shard))
	if err != nil {
		fmt.Fprintln(os.Stderr, err)
		os.Exit(3)
	}
	defer f.Close()
	res := &Result{Extra: map[string]any{}}
	outcomes := map[string]int{}
	trouble := 0
	for i := 0; i < *n; i++ {
		if i%*shards != *shard {
			continue
		}
		o := runE2EResume(i, srv.url, *thru, *seed, f, *stale)
		if o.Trouble != "" {
			trouble++
			fmt.Fprintln(os.Stderr, "trouble:", o.Trouble)
			continue
		}
		res.Behaviours++
		if o.FirstDead {
			res.Distinct++
		}
		ok := o.SecondDone && o.SecondExit == 0
		switch {
		case *stale && ok && !o.Equal:
			res.AddViolation(map[string]any{"prop": "C06", "kind": "old_metadata_trusted_after_the_user_chose_overwrite"}, o)
		case *stale:
		case !ok:
			res.AddViolation(map[string]any{"prop": "C04", "kind": "resumed_session_failed", "choice": o.Choice}, o)
		case !o.Equal:
			res.AddViolation(map[string]any{"prop": "C04", "kind": "tree_differs_after_resumed_session", "choice": o.Choice}, o)
		}
		outcomes[fmt.Sprintf("killed=%v choice=%s ok=%v equal=%v", o.FirstDead, o.Choice, ok, o.Equal)]++
		res.AddSample(map[string]any{"kill": o.KillAt, "choice": o.Choice, "written_first": o.Written1, "written_second": o.Written2, "total": o.Total, "sidecars": o.Sidecars}, 6)
	}
	res.Extra["outcomes"] = outcomes
	res.Extra["trouble"] = trouble
	res.Print()
	if trouble > res.Behaviours/3+1 {
		os.Exit(3)
	}
}

// ---- several receivers on one host (C12 at the application level) ---------------------------------

// E2EQueue: a real host with --max-receivers M and R > M real joins started together; every join must
// end with the identical tree, the host's hook trace must never show more than M transfers between
// host.emit.start and host.transfer.end, and transfers start in the order in which the receivers were queued.
func E2EQueue(args []string) {
	fs := flag.NewFlagSet("e2e-queue", flag.ExitOnError)
	n := fs.Int("n", 3, "scenarios (over all shards)")
	shard := fs.Int("shard", 0, "shard")
	shards := fs.Int("shards", 1, "shards")
	thruserv := fs.String("thruserv", "", "thruserv binary")
	thru := fs.String("thru", "", "thru binary (built with -tags verif)")
	seed := fs.Int64("seed", 1, "seed")
	fs.Parse(args)
	srv, err := startServer(*thruserv, nil, unlimited...)
	if err != nil {
		fmt.Fprintln(os.Stderr, err)
		os.Exit(3)
	}
	defer srv.stop()
	res := &Result{Extra: map[string]any{}}
	outcomes := map[string]int{}
	trouble := 0
	for i := 0; i < *n; i++ {
		if i%*shards != *shard {
			continue
		}
		maxRecv := 1 + (int(*seed)+i)%2
		joins := maxRecv + 2
		work, err := os.MkdirTemp("", "vh-e2eq-")
		if err != nil {
			trouble++
			continue
		}
		func() {
			defer os.RemoveAll(work)
			src := filepath.Join(work, "src", "share")
			if err := makeLiteTree(src, []fileSpecLite{{"a.bin", 400000}, {"b/c.bin", 70000}, {"e.txt", 9}}, *seed+int64(i)); err != nil {
				trouble++
				return
			}
			host, err := startChild(*thru, []string{"host", src, "--server-url", srv.url, "--stun-server", "stun:127.0.0.1:9", "--max-receivers", fmt.Sprint(maxRecv), "--total-connections", "1"},
				filepath.Join(work, "host.trace"), nil, "")
			if err != nil {
				trouble++
				return
			}
			defer host.kill()
			code := ""
			for k := 0; k < 400 && code == ""; k++ {
				txt := host.out.String()
				if j := strings.Index(txt, "Join Code: "); j >= 0 {
					rest := txt[j+len("Join Code: "):]
					if e := strings.IndexAny(rest, " \n"); e > 0 {
						code = rest[:e]
					}
				}
				if code == "" {
					time.Sleep(20 * time.Millisecond)
				}
			}
			if code == "" {
				trouble++
				return
			}
			var js []*childProc
			for r := 0; r < joins; r++ {
				out := filepath.Join(work, fmt.Sprintf("out%d", r))
				_ = os.MkdirAll(out, 0o755)
				j, err := startChild(*thru, []string{"join", code, "--out", out, "--server-url", srv.url, "--stun-server", "stun:127.0.0.1:9"},
					filepath.Join(work, fmt.Sprintf("join%d.trace", r)), nil, "y\n")
				if err != nil {
					trouble++
					return
				}
				defer j.kill()
				js = append(js, j)
			}
			okAll, equalAll := true, true
			want, _ := treeDigest(filepath.Join(work, "src"))
			var exits []int
			for r, j := range js {
				c, done := j.wait(90 * time.Second)
				exits = append(exits, c)
				if !done || c != 0 {
					okAll = false
				}
				got, _ := treeDigest(filepath.Join(work, fmt.Sprintf("out%d", r)))
				for k, v := range want {
					if got[k] != v {
						equalAll = false
					}
				}
			}
			host.waitEvent(2*time.Second, func(e hookEv) bool { return false })
			// census on the host's trace
			active, maxActive := map[string]bool{}, 0
			var queuedOrder, startOrder []string
			for _, e := range host.events() {
				switch e.Pt {
				case "host.emit.queued":
					queuedOrder = append(queuedOrder, e.S)
				case "host.emit.start":
					active[e.S] = true
					startOrder = append(startOrder, e.S)
					if len(active) > maxActive {
						maxActive = len(active)
					}
				case "host.transfer.end", "host.peer.left.released":
					// the transfer function returned, or the receiver left and its slot was released (its transfer is cancelled)
					delete(active, e.S)
				}
			}
			res.Behaviours++
			res.Distinct++
			replay := map[string]any{"max_receivers": maxRecv, "joins": joins, "join_exits": exits, "max_active_seen": maxActive,
				"queued_order": queuedOrder, "start_order": startOrder, "host_tail": tailText(host.out.String(), 300)}
			if !okAll {
				// what the joins that did not finish were doing
				var stuck []map[string]any
				for r, j := range js {
					if r < len(exits) && exits[r] == 0 {
						continue
					}
					evs := j.events()
					var last []string
					for _, e := range evs {
						last = append(last, fmt.Sprintf("%s(%s)", e.Pt, e.S))
					}
					if len(last) > 12 {
						last = last[len(last)-12:]
					}
					stuck = append(stuck, map[string]any{"join": r, "exit": exits[r], "last_hook_points": last, "output_tail": tailText(j.out.String(), 500)})
				}
				var hostEv []string
				for _, e := range host.events() {
					if strings.HasPrefix(e.Pt, "host.") || strings.HasPrefix(e.Pt, "auth.") || strings.HasPrefix(e.Pt, "conn.") || strings.HasPrefix(e.Pt, "ice.") {
						hostEv = append(hostEv, fmt.Sprintf("%s(%s)", e.Pt, e.S))
					}
				}
				if len(hostEv) > 60 {
					hostEv = hostEv[len(hostEv)-60:]
				}
				replay["joins_that_did_not_finish"] = stuck
				replay["host_hook_points"] = hostEv
				replay["host_tail"] = tailText(host.out.String(), 1500)
			}
			if maxActive > maxRecv {
				res.AddViolation(map[string]any{"prop": "C12", "kind": "more_simultaneous_transfers_than_max_receivers", "level": "binaries"}, replay)
			}
			if !okAll {
				res.AddViolation(map[string]any{"prop": "C12", "kind": "queued_receiver_not_served", "level": "binaries"}, replay)
			} else if !equalAll {
				res.AddViolation(map[string]any{"prop": "C01", "kind": "bytes_differ_after_successful_session", "level": "binaries"}, replay)
			}
			// receivers that had to queue start in the order they were queued
			pos := map[string]int{}
			for k, p := range startOrder {
				if _, ok := pos[p]; !ok {
					pos[p] = k
				}
			}
			var firstQueued []string // order in which the receivers were queued (position updates repeat the message)
			seenQ := map[string]bool{}
			for _, p := range queuedOrder {
				if !seenQ[p] {
					seenQ[p] = true
					firstQueued = append(firstQueued, p)
				}
			}
			for a := 0; a < len(firstQueued); a++ {
				for b := a + 1; b < len(firstQueued); b++ {
					pa, oka := pos[firstQueued[a]]
					pb, okb := pos[firstQueued[b]]
					if oka && okb && pa > pb {
						res.AddViolation(map[string]any{"prop": "C12", "kind": "queued_receivers_started_out_of_order", "level": "binaries"}, replay)
					}
				}
			}
			outcomes[fmt.Sprintf("max=%d joins=%d ok=%v equal=%v max_active=%d", maxRecv, joins, okAll, equalAll, maxActive)]++
			res.AddSample(replay, 3)
		}()
	}
	res.Extra["outcomes"] = outcomes
	res.Extra["trouble"] = trouble
	res.Print()
	if trouble > res.Behaviours/2+1 {
		os.Exit(3)
	}
}

// ---- dumb-tcp sessions (C09: the receiver dials the TCP addresses the sender announced) --------------

// E2EDumbTCP: real `thru host <size> --dumb-tcp` and `thru join --dumb-tcp` sessions on this host (which has
// several local addresses, all announced by the sender). Both processes must finish with status 0 in
// bounded time: the two ends must end up on the same TCP connection.
func E2EDumbTCP(args []string) {
	fs := flag.NewFlagSet("e2e-dumbtcp", flag.ExitOnError)
	n := fs.Int("n", 12, "sessions (over all shards)")
	shard := fs.Int("shard", 0, "shard")
	shards := fs.Int("shards", 1, "shards")
	thruserv := fs.String("thruserv", "", "thruserv binary")
	thru := fs.String("thru", "", "thru binary")
	fs.Parse(args)
	srv, err := startServer(*thruserv, nil, unlimited...)
	if err != nil {
		fmt.Fprintln(os.Stderr, err)
		os.Exit(3)
	}
	defer srv.stop()
	res := &Result{Extra: map[string]any{}}
	outcomes := map[string]int{}
	trouble := 0
	for i := 0; i < *n; i++ {
		if i%*shards != *shard {
			continue
		}
		work, err := os.MkdirTemp("", "vh-dumbtcp-")
		if err != nil {
			trouble++
			continue
		}
		func() {
			defer os.RemoveAll(work)
			size := []string{"200K", "3M", "64K", "1M"}[i%4]
			host, err := startChild(*thru, []string{"host", size, "--dumb-tcp", "--server-url", srv.url, "--stun-server", "stun:127.0.0.1:9"},
				filepath.Join(work, "host.trace"), nil, "")
			if err != nil {
				trouble++
				return
			}
			defer host.kill()
			code := ""
			for k := 0; k < 400 && code == ""; k++ {
				txt := host.out.String()
				if j := strings.Index(txt, "Join Code: "); j >= 0 {
					rest := txt[j+len("Join Code: "):]
					if e := strings.IndexAny(rest, " \n"); e > 0 {
						code = rest[:e]
					}
				}
				if code == "" {
					time.Sleep(20 * time.Millisecond)
				}
			}
			if code == "" {
				trouble++
				return
			}
			t0 := time.Now()
			join, err := startChild(*thru, []string{"join", code, "--dumb-tcp", "--server-url", srv.url, "--stun-server", "stun:127.0.0.1:9"},
				filepath.Join(work, "join.trace"), nil, "y\n")
			if err != nil {
				trouble++
				return
			}
			defer join.kill()
			rc, done := join.wait(20 * time.Second)
			res.Behaviours++
			res.Steps++
			hostTxt := host.out.String()
			replay := map[string]any{"session": i, "size": size, "join_exit": rc, "join_returned": done, "seconds": time.Since(t0).Seconds(),
				"join_tail": tailText(join.out.String(), 300), "host_tail": tailText(hostTxt, 300)}
			switch {
			case !done:
				outcomes["join never finished"]++
				res.AddViolation(map[string]any{"prop": "C09", "kind": "dumb_tcp_session_hangs_although_reachable"}, replay)
			case rc != 0 || strings.Contains(hostTxt, "transfer failed"):
				outcomes["failed"]++
				res.AddViolation(map[string]any{"prop": "C09", "kind": "dumb_tcp_session_fails_although_reachable"}, replay)
			default:
				outcomes["ok"]++
			}
		}()
	}
	res.Distinct = res.Behaviours
	res.Extra["outcomes"] = outcomes
	res.Extra["trouble"] = trouble
	res.Print()
	if trouble > res.Behaviours/3+1 {
		os.Exit(3)
	}
}
