package drivers

import (
	"encoding/json"
	"flag"
	"fmt"
	"math/rand"
	"os"
	"path/filepath"
	"strings"

	"github.com/sheerbytes/sheerbytes/internal/transfer"
	"github.com/sheerbytes/sheerbytes/verifharness/internal/graph"
)

// ---- Geometry.tla <-> chunkTotal / chunkSizeForIndex / CreateSidecar (C19) ------

type geoRow struct {
	Size         int64 `json:"size"`
	Chunk        int64 `json:"chunk"`
	Idx          int64 `json:"idx"`
	Fits         bool  `json:"fits"`
	SenderTotal  int64 `json:"senderTotal"`
	RecvTotal    int64 `json:"recvTotal"`
	LegacyTotal  int64 `json:"legacyTotal"`
	SidecarTotal int64 `json:"sidecarTotal"`
	Len          int64 `json:"len"`
	Off          int64 `json:"off"`
}

func sidecarTotal(dir string, size int64, chunk uint32) (uint32, error) {
	p := filepath.Join(dir, fmt.Sprintf("s%d_%d.sbxmap", size, chunk))
	sc, err := transfer.CreateSidecar(p, "id", size, chunk)
	if err != nil {
		return 0, err
	}
	total := sc.TotalChunks
	// what a later run would load must say the same
	if l, err := transfer.LoadSidecar(p); err == nil && l.TotalChunks != total {
		return 0, fmt.Errorf("reloaded sidecar has %d chunks, created %d", l.TotalChunks, total)
	}
	os.Remove(p)
	return total, nil
}

// tilingOracle checks the real functions on one (size, chunk) by walking the
// chunks (all of them when the count is small, a sample otherwise).
func tilingOracle(res *Result, size int64, chunk uint32, dir string, withSidecar bool) {
	bad := func(kind string, extra map[string]any) {
		sig := map[string]any{"kind": kind}
		res.AddViolation(sig, map[string]any{"size": size, "chunk": chunk, "detail": extra})
	}
	exact := (size + int64(chunk) - 1) / int64(chunk)
	if exact >= 1<<32 {
		return // outside the property's premise (count does not fit the wire field)
	}
	total := transfer.VerifChunkTotal(size, chunk)
	if int64(total) != exact {
		bad("sender_chunk_count_wrong", map[string]any{"got": total, "want": exact})
	}
	idxs := []int64{}
	if exact <= 4096 {
		for i := int64(0); i <= exact+1; i++ {
			idxs = append(idxs, i)
		}
	} else {
		idxs = []int64{0, 1, exact / 2, exact - 2, exact - 1, exact, exact + 1}
	}
	var sum int64
	for _, i := range idxs {
		if i < 0 || i >= 1<<32 {
			continue
		}
		l := int64(transfer.VerifChunkSizeForIndex(size, chunk, uint32(i)))
		off := i * int64(chunk)
		switch {
		case i < exact-1:
			if l != int64(chunk) {
				bad("inner_chunk_not_full_length", map[string]any{"i": i, "len": l})
			}
		case i == exact-1:
			if l < 1 || l > int64(chunk) || off+l != size {
				bad("last_chunk_does_not_end_at_file_size", map[string]any{"i": i, "len": l, "off": off})
			}
		default:
			if l != 0 {
				bad("chunk_beyond_end_has_length", map[string]any{"i": i, "len": l})
			}
		}
		sum += l
	}
	if exact <= 4096 && sum != size {
		bad("chunk_lengths_do_not_sum_to_file_size", map[string]any{"sum": sum})
	}
	if withSidecar {
		st, err := sidecarTotal(dir, size, chunk)
		if err != nil {
			bad("sidecar_error", map[string]any{"err": err.Error()})
		} else if int64(st) != exact {
			if size == 0 {
				bad("sidecar_chunk_count_differs_for_empty_file", map[string]any{"sidecar": st, "sender": total})
			} else {
				bad("sidecar_chunk_count_differs", map[string]any{"sidecar": st, "sender": total})
			}
		}
	}
}

// Geometry compares the TLC-emitted function table with the real Go functions
// and evaluates the tiling oracle; in -large mode it evaluates boundary and
// random large pairs and writes an observation module for Apalache.
func Geometry(args []string) {
	fs := flag.NewFlagSet("geometry", flag.ExitOnError)
	edges := fs.String("edges", "", "table emitted by TLC (GeometryTable)")
	large := fs.Int("large", 0, "number of random large pairs (plus the boundary grid)")
	obsOut := fs.String("obs", "", "write observation module GeoObs.tla here")
	seed := fs.Int64("seed", 1, "seed")
	obsMax := fs.Int("obsmax", 150, "max observation rows written for Apalache (seeded sample)")
	fs.Parse(args)
	res := &Result{Extra: map[string]any{}}
	dir, _ := os.MkdirTemp("", "geo-")
	defer os.RemoveAll(dir)
	if *edges != "" {
		g, err := graph.Load(*edges)
		if err != nil {
			panic(err)
		}
		seenPair := map[[2]int64]bool{}
		for _, e := range g.Edges {
			var r geoRow
			json.Unmarshal(e.X, &r)
			res.Steps++
			if !r.Fits {
				continue // model-only rows: the small Word wraps where uint32 does not
			}
			total := int64(transfer.VerifChunkTotal(r.Size, uint32(r.Chunk)))
			l := int64(transfer.VerifChunkSizeForIndex(r.Size, uint32(r.Chunk), uint32(r.Idx)))
			if total != r.SenderTotal || l != r.Len {
				res.AddDrift(map[string]any{"why": "real function differs from Geometry.tla", "row": r, "real_total": total, "real_len": l})
			}
			key := [2]int64{r.Size, r.Chunk}
			if !seenPair[key] {
				seenPair[key] = true
				res.Behaviours++
				st, err := sidecarTotal(dir, r.Size, uint32(r.Chunk))
				if err != nil || int64(st) != r.SidecarTotal {
					res.AddDrift(map[string]any{"why": "real CreateSidecar differs from Geometry.tla", "row": r, "real": st, "err": fmt.Sprint(err)})
				}
				tilingOracle(res, r.Size, uint32(r.Chunk), dir, true)
				if r.Size > 0 && r.Size%r.Chunk != 0 {
					res.Distinct++
				}
				if res.Behaviours%211 == 1 {
					res.AddSample(map[string]any{"size": r.Size, "chunk": r.Chunk, "sender_total": total, "sidecar_total": st}, 5)
				}
			}
		}
		res.Transitions = len(g.Edges)
	}
	if *large > 0 || *obsOut != "" {
		rng := rand.New(rand.NewSource(*seed))
		const tenTiB = int64(10) << 40
		chunks := []int64{1, 2, 3, 4096, 65536, 4 << 20, (4 << 20) + 1, 1 << 31, (1 << 31) + 1, (1 << 32) - 2, (1 << 32) - 1}
		var pairs [][2]int64
		for _, c := range chunks {
			for _, k := range []int64{0, 1, 2, 3, 1000, 1 << 20} {
				for _, d := range []int64{-1, 0, 1} {
					pairs = append(pairs, [2]int64{k*c + d, c})
				}
			}
			for _, s := range []int64{0, 1, c - 1, c, c + 1, (1 << 31) - 1, 1 << 31, (1 << 31) + 1, (1 << 32) - 1, 1 << 32, (1 << 32) + 1, tenTiB - 1, tenTiB} {
				pairs = append(pairs, [2]int64{s, c})
			}
		}
		for i := 0; i < *large; i++ {
			c := int64(1) + rng.Int63n((1<<32)-1)
			if rng.Intn(3) == 0 {
				c = int64(1) + rng.Int63n(1<<22)
			}
			s := rng.Int63n(tenTiB + 1)
			if rng.Intn(4) == 0 {
				s = rng.Int63n(1 << 34)
			}
			pairs = append(pairs, [2]int64{s, c})
		}
		var rows []string
		n := 0
		for _, p := range pairs {
			s, c := p[0], p[1]
			if s < 0 || s > tenTiB || c < 1 || c >= 1<<32 {
				continue
			}
			exact := (s + c - 1) / c
			if exact >= 1<<32 {
				continue
			}
			n++
			res.Behaviours++
			res.Distinct++
			tilingOracle(res, s, uint32(c), dir, n%7 == 0 || s == 0)
			total := int64(transfer.VerifChunkTotal(s, uint32(c)))
			for _, i := range []int64{0, 1, exact / 2, exact - 1, exact} {
				if i < 0 || i >= 1<<32 {
					continue
				}
				l := int64(transfer.VerifChunkSizeForIndex(s, uint32(c), uint32(i)))
				rows = append(rows, fmt.Sprintf("[s |-> %d, c |-> %d, i |-> %d, total |-> %d, len |-> %d]", s, c, i, total, l))
				res.Steps++
			}
			if n%97 == 1 {
				res.AddSample(map[string]any{"size": s, "chunk": c, "sender_total": total}, 8)
			}
		}
		if *obsOut != "" {
			if len(rows) > *obsMax {
				rng.Shuffle(len(rows), func(i, j int) { rows[i], rows[j] = rows[j], rows[i] })
				rows = rows[:*obsMax]
			}
			var b strings.Builder
			b.WriteString("---------------------------- MODULE GeoObs ----------------------------\n")
			b.WriteString("(* generated by `vh geometry`: outputs of the real Go functions; Apalache checks them against Geometry.tla *)\n")
			b.WriteString("EXTENDS GeometryApa\n\n")
			b.WriteString("\\* @type: Seq({s: Int, c: Int, i: Int, total: Int, len: Int});\nObs == <<\n  ")
			b.WriteString(strings.Join(rows, ",\n  "))
			b.WriteString("\n>>\n\nObsAgree == \\A k \\in DOMAIN Obs : /\\ Obs[k].total = SenderTotal(Obs[k].s, Obs[k].c)\n")
			b.WriteString("                                    /\\ Obs[k].len = LenAt(Obs[k].s, Obs[k].c, Obs[k].i)\n")
			b.WriteString("=============================================================================\n")
			os.WriteFile(*obsOut, []byte(b.String()), 0644)
			res.Extra["obs_rows"] = len(rows)
		}
	}
	res.Print()
}
