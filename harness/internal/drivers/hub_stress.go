package drivers

import (
	"flag"
	"fmt"
	"runtime"
	"strings"
	"sync"
	"sync/atomic"
	"time"

	"github.com/sheerbytes/sheerbytes/internal/peers"
	"github.com/sheerbytes/sheerbytes/pkg/protocol"
)

// ---- C11: the real hub under free-running concurrency ---------------------------------------------
//
// The gated replay (driver `hub`) parks operations between their lock regions; what happens inside a
// lock region (e.g. a lock taken twice on one path, which blocks as soon as a writer queues up in
// between) only shows when readers and writers really run at the same time.  Routers (SendTo,
// BroadcastExcept, Broadcast, List) work on a quiet session while other goroutines join and leave a
// busy one and CloseSession runs on a third; every goroutine counts its completed operations, and a
// goroutine whose counter stands still for the stall window while it is inside a hub call means the
// hub is wedged.  Panics are recovered and reported.

func HubStress(args []string) {
	fs := flag.NewFlagSet("hub-stress", flag.ExitOnError)
	dur := fs.Duration("duration", 1500*time.Millisecond, "length of one round")
	rounds := fs.Int("rounds", 3, "rounds")
	stall := fs.Duration("stall", 4*time.Second, "no progress for this long = wedged")
	shard := fs.Int("shard", 0, "shard")
	shards := fs.Int("shards", 1, "shards")
	fs.Parse(args)
	res := &Result{Extra: map[string]any{}}
	ops := int64(0)
	for round := 0; round < *rounds; round++ {
		if round%*shards != *shard {
			continue
		}
		hub := peers.NewHub()
		send := func(env protocol.Envelope) error { return nil }
		for i := 0; i < 3; i++ {
			hub.Add("quiet", peers.Peer{PeerID: fmt.Sprintf("q%d", i), Role: "receiver", ConnID: fmt.Sprintf("cq%d", i)}, send, func() {})
		}
		var stop atomic.Bool
		var wg sync.WaitGroup
		const workers = 10
		counters := make([]atomic.Int64, workers)
		inCall := make([]atomic.Bool, workers)
		var panics sync.Map
		env, _ := protocol.NewEnvelope("app", "m", map[string]int{"n": 1})
		run := func(id int, f func(n int64)) {
			wg.Add(1)
			go func() {
				defer wg.Done()
				for n := int64(0); !stop.Load(); n++ {
					func() {
						defer func() {
							if p := recover(); p != nil {
								panics.Store(fmt.Sprint(p), true)
							}
						}()
						inCall[id].Store(true)
						f(n)
						inCall[id].Store(false)
					}()
					counters[id].Add(1)
					if n%64 == 0 {
						runtime.Gosched()
					}
				}
			}()
		}
		for r := 0; r < 4; r++ {
			r := r
			run(r, func(n int64) {
				switch n % 4 {
				case 0:
					hub.SendTo("quiet", fmt.Sprintf("q%d", (int(n)+r)%3), env)
				case 1:
					hub.BroadcastExcept("quiet", fmt.Sprintf("q%d", r%3), env)
				case 2:
					hub.List("quiet")
				default:
					hub.Broadcast("quiet", env)
				}
			})
		}
		for c := 0; c < 4; c++ {
			c := c
			run(4+c, func(n int64) {
				id := fmt.Sprintf("b%d-%d", c, n%5)
				rm := hub.Add("busy", peers.Peer{PeerID: id, Role: "receiver", ConnID: fmt.Sprintf("cb%d-%d", c, n)}, send, func() {})
				hub.SendTo("busy", id, env)
				rm()
			})
		}
		run(8, func(n int64) {
			rm := hub.Add("third", peers.Peer{PeerID: "t", Role: "sender", ConnID: fmt.Sprintf("ct%d", n)}, send, func() {})
			hub.CloseSession("third")
			rm()
		})
		run(9, func(n int64) {
			hub.SendTo("busy", fmt.Sprintf("b%d-%d", n%4, n%5), env)
			hub.List("busy")
		})
		// watchdog
		last := make([]int64, workers)
		lastChange := make([]time.Time, workers)
		now := time.Now()
		for i := range lastChange {
			lastChange[i] = now
		}
		wedged := false
		end := time.Now().Add(*dur)
		for time.Now().Before(end) || wedged {
			time.Sleep(50 * time.Millisecond)
			stuck := 0
			for i := 0; i < workers; i++ {
				c := counters[i].Load()
				if c != last[i] {
					last[i], lastChange[i] = c, time.Now()
				} else if inCall[i].Load() && time.Since(lastChange[i]) > *stall {
					stuck++
				}
			}
			if stuck > 0 {
				buf := make([]byte, 1<<18)
				n := runtime.Stack(buf, true)
				var where []string
				for _, g := range strings.Split(string(buf[:n]), "\n\n") {
					if strings.Contains(g, "internal/peers.(*Hub)") {
						lines := strings.Split(g, "\n")
						for _, l := range lines {
							if strings.Contains(l, "internal/peers.(*Hub).") {
								where = append(where, strings.TrimSpace(l))
								break
							}
						}
					}
				}
				res.AddViolation(map[string]any{"kind": "operation_stuck", "op": "free-running readers and writers", "via": "hub-stress"},
					map[string]any{"stuck_goroutines": stuck, "round": round, "blocked_in": where})
				wedged = true
				break
			}
			if time.Now().After(end) {
				break
			}
		}
		stop.Store(true)
		if !wedged {
			done := make(chan struct{})
			go func() { wg.Wait(); close(done) }()
			select {
			case <-done:
			case <-time.After(*stall):
				res.AddViolation(map[string]any{"kind": "operation_stuck", "op": "shutdown of the stress round", "via": "hub-stress"}, map[string]any{"round": round})
			}
		}
		panics.Range(func(k, _ any) bool {
			res.AddViolation(map[string]any{"kind": "panic", "via": "hub-stress"}, map[string]any{"msg": k})
			return true
		})
		for i := 0; i < workers; i++ {
			ops += counters[i].Load()
		}
		res.Behaviours++
		res.Distinct++
		if wedged {
			break // the goroutines of a wedged hub never return
		}
	}
	res.Steps = int(ops)
	res.Extra["operations"] = ops
	res.Print()
}
