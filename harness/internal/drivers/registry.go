package drivers

// Registry maps sub-command names to drivers.
var Registry = map[string]func(args []string){
	"dispatch": Dispatch,
	"admission": Admission,
	"hub": Hub,
	"geometry": Geometry,
	"xfer-one": XferOne,
	"xfer-grid": XferGrid,
	"xfer-faults": XferFaults,
}
