package drivers

// Registry maps sub-command names to drivers.
var Registry = map[string]func(args []string){
	"dispatch":       Dispatch,
	"admission":      Admission,
	"hub":            Hub,
	"geometry":       Geometry,
	"xfer-one":       XferOne,
	"xfer-grid":      XferGrid,
	"xfer-faults":    XferFaults,
	"recv-child":     RecvChild,
	"resume-kill":    ResumeKill,
	"resume-tamper":  ResumeTamper,
	"resume-observe": ResumeObserve,
	"resume-states":  ResumeStates,
	"wire-values":    WireValues,
	"wire-mutations": WireMutations,
	"wire-case":      WireCase,
	"paths-jail":     PathsJail,
	"scan-check":     ScanCheck,
	"routing":        RoutingReplay,
	"limits":         LimitsCheck,
	"config-grid":    ConfigGrid,
	"auth-scripts":   AuthScripts,
	"auth-bits":      AuthBits,
	"auth-extras":    AuthExtras,
}
