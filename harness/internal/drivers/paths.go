package drivers

import (
	"bytes"
	"context"
	"crypto/sha256"
	"encoding/hex"
	"flag"
	"fmt"
	"io/fs"
	"os"
	"path/filepath"
	"sort"
	"strings"
	"time"

	"github.com/sheerbytes/sheerbytes/internal/transfer"
	"github.com/sheerbytes/sheerbytes/pkg/manifest"
	"github.com/sheerbytes/sheerbytes/verifharness/internal/vnet"
)

// ---- Paths.tla <-> real receiver in a jail (C07) --------------------------------------------

type pathRow struct {
	Field     string   `json:"field"`
	Segs      []string `json:"segs"`
	Abs       bool     `json:"abs"`
	NoRootDir bool     `json:"noRootDir"`
	Resume    bool     `json:"resume"`
	Rejected  bool     `json:"rejected"`
	Reached   bool     `json:"reached"`
	Target    []string `json:"target"`
	Escapes   bool     `json:"escapes"`
}

// concrete spellings of the segment classes; variant selects among alternatives
func segText(class string, variant int) string {
	switch class {
	case "n":
		return []string{"a", "victim", "sub dir", "ünï"}[variant%4]
	case "dd":
		return ".."
	case "d":
		return "."
	case "e":
		return ""
	case "inner":
		return []string{"a..b", "x..", "..y"}[variant%3]
	case "bs":
		return []string{`c\..\d`, `..\..\w`}[variant%2]
	case "tdd":
		return "..."
	case "pdd":
		return []string{" ..", ".. ", "\t..", " .. "}[variant%4]
	case "deep":
		return strings.Repeat("s/", 63) + "s" // 64 harmless components
	case "dd66":
		return strings.Repeat("../", 65) + ".." // 66 times ".."
	case "long":
		return strings.Repeat("p/", 520) + "q" // 1041 bytes of short nested names
	}
	return class
}

func pathText(r pathRow, variant int) string {
	parts := make([]string, len(r.Segs))
	for i, s := range r.Segs {
		parts[i] = segText(s, variant+i)
	}
	p := strings.Join(parts, "/")
	if r.Abs {
		p = "/" + p
	}
	return p
}

type fsEntry struct {
	Type string
	Size int64
	Sum  string
	Mod  int64
}

func snapshotAround(root, exclude string) map[string]fsEntry {
	out := map[string]fsEntry{}
	filepath.WalkDir(root, func(p string, d fs.DirEntry, err error) error {
		if err != nil {
			return nil
		}
		if p == exclude {
			return fs.SkipDir
		}
		rel, _ := filepath.Rel(root, p)
		info, err := d.Info()
		if err != nil {
			return nil
		}
		e := fsEntry{Size: info.Size(), Mod: info.ModTime().UnixNano()}
		if d.IsDir() {
			e.Type = "dir"
			e.Size, e.Mod = 0, 0 // directory mtimes change when children are created: judged through the children
		} else {
			e.Type = "file"
			b, _ := os.ReadFile(p)
			h := sha256.Sum256(b)
			e.Sum = hex.EncodeToString(h[:8])
		}
		out[rel] = e
		return nil
	})
	return out
}

func diffSnap(a, b map[string]fsEntry) []string {
	var d []string
	for k, v := range a {
		w, ok := b[k]
		if !ok {
			d = append(d, "deleted:"+k)
		} else if w != v {
			d = append(d, "modified:"+k)
		}
	}
	for k := range b {
		if _, ok := a[k]; !ok {
			d = append(d, "created:"+k)
		}
	}
	sort.Strings(d)
	return d
}

// PathsJail: one hostile scripted sender per enumerated case against the real receiver.
func PathsJail(args []string) {
	fs := flag.NewFlagSet("paths-jail", flag.ExitOnError)
	edges := fs.String("edges", "", "rows emitted by TLC (Paths)")
	shard := fs.Int("shard", 0, "shard")
	shards := fs.Int("shards", 1, "shards")
	variants := fs.Int("variants", 1, "concrete spellings per case")
	sample := fs.Int("sample", 0, "run only every k-th reached case (0/1 = all)")
	deep := fs.Bool("deep", false, "with -sample: always run the cases that climb at least two levels after a harmless first segment")
	fs.Parse(args)
	rows, err := loadRows[pathRow](*edges)
	if err != nil {
		panic(err)
	}
	res := &Result{Extra: map[string]any{}}
	jail, _ := os.MkdirTemp("", "jail-")
	defer os.RemoveAll(jail)
	outcomes := map[string]int{}
	n := 0
	for _, r := range rows {
		for v := 0; v < *variants; v++ {
			n++
			if n%*shards != *shard {
				continue
			}
			if !r.Reached || r.Field == "offer" { // the offer's root name is the binary-level driver's case
				continue
			}
			if *sample > 1 && (n / *shards)%*sample != 0 {
				dds := 0
				for _, sg := range r.Segs {
					if sg == "dd" {
						dds++
					}
				}
				if !(*deep && dds >= 2 && len(r.Segs) > 0 && r.Segs[0] != "dd" && r.Segs[0] != "bs") {
					continue
				}
			}
			caseDir := filepath.Join(jail, fmt.Sprintf("k%d", n))
			// the output directory sits 4 levels deep so that <= 3 ".." stay inside the case directory
			out := filepath.Join(caseDir, "l1", "l2", "l3", "out")
			os.MkdirAll(out, 0755)
			// sentinels around the output directory, also at every ancestor level and with the names the sinks would use
			for _, lvl := range []string{"", "l1", "l1/l2", "l1/l2/l3"} {
				d := filepath.Join(caseDir, lvl)
				os.WriteFile(filepath.Join(d, "sentinel.txt"), []byte("do not touch "+lvl), 0644)
				for _, name := range []string{"a", "victim", "a..b", "...", "ünï"} {
					os.WriteFile(filepath.Join(d, name+".sbxmap"), []byte("precious metadata"), 0644)
				}
				os.MkdirAll(filepath.Join(d, ".thruflux_resumedata"), 0755)
				os.WriteFile(filepath.Join(d, ".thruflux_resumedata", "victim.sbxmap"), []byte("precious metadata"), 0644)
				// resume metadata of another download that happens to carry the very name the benign file's
				// sidecar would have (once as foreign bytes, once as a well-formed sidecar of the same file)
				_, benign := hostileManifest("none", "")
				scName := filepath.Base(transfer.SidecarPath(d, "", transfer.VerifSidecarID(benign)))
				if (n+len(lvl))%2 == 0 {
					os.WriteFile(filepath.Join(d, ".thruflux_resumedata", scName), []byte("precious metadata of another download"), 0644)
				} else if sc, err := transfer.CreateSidecar(filepath.Join(d, ".thruflux_resumedata", scName), benign.ID, benign.Size, 8); err == nil {
					sc.MarkComplete(0)
					sc.Flush()
				}
				os.WriteFile(filepath.Join(d, "victimfile"), []byte("precious data"), 0644)
			}
			// the process's temporary directory lies inside the observed area too
			tmpd := filepath.Join(caseDir, "tmp")
			os.MkdirAll(tmpd, 0755)
			os.Setenv("TMPDIR", tmpd)
			before := snapshotAround(caseDir, out)
			val := pathText(r, v)
			m, fileItem := hostileManifest(r.Field, val)
			if r.Field == "id" && n%2 == 1 {
				// the listed file is empty: no chunk will ever be stored for it, the id is used all the same
				fileItem.Size = 0
				for i := range m.Items {
					if !m.Items[i].IsDir {
						m.Items[i].Size = 0
					}
				}
				m.TotalBytes = 0
			}
			beginPath := fileItem.RelPath
			if r.Field == "begin" {
				// benign manifest; the FileBegin record carries the listed file's key and size and this path
				beginPath = val
				if val == fileItem.RelPath {
					beginPath = val + "2"
				}
			}
			// every third case the sender also lists a file named like the resume-metadata directory, so that the
			// directory cannot be created below the output directory
			blockMeta := r.Resume && n%3 == 0
			if blockMeta && n%2 == 1 {
				// ... or the place of that directory is taken already: a regular file of that name which the user has
				// in the output directory (the receiver can then keep no resume metadata there - it must not keep it elsewhere)
				blockMeta = false
				for _, d := range []string{out, filepath.Join(out, m.Root)} {
					if !filepath.IsLocal(m.Root) && d != out {
						continue
					}
					os.MkdirAll(d, 0755)
					os.WriteFile(filepath.Join(d, ".thruflux_resumedata"), []byte("the user's own file"), 0644)
				}
				before = snapshotAround(caseDir, out)
			}
			rerr, hung := runHostile(m, fileItem, beginPath, blockMeta, out, r.NoRootDir, r.Resume)
			after := snapshotAround(caseDir, out)
			diffs := diffSnap(before, after)
			res.Behaviours++
			res.Steps++
			if r.Escapes || r.Rejected {
				res.Distinct++
			}
			replay := map[string]any{"case": r, "value": val, "recvErr": fmt.Sprint(rerr), "changes_outside": diffs}
			if hung {
				outcomes["hung"]++
			}
			if len(diffs) > 0 {
				outcomes["escaped"]++
				res.AddViolation(map[string]any{"kind": "receiver_touched_outside_output_directory", "field": r.Field}, replay)
			} else if rerr != nil {
				outcomes["rejected_or_failed"]++
			} else {
				outcomes["accepted_confined"]++
			}
			// conformance of the accept/reject decision with the spec's guard
			if r.Rejected && rerr == nil && !hung {
				res.AddDrift(map[string]any{"why": "the spec's guard rejects this value, the real receiver completed", "case": r, "value": val})
			}
			if n%457 == 0 {
				res.AddSample(map[string]any{"field": r.Field, "value": val, "noRootDir": r.NoRootDir, "resume": r.Resume, "recvErr": trunc(fmt.Sprint(rerr)), "changes_outside": diffs}, 8)
			}
			os.RemoveAll(caseDir)
		}
	}
	res.Extra["outcomes"] = outcomes
	res.Extra["rows"] = len(rows)
	res.Print()
}

// hostileManifest puts val into one field of an otherwise ordinary manifest.
func hostileManifest(field, val string) (manifest.Manifest, manifest.FileItem) {
	m := manifest.Manifest{Root: "payload"}
	file := manifest.FileItem{RelPath: "victim/data.bin", Size: 8, ID: "0123456789abcdef"}
	dir := manifest.FileItem{RelPath: "victim", IsDir: true, ID: "00000000000000aa"}
	switch field {
	case "root":
		m.Root = val
	case "dir":
		dir.RelPath = val
	case "file":
		file.RelPath = val
	case "id":
		file.ID = val
	case "begin":
		// nothing hostile in the manifest
	}
	m.Items = []manifest.FileItem{dir, file}
	m.FileCount, m.FolderCount, m.TotalBytes = 1, 1, file.Size
	return m, file
}

// runHostile plays a sender that transmits m and a complete 8-byte file through raw records.
func runHostile(m manifest.Manifest, file manifest.FileItem, beginPath string, blockMeta bool, out string, noRoot, resume bool) (error, bool) {
	var blocker manifest.FileItem
	if blockMeta {
		blocker = manifest.FileItem{RelPath: ".thruflux_resumedata", Size: 0, ID: "00000000000000bb"}
		m.Items = append([]manifest.FileItem{blocker}, m.Items...)
		m.FileCount++
	}
	p := vnet.NewPair(vnet.Options{})
	defer p.Shutdown()
	done := make(chan error, 1)
	go func() {
		defer func() {
			if r := recover(); r != nil {
				done <- fmt.Errorf("panic: %v", r)
			}
		}()
		_, err := transfer.RecvManifestMultiStream(context.Background(), p.End(vnet.B), out, transfer.Options{ParallelFiles: 1, NoRootDir: noRoot, Resume: resume, HashAlg: "crc32c"})
		done <- err
	}()
	a := p.End(vnet.A)
	cs, _ := a.OpenStream(context.Background())
	ds, _ := a.OpenStream(context.Background())
	var hdr bytes.Buffer
	transfer.VerifWriteControlHeader(&hdr, m)
	cs.Write(hdr.Bytes())
	cs.Write(encode(transfer.DataStreams{Count: 1}))
	if blockMeta {
		bk := transfer.VerifFileKey(blocker)
		cs.Write(encode(transfer.FileBegin{RelPath: blocker.RelPath, FileSize: 0, ChunkSize: 8, StreamID: bk, HashAlg: 1}))
		cs.Write(encode(transfer.FileEnd{StreamID: bk}))
	}
	key := transfer.VerifFileKey(file)
	// FileBegin written raw: the real encoder would refuse a hostile path
	fb := []byte{transfer.VerifTypeFileBegin}
	fb = append(fb, be16(len(beginPath))...)
	fb = append(fb, beginPath...)
	tailEnc := encode(transfer.FileBegin{RelPath: "x", FileSize: uint64(file.Size), ChunkSize: 8, StreamID: key, HashAlg: 1})
	fb = append(fb, tailEnc[1+2+1:]...)
	cs.Write(fb)
	if resume {
		cs.Write(encode(transfer.ResumeRequest{FileID: file.ID, StreamID: key}))
	}
	if file.Size > 0 {
		ds.Write(chunkFrame(key, 0, []byte("8 bytes!"), true, -1))
	}
	cs.Write(encode(transfer.FileEnd{StreamID: key}))
	// like a real sender: End once the file was acknowledged (or the receiver gave up / nothing came)
	acked := make(chan struct{}, 1)
	go func() {
		for {
			typ, _, err := transfer.VerifReadControlMessage(cs)
			if err != nil {
				return
			}
			if typ == transfer.VerifTypeFileDone {
				acked <- struct{}{}
				return
			}
		}
	}()
	select {
	case err := <-done:
		return err, false
	case <-acked:
	case <-time.After(600 * time.Millisecond):
	}
	cs.Write(encode(nil))
	ds.Close()
	cs.Close()
	select {
	case err := <-done:
		return err, false
	case <-time.After(3 * time.Second):
		a.Close()
		select {
		case err := <-done:
			return err, true
		case <-time.After(2 * time.Second):
			return fmt.Errorf("receiver never returned"), true
		}
	}
}
