package drivers

import "runtime"

type runtimeMem struct{}

// read returns the heap currently obtained from the OS plus in-use heap, in MB.
func (runtimeMem) read() float64 {
	var ms runtime.MemStats
	runtime.ReadMemStats(&ms)
	return float64(ms.HeapSys) / 1e6
}
