package drivers

import (
	"bytes"
	"fmt"
	"runtime"
	"strconv"
	"sync"
	"time"

	"github.com/sheerbytes/sheerbytes/internal/verifhook"
	"github.com/sheerbytes/sheerbytes/verifharness/internal/xfer"
)

// ---- goroutine gates ---------------------------------------------------------
// A gated operation is a goroutine calling real code; at every verifhook point
// it parks until the driver releases it.  The driver therefore, not the Go
// scheduler, decides the interleaving of the lock-free phases.

func curGoID() uint64 {
	var buf [64]byte
	n := runtime.Stack(buf[:], false)
	// "goroutine 123 [running]:"
	b := buf[:n]
	b = b[len("goroutine "):]
	i := bytes.IndexByte(b, ' ')
	id, _ := strconv.ParseUint(string(b[:i]), 10, 64)
	return id
}

type gateEv struct {
	Name string
	S    string
	A, B uint64
}

type gatedOp struct {
	name   string
	evCh   chan gateEv   // op -> driver: parked at a gate
	relCh  chan struct{} // driver -> op: continue
	doneCh chan any      // op -> driver: finished (value = recovered panic or nil)
	parked *gateEv
	done   bool
	panicV any
	skip   map[string]bool // gate names that are passed without parking
	only   map[string]bool // when set: the only gate names at which the op parks
}

type gateTable struct {
	mu  sync.Mutex
	ops map[uint64]*gatedOp
}

var gates = &gateTable{ops: map[uint64]*gatedOp{}}

var hooksOnce sync.Once

// extraHook receives every hook event after gating (trace collection etc.).
var extraHook func(name string, a, b uint64, s string)

func installHooks() {
	hooksOnce.Do(func() {
		verifhook.Set(func(name string, a, b uint64, s string) {
			xfer.HookTicks.Add(1)
			xfer.TraceEvent(name, a, b, s)
			hookGate(name, a, b, s)
			if h := extraHook; h != nil {
				h(name, a, b, s)
			}
		})
	})
}

// hookGate is installed as (part of) the verifhook handler.
func hookGate(name string, a, b uint64, s string) {
	gid := curGoID()
	gates.mu.Lock()
	op := gates.ops[gid]
	gates.mu.Unlock()
	if op == nil || op.skip[name] || (op.only != nil && !op.only[name]) {
		return
	}
	op.evCh <- gateEv{Name: name, S: s, A: a, B: b}
	<-op.relCh
}

// adoptCurrent makes the calling goroutine (started by the code under test) a gated operation that
// parks at the named gates only. The caller must await() it from the driver goroutine afterwards.
func adoptCurrent(name string, only ...string) *gatedOp {
	op := &gatedOp{name: name, evCh: make(chan gateEv), relCh: make(chan struct{}), doneCh: make(chan any, 1), skip: map[string]bool{}, only: map[string]bool{}}
	for _, o := range only {
		op.only[o] = true
	}
	gid := curGoID()
	gates.mu.Lock()
	gates.ops[gid] = op
	gates.mu.Unlock()
	return op
}

// startOp runs fn in a new gated goroutine and waits until it parks or ends.
func startOp(name string, skip []string, fn func()) *gatedOp {
	return startOpOnly(name, skip, nil, fn)
}

// startOpOnly: as startOp; when only is non-empty the op parks at those gates and at no others.
func startOpOnly(name string, skip, only []string, fn func()) *gatedOp {
	op := &gatedOp{name: name, evCh: make(chan gateEv), relCh: make(chan struct{}), doneCh: make(chan any, 1), skip: map[string]bool{}}
	for _, s := range skip {
		op.skip[s] = true
	}
	if len(only) > 0 {
		op.only = map[string]bool{}
		for _, o := range only {
			op.only[o] = true
		}
	}
	ready := make(chan struct{})
	go func() {
		gid := curGoID()
		gates.mu.Lock()
		gates.ops[gid] = op
		gates.mu.Unlock()
		close(ready)
		defer func() {
			r := recover()
			gates.mu.Lock()
			delete(gates.ops, gid)
			gates.mu.Unlock()
			op.doneCh <- r
		}()
		fn()
	}()
	<-ready
	op.await(5 * time.Second)
	return op
}

// await waits for the op to park at its next gate or to finish.
func (op *gatedOp) await(timeout time.Duration) (stuck bool) {
	select {
	case ev := <-op.evCh:
		op.parked = &ev
	case r := <-op.doneCh:
		op.done = true
		op.parked = nil
		op.panicV = r
	case <-time.After(timeout):
		return true
	}
	return false
}

// advance releases the op from its gate and waits for the next one / the end.
func (op *gatedOp) advance(timeout time.Duration) (stuck bool) {
	if op.done || op.parked == nil {
		return false
	}
	op.parked = nil
	op.relCh <- struct{}{}
	return op.await(timeout)
}

// finish releases the op through all remaining gates.
func (op *gatedOp) finish(timeout time.Duration) (stuck bool) {
	for i := 0; i < 1000 && !op.done; i++ {
		if op.parked == nil {
			if op.await(timeout) {
				return true
			}
			continue
		}
		if op.advance(timeout) {
			return true
		}
	}
	return false
}

func (op *gatedOp) String() string {
	if op.done {
		return fmt.Sprintf("%s[done panic=%v]", op.name, op.panicV)
	}
	if op.parked != nil {
		return fmt.Sprintf("%s[@%s %s]", op.name, op.parked.Name, op.parked.S)
	}
	return op.name + "[running]"
}
