package drivers

import (
	"io"
	"bytes"
	"context"
	"encoding/binary"
	"encoding/json"
	"flag"
	"fmt"
	"hash/crc32"
	"math/rand"
	"os"
	"os/exec"
	"path/filepath"
	"reflect"
	"strings"
	"syscall"
	"time"

	"github.com/sheerbytes/sheerbytes/internal/transfer"
	"github.com/sheerbytes/sheerbytes/pkg/manifest"
	"github.com/sheerbytes/sheerbytes/verifharness/internal/vnet"
	"github.com/sheerbytes/sheerbytes/verifharness/internal/xfer"
)

// ---- Wire.tla (values) <-> real encoders / decoders (C18) --------------------------------

type wireRow struct {
	Type string          `json:"type"`
	VLen json.RawMessage `json:"vlen"`
	Nums []string        `json:"nums"`
	Len  int             `json:"len"`
	Seq  []string        `json:"seq"`
	Over bool            `json:"over"`
}

// overLimitPath builds a path of exactly n bytes (n above the 1024-byte limit): ASCII for odd n,
// two-byte characters for even n (so that it stays below the limit when counted in characters).
func overLimitPath(n int) string {
	var b strings.Builder
	unit := "é"
	if n%2 == 1 {
		unit = "a"
	}
	seg := 0
	for b.Len() < n {
		if seg >= 100 && b.Len() < n-len(unit)-1 {
			b.WriteByte('/')
			seg = 0
			continue
		}
		if b.Len()+len(unit) > n {
			b.WriteByte('x')
			continue
		}
		b.WriteString(unit)
		seg++
	}
	return b.String()
}

func numU(class string, bits uint) uint64 {
	max := uint64(1)<<bits - 1
	if bits == 64 {
		max = ^uint64(0)
	}
	switch class {
	case "0":
		return 0
	case "1":
		return 1
	case "max-1":
		return max - 1
	}
	return max
}

const pathAlphabet = "abcdefghijklmnopqrstuvwxyzABCXYZ0123456789 _-+=,;@#$%&()[]{}'!~.é中\"<>\a\v\x01\x7f\t\n\U000E0001😀"

// legalPath builds a relative path of exactly n bytes that validateRelPath accepts.
func legalPath(rng *rand.Rand, n int) string {
	for {
		var b strings.Builder
		seg := 0
		for b.Len() < n {
			r := []rune(pathAlphabet)[rng.Intn(len([]rune(pathAlphabet)))]
			if b.Len()+len(string(r)) > n {
				r = 'x'
			}
			if seg > 0 && seg < 200 && rng.Intn(17) == 0 && b.Len() < n-1 {
				b.WriteByte('/')
				seg = 0
				continue
			}
			if seg >= 250 && b.Len() < n-1 {
				b.WriteByte('/')
				seg = 0
				continue
			}
			b.WriteRune(r)
			seg++
		}
		p := b.String()
		if len(p) == n && transfer.VerifValidateRelPath(p) == nil && !strings.HasSuffix(p, "/") && !strings.Contains(p, "//") {
			return p
		}
	}
}

func randBytes(rng *rand.Rand, n int) []byte {
	b := make([]byte, n)
	rng.Read(b)
	return b
}

// buildRecord concretises one abstract value.
func buildRecord(rng *rand.Rand, r wireRow) any {
	num := func(i int, bits uint) uint64 {
		if i < len(r.Nums) {
			return numU(r.Nums[i], bits)
		}
		return 1
	}
	var one int
	var two [2]int
	json.Unmarshal(r.VLen, &one)
	json.Unmarshal(r.VLen, &two)
	switch r.Type {
	case "FileBegin":
		path := ""
		if r.Over {
			path = overLimitPath(one)
		} else {
			path = legalPath(rng, one)
		}
		return transfer.FileBegin{RelPath: path, FileSize: num(0, 64), ChunkSize: uint32(num(1, 32)), StreamID: num(2, 64), HashAlg: byte(num(3, 8)),
			StripeIndex: uint16(num(4, 16)), StripeCount: uint16(num(5, 16)), StripeStart: uint32(num(6, 32)), StripeChunks: uint32(num(7, 32))}
	case "Credit":
		return transfer.Credit{StreamID: num(0, 64), Credits: uint32(num(1, 32))}
	case "CreditBatch":
		var es []transfer.Credit
		for i := 0; i < one; i++ {
			es = append(es, transfer.Credit{StreamID: rng.Uint64(), Credits: rng.Uint32()})
		}
		return transfer.CreditBatch{Entries: es}
	case "FileEnd":
		return transfer.FileEnd{StreamID: num(0, 64), CRC32: uint32(num(1, 32))}
	case "FileDone":
		msg := randBytes(rng, one)
		return transfer.FileDone{StreamID: num(0, 64), OK: num(1, 1) == 1, ErrMsg: string(msg)}
	case "FileResumeInfo":
		var bm []byte
		if two[1] > 0 {
			bm = randBytes(rng, two[1])
		}
		return transfer.FileResumeInfo{FileID: string(randBytes(rng, two[0])), StreamID: num(0, 64), TotalChunks: uint32(num(1, 32)), Bitmap: bm,
			LastVerifiedChunk: uint32(num(2, 32)), LastVerifiedHash: num(3, 64)}
	case "ResumeRequest":
		return transfer.ResumeRequest{FileID: string(randBytes(rng, one)), StreamID: num(0, 64)}
	case "DataStreams":
		return transfer.DataStreams{Count: uint16(num(0, 16))}
	case "End":
		return nil
	}
	panic("unknown type " + r.Type)
}

// segReader returns data in small pieces (like a network stream).
type segReader struct {
	r           *bytes.Reader
	max         int
	eofWithData bool
}

func (s *segReader) Read(p []byte) (int, error) {
	if len(p) > s.max {
		p = p[:s.max]
	}
	n, err := s.r.Read(p)
	if s.eofWithData && err == nil && s.r.Len() == 0 {
		// the last bytes arrive together with the end of the stream (a FIN riding in the last data frame)
		return n, io.EOF
	}
	return n, err
}

func equalRecord(a, b any) bool {
	// decoded empty slices / strings vs nil
	if fa, ok := a.(transfer.FileResumeInfo); ok {
		fb, ok2 := b.(transfer.FileResumeInfo)
		return ok2 && fa.FileID == fb.FileID && fa.StreamID == fb.StreamID && fa.TotalChunks == fb.TotalChunks &&
			bytes.Equal(fa.Bitmap, fb.Bitmap) && fa.LastVerifiedChunk == fb.LastVerifiedChunk && fa.LastVerifiedHash == fb.LastVerifiedHash
	}
	if ca, ok := a.(transfer.CreditBatch); ok {
		cb, ok2 := b.(transfer.CreditBatch)
		if !ok2 || len(ca.Entries) != len(cb.Entries) {
			return false
		}
		for i := range ca.Entries {
			if ca.Entries[i] != cb.Entries[i] {
				return false
			}
		}
		return true
	}
	return reflect.DeepEqual(a, b)
}

// WireValues: encode -> length check -> decode -> compare, for every enumerated value and sequence.
func WireValues(args []string) {
	fs := flag.NewFlagSet("wire-values", flag.ExitOnError)
	edges := fs.String("edges", "", "value rows")
	seqs := fs.String("seqs", "", "sequence rows")
	fill := fs.Int("fill", 3, "seeded fillings per abstract value")
	seed := fs.Int64("seed", 1, "seed")
	fs.Parse(args)
	res := &Result{Extra: map[string]any{}}
	rng := rand.New(rand.NewSource(*seed))
	rows, err := loadRows[wireRow](*edges)
	if err != nil {
		panic(err)
	}
	byType := map[string]int{}
	check := func(kind string, recs []any, wantLens []int, replay any) {
		var buf bytes.Buffer
		for i, rec := range recs {
			before := buf.Len()
			if err := transfer.VerifWriteRecord(&buf, rec); err != nil {
				res.AddViolation(map[string]any{"kind": "encoder_rejects_value_within_limits", "case": kind}, map[string]any{"row": replay, "err": err.Error()})
				return
			}
			if wantLens != nil && buf.Len()-before != wantLens[i] {
				res.AddDrift(map[string]any{"why": "encoded length differs from Wire.tla's EncodedLen", "row": replay, "got": buf.Len() - before, "want": wantLens[i]})
			}
		}
		for _, segment := range []int{1 << 30, 1200, 7, -1200, -7} {
			// (negative: pieces of that size, the last one delivered together with io.EOF)
			rd := &segReader{r: bytes.NewReader(buf.Bytes()), max: segment}
			if segment < 0 {
				rd.max, rd.eofWithData = -segment, true
			}
			gots := make([]any, 0, len(recs))
			for i := range recs {
				_, got, err := transfer.VerifReadControlMessage(rd)
				if err != nil {
					res.AddViolation(map[string]any{"kind": "decoder_fails_on_encoded_record", "case": kind}, map[string]any{"row": replay, "index": i, "err": err.Error(), "segment": segment})
					return
				}
				gots = append(gots, got)
			}
			// compared once the whole sequence has been decoded: a decoded value must not change when the next one is read
			for i, rec := range recs {
				if !equalRecord(rec, gots[i]) {
					res.AddViolation(map[string]any{"kind": "decoded_value_differs", "case": kind}, map[string]any{"row": replay, "index": i, "segment": segment, "of": len(recs)})
					return
				}
			}
			if rd.r.Len() != 0 {
				res.AddViolation(map[string]any{"kind": "decoder_left_bytes_unconsumed", "case": kind}, map[string]any{"row": replay, "left": rd.r.Len()})
				return
			}
			// nothing more to read: the next decode must report the end of the stream, not a record
			if _, _, err := transfer.VerifReadControlMessage(rd); err == nil {
				res.AddViolation(map[string]any{"kind": "decoder_reads_past_the_frame", "case": kind}, map[string]any{"row": replay})
				return
			}
		}
	}
	for i, r := range rows {
		for f := 0; f < *fill; f++ {
			rec := buildRecord(rng, r)
			if r.Over {
				// over the field's limit: the encoder must refuse and write nothing; whatever it does write must decode
				var buf bytes.Buffer
				err := transfer.VerifWriteRecord(&buf, rec)
				switch {
				case err != nil && buf.Len() == 0:
				case err != nil:
					res.AddViolation(map[string]any{"kind": "encoder_wrote_part_of_a_refused_record", "case": r.Type}, map[string]any{"row": r, "bytes": buf.Len()})
				default:
					_, got, derr := transfer.VerifReadControlMessage(&segReader{r: bytes.NewReader(buf.Bytes()), max: 1 << 30})
					if derr != nil || !equalRecord(rec, got) {
						res.AddViolation(map[string]any{"kind": "decoder_fails_on_encoded_record", "case": r.Type + " over the path limit"},
							map[string]any{"row": r, "err": fmt.Sprint(derr), "path_bytes": len(rec.(transfer.FileBegin).RelPath)})
					}
				}
				res.Steps++
				continue
			}
			check(r.Type, []any{rec}, []int{r.Len}, r)
			res.Steps++
		}
		res.Behaviours++
		byType[r.Type]++
		res.Distinct++
		if i%257 == 0 {
			res.AddSample(r, 8)
		}
	}
	// sequences of records, one seeded value per position
	if *seqs != "" {
		srows, err := loadRows[wireRow](*seqs)
		if err != nil {
			panic(err)
		}
		byTypeRows := map[string][]wireRow{}
		for _, r := range rows {
			if r.Over {
				continue // over-limit values are refused by the encoder: not part of a sequence
			}
			byTypeRows[r.Type] = append(byTypeRows[r.Type], r)
		}
		for i, sr := range srows {
			var recs []any
			var lens []int
			for _, t := range sr.Seq {
				cands := byTypeRows[t]
				r := cands[rng.Intn(len(cands))]
				recs = append(recs, buildRecord(rng, r))
				lens = append(lens, r.Len)
			}
			check("sequence", recs, lens, sr)
			res.Behaviours++
			res.Steps += len(recs)
			if i%199 == 0 {
				res.AddSample(sr, 10)
			}
		}
		res.Extra["sequences"] = len(srows)
	}
	// manifest header round trips (also chained with records behind them)
	for i := 0; i < 40**fill; i++ {
		n := []int{0, 1, 2, 17, 300}[i%5]
		m := manifest.Manifest{Root: []string{"root", "sel ection", "ümläut", ""}[i%4]}
		for k := 0; k < n; k++ {
			it := manifest.FileItem{RelPath: legalPath(rng, 1+rng.Intn(60)), Size: int64(rng.Uint64() >> uint(1+rng.Intn(40))), ModTime: rng.Int63n(1 << 33), IsDir: rng.Intn(5) == 0, ID: fmt.Sprintf("%016x", rng.Uint64())}
			m.Items = append(m.Items, it)
			if !it.IsDir {
				m.FileCount++
				m.TotalBytes += it.Size
			} else {
				m.FolderCount++
			}
		}
		var buf bytes.Buffer
		if err := transfer.VerifWriteControlHeader(&buf, m); err != nil {
			res.AddViolation(map[string]any{"kind": "encoder_rejects_value_within_limits", "case": "Header"}, map[string]any{"err": err.Error()})
			continue
		}
		transfer.VerifWriteRecord(&buf, transfer.DataStreams{Count: 3})
		rd := &segReader{r: bytes.NewReader(buf.Bytes()), max: 1 + rng.Intn(2000)}
		got, err := transfer.VerifReadControlHeader(rd)
		if err != nil {
			res.AddViolation(map[string]any{"kind": "decoder_fails_on_encoded_record", "case": "Header"}, map[string]any{"err": err.Error(), "items": n})
			continue
		}
		if len(m.Items) == 0 {
			m.Items = nil
			if len(got.Items) == 0 {
				got.Items = nil
			}
		}
		if !reflect.DeepEqual(m, got) {
			res.AddViolation(map[string]any{"kind": "decoded_value_differs", "case": "Header"}, map[string]any{"items": n})
		}
		if typ, _, err := transfer.VerifReadControlMessage(rd); err != nil || typ != transfer.VerifTypeDataStreams || rd.r.Len() != 0 {
			res.AddViolation(map[string]any{"kind": "decoder_left_bytes_unconsumed", "case": "Header"}, map[string]any{"items": n})
		}
		res.Steps++
	}
	// one manifest document well above 16 MiB (the length prefix has 32 bits; a tree of some ten thousand long paths)
	{
		m := manifest.Manifest{Root: "big"}
		stem := legalPath(rng, 400)
		for k := 0; k < 45000; k++ {
			it := manifest.FileItem{RelPath: fmt.Sprintf("%s/%06d", stem, k), Size: int64(k), ModTime: 1700000000 + int64(k), ID: fmt.Sprintf("%016x", rng.Uint64())}
			m.Items = append(m.Items, it)
			m.FileCount++
			m.TotalBytes += it.Size
		}
		var buf bytes.Buffer
		if err := transfer.VerifWriteControlHeader(&buf, m); err != nil {
			res.AddViolation(map[string]any{"kind": "encoder_rejects_value_within_limits", "case": "Header"}, map[string]any{"err": err.Error(), "items": len(m.Items)})
		} else {
			size := buf.Len()
			got, err := transfer.VerifReadControlHeader(&segReader{r: bytes.NewReader(buf.Bytes()), max: 1 << 16})
			if err != nil {
				res.AddViolation(map[string]any{"kind": "decoder_fails_on_encoded_record", "case": "Header"}, map[string]any{"err": err.Error(), "items": len(m.Items), "document_bytes": size})
			} else if !reflect.DeepEqual(m, got) {
				res.AddViolation(map[string]any{"kind": "decoded_value_differs", "case": "Header"}, map[string]any{"items": len(m.Items), "document_bytes": size})
			}
			res.Extra["largest_header_bytes"] = size
		}
		res.Steps++
	}
	res.Extra["rows_by_type"] = byType
	res.Print()
}

// ---- Wire.tla (mutations) <-> real decoders and endpoints (C15) ----------------------------------

type mutRow struct {
	Type       string `json:"type"`
	Stage      string `json:"stage"`
	Mutation   string `json:"mutation"`
	MustReject bool   `json:"mustReject"`
}

// mutations a record decoder alone can notice (the others are semantic and judged at the endpoints)
var syntactic = map[string]bool{"truncate-at-field": true, "truncate-inside-field": true, "unknown-type": true, "path-too-long": true,
	"bad-magic": true, "garbage-json": true, "length-2^31": true, "length-2^32-1": true, "length-plus1": true}

type mutCase struct {
	Row  mutRow `json:"row"`
	Fill int    `json:"fill"`
	Seed int64  `json:"seed"`
}

type mutOutcome struct {
	Case     mutCase `json:"case"`
	Target   string  `json:"target"`
	Returned bool    `json:"returned"`
	Err      string  `json:"err"`
	Panic    string  `json:"panic"`
	Ms       int64   `json:"ms"`
	HeapMB   float64 `json:"heapMB"`
	Bytes    int     `json:"bytes"`
	KeepOpen string  `json:"data_stream_ends_inside,omitempty"`
}

// WireMutations: parent. Cases run in child processes (address-space limit, crash isolation).
func WireMutations(args []string) {
	fs := flag.NewFlagSet("wire-mutations", flag.ExitOnError)
	edges := fs.String("edges", "", "mutation rows")
	fill := fs.Int("fill", 3, "seeded fillings per case")
	seed := fs.Int64("seed", 1, "seed")
	shard := fs.Int("shard", 0, "shard")
	shards := fs.Int("shards", 1, "shards")
	fs.Parse(args)
	rows, err := loadRows[mutRow](*edges)
	if err != nil {
		panic(err)
	}
	res := &Result{Extra: map[string]any{}}
	self, _ := os.Executable()
	outcomes := map[string]int{}
	n := 0
	for _, r := range rows {
		for f := 0; f < *fill; f++ {
			n++
			if n%*shards != *shard {
				continue
			}
			c := mutCase{Row: r, Fill: f, Seed: *seed*100000 + int64(n)}
			cj, _ := json.Marshal(c)
			cmd := exec.Command(self, "wire-case", "-case", string(cj))
			var so, se bytes.Buffer
			cmd.Stdout, cmd.Stderr = &so, &se
			start := time.Now()
			done := make(chan error, 1)
			cmd.Start()
			go func() { done <- cmd.Wait() }()
			var werr error
			select {
			case werr = <-done:
			case <-time.After(20 * time.Second):
				cmd.Process.Kill()
				<-done
				res.AddViolation(map[string]any{"kind": "case_process_hung", "mutation": r.Mutation, "type": r.Type}, map[string]any{"case": c})
				outcomes["hung"]++
				continue
			}
			res.Behaviours++
			res.Distinct++
			stderr := se.String()
			if werr != nil {
				kind := "crash"
				switch {
				case strings.Contains(stderr, "out of memory") || strings.Contains(stderr, "cannot allocate memory"):
					kind = "allocation_out_of_proportion"
				case strings.Contains(stderr, "panic:"):
					kind = "panic"
				}
				line := ""
				for _, l := range strings.Split(stderr, "\n") {
					if strings.HasPrefix(l, "panic:") || strings.HasPrefix(l, "fatal error:") {
						line = l
						break
					}
				}
				res.AddViolation(map[string]any{"kind": kind, "mutation": r.Mutation, "type": r.Type, "msg": trunc(line)}, map[string]any{"case": c, "stderr_tail": stderr[max0(len(stderr)-600):]})
				outcomes[kind]++
				continue
			}
			// one JSON line per target
			for _, l := range strings.Split(strings.TrimSpace(so.String()), "\n") {
				var o mutOutcome
				if json.Unmarshal([]byte(l), &o) != nil {
					continue
				}
				res.Steps++
				switch {
				case o.Panic != "":
					res.AddViolation(map[string]any{"kind": "panic", "mutation": r.Mutation, "type": r.Type, "target": o.Target, "msg": trunc(o.Panic)}, o)
					outcomes["panic"]++
				case !o.Returned:
					res.AddViolation(map[string]any{"kind": "no_prompt_return_after_input_ended", "mutation": r.Mutation, "type": r.Type, "target": o.Target}, o)
					outcomes["blocked"]++
				case o.HeapMB > 64+float64(o.Bytes)*4/1e6:
					res.AddViolation(map[string]any{"kind": "allocation_out_of_proportion", "mutation": r.Mutation, "type": r.Type, "target": o.Target}, o)
					outcomes["alloc"]++
				case o.Err == "" && r.MustReject && o.Target != "decoder":
					// an endpoint that reports success for a stream the grammar rejects
					res.AddViolation(map[string]any{"kind": "endpoint_accepts_malformed_stream", "mutation": r.Mutation, "type": r.Type, "target": o.Target}, o)
					outcomes["endpoint_accepted_malformed"]++
				case o.Err == "" && r.MustReject && o.Target == "decoder" && syntactic[r.Mutation]:
					res.AddDrift(map[string]any{"why": "decoder accepts a stream the grammar rejects", "outcome": o})
					outcomes["accepted_unexpectedly"]++
				case o.Err == "":
					outcomes["accepted"]++
				default:
					outcomes["error_returned"]++
				}
				if n%41 == 0 {
					res.AddSample(map[string]any{"mutation": r.Mutation, "type": r.Type, "stage": r.Stage, "target": o.Target, "err": trunc(o.Err), "ms": o.Ms}, 8)
				}
			}
			_ = start
		}
	}
	res.Extra["outcomes"] = outcomes
	res.Extra["mutation_rows"] = len(rows)
	res.Print()
}

func max0(x int) int {
	if x < 0 {
		return 0
	}
	return x
}

// ---- the child: builds the mutated stream and feeds decoders / endpoints -----------------------

func be16(v int) []byte { b := make([]byte, 2); binary.BigEndian.PutUint16(b, uint16(v)); return b }
func be32(v uint64) []byte {
	b := make([]byte, 4)
	binary.BigEndian.PutUint32(b, uint32(v))
	return b
}

func encode(rec any) []byte {
	var b bytes.Buffer
	transfer.VerifWriteRecord(&b, rec)
	return b.Bytes()
}

func chunkFrame(key uint64, idx uint32, payload []byte, crcOK bool, lenField int) []byte {
	h := make([]byte, 20)
	binary.BigEndian.PutUint64(h[0:8], key)
	binary.BigEndian.PutUint32(h[8:12], idx)
	if lenField < 0 {
		lenField = len(payload)
	}
	binary.BigEndian.PutUint32(h[12:16], uint32(lenField))
	c := crc32.Checksum(payload, crc32.MakeTable(crc32.Castagnoli))
	if !crcOK {
		c ^= 0x5a5a
	}
	binary.BigEndian.PutUint32(h[16:20], c)
	return append(h, payload...)
}

// mutateRecord applies a length / truncation mutation to the encoding of rec.
// fieldPos: offsets of field starts inside the encoding (for truncation).
func mutateBytes(rng *rand.Rand, enc []byte, m string, lenOff int, lenWidth int) []byte {
	out := append([]byte(nil), enc...)
	setLen := func(v uint64) {
		if lenOff < 0 || lenOff+lenWidth > len(out) {
			return
		}
		if lenWidth == 2 {
			binary.BigEndian.PutUint16(out[lenOff:], uint16(v))
		} else {
			binary.BigEndian.PutUint32(out[lenOff:], uint32(v))
		}
	}
	cur := uint64(0)
	if lenOff >= 0 && lenOff+lenWidth <= len(out) {
		if lenWidth == 2 {
			cur = uint64(binary.BigEndian.Uint16(out[lenOff:]))
		} else {
			cur = uint64(binary.BigEndian.Uint32(out[lenOff:]))
		}
	}
	switch m {
	case "truncate-at-field":
		cut := []int{1, 3, 9, 11, 13}[rng.Intn(5)]
		if cut >= len(out) {
			cut = len(out) - 1
		}
		return out[:cut]
	case "truncate-inside-field":
		if len(out) < 2 {
			return out[:0]
		}
		return out[:1+rng.Intn(len(out)-1)]
	case "unknown-type":
		out[0] = []byte{0x00, 0x01, 0x18, 0x7f, 0xfe}[rng.Intn(5)]
	case "length-0":
		setLen(0)
	case "length-1":
		setLen(1)
	case "length-plus1":
		setLen(cur + 1)
	case "length-65535":
		setLen(65535)
	case "length-2^31":
		setLen(1 << 31)
	case "length-2^32-1":
		setLen(1<<32 - 1)
	}
	return out
}

type caseCtx struct {
	tail  []byte
	fill  int
	rng   *rand.Rand
	m     manifest.Manifest
	files []manifest.FileItem
	src   string
	chunk uint32
}

func newCaseCtx(seed int64, dir string) *caseCtx {
	c := &caseCtx{rng: rand.New(rand.NewSource(seed)), chunk: 16}
	c.src = filepath.Join(dir, "src", "payload")
	xfer.MakeTree(c.src, []xfer.FileSpec{{Rel: "a.bin", Size: 40}, {Rel: "d/b.bin", Size: 5}, {Rel: "z-empty.bin", Size: 0}}, seed)
	c.m, _, _ = xfer.Scan(c.src, false)
	for _, it := range c.m.Items {
		if !it.IsDir {
			c.files = append(c.files, it)
		}
	}
	return c
}

// senderScript returns the byte strings a (possibly hostile) sender writes on the control stream and on data stream 1.
func (c *caseCtx) senderScript(r mutRow) (ctrl []byte, data []byte) {
	var cb, db bytes.Buffer
	hdr := func() []byte { var b bytes.Buffer; transfer.VerifWriteControlHeader(&b, c.m); return b.Bytes() }()
	f0 := c.files[0]
	key0 := transfer.VerifFileKey(f0)
	src0, _ := os.ReadFile(filepath.Join(c.src, filepath.FromSlash(f0.RelPath)))
	begin := transfer.FileBegin{RelPath: f0.RelPath, FileSize: uint64(f0.Size), ChunkSize: c.chunk, StreamID: key0, HashAlg: 1}
	mut := r.Mutation
	isT := func(t string) bool { return r.Type == t }
	// header
	switch {
	case isT("Header") && mut == "bad-magic":
		h := append([]byte(nil), hdr...)
		h[c.rng.Intn(4)] ^= 0x20
		cb.Write(h)
	case isT("Header") && mut == "garbage-json":
		g := randBytes(c.rng, 40)
		cb.WriteString("SBC1")
		cb.Write(be32(uint64(len(g))))
		cb.Write(g)
	case isT("Header") && mut == "item-without-id":
		// a manifest whose entries carry no id (the field is optional in the document), then an ordinary transfer with a
		// resume negotiation for every file that has content
		m2 := c.m
		m2.Items = append([]manifest.FileItem(nil), c.m.Items...)
		for i := range m2.Items {
			m2.Items[i].ID = ""
		}
		var hb bytes.Buffer
		transfer.VerifWriteControlHeader(&hb, m2)
		cb.Write(hb.Bytes())
		cb.Write(encode(transfer.DataStreams{Count: 1}))
		for _, f := range c.files {
			f.ID = ""
			key := transfer.VerifFileKey(f)
			data, _ := os.ReadFile(filepath.Join(c.src, filepath.FromSlash(f.RelPath)))
			cb.Write(encode(transfer.FileBegin{RelPath: f.RelPath, FileSize: uint64(f.Size), ChunkSize: c.chunk, StreamID: key, HashAlg: 1}))
			if len(data) > 0 {
				cb.Write(encode(transfer.ResumeRequest{FileID: "", StreamID: key}))
			}
			for off := 0; off < len(data); off += int(c.chunk) {
				hi := off + int(c.chunk)
				if hi > len(data) {
					hi = len(data)
				}
				db.Write(chunkFrame(key, uint32(off/int(c.chunk)), data[off:hi], true, -1))
			}
			cb.Write(encode(transfer.FileEnd{StreamID: key}))
		}
		c.tail = encode(nil)
		return cb.Bytes(), db.Bytes()
	case isT("Header") && (strings.HasPrefix(mut, "length-") || strings.HasPrefix(mut, "truncate")):
		cb.Write(mutateBytes(c.rng, hdr, mut, 4, 4))
		if strings.HasPrefix(mut, "truncate") {
			return cb.Bytes(), nil
		}
	default:
		cb.Write(hdr)
	}
	if isT("Header") {
		return cb.Bytes(), nil
	}
	// announce
	ds := encode(transfer.DataStreams{Count: 1})
	if isT("DataStreams") {
		switch mut {
		case "count-inconsistent":
			ds = encode(transfer.DataStreams{Count: uint16([]int{0, 2, 9, 65535}[c.rng.Intn(4)])})
		default:
			ds = mutateBytes(c.rng, ds, mut, -1, 0)
		}
		cb.Write(ds)
		if strings.HasPrefix(mut, "truncate") {
			return cb.Bytes(), nil
		}
	} else {
		cb.Write(ds)
	}
	if r.Stage == "announce" && mut == "unknown-type" {
		return cb.Bytes(), nil
	}
	// per-file records
	switch {
	case isT("FileBegin"):
		enc := encode(begin)
		switch mut {
		case "path-too-long":
			long := strings.Repeat("p", 1025+c.rng.Intn(3000))
			enc = append([]byte{transfer.VerifTypeFileBegin}, be16(len(long))...)
			enc = append(enc, long...)
			enc = append(enc, make([]byte, 33)...)
		case "path-traversal":
			p := []string{"../x", "a/../../x", "/abs/x", "..", "a/..", "./../x"}[c.rng.Intn(6)]
			enc = append([]byte{transfer.VerifTypeFileBegin}, be16(len(p))...)
			enc = append(enc, p...)
			enc = append(enc, encode(begin)[3+len(begin.RelPath):]...)
		case "duplicate-begin":
			cb.Write(enc)
			cb.Write(enc)
			c.restOfTransfer(&cb, &db, 0)
			return cb.Bytes(), db.Bytes()
		case "chunksize-0-empty-file":
			// a zero-length file announced with chunk size 0, followed by a chunk frame for it
			fe := c.files[len(c.files)-1]
			keyE := transfer.VerifFileKey(fe)
			cb.Write(encode(transfer.FileBegin{RelPath: fe.RelPath, FileSize: 0, ChunkSize: 0, StreamID: keyE, HashAlg: 1}))
			db.Write(chunkFrame(keyE, 0, src0[:1+c.rng.Intn(8)], true, -1))
			cb.Write(encode(transfer.FileEnd{StreamID: keyE}))
			return cb.Bytes(), db.Bytes()
		case "chunksize-huge":
			// a chunk size far beyond the file (and beyond anything that will ever be sent in one frame)
			b2 := begin
			b2.ChunkSize = uint32([]uint64{1 << 31, 1<<32 - 1, 1 << 30}[c.rng.Intn(3)])
			cb.Write(encode(b2))
			db.Write(chunkFrame(key0, 0, src0, true, -1))
			cb.Write(encode(transfer.FileEnd{StreamID: key0}))
			c.restOfTransfer(&cb, &db, 1)
			return cb.Bytes(), db.Bytes()
		case "begin-after-done":
			// the first file is delivered completely, then announced again
			cb.Write(enc)
			for off := 0; off < len(src0); off += int(c.chunk) {
				hi := off + int(c.chunk)
				if hi > len(src0) {
					hi = len(src0)
				}
				db.Write(chunkFrame(key0, uint32(off/int(c.chunk)), src0[off:hi], true, -1))
			}
			cb.Write(encode(transfer.FileEnd{StreamID: key0}))
			cb.Write(enc)
			c.restOfTransfer(&cb, &db, 1)
			return cb.Bytes(), db.Bytes()
		case "chunksize-0":
			b2 := begin
			b2.ChunkSize = 0
			enc = encode(b2)
			cb.Write(enc)
			db.Write(chunkFrame(key0, 0, src0[:8], true, -1))
			cb.Write(encode(transfer.FileEnd{StreamID: key0}))
			return cb.Bytes(), db.Bytes()
		default:
			enc = mutateBytes(c.rng, enc, mut, 1, 2)
		}
		cb.Write(enc)
		return cb.Bytes(), db.Bytes()
	case isT("CreditBatch"):
		enc := encode(transfer.CreditBatch{Entries: []transfer.Credit{{StreamID: 1, Credits: 2}}})
		cb.Write(mutateBytes(c.rng, enc, mut, 1, 4))
		return cb.Bytes(), nil
	}
	cb.Write(encode(begin))
	switch {
	case isT("ResumeRequest"):
		req := transfer.ResumeRequest{FileID: f0.ID, StreamID: key0}
		if mut == "request-for-unknown-file" {
			req.StreamID = key0 ^ 0xffff
			cb.Write(encode(req))
			c.restOfTransfer(&cb, &db, 0)
			return cb.Bytes(), db.Bytes()
		} else {
			cb.Write(mutateBytes(c.rng, encode(req), mut, 1, 2))
		}
		return cb.Bytes(), nil
	case isT("ChunkFrame"):
		switch mut {
		case "index-ge-total":
			total := uint32((len(src0) + int(c.chunk) - 1) / int(c.chunk))
			idx := total + uint32(c.fill)
			if c.fill > 1 {
				idx = total + uint32(c.rng.Intn(1<<20))
			}
			db.Write(chunkFrame(key0, idx, src0[:8], true, -1))
			// everything else is a complete, correct transfer: an endpoint that tolerated the bad frame reports success
			c.restOfTransfer(&cb, &db, 0)
		case "chunk-length-0":
			db.Write(chunkFrame(key0, 0, nil, true, 0))
		case "chunk-length-gt-chunksize":
			db.Write(chunkFrame(key0, 0, src0[:16], true, 17+c.rng.Intn(1<<28)))
		case "crc-mismatch":
			db.Write(chunkFrame(key0, 1, src0[16:32], false, -1))
			c.restOfTransfer(&cb, &db, 0)
		default:
			fr := chunkFrame(key0, 0, src0[:16], true, -1)
			db.Write(mutateBytes(c.rng, fr, mut, -1, 0))
		}
		return cb.Bytes(), db.Bytes()
	case isT("FileEnd"):
		if mut == "end-for-unknown-file" {
			cb.Write(encode(transfer.FileEnd{StreamID: key0 ^ 0xabc}))
			c.restOfTransfer(&cb, &db, 0)
			return cb.Bytes(), db.Bytes()
		} else {
			cb.Write(mutateBytes(c.rng, encode(transfer.FileEnd{StreamID: key0}), mut, -1, 0))
		}
		return cb.Bytes(), nil
	case isT("End"):
		if mut == "end-with-files-missing" {
			cb.Write(encode(nil))
		} else {
			cb.Write(mutateBytes(c.rng, encode(nil), mut, -1, 0))
		}
		return cb.Bytes(), nil
	}
	if mut == "wrong-direction-record" {
		cb.Write(encode(transfer.FileDone{StreamID: key0, OK: true}))
		return cb.Bytes(), nil
	}
	if mut == "unknown-type" {
		cb.Write([]byte{0x7e, 1, 2, 3})
	}
	return cb.Bytes(), db.Bytes()
}

// restOfTransfer appends a complete and correct conversation for every file from index `from`
// on (file 0's FileBegin is assumed to be written already when from == 0), then End.
func (c *caseCtx) restOfTransfer(cb, db *bytes.Buffer, from int) {
	for i := from; i < len(c.files); i++ {
		f := c.files[i]
		key := transfer.VerifFileKey(f)
		data, _ := os.ReadFile(filepath.Join(c.src, filepath.FromSlash(f.RelPath)))
		if i > 0 {
			cb.Write(encode(transfer.FileBegin{RelPath: f.RelPath, FileSize: uint64(f.Size), ChunkSize: c.chunk, StreamID: key, HashAlg: 1}))
		}
		for off := 0; off < len(data); off += int(c.chunk) {
			hi := off + int(c.chunk)
			if hi > len(data) {
				hi = len(data)
			}
			db.Write(chunkFrame(key, uint32(off/int(c.chunk)), data[off:hi], true, -1))
		}
		cb.Write(encode(transfer.FileEnd{StreamID: key}))
	}
	c.tail = encode(nil) // written once the receiver acknowledged the files, as a real sender does
}

func heapMB() float64 {
	var ms runtimeMem
	return ms.read()
}

// WireCase runs one mutation case inside a process with a bounded address space.
func WireCase(args []string) {
	fs := flag.NewFlagSet("wire-case", flag.ExitOnError)
	cj := fs.String("case", "", "case json")
	fs.Parse(args)
	var c mutCase
	if err := json.Unmarshal([]byte(*cj), &c); err != nil {
		panic(err)
	}
	// 3 GiB of address space: a decoder that reserves memory from a 32-bit length prefix dies here
	syscall.Setrlimit(syscall.RLIMIT_AS, &syscall.Rlimit{Cur: 3 << 30, Max: 3 << 30})
	dir, _ := os.MkdirTemp("", "wirecase-")
	defer os.RemoveAll(dir)
	ctx := newCaseCtx(c.Seed, dir)
	ctx.fill = c.Fill
	emit := func(o mutOutcome) {
		o.Case = c
		b, _ := json.Marshal(o)
		fmt.Println(string(b))
	}
	r := c.Row
	if r.Stage == "acks" {
		// the hostile side is the receiver: real sender against a scripted peer
		runSenderCase(ctx, r, emit)
		return
	}
	ctrl, data := ctx.senderScript(r)
	// 1. decoders directly, stream ends after the bytes
	func() {
		o := mutOutcome{Target: "decoder", Bytes: len(ctrl)}
		h0 := heapMB()
		t0 := time.Now()
		done := make(chan struct{})
		go func() {
			defer close(done)
			defer func() {
				if p := recover(); p != nil {
					o.Panic = fmt.Sprint(p)
				}
			}()
			rd := bytes.NewReader(ctrl)
			if _, err := transfer.VerifReadControlHeader(rd); err != nil {
				o.Err = err.Error()
				return
			}
			for rd.Len() > 0 {
				if _, _, err := transfer.VerifReadControlMessage(rd); err != nil {
					o.Err = err.Error()
					return
				}
			}
		}()
		select {
		case <-done:
			o.Returned = true
		case <-time.After(3 * time.Second):
		}
		o.Ms = time.Since(t0).Milliseconds()
		o.HeapMB = heapMB() - h0
		emit(o)
	}()
	// 2. the real receiving endpoint fed by the script; the script closes its streams when it is done
	func() {
		o := mutOutcome{Target: "RecvManifestMultiStream", Bytes: len(ctrl) + len(data)}
		p := vnet.NewPair(vnet.Options{})
		defer p.Shutdown()
		a := p.End(vnet.A)
		h0 := heapMB()
		t0 := time.Now()
		done := make(chan struct{})
		go func() {
			defer close(done)
			defer func() {
				if pv := recover(); pv != nil {
					o.Panic = fmt.Sprint(pv)
				}
			}()
			_, err := transfer.RecvManifestMultiStream(context.Background(), p.End(vnet.B), filepath.Join(dir, "out"), transfer.Options{ParallelFiles: 1, Resume: c.Fill%2 == 1 || c.Row.Mutation == "item-without-id"})
			if err != nil {
				o.Err = err.Error()
			}
		}()
		cs, _ := a.OpenStream(context.Background())
		ds, _ := a.OpenStream(context.Background())
		cs.Write(ctrl)
		if len(data) > 0 {
			ds.Write(data)
		}
		if len(ctx.tail) > 0 {
			// behave like a real sender for the rest: End only after the receiver acknowledged every file
			acks := make(chan struct{}, 16)
			go func() {
				for {
					typ, _, err := transfer.VerifReadControlMessage(cs)
					if err != nil {
						return
					}
					if typ == transfer.VerifTypeFileDone {
						acks <- struct{}{}
					}
				}
			}()
			deadline := time.After(1500 * time.Millisecond)
		wait:
			for n := 0; n < len(ctx.files); n++ {
				select {
				case <-acks:
				case <-deadline:
					break wait
				case <-done:
					break wait
				}
			}
			cs.Write(ctx.tail)
		}
		// input ends: FIN on every stream (the hostile sender keeps the connection itself open);
		// the control stream is closed a little later so that the data stream is really consumed
		ds.Close()
		time.Sleep(120 * time.Millisecond)
		cs.Close()
		select {
		case <-done:
			o.Returned = true
		case <-time.After(4 * time.Second):
		}
		o.Ms = time.Since(t0).Milliseconds()
		o.HeapMB = heapMB() - h0
		emit(o)
	}()
	// 3. the data stream ends inside a chunk frame while the control stream stays open and silent: the receiver
	// must still report the truncated record promptly (it must not take the end of the stream for a clean finish)
	if cut := endsInsideFrame(data); cut != "" {
		o := mutOutcome{Target: "RecvManifestMultiStream (control stream kept open)", Bytes: len(ctrl) + len(data)}
		p := vnet.NewPair(vnet.Options{})
		defer p.Shutdown()
		a := p.End(vnet.A)
		h0 := heapMB()
		t0 := time.Now()
		done := make(chan struct{})
		go func() {
			defer close(done)
			defer func() {
				if pv := recover(); pv != nil {
					o.Panic = fmt.Sprint(pv)
				}
			}()
			_, err := transfer.RecvManifestMultiStream(context.Background(), p.End(vnet.B), filepath.Join(dir, "out3"), transfer.Options{ParallelFiles: 1, Resume: c.Fill%2 == 1 || c.Row.Mutation == "item-without-id"})
			if err != nil {
				o.Err = err.Error()
			}
		}()
		cs, _ := a.OpenStream(context.Background())
		ds, _ := a.OpenStream(context.Background())
		cs.Write(ctrl)
		ds.Write(data)
		ds.Close()
		select {
		case <-done:
			o.Returned = true
		case <-time.After(4 * time.Second):
		}
		cs.Close()
		o.Ms = time.Since(t0).Milliseconds()
		o.HeapMB = heapMB() - h0
		o.KeepOpen = cut
		emit(o)
	}
}

// endsInsideFrame reports whether the data-stream bytes stop strictly inside a chunk frame
// (20-byte header: key, index, length, crc; then the payload), and where.
func endsInsideFrame(data []byte) string {
	off := 0
	for off < len(data) {
		if len(data)-off < 20 {
			return "header"
		}
		l := int(uint32(data[off+12])<<24 | uint32(data[off+13])<<16 | uint32(data[off+14])<<8 | uint32(data[off+15]))
		if l <= 0 || l > 1<<20 {
			return "" // not a plausible frame: other mutations' subject
		}
		if len(data)-off-20 < l {
			return "payload"
		}
		off += 20 + l
	}
	return ""
}

// runSenderCase: real SendManifestMultiStream whose peer answers with mutated acknowledgement records.
func runSenderCase(ctx *caseCtx, r mutRow, emit func(mutOutcome)) {
	o := mutOutcome{Target: "SendManifestMultiStream"}
	p := vnet.NewPair(vnet.Options{})
	defer p.Shutdown()
	b := p.End(vnet.B)
	t0 := time.Now()
	h0 := heapMB()
	done := make(chan struct{})
	go func() {
		defer close(done)
		defer func() {
			if pv := recover(); pv != nil {
				o.Panic = fmt.Sprint(pv)
			}
		}()
		err := transfer.SendManifestMultiStream(context.Background(), p.End(vnet.A), ctx.src, ctx.m, transfer.Options{ChunkSize: ctx.chunk, ParallelFiles: 1, Resume: true})
		if err != nil {
			o.Err = err.Error()
		}
	}()
	cs, err := b.AcceptStream(context.Background())
	if err == nil {
		f0 := ctx.files[0]
		key := transfer.VerifFileKey(f0)
		var reply []byte
		switch r.Type {
		case "FileDone":
			enc := encode(transfer.FileDone{StreamID: key, OK: false, ErrMsg: "boom"})
			if r.Mutation == "filedone-twice" {
				// every file is acknowledged twice, right after its FileEnd has been read from the sender
				if _, herr := transfer.VerifReadControlHeader(cs); herr == nil {
					deadline := time.Now().Add(3 * time.Second)
					for time.Now().Before(deadline) {
						_, msg, merr := transfer.VerifReadControlMessage(cs)
						if merr != nil {
							break
						}
						if fe, isEnd := msg.(transfer.FileEnd); isEnd {
							ok := encode(transfer.FileDone{StreamID: fe.StreamID, OK: true})
							cs.Write(ok)
							cs.Write(ok)
							o.Bytes += 2 * len(ok)
						}
						if msg == nil {
							break
						}
					}
				}
			} else {
				reply = mutateBytes(ctx.rng, enc, r.Mutation, 10, 2)
			}
		case "FileResumeInfo":
			enc := encode(transfer.FileResumeInfo{FileID: f0.ID, StreamID: key, TotalChunks: 3, Bitmap: []byte{0x03}, LastVerifiedChunk: 1, LastVerifiedHash: 7})
			switch r.Mutation {
			case "count-inconsistent":
				enc = encode(transfer.FileResumeInfo{FileID: f0.ID, StreamID: key, TotalChunks: uint32([]int{1, 4, 1 << 30}[ctx.rng.Intn(3)]), Bitmap: []byte{0xff, 0xff}, LastVerifiedChunk: 900})
				reply = enc
			case "count-consistent-huge":
				// chunk count and bitmap length agree with each other, the bitmap itself never comes
				total := uint32([]uint64{1 << 31, 1<<32 - 8, 1 << 29}[ctx.rng.Intn(3)])
				full := encode(transfer.FileResumeInfo{FileID: f0.ID, StreamID: key, TotalChunks: total, Bitmap: []byte{0, 0, 0, 0}, LastVerifiedChunk: 0})
				lenOff := 1 + 2 + len(f0.ID) + 8 + 4
				binary.BigEndian.PutUint32(full[lenOff:], (total+7)/8)
				reply = full[:lenOff+4+3]
			case "length-2^31", "length-2^32-1":
				reply = mutateBytes(ctx.rng, enc, r.Mutation, 1+2+len(f0.ID)+8+4, 4)
			default:
				reply = mutateBytes(ctx.rng, enc, r.Mutation, 1, 2)
			}
		}
		if r.Mutation == "wrong-direction-record" {
			reply = encode(transfer.FileBegin{RelPath: "x", FileSize: 1, ChunkSize: 1})
		}
		if r.Mutation == "unknown-type" {
			reply = []byte{0x42, 0, 0, 0}
		}
		o.Bytes = len(reply)
		cs.Write(reply)
		cs.Close()
	}
	select {
	case <-done:
		o.Returned = true
	case <-time.After(4 * time.Second):
	}
	o.Ms = time.Since(t0).Milliseconds()
	o.HeapMB = heapMB() - h0
	emit(o)
}
