package drivers

import (
	"github.com/sheerbytes/sheerbytes/internal/transfer"
	"bytes"
	"context"
	"encoding/binary"
	"flag"
	"fmt"
	"io"
	"net"
	"runtime"
	"time"

	"github.com/sheerbytes/sheerbytes/internal/app"
	"github.com/sheerbytes/sheerbytes/verifharness/internal/vnet"
)

// ---- DumbWire.tla <-> recvDumbDiscardReader / sendDumbDataWriter (C15, dumb transfer modes) ----------
//
// Every enumerated (name length, size, end of stream) is turned into the byte string a peer would
// deliver and fed to the real reader three ways: from memory, over a loopback TCP connection that
// the peer closes (dumb-tcp mode), and over a stream of the simulated QUIC connection that the peer
// closes (dumb mode).  Oracle: the call returns within 4 s of the end of the input, does not panic,
// reports an error when the stream ended before the announced size, reports the name and no error for
// a complete record, and does not reserve memory beyond its copy buffer and the name.

type dumbRow struct {
	NameLen    int    `json:"nameLen"`
	Size       string `json:"size"`
	Cut        string `json:"cut"`
	MustReject bool   `json:"mustReject"`
}

func dumbSize(class string) (announced uint64, deliverable int) {
	switch class {
	case "0":
		return 0, 0
	case "1":
		return 1, 1
	case "1MiB-1":
		return 1<<20 - 1, 1<<20 - 1
	case "1MiB":
		return 1 << 20, 1 << 20
	case "1MiB+1":
		return 1<<20 + 1, 1<<20 + 1
	case "3MiB+7":
		return 3<<20 + 7, 3<<20 + 7
	case "2^63":
		return 1 << 63, 4096
	}
	return ^uint64(0), 4096
}

// dumbBytes builds what the peer delivers before it ends the stream.
func dumbBytes(r dumbRow) ([]byte, string) {
	name := bytes.Repeat([]byte("n"), r.NameLen)
	announced, deliverable := dumbSize(r.Size)
	var b bytes.Buffer
	binary.Write(&b, binary.BigEndian, uint16(r.NameLen))
	hdr1 := b.Len()
	b.Write(name)
	hdr2 := b.Len()
	binary.Write(&b, binary.BigEndian, announced)
	hdr3 := b.Len()
	b.Write(make([]byte, deliverable))
	all := b.Bytes()
	switch r.Cut {
	case "none":
		return all, string(name)
	case "extra-bytes":
		return append(all, []byte("trailing")...), string(name)
	case "in-namelen":
		return all[:1], ""
	case "after-namelen":
		return all[:hdr1], ""
	case "in-name":
		return all[:hdr1+r.NameLen/2], ""
	case "after-name":
		return all[:hdr2], ""
	case "in-size":
		return all[:hdr2+3], ""
	case "after-size":
		return all[:hdr3], ""
	case "in-payload":
		return all[:hdr3+deliverable/2], ""
	case "one-short":
		return all[:len(all)-1], ""
	}
	return all, string(name)
}

type dumbResult struct {
	name     string
	err      error
	panicked any
	hung     bool
	heapMB   float64
}

func runDumbReader(feed func() (io.Reader, func())) dumbResult {
	var res dumbResult
	done := make(chan struct{})
	var ms0, ms1 runtime.MemStats
	runtime.GC()
	runtime.ReadMemStats(&ms0)
	go func() {
		defer close(done)
		defer func() {
			if p := recover(); p != nil {
				res.panicked = p
			}
		}()
		r, cleanup := feed()
		defer cleanup()
		res.name, res.err = app.VerifRecvDumbDiscardReader(r)
		runtime.ReadMemStats(&ms1)
	}()
	select {
	case <-done:
	case <-time.After(4 * time.Second):
		res.hung = true
		return res
	}
	res.heapMB = (float64(ms1.TotalAlloc) - float64(ms0.TotalAlloc)) / (1 << 20)
	return res
}

func DumbWire(args []string) {
	fs := flag.NewFlagSet("dumb-wire", flag.ExitOnError)
	edges := fs.String("edges", "", "rows emitted by DumbWire.tla")
	shard := fs.Int("shard", 0, "shard")
	shards := fs.Int("shards", 1, "shards")
	fs.Parse(args)
	rows, err := loadRows[dumbRow](*edges)
	if err != nil {
		panic(err)
	}
	res := &Result{Extra: map[string]any{}}
	outcomes := map[string]int{}
	for i, row := range rows {
		if i%*shards != *shard {
			continue
		}
		data, wantName := dumbBytes(row)
		feeds := map[string]func() (io.Reader, func()){
			"memory": func() (io.Reader, func()) { return bytes.NewReader(data), func() {} },
			"tcp": func() (io.Reader, func()) {
				ln, err := net.Listen("tcp", "127.0.0.1:0")
				if err != nil {
					return bytes.NewReader(data), func() {}
				}
				go func() {
					c, err := ln.Accept()
					if err != nil {
						return
					}
					c.Write(data)
					c.Close()
				}()
				c, err := net.Dial("tcp", ln.Addr().String())
				if err != nil {
					ln.Close()
					return bytes.NewReader(data), func() {}
				}
				return c, func() { c.Close(); ln.Close() }
			},
			"stream": func() (io.Reader, func()) {
				p := vnet.NewPair(vnet.Options{Mock: true})
				a := p.End(vnet.A)
				st, err := a.OpenStream(context.Background())
				if err != nil {
					return bytes.NewReader(data), p.Shutdown
				}
				go func() { st.Write(data); st.Close() }()
				rs, err := p.End(vnet.B).AcceptStream(context.Background())
				if err != nil {
					return bytes.NewReader(data), p.Shutdown
				}
				return rs, p.Shutdown
			},
		}
		for _, via := range []string{"memory", "tcp", "stream"} {
			r := runDumbReader(feeds[via])
			res.Behaviours++
			res.Steps++
			replay := map[string]any{"row": row, "via": via, "bytes_delivered": len(data), "err": fmt.Sprint(r.err)}
			sig := map[string]any{"mode": "dumb", "cut": row.Cut, "via": via}
			switch {
			case r.hung:
				outcomes["hung"]++
				sig["kind"] = "does_not_return_after_the_input_ended"
				res.AddViolation(sig, replay)
				// the reader goroutine keeps spinning: no further cases in this process
				res.Extra["outcomes"] = outcomes
				res.Print()
				return
			case r.panicked != nil:
				outcomes["panic"]++
				sig["kind"], sig["msg"] = "panic", fmt.Sprint(r.panicked)
				res.AddViolation(sig, replay)
			case row.MustReject && r.err == nil:
				outcomes["accepted_incomplete"]++
				sig["kind"] = "incomplete_record_accepted"
				res.AddViolation(sig, replay)
			case !row.MustReject && (r.err != nil || r.name != wantName):
				outcomes["rejected_complete"]++
				res.AddDrift(map[string]any{"why": "a complete dumb record was refused or its name altered", "row": row, "via": via, "err": fmt.Sprint(r.err)})
			case r.heapMB > 8+float64(len(data))/(1<<20)*2:
				outcomes["memory"]++
				sig["kind"] = "memory_out_of_proportion"
				replay["allocated_mb"] = r.heapMB
				res.AddViolation(sig, replay)
			case r.err != nil:
				outcomes["error"]++
			default:
				outcomes["ok"]++
			}
		}
		// the multi-connection receive (thru join --dumb with several connections): every connection delivers the same
		// stream; when it ends early on all of them the call must come back with an error
		if i%5 == 0 {
			var conns []transfer.Conn
			var pairs []*vnet.Pair
			for k := 0; k < 3; k++ {
				p := vnet.NewPair(vnet.Options{Mock: true})
				pairs = append(pairs, p)
				st, err := p.End(vnet.A).OpenStream(context.Background())
				if err == nil {
					go func() { st.Write(data); st.Close() }()
				}
				conns = append(conns, p.End(vnet.B))
			}
			done := make(chan error, 1)
			ctx, cancel := context.WithCancel(context.Background())
			go func() { done <- app.VerifRecvDumbDiscardMulti(ctx, conns) }()
			res.Behaviours++
			res.Steps++
			sig := map[string]any{"mode": "dumb", "cut": row.Cut, "via": "three connections"}
			replay := map[string]any{"row": row, "via": "three connections", "bytes_delivered_per_connection": len(data)}
			select {
			case err := <-done:
				if row.MustReject && err == nil {
					outcomes["accepted_incomplete"]++
					sig["kind"] = "incomplete_record_accepted"
					res.AddViolation(sig, replay)
				} else {
					outcomes["multi: returned"]++
				}
			case <-time.After(15 * time.Second):
				outcomes["hung"]++
				sig["kind"] = "does_not_return_after_the_input_ended"
				res.AddViolation(sig, replay)
			}
			cancel()
			for _, p := range pairs {
				p.Shutdown()
			}
		}
		// the sending side against a peer that goes away early: must return, not hang
		if row.Cut == "in-payload" && row.Size == "3MiB+7" {
			done := make(chan error, 1)
			pr, pw := net.Pipe()
			go func() {
				io.CopyN(io.Discard, pr, 1000)
				pr.Close()
			}()
			go func() { done <- app.VerifSendDumbDataWriter(pw, []byte("n"), 3<<20+7) }()
			select {
			case err := <-done:
				if err == nil {
					res.AddViolation(map[string]any{"mode": "dumb", "kind": "sender_reports_success_although_the_peer_went_away"}, map[string]any{"row": row})
				}
			case <-time.After(4 * time.Second):
				res.AddViolation(map[string]any{"mode": "dumb", "kind": "sender_does_not_return_after_the_peer_went_away"}, map[string]any{"row": row})
			}
			pw.Close()
			res.Behaviours++
		}
		if i%17 == 0 {
			res.AddSample(map[string]any{"row": row, "bytes": len(data)}, 6)
		}
	}
	res.Distinct = res.Behaviours
	res.Extra["outcomes"] = outcomes
	res.Print()
}
