package drivers

import (
	"encoding/json"
	"flag"
	"fmt"
	"math/rand"
	"os"
	"path/filepath"
	"strings"
	"time"

	"github.com/sheerbytes/sheerbytes/verifharness/internal/vnet"
	"github.com/sheerbytes/sheerbytes/verifharness/internal/xfer"
)

// XferOne runs a single end-to-end transfer described on the command line (debug aid / replay).
func XferOne(args []string) {
	fs := flag.NewFlagSet("xfer-one", flag.ExitOnError)
	cfgJSON := fs.String("cfg", "{}", "xfer.Config as JSON")
	treeJSON := fs.String("tree", `[{"rel":"a.bin","size":100},{"rel":"d/b.bin","size":10},{"rel":"e","size":-1},{"rel":"z","size":0}]`, "tree spec")
	wd := fs.Duration("watchdog", 5*time.Second, "watchdog")
	fs.Parse(args)
	var cfg xfer.Config
	if err := json.Unmarshal([]byte(*cfgJSON), &cfg); err != nil {
		panic(err)
	}
	cfg.Watchdog = *wd
	var tree []xfer.FileSpec
	if err := json.Unmarshal([]byte(*treeJSON), &tree); err != nil {
		panic(err)
	}
	dir, _ := os.MkdirTemp("", "xfer-")
	defer os.RemoveAll(dir)
	src := filepath.Join(dir, "src", "tree")
	if err := xfer.MakeTree(src, tree, cfg.Seed); err != nil {
		panic(err)
	}
	out, err := xfer.Run(cfg, src, filepath.Join(dir, "out"))
	if err != nil {
		fmt.Fprintln(os.Stderr, "run error:", err)
	}
	b, _ := json.Marshal(out)
	fmt.Println(string(b))
}

// ---- TransferGrid.tla rows -> real transfers (C01 fidelity, C03 completion) ------

type gridRow struct {
	Tree      string `json:"tree"`
	Chunk     int    `json:"chunk"`
	Streams   int    `json:"streams"`
	Conns     int    `json:"conns"`
	Resume    bool   `json:"resume"`
	NoRootDir bool   `json:"noRootDir"`
	ScanPaths bool   `json:"scanPaths"`
	Transport string `json:"transport"`
}

// TreeFor returns the file specs of a tree class for a chunk size.
func TreeFor(class string, c int64) []xfer.FileSpec {
	f := func(rel string, size int64) xfer.FileSpec { return xfer.FileSpec{Rel: rel, Size: size} }
	d := func(rel string) xfer.FileSpec { return xfer.FileSpec{Rel: rel, Size: -1} }
	switch class {
	case "empty":
		return nil
	case "dirsOnly":
		return []xfer.FileSpec{d("a"), d("a/b/c"), d("z")}
	case "zeroFile":
		return []xfer.FileSpec{f("empty.bin", 0)}
	case "oneByte":
		return []xfer.FileSpec{f("one.bin", 1)}
	case "exactChunk":
		return []xfer.FileSpec{f("exact.bin", c)}
	case "chunkPlus1":
		return []xfer.FileSpec{f("plus.bin", c+1)}
	case "chunkMinus1":
		if c > 1 {
			return []xfer.FileSpec{f("minus.bin", c-1)}
		}
		return []xfer.FileSpec{f("minus.bin", 1)}
	case "threeChunks":
		return []xfer.FileSpec{f("three.bin", 3*c)}
	case "mixedSmall":
		return []xfer.FileSpec{f("z0", 0), f("d/one", 1), f("d/e/plus", c+1), d("d/emptydir")}
	case "manyFiles":
		var out []xfer.FileSpec
		for i := int64(0); i < 12; i++ {
			out = append(out, f(fmt.Sprintf("m/%02d/f%d.dat", i%3, i), (i*c)/5))
		}
		out = append(out, d("m/none"), f("top.bin", 2*c+3))
		return out
	case "oddNames":
		return []xfer.FileSpec{f("sp ace.txt", 5), f(".hidden", 3), f("ünï/cödé.bin", c), f("semi;colon&amp", 2), f("d.ot/x.y.z", 1)}
	case "prefixSiblings":
		return []xfer.FileSpec{d("logs"), f("logs.txt", 3), d("img"), f("img2/x", c), d("a/cache"), f("a/cache-old/y", 1), d("d1"), d("d10"), f("z", 2), d("z-dir"), d("z.d")}
	case "dotdotNames":
		return []xfer.FileSpec{f("notes..txt", 4), f("a..b/c...d", c+2), f("...", 1), f("x/..y", 3), f("rel-1../notes.txt", 2), f("..../x", 1), f("v2../sub../z..", c)}
	case "deviceNames":
		// names that are reserved devices on another platform are ordinary names here
		return []xfer.FileSpec{f("aux.c", 7), f("nul", 1), f("docs/con.txt", c), f("aux/readme", 3), d("prn"), f("logs/com1.log", c+1), f("LPT1", 2), f("prn.tar.gz", 9), f("a\\b.txt", 4)}
	case "deepNest":
		return []xfer.FileSpec{f("a/b/c/d/e/f/g/deep.bin", 2*c), d("a/b/c/void"), f("a/k1", c), f("a/k8", 8*c), f("a/b/zero", 0)}
	}
	return nil
}

// XferGrid runs one real transfer per emitted configuration.
func XferGrid(args []string) {
	fs := flag.NewFlagSet("xfer-grid", flag.ExitOnError)
	edges := fs.String("edges", "", "rows emitted by TLC (TransferGrid)")
	seed := fs.Int64("seed", 1, "seed")
	shard := fs.Int("shard", 0, "shard")
	shards := fs.Int("shards", 1, "shards")
	sample := fs.Int("sample", 0, "seeded sample size per shard (0 = all)")
	wdV := fs.Duration("watchdog-vnet", 5*time.Second, "watchdog for simulated transports")
	wdQ := fs.Duration("watchdog-quic", 10*time.Second, "watchdog for real QUIC")
	budget := fs.Duration("budget", 10*time.Minute, "wall-clock budget")
	traceOut := fs.String("trace-out", "", "prefix of the hook trace file for SessionTrace.tla (shard number appended)")
	fs.Parse(args)
	if *traceOut != "" {
		installHooks()
		if f, err := os.Create(fmt.Sprintf("%s.%d", *traceOut, *shard)); err == nil {
			defer f.Close()
			xfer.SetTraceSink(f)
		}
	}
	rows, err := loadRows[gridRow](*edges)
	if err != nil {
		panic(err)
	}
	res := &Result{Extra: map[string]any{}}
	var mine []gridRow
	for i, r := range rows {
		if i%*shards == *shard {
			mine = append(mine, r)
		}
	}
	rng := rand.New(rand.NewSource(*seed*7919 + int64(*shard)))
	if *sample > 0 && *sample < len(mine) {
		rng.Shuffle(len(mine), func(i, j int) { mine[i], mine[j] = mine[j], mine[i] })
		mine = mine[:*sample]
	}
	// hangs cost a full watchdog window: run hang-prone known classes last
	base, _ := os.MkdirTemp("", "grid-")
	defer os.RemoveAll(base)
	t0 := time.Now()
	byOutcome := map[string]int{}
	skipped := 0
	for n, r := range mine {
		if time.Since(t0) > *budget {
			skipped++
			continue
		}
		cfg := xfer.Config{Transport: r.Transport, Conns: r.Conns, Streams: r.Streams, ChunkSize: uint32(r.Chunk), Resume: r.Resume,
			NoRootDir: r.NoRootDir, ScanPaths: r.ScanPaths, Seed: *seed*1000 + int64(n)}
		cfg.Watchdog = *wdV
		if r.Transport == "quic" {
			cfg.Watchdog = *wdQ
		}
		dir := filepath.Join(base, fmt.Sprintf("c%d", n))
		src := filepath.Join(dir, "src", "payload")
		if err := xfer.MakeTree(src, TreeFor(r.Tree, int64(r.Chunk)), cfg.Seed); err != nil {
			panic(err)
		}
		out, err := xfer.Run(cfg, src, filepath.Join(dir, "out"))
		res.Behaviours++
		res.Steps++
		if err != nil {
			res.AddDrift(map[string]any{"why": "harness error: " + err.Error(), "cfg": r})
			os.RemoveAll(dir)
			continue
		}
		if out.Hung {
			again, _ := xfer.Run(cfg, src, filepath.Join(dir, "out2"))
			if !again.Hung {
				out = again // not reproducible: treat the second run as the result
				byOutcome["hang_not_repeated"]++
			}
		}
		replay := map[string]any{"cfg": r, "seed": cfg.Seed, "outcome": out}
		switch {
		case out.Hung:
			byOutcome["hung"]++
			res.AddViolation(map[string]any{"kind": "hang", "where": strings.Join(out.HangWhere, "; "), "property": "C03"}, replay)
		case out.SendOK && out.RecvOK && !out.TreeEqual:
			byOutcome["success_wrong_tree"]++
			res.AddViolation(map[string]any{"kind": "both_succeed_tree_differs", "property": "C01", "tree": r.Tree}, replay)
		case !out.SendOK || !out.RecvOK:
			byOutcome["failed"]++
			res.AddViolation(map[string]any{"kind": "healthy_transfer_failed", "property": "C03", "tree": r.Tree,
				"sendErr": trunc(out.SendErr), "recvErr": trunc(out.RecvErr)}, replay)
		default:
			byOutcome["ok"]++
		}
		if len(TreeFor(r.Tree, int64(r.Chunk))) > 1 {
			res.Distinct++
		}
		if n%37 == 0 {
			res.AddSample(map[string]any{"cfg": r, "sendOK": out.SendOK, "recvOK": out.RecvOK, "treeEqual": out.TreeEqual, "ms": out.WallMs}, 6)
		}
		os.RemoveAll(dir)
	}
	res.Extra["outcomes"] = byOutcome
	res.Extra["skipped_over_budget"] = skipped
	res.Extra["grid_rows"] = len(rows)
	res.Extra["transfers_not_traced"] = xfer.TraceSkipped()
	res.Print()
}

func trunc(s string) string {
	if len(s) > 120 {
		return s[:120]
	}
	return s
}

// ---- fault enumeration (C02) -----------------------------------------------------

type faultCase struct {
	Name    string          `json:"name"`
	Streams int             `json:"streams"`
	Mode    string          `json:"mode"` // mock | vquic
	Fault   *vnet.FaultSpec `json:"fault,omitempty"`
	Flip    *vnet.FlipSpec  `json:"flip,omitempty"`
	Cancel  string          `json:"cancel,omitempty"`
	After   int64           `json:"after,omitempty"`
	Source  string          `json:"source,omitempty"` // shrink:<rel> | remove:<rel> | grow:<rel>
	Sink    string          `json:"sink,omitempty"`   // dir-at:<rel> | readonly
	Resume  bool            `json:"resume,omitempty"`
	Hash    string          `json:"hash,omitempty"` // the sender's HashAlg option ("" = default)
	Retry   bool            `json:"retry,omitempty"` // after the faulted run: the ordinary retry into the same output directory (resume on, no fault); judged is the retry
}

var faultTree = []xfer.FileSpec{{Rel: "a.bin", Size: 20}, {Rel: "sub/b.bin", Size: 9}, {Rel: "sub/empty", Size: 0}}

// faultTargets: the files whose source is changed after the scan / whose output path is obstructed
// by a directory, and the directories whose output path is obstructed by a regular file.
var faultTargets = []string{"a.bin", "sub/b.bin"}
var faultDirTargets []string

// the second tree has nothing but empty files and empty directories: no chunk ever flows, every
// confirmation the sender gets is a FileDone record
var emptyFaultTree = []xfer.FileSpec{{Rel: "z0", Size: 0}, {Rel: "d/z1", Size: 0}, {Rel: "d/void", Size: -1}, {Rel: "lone", Size: -1}}

const faultChunk = 8

// XferFaults enumerates faults at every byte position of every stream and evaluates C02's oracle.
func XferFaults(args []string) {
	fs := flag.NewFlagSet("xfer-faults", flag.ExitOnError)
	seed := fs.Int64("seed", 1, "seed")
	shard := fs.Int("shard", 0, "shard")
	shards := fs.Int("shards", 1, "shards")
	stride := fs.Int("stride", 1, "take every n-th byte offset (1 = every byte)")
	wd := fs.Duration("watchdog", 6*time.Second, "watchdog after which a run counts as hung")
	budget := fs.Duration("budget", 10*time.Minute, "wall-clock budget")
	traceOut := fs.String("trace-out", "", "prefix of the hook trace file for SessionTrace.tla (shard number appended)")
	treeName := fs.String("tree", "default", "default | empty (only empty files and empty directories)")
	onlyName := fs.String("only", "", "run only the cases of this kind (close | flip | cancel | source | sink)")
	fs.Parse(args)
	installHooks()
	if *treeName == "empty" {
		faultTree, faultTargets, faultDirTargets = emptyFaultTree, []string{"z0", "d/z1"}, []string{"d/void", "lone"}
	}
	if *traceOut != "" {
		if f, err := os.Create(fmt.Sprintf("%s.%d", *traceOut, *shard)); err == nil {
			defer f.Close()
			xfer.SetTraceSink(f)
		}
	}
	res := &Result{Extra: map[string]any{}}
	base, _ := os.MkdirTemp("", "faults-")
	defer os.RemoveAll(base)

	// reference runs: how many bytes flow on each stream
	maxBytes := map[int][2]int{} // streams -> per direction max over stream indices
	var cases []faultCase
	for _, ns := range []int{1, 2} {
		ref := runFaultCase(base, faultCase{Name: "reference", Streams: ns, Mode: "mock"}, *seed, *wd, nil)
		if ref.Hung || !ref.SendOK || !ref.RecvOK || !ref.TreeEqual {
			res.AddViolation(map[string]any{"kind": "reference_run_failed", "sendErr": trunc(ref.SendErr), "recvErr": trunc(ref.RecvErr), "hung": ref.Hung}, ref)
			continue
		}
		// control stream is index 0; data streams 1..ns
		for idx := 0; idx <= ns; idx++ {
			sb := [2]int{0, 0}
			if idx < len(ref.StreamBytes) {
				sb = ref.StreamBytes[idx]
			}
			// data streams: any of them may carry all frames
			if idx > 0 {
				tot := 0
				for k := 1; k < len(ref.StreamBytes); k++ {
					tot += ref.StreamBytes[k][0]
				}
				sb[0] = tot
			}
			for _, kind := range []string{vnet.FaultGracefulPeer, vnet.FaultAbrupt} {
				for off := 0; off <= sb[0]+1; off += *stride {
					cases = append(cases, faultCase{Name: "close", Streams: ns, Mode: "mock", Fault: &vnet.FaultSpec{Stream: idx, Dir: vnet.A, Offset: off, Kind: kind}})
				}
				for off := 0; off <= sb[1]; off += *stride {
					if idx == 0 {
						cases = append(cases, faultCase{Name: "close", Streams: ns, Mode: "mock", Fault: &vnet.FaultSpec{Stream: idx, Dir: vnet.B, Offset: off, Kind: kind}})
					}
				}
			}
			if idx > 0 {
				// payload and checksum bit flips, frame by frame (4 chunks flow in total)
				for frame := 0; frame < 5; frame++ {
					for off := 0; off < faultChunk; off += *stride {
						cases = append(cases, faultCase{Name: "flip", Streams: ns, Mode: "mock", Flip: &vnet.FlipSpec{Stream: idx, Dir: vnet.A, Part: "payload", Frame: frame, Offset: off, Bit: uint((off + frame) % 8)}})
					}
					for off := 0; off < 4; off++ {
						cases = append(cases, faultCase{Name: "flip", Streams: ns, Mode: "mock", Flip: &vnet.FlipSpec{Stream: idx, Dir: vnet.A, Part: "crc", Frame: frame, Offset: off, Bit: uint((off + 3*frame) % 8)}})
					}
				}
			}
		}
		total := 0
		for _, sb := range ref.StreamBytes {
			total += sb[0]
		}
		for after := 0; after <= total+8; after += 8 * *stride {
			cases = append(cases, faultCase{Name: "cancel", Streams: ns, Mode: "mock", Cancel: "sender", After: int64(after)})
			cases = append(cases, faultCase{Name: "cancel", Streams: ns, Mode: "mock", Cancel: "receiver", After: int64(after)})
		}
		for _, f := range faultTargets {
			for _, k := range []string{"shrink1:", "shrinkhalf:", "truncate:", "remove:", "grow:"} {
				cases = append(cases, faultCase{Name: "source", Streams: ns, Mode: "mock", Source: k + f})
			}
			cases = append(cases, faultCase{Name: "sink", Streams: ns, Mode: "mock", Sink: "dir-at:" + f}, faultCase{Name: "sink", Streams: ns, Mode: "vquic", Sink: "dir-at:" + f})
			// the output path is a link to a device that swallows every write and cannot be given a length
			cases = append(cases, faultCase{Name: "sink", Streams: ns, Mode: "mock", Sink: "devnull-at:" + f}, faultCase{Name: "sink", Streams: ns, Mode: "vquic", Sink: "devnull-at:" + f, Resume: true})
		}
		// a regular file where a directory of the tree has to be created
		for _, d := range faultDirTargets {
			cases = append(cases, faultCase{Name: "sink", Streams: ns, Mode: "mock", Sink: "file-at:" + d}, faultCase{Name: "sink", Streams: ns, Mode: "vquic", Sink: "file-at:" + d})
		}
		cases = append(cases, faultCase{Name: "sink", Streams: ns, Mode: "mock", Sink: "readonly"})
		_ = maxBytes
	}
	// the payload flips again under every hash algorithm the sender's options accept (the frame checksum must not depend on it)
	for _, h := range []string{"none", "xxhash64", "crc32c"} {
		for frame := 0; frame < 5; frame++ {
			cases = append(cases, faultCase{Name: "flip", Streams: 1, Mode: "mock", Hash: h, Flip: &vnet.FlipSpec{Stream: 1, Dir: vnet.A, Part: "payload", Frame: frame, Offset: frame % faultChunk, Bit: uint(frame % 8)}})
		}
	}
	// a damaged chunk fails the run; the user tries again (resume is always on in the CLI): whatever the failed run left
	// on disk and in its metadata, the retry must not report success over a different tree
	for st := 1; st <= 2; st++ {
		for frame := 0; frame < 4; frame++ {
			for _, mode := range []string{"mock", "vquic"} {
				cases = append(cases, faultCase{Name: "flip-then-retry", Streams: 2, Mode: mode, Resume: true, Retry: true,
					Flip: &vnet.FlipSpec{Stream: st, Dir: vnet.A, Part: "payload", Frame: frame, Offset: frame % faultChunk, Bit: uint(frame % 8)}})
			}
		}
	}
	if *onlyName != "" {
		var sel []faultCase
		for _, c := range cases {
			if c.Name == *onlyName {
				sel = append(sel, c)
			}
		}
		cases = sel
	}
	// the same closes with QUIC visibility + seeded arrival order, and with resume, sampled
	n0 := len(cases)
	for i := 0; i < n0; i += 5 {
		c := cases[i]
		if c.Fault != nil {
			c2 := c
			c2.Mode = "vquic"
			cases = append(cases, c2)
			c3 := c
			c3.Resume = true
			cases = append(cases, c3)
		}
	}
	t0 := time.Now()
	kinds := map[string]int{}
	outcomes := map[string]int{}
	skipped := 0
	for i, c := range cases {
		if i%*shards != *shard {
			continue
		}
		if time.Since(t0) > *budget {
			skipped++
			continue
		}
		var okFiles int
		extraHook = func(name string, a, b uint64, s string) {
			if name == "recv.finalize" && b == 1 {
				okFiles++
			}
		}
		out := runFaultCase(base, c, *seed+int64(i), *wd, nil)
		extraHook = nil
		res.Behaviours++
		res.Steps++
		kinds[c.Name]++
		if out.Hung {
			again := runFaultCase(base, c, *seed+int64(i), *wd, nil)
			if !again.Hung {
				out = again
			}
		}
		replay := map[string]any{"case": c, "outcome": out}
		files := 0
		for _, f := range faultTree {
			if f.Size >= 0 {
				files++
			}
		}
		switch {
		case out.Hung:
			outcomes["hung"]++
			res.AddViolation(map[string]any{"kind": "hang_after_fault", "fault": c.Name, "where": strings.Join(out.HangWhere, "; ")}, replay)
		case out.RecvOK && !out.TreeEqual:
			outcomes["receiver_false_success"]++
			res.AddViolation(map[string]any{"kind": "receiver_reports_success_with_wrong_tree", "fault": c.Name}, replay)
		case out.SendOK && ((okFiles < files && !c.Retry) || !out.TreeEqual) && c.Name != "sink-after":
			outcomes["sender_false_success"]++
			res.AddViolation(map[string]any{"kind": "sender_reports_success_without_confirmation", "fault": c.Name}, replay)
		case out.SendOK && out.RecvOK:
			outcomes["both_ok_tree_equal"]++
		default:
			outcomes["failed_loudly"]++
		}
		if out.FaultFired || c.Fault == nil {
			res.Distinct++
		}
		if i%211 == 0 {
			res.AddSample(map[string]any{"case": c, "sendOK": out.SendOK, "recvOK": out.RecvOK, "treeEqual": out.TreeEqual, "faultFired": out.FaultFired,
				"sendErr": trunc(out.SendErr), "recvErr": trunc(out.RecvErr)}, 8)
		}
	}
	res.Extra["cases_total"] = len(cases)
	res.Extra["by_kind"] = kinds
	res.Extra["outcomes"] = outcomes
	res.Extra["skipped_over_budget"] = skipped
	res.Extra["transfers_not_traced"] = xfer.TraceSkipped()
	res.Print()
}

func runFaultCase(base string, c faultCase, seed int64, wd time.Duration, tap func(*vnet.Pair)) xfer.Outcome {
	dir, _ := os.MkdirTemp(base, "case-")
	defer os.RemoveAll(dir)
	src := filepath.Join(dir, "src", "payload")
	tree := faultTree
	if c.Retry {
		// one file of many chunks, so that chunks behind the damaged one are complete when the run fails
		tree = []xfer.FileSpec{{Rel: "big.bin", Size: 12*faultChunk + 3}, {Rel: "sub/b.bin", Size: 9}}
	}
	if err := xfer.MakeTree(src, tree, seed); err != nil {
		panic(err)
	}
	outDir := filepath.Join(dir, "out")
	cfg := xfer.Config{Transport: c.Mode, Conns: 1, Streams: c.Streams, ChunkSize: faultChunk, Seed: seed, Watchdog: wd,
		Fault: c.Fault, Flip: c.Flip, CancelSide: c.Cancel, CancelAfter: c.After, Resume: c.Resume, SenderHash: c.Hash, Tap: tap}
	if c.Retry {
		cfg.SmallBelow = faultChunk // every file of more than one chunk is spread over the streams: chunks of one file arrive in any order
	}
	if c.Source != "" {
		parts := strings.SplitN(c.Source, ":", 2)
		target := filepath.Join(src, filepath.FromSlash(parts[1]))
		cfg.AfterScan = func() {
			st, err := os.Stat(target)
			if err != nil {
				return
			}
			switch parts[0] {
			case "shrink1":
				os.Truncate(target, st.Size()-1)
			case "shrinkhalf":
				os.Truncate(target, st.Size()/2)
			case "truncate":
				os.Truncate(target, 0)
			case "remove":
				os.Remove(target)
			case "grow":
				f, _ := os.OpenFile(target, os.O_APPEND|os.O_WRONLY, 0644)
				f.Write([]byte("extra-bytes"))
				f.Close()
			}
		}
	}
	if c.Sink != "" {
		os.MkdirAll(filepath.Join(outDir, "payload"), 0755)
		if strings.HasPrefix(c.Sink, "dir-at:") {
			os.MkdirAll(filepath.Join(outDir, "payload", filepath.FromSlash(strings.TrimPrefix(c.Sink, "dir-at:"))), 0755)
		} else if strings.HasPrefix(c.Sink, "devnull-at:") {
			p := filepath.Join(outDir, "payload", filepath.FromSlash(strings.TrimPrefix(c.Sink, "devnull-at:")))
			os.MkdirAll(filepath.Dir(p), 0755)
			os.Symlink("/dev/null", p)
		} else if strings.HasPrefix(c.Sink, "file-at:") {
			p := filepath.Join(outDir, "payload", filepath.FromSlash(strings.TrimPrefix(c.Sink, "file-at:")))
			os.MkdirAll(filepath.Dir(p), 0755)
			os.WriteFile(p, []byte("in the way"), 0644)
		} else {
			ro := filepath.Join(outDir, "payload", filepath.Dir(filepath.FromSlash(faultTargets[1])))
			os.MkdirAll(ro, 0555)
			defer os.Chmod(ro, 0755)
		}
	}
	out, err := xfer.Run(cfg, src, outDir)
	if err != nil {
		out.SendErr += " harness:" + err.Error()
	}
	if c.Retry && os.Getenv("VERIF_DEBUG") != "" && out.SendOK && out.RecvOK {
		fmt.Fprintf(os.Stderr, "first run succeeded: flip=%+v fired=%v\n", *c.Flip, out.FaultFired)
	}
	if c.Retry && err == nil && !(out.SendOK && out.RecvOK) {
		cfg2 := cfg
		cfg2.Fault, cfg2.Flip, cfg2.CancelSide, cfg2.Tap, cfg2.Resume = nil, nil, "", nil, true
		fired := out.FaultFired
		if os.Getenv("VERIF_DEBUG") != "" {
			fmt.Fprintf(os.Stderr, "first run: flip=%+v fired=%v sendErr=%q recvErr=%q\n", *c.Flip, fired, trunc(out.SendErr), trunc(out.RecvErr))
		}
		out, err = xfer.Run(cfg2, src, outDir)
		out.FaultFired = fired
		if err != nil {
			out.SendErr += " harness:" + err.Error()
		}
	}
	return out
}
