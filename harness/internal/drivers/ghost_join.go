package drivers

import (
	"bufio"
	"crypto/rand"
	"encoding/base64"
	"flag"
	"fmt"
	"net"
	"net/url"
	"os"
	"strings"
	"time"

	"github.com/sheerbytes/sheerbytes/pkg/protocol"
)

// ---- C11 on the real server: joins that die at the worst moment -----------------------------------
//
// A client completes the WebSocket upgrade and resets the TCP connection before (or while) the server
// writes its first frames (peer_list, peer_joined).  Whatever error path the handler takes, a peer that
// is gone must not stay in the hub: a later, healthy client of the same session must see only live peers
// in its peer_list, an addressed message to the dead id must be answered with the unknown-addressee
// error, and when everybody has left the session must end (its code stops working once the host left).

func abruptJoin(srvURL, wsu string, mode int) error {
	u, err := url.Parse(wsu)
	if err != nil {
		return err
	}
	c, err := net.DialTimeout("tcp", u.Host, 2*time.Second)
	if err != nil {
		return err
	}
	key := make([]byte, 16)
	rand.Read(key)
	req := fmt.Sprintf("GET %s HTTP/1.1\r\nHost: %s\r\nUpgrade: websocket\r\nConnection: Upgrade\r\nSec-WebSocket-Key: %s\r\nSec-WebSocket-Version: 13\r\n\r\n",
		u.RequestURI(), u.Host, base64.StdEncoding.EncodeToString(key))
	if mode == 2 {
		// reset right after sending the request, before the response is read
		c.Write([]byte(req))
		if tc, ok := c.(*net.TCPConn); ok {
			tc.SetLinger(0)
		}
		return c.Close()
	}
	if _, err := c.Write([]byte(req)); err != nil {
		c.Close()
		return err
	}
	br := bufio.NewReader(c)
	c.SetReadDeadline(time.Now().Add(2 * time.Second))
	line, err := br.ReadString('\n')
	if err != nil || !strings.Contains(line, "101") {
		c.Close()
		return fmt.Errorf("no upgrade: %q %v", line, err)
	}
	if mode == 1 {
		// read the rest of the response headers first
		for {
			l, err := br.ReadString('\n')
			if err != nil || l == "\r\n" {
				break
			}
		}
	}
	if tc, ok := c.(*net.TCPConn); ok {
		tc.SetLinger(0) // RST instead of FIN
	}
	return c.Close()
}

func GhostJoin(args []string) {
	fs := flag.NewFlagSet("ghost-join", flag.ExitOnError)
	bin := fs.String("thruserv", "", "thruserv binary")
	rounds := fs.Int("rounds", 40, "abrupt joins per session")
	shard := fs.Int("shard", 0, "shard")
	shards := fs.Int("shards", 1, "shards")
	fs.Parse(args)
	res := &Result{Extra: map[string]any{}}
	srv, err := startServer(*bin, nil, unlimited...)
	if err != nil {
		fmt.Fprintln(os.Stderr, err)
		os.Exit(3)
	}
	defer srv.stop()
	ghostsSeen := 0
	for sess := 0; sess < 3; sess++ {
		if sess%*shards != *shard {
			continue
		}
		codes := mustCreate(srv, 1)
		host, _, err := dialWS(wsURL(srv, codes[0], "host", "sender"))
		if err != nil {
			res.AddDrift(map[string]any{"why": "host cannot connect"})
			continue
		}
		dead := map[string]bool{}
		for i := 0; i < *rounds; i++ {
			id := fmt.Sprintf("ghost%d-%d", sess, i)
			if abruptJoin(srv.url, wsURL(srv, codes[0], id, "receiver"), i%3) == nil {
				dead[id] = true
			}
		}
		time.Sleep(300 * time.Millisecond)
		// a healthy client joins: only live peers may be listed
		var listed []string
		ok := false
		for try := 0; try < 100 && !ok; try++ {
			obs, _, err := dialWS(wsURL(srv, codes[0], fmt.Sprintf("observer%d", try), "receiver"))
			if err != nil {
				time.Sleep(20 * time.Millisecond)
				continue
			}
			deadline := time.Now().Add(3 * time.Second)
			for time.Now().Before(deadline) && !ok {
				for _, e := range obs.snapshot() {
					if e.Type == protocol.TypePeerList {
						var pl protocol.PeerList
						e.DecodePayload(&pl)
						listed = listed[:0]
						for _, p := range pl.Peers {
							listed = append(listed, p.PeerID)
						}
						ok = true
					}
				}
				time.Sleep(5 * time.Millisecond)
			}
			obs.conn.Close()
		}
		res.Behaviours++
		res.Steps += *rounds
		if !ok {
			res.AddDrift(map[string]any{"why": "observer got no peer_list"})
		}
		var ghosts []string
		for _, p := range listed {
			if dead[p] {
				ghosts = append(ghosts, p)
			}
		}
		if len(ghosts) > 0 {
			ghostsSeen += len(ghosts)
			res.AddViolation(map[string]any{"kind": "peer_that_left_still_listed", "via": "real server, join reset during the server's first frames"},
				map[string]any{"listed": listed, "ghosts": ghosts, "abrupt_joins": len(dead)})
		}
		host.conn.Close()
		// the host left: the session must end although abrupt joiners came and went
		gone := false
		for i := 0; i < 200 && !gone; i++ {
			time.Sleep(10 * time.Millisecond)
			c, status, err := dialWS(wsURL(srv, codes[0], "late", "receiver"))
			if err != nil && status == 404 {
				gone = true
			} else if err == nil {
				c.conn.Close()
			}
		}
		if !gone {
			res.AddViolation(map[string]any{"kind": "routing_state_leaked_after_everyone_left", "via": "real server"}, map[string]any{"session": sess})
		}
		if !srv.alive() {
			res.AddViolation(map[string]any{"kind": "panic", "via": "real server"}, map[string]any{"log": tailStr(srv.out.String(), 500)})
			break
		}
	}
	res.Distinct = res.Behaviours
	res.Extra["ghosts_listed"] = ghostsSeen
	res.Print()
}
