package drivers

import (
	"context"
	"encoding/binary"
	"encoding/json"
	"flag"
	"fmt"
	"io"
	"os"
	"path/filepath"
	"sort"
	"sync"
	"sync/atomic"
	"time"

	"github.com/sheerbytes/sheerbytes/internal/transfer"
	"github.com/sheerbytes/sheerbytes/pkg/manifest"
	"github.com/sheerbytes/sheerbytes/verifharness/internal/graph"
)

// ---- Dispatch.tla <-> the real SendManifestMultiStream (C17, end-to-end binding) ---------------
//
// The state-machine replay (driver `dispatch`) mirrors the closures applyResumeInfo / the
// verification goroutine in a shim.  Here the real closures run: the real sender transmits one
// file to a scripted, protocol-conformant receiver that answers the ResumeRequest with the report
// of the TLC input (bitmap, verification point, hash that matches / differs / is unknown) either
// at once or late (after the grace period, while the first chunk frame is held on the wire until
// the sender has installed the plan).  The sender's data streams are wrapped: every frame's start
// and end get a tick of a logical clock that the hook handler shares (send.plan.set, send.fileend).
// Oracle (the property, on the observed frames):
//   - every chunk the receiver does not report is framed exactly once; no chunk twice, except the
//     one chunk that failed verification, which is framed exactly once more;
//   - a chunk reported present below the verification point is not framed when the worker took it
//     after the plan was installed (its predecessor on the same stream ended after send.plan.set),
//     and not at all when the report arrived before dispatch began;
//   - a report that was delivered is applied (send.plan.set follows);
//   - exactly one FileEnd, after the last frame ended.

type frameRec struct {
	Stream     int
	Idx        int
	Start, End int64
}

type e2eClock struct {
	t       atomic.Int64
	mu      sync.Mutex
	planSet int64
	fileEnd []int64
	planCh  chan struct{}
}

func (c *e2eClock) tick() int64 { return c.t.Add(1) }

type obsConn struct {
	transfer.Conn
	clk    *e2eClock
	mu     sync.Mutex
	opened int
	frames []*frameRec
	hold   func() // called before the very first frame header is written
	held   bool
}

func (c *obsConn) OpenStream(ctx context.Context) (transfer.Stream, error) {
	s, err := c.Conn.OpenStream(ctx)
	if err != nil {
		return nil, err
	}
	c.mu.Lock()
	n := c.opened
	c.opened++
	c.mu.Unlock()
	if n == 0 {
		return s, nil // control stream
	}
	return &obsStream{Stream: s, c: c, id: n}, nil
}

type obsStream struct {
	transfer.Stream
	c      *obsConn
	id     int
	remain int
	cur    *frameRec
}

func (s *obsStream) StreamID() uint64 {
	if i, ok := s.Stream.(transfer.StreamIDer); ok {
		return i.StreamID()
	}
	return uint64(s.id)
}

const e2eHeaderLen = 20

func (s *obsStream) Write(p []byte) (int, error) {
	if s.remain == 0 && len(p) == e2eHeaderLen {
		idx := int(binary.BigEndian.Uint32(p[8:12]))
		ln := int(binary.BigEndian.Uint32(p[12:16]))
		s.c.mu.Lock()
		first := !s.c.held
		s.c.held = true
		s.c.mu.Unlock()
		if first && s.c.hold != nil {
			s.c.hold()
		}
		fr := &frameRec{Stream: s.id, Idx: idx, Start: s.c.clk.tick()}
		s.c.mu.Lock()
		s.c.frames = append(s.c.frames, fr)
		s.c.mu.Unlock()
		s.cur, s.remain = fr, ln
		n, err := s.Stream.Write(p)
		if ln == 0 {
			fr.End = s.c.clk.tick()
			s.cur = nil
		}
		return n, err
	}
	n, err := s.Stream.Write(p)
	if s.cur != nil {
		s.remain -= n
		if s.remain <= 0 {
			s.cur.End = s.c.clk.tick()
			s.cur, s.remain = nil, 0
		}
	}
	return n, err
}

type dispE2EOutcome struct {
	Frames    []frameRec
	PlanSet   int64
	FileEnds  []int64
	SendErr   string
	RecvErr   string
	Delivered bool
	Late      bool
	Trouble   string
}

var theE2EClock atomic.Pointer[e2eClock]

func dispE2EHook(name string, a, b uint64, s string) {
	c := theE2EClock.Load()
	if c == nil {
		return
	}
	switch name {
	case "send.plan.set":
		t := c.tick()
		c.mu.Lock()
		if c.planSet == 0 {
			c.planSet = t
			close(c.planCh)
		}
		c.mu.Unlock()
	case "send.fileend":
		t := c.tick()
		c.mu.Lock()
		c.fileEnd = append(c.fileEnd, t)
		c.mu.Unlock()
	}
}

func runDispatchE2E(in dispIn, late bool, workers int, work string, seq int) dispE2EOutcome {
	out := dispE2EOutcome{Late: late}
	const chunk = 32
	dir := filepath.Join(work, fmt.Sprintf("case%d", seq))
	_ = os.MkdirAll(dir, 0o755)
	defer os.RemoveAll(dir)
	size := 0
	if in.N > 0 {
		size = chunk*(in.N-1) + 7
	}
	data := make([]byte, size)
	for i := range data {
		data[i] = byte(i*7 + seq)
	}
	fpath := filepath.Join(dir, "file.bin")
	if err := os.WriteFile(fpath, data, 0o644); err != nil {
		out.Trouble = err.Error()
		return out
	}
	m, err := manifest.Scan(dir)
	if err != nil {
		out.Trouble = err.Error()
		return out
	}
	info := transfer.FileResumeInfo{TotalChunks: uint32(in.N)}
	bm := transfer.NewBitmap(in.N)
	for _, b := range in.Bits {
		bm.Set(b)
	}
	info.Bitmap = bm.Marshal()
	info.LastVerifiedChunk = uint32(in.V)
	if in.V < in.N {
		h, err := transfer.VerifHashFileChunk(fpath, uint32(in.V), chunk, int64(size), "crc32c")
		if err != nil {
			out.Trouble = "hash: " + err.Error()
			return out
		}
		info.LastVerifiedHash = h
		if in.Mismatch {
			info.LastVerifiedHash = h ^ 0x5a5a
		}
	}
	if in.HashUnknown {
		info.LastVerifiedHash = ^uint64(0)
	}
	clk := &e2eClock{planCh: make(chan struct{})}
	theE2EClock.Store(clk)
	defer theE2EClock.Store(nil)
	t1, t2 := transfer.NewMockPair()
	ctx, cancel := context.WithTimeout(context.Background(), 10*time.Second)
	defer cancel()
	sc, err := t1.Dial(ctx, "peer2")
	if err != nil {
		out.Trouble = err.Error()
		return out
	}
	rc, err := t2.Accept(ctx)
	if err != nil {
		out.Trouble = err.Error()
		return out
	}
	delivered := make(chan struct{})
	oc := &obsConn{Conn: sc, clk: clk}
	if late && in.Report {
		oc.hold = func() {
			// the first frame stays in flight until the sender has installed the plan; if it never
			// does, until well after the report was delivered
			select {
			case <-delivered:
				select {
				case <-clk.planCh:
				case <-time.After(5 * time.Second): // only runs out when the report is never applied
				}
			case <-time.After(4 * time.Second):
			}
		}
	}
	recvErr := make(chan error, 1)
	go func() { recvErr <- fakeResumeReceiver(ctx, rc, in.Report, late, info, delivered) }()
	opts := transfer.Options{ChunkSize: chunk, ParallelFiles: workers, Resume: true, ResumeVerifyTail: uint32(in.Tail), ResumeTimeout: 10 * time.Second} // (the CLI's resume timeout)
	if in.VerifyOn {
		opts.ResumeVerify, opts.HashAlg = "last", "crc32c"
	} else {
		opts.ResumeVerify = "none"
	}
	serr := transfer.SendManifestMultiStream(ctx, oc, dir, m, opts)
	out.SendErr = errText(serr)
	select {
	case e := <-recvErr:
		out.RecvErr = errText(e)
	case <-time.After(3 * time.Second):
		out.RecvErr = "scripted receiver did not finish"
	}
	select {
	case <-delivered:
		out.Delivered = true
	default:
	}
	oc.mu.Lock()
	for _, f := range oc.frames {
		out.Frames = append(out.Frames, *f)
	}
	oc.mu.Unlock()
	clk.mu.Lock()
	out.PlanSet, out.FileEnds = clk.planSet, append([]int64{}, clk.fileEnd...)
	clk.mu.Unlock()
	return out
}

func fakeResumeReceiver(ctx context.Context, conn transfer.Conn, report, late bool, info transfer.FileResumeInfo, delivered chan struct{}) error {
	ctrl, err := conn.AcceptStream(ctx)
	if err != nil {
		return err
	}
	defer ctrl.Close()
	if _, err := transfer.VerifReadControlHeader(ctrl); err != nil {
		return err
	}
	_, msg, err := transfer.VerifReadControlMessage(ctrl)
	if err != nil {
		return err
	}
	ds, ok := msg.(transfer.DataStreams)
	if !ok {
		return fmt.Errorf("expected DataStreams, got %T", msg)
	}
	for i := 0; i < int(ds.Count); i++ {
		go func() {
			s, err := conn.AcceptStream(ctx)
			if err != nil {
				return
			}
			defer s.Close()
			hdr := make([]byte, e2eHeaderLen)
			for {
				if _, err := io.ReadFull(s, hdr); err != nil {
					return
				}
				l := binary.BigEndian.Uint32(hdr[12:16])
				if _, err := io.CopyN(io.Discard, s, int64(l)); err != nil {
					return
				}
			}
		}()
	}
	var wmu sync.Mutex
	for {
		_, msg, err := transfer.VerifReadControlMessage(ctrl)
		if err != nil {
			return err
		}
		switch x := msg.(type) {
		case transfer.FileBegin:
		case transfer.ResumeRequest:
			if !report {
				continue
			}
			reply := info
			reply.FileID, reply.StreamID = x.FileID, x.StreamID
			go func() {
				if late {
					time.Sleep(450 * time.Millisecond) // longer than the sender's grace period
				}
				wmu.Lock()
				err := transfer.VerifWriteRecord(ctrl, reply)
				wmu.Unlock()
				if err == nil {
					// the in-memory pipe is synchronous: the sender's control reader has the report
					close(delivered)
				}
			}()
		case transfer.FileEnd:
			wmu.Lock()
			err := transfer.VerifWriteRecord(ctrl, transfer.FileDone{StreamID: x.StreamID, OK: true})
			wmu.Unlock()
			if err != nil {
				return err
			}
		case nil:
			return nil // End
		}
	}
}

func judgeDispatchE2E(res *Result, in dispIn, o dispE2EOutcome, workers int) {
	replay := map[string]any{"input": in, "late_report": o.Late, "workers": workers, "frames": o.Frames, "plan_set_tick": o.PlanSet,
		"fileend_ticks": o.FileEnds, "send_err": o.SendErr, "recv_err": o.RecvErr, "report_delivered": o.Delivered}
	viol := func(kind string) { res.AddViolation(map[string]any{"kind": kind, "via": "e2e"}, replay) }
	if o.SendErr != "" {
		viol("sender_failed_against_conformant_receiver")
		return
	}
	bits := map[int]bool{}
	for _, b := range in.Bits {
		bits[b] = true
	}
	skippable := func(i int) bool { return in.Report && bits[i] && i < in.ForceFrom }
	resendOK := in.Report && in.VerifyNeeded && in.Mismatch
	count := map[int]int{}
	lastEnd := int64(0)
	for _, f := range o.Frames {
		count[f.Idx]++
		if f.End > lastEnd {
			lastEnd = f.End
		}
		if f.Idx >= in.N {
			viol("chunk_index_out_of_range")
		}
	}
	for i := 0; i < in.N; i++ {
		c := count[i]
		isV := resendOK && i == in.V
		if !o.Late {
			// the report (if any) precedes dispatch: the frames are exactly determined
			want := 1
			if skippable(i) {
				want = 0
			}
			if isV {
				want++
			}
			switch {
			case c < want && isV && c == want-1:
				viol("failed_verification_chunk_not_sent_again")
			case c < want:
				viol("needed_chunk_never_sent")
			case c > want && skippable(i) && !isV:
				viol("reported_chunk_sent_although_report_known")
			case c > want:
				viol("chunk_sent_twice")
			}
			continue
		}
		// late report: chunks taken before the plan was installed are sent legitimately
		switch {
		case !(in.Report && bits[i]) && c == 0:
			viol("needed_chunk_never_sent")
		case c > 2 || (c == 2 && !isV):
			viol("chunk_sent_twice")
		}
	}
	if o.Late {
		if o.Delivered && o.PlanSet == 0 && in.N > 0 {
			viol("delivered_resume_report_never_applied")
		}
		perStream := map[int][]frameRec{}
		for _, f := range o.Frames {
			perStream[f.Stream] = append(perStream[f.Stream], f)
		}
		resendBudget := 0
		if resendOK {
			resendBudget = 1
		}
		for _, fs := range perStream {
			sort.Slice(fs, func(i, j int) bool { return fs[i].Start < fs[j].Start })
			for k := 1; k < len(fs); k++ {
				f := fs[k]
				// the worker took f after its previous frame on this stream had ended
				if o.PlanSet == 0 || fs[k-1].End < o.PlanSet || !skippable(f.Idx) {
					continue
				}
				if resendOK && f.Idx == in.V && resendBudget > 0 {
					resendBudget--
					continue
				}
				viol("reported_chunk_sent_although_report_known")
			}
		}
	}
	switch {
	case len(o.FileEnds) != 1:
		res.AddViolation(map[string]any{"kind": "fileend_count", "via": "e2e", "count": len(o.FileEnds)}, replay)
	case o.FileEnds[0] < lastEnd:
		viol("end_while_chunk_in_flight")
	}
}

// DispatchE2E runs the inputs of Dispatch.tla through the real sender.
func DispatchE2E(args []string) {
	fs := flag.NewFlagSet("dispatch-e2e", flag.ExitOnError)
	edges := fs.String("edges", "", "ndjson emitted by Dispatch.tla")
	shard := fs.Int("shard", 0, "shard")
	shards := fs.Int("shards", 1, "shards")
	sample := fs.Int("sample", 1, "take every n-th input")
	fs.Parse(args)
	installHooks()
	extraHook = dispE2EHook
	g, err := graph.Load(*edges)
	if err != nil {
		fmt.Fprintln(os.Stderr, err)
		os.Exit(3)
	}
	seen := map[string]bool{}
	var inputs []dispIn
	for _, e := range g.Edges {
		k := string(e.In)
		if seen[k] {
			continue
		}
		seen[k] = true
		var in dispIn
		if err := json.Unmarshal(e.In, &in); err != nil {
			fmt.Fprintln(os.Stderr, "bad input:", err)
			os.Exit(3)
		}
		inputs = append(inputs, in)
	}
	sort.Slice(inputs, func(i, j int) bool {
		a, _ := json.Marshal(inputs[i])
		b, _ := json.Marshal(inputs[j])
		return string(a) < string(b)
	})
	work, _ := os.MkdirTemp("", "vh-de2e-")
	defer os.RemoveAll(work)
	res := &Result{Extra: map[string]any{}}
	outcomes := map[string]int{}
	trouble, n := 0, 0
	for i, in := range inputs {
		if i%*shards != *shard {
			continue
		}
		if *sample > 1 && (i / *shards)%*sample != 0 {
			continue
		}
		modes := []bool{false}
		if in.Report && in.N >= 2 {
			modes = append(modes, true)
		}
		for _, late := range modes {
			workers := 1 + (i+n)%2
			n++
			o := runDispatchE2E(in, late, workers, work, n)
			if o.Trouble != "" {
				trouble++
				if trouble <= 3 {
					fmt.Fprintln(os.Stderr, "trouble:", o.Trouble)
				}
				continue
			}
			res.Behaviours++
			res.Steps += len(o.Frames)
			judgeDispatchE2E(res, in, o, workers)
			outcomes[fmt.Sprintf("late=%v report=%v planset=%v", late, in.Report, o.PlanSet != 0)]++
			res.AddSample(map[string]any{"n": in.N, "bits": in.Bits, "forceFrom": in.ForceFrom, "late": late, "frames": len(o.Frames)}, 5)
		}
	}
	res.Distinct = res.Behaviours
	res.Extra["outcomes"] = outcomes
	res.Extra["trouble"] = trouble
	res.Print()
	if trouble > res.Behaviours/10+2 {
		os.Exit(3)
	}
}
