package drivers

import (
	"context"
	"encoding/json"
	"flag"
	"fmt"
	"os"
	"sync"
	"time"

	"github.com/gorilla/websocket"
	"github.com/sheerbytes/sheerbytes/internal/app"
	"github.com/sheerbytes/sheerbytes/internal/clienthttp"
)

// ---- C10, concurrent phase: every client of several sessions sends at once -----------------------
//
// Routing.tla's histories are sequential handler steps (driver `routing`); the hub's phase-split
// interleavings are Hub.tla's subject.  This phase closes the gap on the real server: all clients of
// all sessions send addressed, broadcast and spoofed messages at the same time (the same peer ids
// are used in every session), and the receive logs are judged by the per-pair predicates of the
// property: only authors of the own session, the `from` the author connected with, exact addressing,
// per author strictly increasing sequence numbers (no duplicate, no reordering), nothing lost while
// the recipient keeps reading (the volume stays far below the hub's per-connection buffer), and the
// unknown-addressee error goes to the author only.

type rcClient struct {
	name, sess, peer string
	c                *wsClient
}

func RoutingConcurrent(args []string) {
	fs := flag.NewFlagSet("routing-concurrent", flag.ExitOnError)
	bin := fs.String("thruserv", "", "path of the thruserv binary built from /repo")
	rounds := fs.Int("rounds", 3, "rounds")
	msgs := fs.Int("msgs", 24, "messages per client and round")
	sessions := fs.Int("sessions", 3, "sessions")
	shard := fs.Int("shard", 0, "shard")
	shards := fs.Int("shards", 1, "shards")
	turnIDs := fs.Bool("turn-ids", false, "the server issues TURN credentials (which embed the peer id) and the peer ids contain ':' '@' and '%'")
	fs.Parse(args)
	res := &Result{Extra: map[string]any{}}
	flags := append([]string{}, unlimited...)
	if *turnIDs {
		flags = append(flags, "--turn-server", "turn:127.0.0.1:9", "--turn-static-auth-secret", "static-auth-secret-for-tests")
	}
	srv, err := startServer(*bin, nil, flags...)
	if err != nil {
		fmt.Fprintln(os.Stderr, err)
		os.Exit(3)
	}
	defer srv.stop()
	peers := []string{"p1", "p2", "p3"}
	if *turnIDs {
		peers = []string{"laptop:alice", "bob@home:2", "c%3Ad:e"}
	}
	total := 0
	for round := 0; round < *rounds; round++ {
		if round%*shards != *shard {
			continue
		}
		var clients []*rcClient
		sessID := map[string]string{}
		bad := false
		for s := 0; s < *sessions && !bad; s++ {
			sid, code, _, err := clienthttp.CreateSession(context.Background(), srv.url, 0)
			if err != nil {
				bad = true
				break
			}
			sn := fmt.Sprintf("s%d", s)
			sessID[sn] = sid
			for i, p := range peers {
				role := "receiver"
				if i == 0 {
					role = "sender"
				}
				url, _ := app.VerifBuildWebSocketURL(srv.url, code, p, role, 0)
				c, _, err := dialWS(url)
				if err != nil {
					bad = true
					break
				}
				clients = append(clients, &rcClient{name: sn + "/" + p, sess: sn, peer: p, c: c})
			}
		}
		if bad {
			res.AddDrift(map[string]any{"why": "setup failed"})
			for _, c := range clients {
				c.c.conn.Close()
			}
			continue
		}
		time.Sleep(100 * time.Millisecond) // joins settle (peer_joined fan-out)
		// plan: message n of author a: n%3==0 broadcast, else addressed to the (n%2)-th other peer; n%4==3 spoofed;
		// n%11==10 addressed to a peer id nobody holds
		type sent struct {
			to    string
			bcast bool
		}
		plan := map[string][]sent{}
		start := make(chan struct{})
		var wg sync.WaitGroup
		for _, cl := range clients {
			cl := cl
			var others []string
			for _, p := range peers {
				if p != cl.peer {
					others = append(others, p)
				}
			}
			var mine []sent
			for n := 0; n < *msgs; n++ {
				switch {
				case n%11 == 10:
					mine = append(mine, sent{to: "nobody"})
				case n%3 == 0:
					mine = append(mine, sent{bcast: true})
				default:
					mine = append(mine, sent{to: others[n%2]})
				}
			}
			plan[cl.name] = mine
			wg.Add(1)
			go func() {
				defer wg.Done()
				<-start
				for n, m := range mine {
					env := map[string]any{"v": 1, "type": "app", "msg_id": fmt.Sprintf("%s-%d", cl.name, n), "payload": appPayload{Author: cl.name, N: n}}
					if !m.bcast {
						env["to"] = m.to
					}
					if n%4 == 3 {
						env["from"] = peers[0]
						if cl.peer == peers[0] {
							env["from"] = peers[1]
						}
						for s, id := range sessID {
							if s != cl.sess {
								env["session_id"] = id
								break
							}
						}
					}
					raw, _ := json.Marshal(env)
					cl.c.mu.Lock()
					err := cl.c.conn.WriteMessage(websocket.TextMessage, raw)
					cl.c.mu.Unlock()
					if err != nil {
						return
					}
				}
			}()
		}
		close(start)
		wg.Wait()
		// wait for the messages themselves: every client's expected number of app messages and error reports
		// (at most 10 s; a loaded machine delivers late), then a short quiet period for anything that must NOT come
		expectApp := func(cl *rcClient) int {
			n := 0
			for _, other := range clients {
				if other.sess != cl.sess || other == cl {
					continue
				}
				for _, m := range plan[other.name] {
					if m.bcast || m.to == cl.peer {
						n++
					}
				}
			}
			return n
		}
		expectErr := func(cl *rcClient) int {
			n := 0
			for _, m := range plan[cl.name] {
				if m.to == "nobody" {
					n++
				}
			}
			return n
		}
		for deadline := time.Now().Add(10 * time.Second); time.Now().Before(deadline); {
			all := true
			for _, cl := range clients {
				apps, errs := 0, 0
				for _, e := range cl.c.snapshot() {
					switch e.Type {
					case "app":
						apps++
					case "error":
						errs++
					}
				}
				if apps < expectApp(cl) || errs < expectErr(cl) {
					all = false
				}
			}
			if all {
				break
			}
			time.Sleep(10 * time.Millisecond)
		}
		time.Sleep(150 * time.Millisecond)
		bySessPeer := map[string]*rcClient{}
		for _, cl := range clients {
			bySessPeer[cl.sess+"/"+cl.peer] = cl
		}
		for _, cl := range clients {
			lastN := map[string]int{}
			got := map[string]map[int]int{}
			for _, e := range cl.c.snapshot() {
				switch e.Type {
				case "app":
					var pl appPayload
					if json.Unmarshal(e.Payload, &pl) != nil {
						continue
					}
					total++
					author := bySessPeer[pl.Author]
					replay := map[string]any{"recipient": cl.name, "envelope": e, "author": pl.Author, "n": pl.N, "round": round}
					if author == nil || author.sess != cl.sess {
						res.AddViolation(map[string]any{"kind": "message_crossed_sessions", "phase": "concurrent"}, replay)
						continue
					}
					if e.From != author.peer {
						res.AddViolation(map[string]any{"kind": "from_is_not_the_authors_identity", "phase": "concurrent"}, replay)
					}
					if e.To != "" && e.To != cl.peer {
						res.AddViolation(map[string]any{"kind": "addressed_message_reached_another_peer", "phase": "concurrent"}, replay)
					}
					if author == cl {
						res.AddViolation(map[string]any{"kind": "author_received_its_own_message", "phase": "concurrent"}, replay)
					}
					if prev, ok := lastN[pl.Author]; ok && pl.N <= prev {
						kind := "reordered"
						if got[pl.Author][pl.N] > 0 {
							kind = "duplicated"
						}
						res.AddViolation(map[string]any{"kind": "message_" + kind, "phase": "concurrent"}, replay)
					}
					lastN[pl.Author] = pl.N
					if got[pl.Author] == nil {
						got[pl.Author] = map[int]int{}
					}
					got[pl.Author][pl.N]++
				case "error":
					// the unknown-addressee report: only for messages this client wrote to "nobody"
					if e.To != "" && e.To != cl.peer {
						res.AddViolation(map[string]any{"kind": "error_reported_to_wrong_peer", "phase": "concurrent"}, map[string]any{"recipient": cl.name, "envelope": e})
					}
				}
			}
			// nothing lost: every broadcast of the other peers of the session and everything addressed to this peer
			for _, other := range clients {
				if other.sess != cl.sess || other == cl {
					continue
				}
				for n, m := range plan[other.name] {
					want := m.bcast || m.to == cl.peer
					have := got[other.name][n]
					if want && have == 0 {
						res.AddViolation(map[string]any{"kind": "message_lost", "phase": "concurrent"},
							map[string]any{"recipient": cl.name, "author": other.name, "n": n, "round": round})
					}
					if !want && have > 0 {
						res.AddViolation(map[string]any{"kind": "addressed_message_reached_another_peer", "phase": "concurrent"},
							map[string]any{"recipient": cl.name, "author": other.name, "n": n, "round": round})
					}
				}
			}
			// the author gets exactly one error per message to an unknown addressee
			errs := 0
			for _, e := range cl.c.snapshot() {
				if e.Type == "error" {
					errs++
				}
			}
			wantErrs := 0
			for _, m := range plan[cl.name] {
				if m.to == "nobody" {
					wantErrs++
				}
			}
			if errs != wantErrs {
				res.AddViolation(map[string]any{"kind": "unknown_addressee_reports_differ", "phase": "concurrent"},
					map[string]any{"client": cl.name, "errors": errs, "expected": wantErrs, "round": round})
			}
		}
		for _, cl := range clients {
			cl.c.conn.Close()
		}
		if !srv.alive() {
			res.AddViolation(map[string]any{"kind": "server_died", "phase": "concurrent"}, map[string]any{"log": tailStr(srv.out.String(), 600)})
			break
		}
		res.Behaviours++
		res.Distinct++
	}
	res.Steps = total
	res.Extra["messages_judged"] = total
	res.Print()
}
