package drivers

import (
	"encoding/json"
	"flag"
	"fmt"
	"math/rand"
	"sort"
	"strings"
	"sync"
	"time"

	"github.com/sheerbytes/sheerbytes/internal/peers"
	"github.com/sheerbytes/sheerbytes/pkg/protocol"
	"github.com/sheerbytes/sheerbytes/verifharness/internal/graph"
)

// ---- Hub.tla <-> peers.Hub (C11, in-process part of C10) ----------------------

type hubAct struct {
	A  string `json:"a"`
	C  string `json:"c"`
	S  string `json:"s"`
	B  int    `json:"b"`
	Ex string `json:"ex"`
	P  string `json:"p"`
}

type hubProj struct {
	Present map[string]bool              `json:"present"`
	Members map[string][]string          `json:"members"`
	ByPeer  map[string]map[string]string `json:"byPeer"`
	Chan    map[string][][]any           `json:"chan"`
	Panics  int                          `json:"panics"`
}

type hubCfg struct {
	Conns    []string
	PeerOf   map[string]string
	SessOf   map[string]string
	Sessions []string
}

var hubCfgs = map[string]hubCfg{
	"A": {Conns: []string{"c1", "c2", "c3"}, PeerOf: map[string]string{"c1": "p1", "c2": "p1", "c3": "p2"},
		SessOf: map[string]string{"c1": "s1", "c2": "s1", "c3": "s1"}, Sessions: []string{"s1"}},
	"B": {Conns: []string{"c1", "c2", "c3"}, PeerOf: map[string]string{"c1": "p1", "c2": "p2", "c3": "p1"},
		SessOf: map[string]string{"c1": "s1", "c2": "s1", "c3": "s2"}, Sessions: []string{"s1", "s2"}},
}

type hubRun struct {
	cfg       hubCfg
	hub       *peers.Hub
	mu        sync.Mutex
	delivered map[string][]string // conn -> msg ids handed to its send func
	remove    map[string]func()
	added     map[string]bool
	leaving   map[string]bool // remove started
	replaced  map[string]bool
	csDone    map[string]bool
	rmOp      map[string]*gatedOp
	csOp      map[string]*gatedOp
	bcOp      map[int]*gatedOp
	sendsLeft int
	panics    int
	trace     []string
	res       *Result
	stuck     map[string]bool // connections whose peer stopped reading: their send func blocks until release is closed
	release   chan struct{}
	broken    bool // an operation never returned: the run cannot go on
}

func newHubRun(cfg hubCfg, ns int, res *Result) *hubRun {
	return &hubRun{cfg: cfg, hub: peers.NewHub(), delivered: map[string][]string{}, remove: map[string]func(){},
		added: map[string]bool{}, leaving: map[string]bool{}, replaced: map[string]bool{}, csDone: map[string]bool{},
		rmOp: map[string]*gatedOp{}, csOp: map[string]*gatedOp{}, bcOp: map[int]*gatedOp{}, sendsLeft: ns, res: res,
		stuck: map[string]bool{}, release: make(chan struct{})}
}

func (r *hubRun) viol(kind string, extra map[string]any) {
	sig := map[string]any{"kind": kind}
	for k, v := range extra {
		sig[k] = v
	}
	r.res.AddViolation(sig, map[string]any{"steps": append([]string(nil), r.trace...)})
}

func (r *hubRun) opEnded(op *gatedOp, what string) {
	if op.done && op.panicV != nil {
		r.panics++
		msg := fmt.Sprint(op.panicV)
		r.viol("panic", map[string]any{"op": what, "msg": msg})
		op.panicV = nil
	}
}

const hubStepTimeout = 5 * time.Second

// nextTarget: conn id the parked broadcast / close-session op is about to touch.
func parkedTarget(op *gatedOp, gate string) (string, bool) {
	if op == nil || op.done || op.parked == nil || op.parked.Name != gate {
		return "", false
	}
	return op.parked.S, true
}

// enabled reports whether the spec action can be performed now, given what
// the real operations are parked at.
func (r *hubRun) enabled(a hubAct) bool {
	switch a.A {
	case "Add":
		return !r.added[a.C]
	case "RmUnlink":
		return r.added[a.C] && r.rmOp[a.C] == nil
	case "RmClose":
		op := r.rmOp[a.C]
		return op != nil && !op.done && op.parked != nil && op.parked.Name == "hub.remove.unlinked"
	case "RmGC":
		op := r.rmOp[a.C]
		return op != nil && !op.done && op.parked != nil && op.parked.Name == "hub.remove.gc"
	case "CsUnlink":
		return r.csOp[a.S] == nil
	case "CsClose":
		t, ok := parkedTarget(r.csOp[a.S], "hub.close.conn")
		return ok && t == a.C
	case "BcCopy":
		return r.bcOp[a.B] == nil
	case "BcSend":
		t, ok := parkedTarget(r.bcOp[a.B], "hub.bcast.send")
		return ok && t == a.C
	case "SendTo":
		return r.sendsLeft > 0
	}
	return false
}

func (r *hubRun) step(a hubAct) {
	r.trace = append(r.trace, hubFmt(a))
	r.res.Steps++
	switch a.A {
	case "Add":
		c := a.C
		sess, peer := r.cfg.SessOf[c], r.cfg.PeerOf[c]
		for _, o := range r.cfg.Conns {
			if o != c && r.cfg.SessOf[o] == sess && r.cfg.PeerOf[o] == peer && r.added[o] && !r.leaving[o] && !r.replaced[o] && !r.csDone[sess] {
				r.replaced[o] = true
			}
		}
		addDone := make(chan func(), 1)
		go func() {
			defer func() {
				if p := recover(); p != nil {
					r.mu.Lock()
					r.panics++
					r.mu.Unlock()
					r.viol("panic", map[string]any{"op": "Add", "msg": fmt.Sprint(p)})
					addDone <- nil
				}
			}()
			addDone <- r.hub.Add(sess, peers.Peer{PeerID: peer, Role: "receiver", ConnID: c},
				func(env protocol.Envelope) error {
					if r.stuck[c] {
						<-r.release // the socket write never completes
						return fmt.Errorf("connection closed")
					}
					r.mu.Lock()
					r.delivered[c] = append(r.delivered[c], env.MsgID)
					r.mu.Unlock()
					return nil
				}, func() {})
		}()
		select {
		case rm := <-addDone:
			r.remove[c] = rm
		case <-time.After(hubStepTimeout):
			r.viol("operation_stuck", map[string]any{"op": "Add"})
			r.broken = true
			return
		}
		r.added[c] = true
		r.csDoneReset(sess)
	case "RmUnlink":
		r.leaving[a.C] = true
		op := startOp("remove:"+a.C, nil, r.remove[a.C])
		r.rmOp[a.C] = op
		r.opEnded(op, "remove")
	case "RmClose", "RmGC":
		op := r.rmOp[a.C]
		if op.advance(hubStepTimeout) {
			r.viol("operation_stuck", map[string]any{"op": "remove"})
		}
		r.opEnded(op, "remove")
	case "CsUnlink":
		s := a.S
		op := startOp("close:"+s, []string{"hub.close.unlinked"}, func() { r.hub.CloseSession(s) })
		r.csOp[s] = op
		r.csDone[s] = true
		r.opEnded(op, "CloseSession")
	case "CsClose":
		op := r.csOp[a.S]
		if op.advance(hubStepTimeout) {
			r.viol("operation_stuck", map[string]any{"op": "CloseSession"})
		}
		r.opEnded(op, "CloseSession")
	case "BcCopy":
		env := protocol.Envelope{V: 1, Type: "x", MsgID: fmt.Sprintf("b%d", a.B)}
		var fn func()
		if a.Ex == "-" {
			fn = func() { r.hub.Broadcast(a.S, env) }
		} else {
			fn = func() { r.hub.BroadcastExcept(a.S, a.Ex, env) }
		}
		op := startOp(fmt.Sprintf("bcast:%d", a.B), []string{"hub.bcast.copied"}, fn)
		r.bcOp[a.B] = op
		r.opEnded(op, "Broadcast")
	case "BcSend":
		op := r.bcOp[a.B]
		if op.advance(hubStepTimeout) {
			r.viol("operation_stuck", map[string]any{"op": "Broadcast"})
		}
		r.opEnded(op, "Broadcast")
	case "SendTo":
		env := protocol.Envelope{V: 1, Type: "x", MsgID: fmt.Sprintf("s%d", r.sendsLeft)}
		r.sendsLeft--
		func() {
			defer func() {
				if p := recover(); p != nil {
					r.panics++
					r.viol("panic", map[string]any{"op": "SendTo", "msg": fmt.Sprint(p)})
				}
			}()
			r.hub.SendTo(a.S, a.P, env)
		}()
	}
	r.oracle()
}

// a session closed by CloseSession stays "closed" for the Routable premise
// (the spec's csDone); nothing resets it.
func (r *hubRun) csDoneReset(string) {}

func (r *hubRun) live(c string) bool {
	return r.added[c] && !r.leaving[c] && !r.replaced[c] && !r.csDone[r.cfg.SessOf[c]]
}

// oracle: property predicates on the real hub after every step.
func (r *hubRun) oracle() {
	snap := r.hub.VerifSnap(r.cfg.Sessions)
	for _, c := range r.cfg.Conns {
		s, p := r.cfg.SessOf[c], r.cfg.PeerOf[c]
		listed := false
		for _, pi := range r.hub.List(s) {
			if pi.PeerID == p {
				listed = true
			}
		}
		if r.live(c) {
			if !listed {
				r.viol("connected_peer_not_listed", nil)
			}
			if !hasStr(snap[s].Members, c) || snap[s].ByPeer[p] != c {
				r.viol("connected_peer_not_routable", nil)
			}
		}
		if op := r.rmOp[c]; op != nil && hasStr(snap[s].Members, c) {
			r.viol("peer_that_left_still_listed", nil)
		}
	}
}

// settle finishes every in-flight operation, then checks routability with a
// real addressed send, the absence of leaks, and delivery order.
func (r *hubRun) settle() {
	defer close(r.release)
	if r.broken {
		return
	}
	for _, group := range []map[string]*gatedOp{r.rmOp, r.csOp} {
		for _, k := range sortedKeys(group) {
			op := group[k]
			if op.finish(hubStepTimeout) {
				r.viol("operation_stuck", map[string]any{"op": op.name})
			}
			r.opEnded(op, strings.SplitN(op.name, ":", 2)[0])
		}
	}
	for _, b := range []int{1, 2, 3} {
		if op := r.bcOp[b]; op != nil {
			if op.finish(hubStepTimeout) {
				r.viol("operation_stuck", map[string]any{"op": op.name})
			}
			r.opEnded(op, "Broadcast")
		}
	}
	r.oracle()
	// addressed probe to every live connection
	for _, c := range r.cfg.Conns {
		if !r.live(c) || r.stuck[c] {
			continue
		}
		id := "probe-" + c
		ok := false
		func() {
			defer func() {
				if p := recover(); p != nil {
					r.viol("panic", map[string]any{"op": "SendTo", "msg": fmt.Sprint(p)})
				}
			}()
			ok = r.hub.SendTo(r.cfg.SessOf[c], r.cfg.PeerOf[c], protocol.Envelope{V: 1, Type: "x", MsgID: id})
		}()
		if !ok {
			r.viol("sendto_live_peer_returns_false", nil)
			continue
		}
		got := false
		for i := 0; i < 200 && !got; i++ {
			r.mu.Lock()
			got = hasStr(r.delivered[c], id)
			r.mu.Unlock()
			if !got {
				time.Sleep(200 * time.Microsecond)
			}
		}
		if !got {
			r.viol("addressed_message_to_live_peer_not_delivered", nil)
		}
	}
	// leak: remove everything that is still connected, then the maps must be empty
	for _, c := range r.cfg.Conns {
		if r.added[c] && r.rmOp[c] == nil {
			op := startOp("remove:"+c, []string{"hub.remove.unlinked", "hub.remove.gc"}, r.remove[c])
			if op.finish(hubStepTimeout) {
				r.viol("operation_stuck", map[string]any{"op": "remove"})
			}
			r.rmOp[c] = op
			r.opEnded(op, "remove")
		}
	}
	ns, ni := r.hub.VerifSessionCount()
	if ns != 0 || ni != 0 {
		r.viol("routing_state_leaked_after_everyone_left", map[string]any{"sessions": ns, "index": ni})
	}
	// isolation / duplication on what each connection was handed
	r.mu.Lock()
	defer r.mu.Unlock()
	for c, msgs := range r.delivered {
		seen := map[string]bool{}
		for _, m := range msgs {
			if seen[m] {
				r.viol("message_delivered_twice", nil)
			}
			seen[m] = true
		}
		_ = c
	}
}

func hubFmt(a hubAct) string {
	switch a.A {
	case "Add", "RmUnlink", "RmClose", "RmGC":
		return a.A + "(" + a.C + ")"
	case "CsUnlink":
		return "CsUnlink(" + a.S + ")"
	case "CsClose":
		return "CsClose(" + a.S + "," + a.C + ")"
	case "BcCopy":
		return fmt.Sprintf("BcCopy(%d,%s,except=%s)", a.B, a.S, a.Ex)
	case "BcSend":
		return fmt.Sprintf("BcSend(%d,%s)", a.B, a.C)
	case "SendTo":
		return "SendTo(" + a.S + "," + a.P + ")"
	}
	return a.A
}

func (r *hubRun) conforms(post hubProj) (bool, string) {
	snap := r.hub.VerifSnap(r.cfg.Sessions)
	for _, s := range r.cfg.Sessions {
		if snap[s].Present != post.Present[s] {
			return false, "session presence"
		}
		want := append([]string(nil), post.Members[s]...)
		sort.Strings(want)
		if !sameStrs(snap[s].Members, want) {
			return false, "members"
		}
		for p, c := range post.ByPeer[s] {
			real := snap[s].ByPeer[p]
			if c == "-" {
				c = ""
			}
			if real != c {
				return false, "byPeer"
			}
		}
	}
	// messages accepted for delivery == messages handed to the send func (after the writer caught up)
	for c, msgs := range post.Chan {
		if r.stuck[c] {
			continue
		}
		var want []string
		for _, m := range msgs {
			if len(m) == 2 {
				want = append(want, fmt.Sprintf("%v%v", m[0], m[1]))
			}
		}
		okc := false
		for i := 0; i < 300 && !okc; i++ {
			r.mu.Lock()
			okc = sameStrs(r.delivered[c], want)
			r.mu.Unlock()
			if !okc {
				time.Sleep(100 * time.Microsecond)
			}
		}
		if !okc {
			return false, "delivered messages of " + c
		}
	}
	if post.Panics != r.panics {
		return false, "panics"
	}
	return true, ""
}

// Hub replays Hub.tla behaviours on the real peers.Hub with goroutine gates.
func Hub(args []string) {
	fs := flag.NewFlagSet("hub", flag.ExitOnError)
	edges := fs.String("edges", "", "ndjson transitions emitted by TLC")
	cfgName := fs.String("cfg", "A", "configuration A|B")
	ns := fs.Int("ns", 1, "NS of the spec")
	seed := fs.Int64("seed", 1, "seed")
	shard := fs.Int("shard", 0, "this shard")
	shards := fs.Int("shards", 1, "number of shards")
	sample := fs.Int("sample", 0, "replay only a seeded sample of this many transitions (0 = all)")
	budget := fs.Duration("budget", 10*time.Minute, "wall-clock budget")
	stuckList := fs.String("stuck", "", "comma separated connections whose peer has stopped reading (StuckConns of the spec)")
	fs.Parse(args)
	g, err := graph.Load(*edges)
	if err != nil {
		panic(err)
	}
	installHooks()
	cfg := hubCfgs[*cfgName]
	res := &Result{Extra: map[string]any{}}
	rng := rand.New(rand.NewSource(*seed))
	g.Index()
	res.States = g.States()
	res.Transitions = len(g.Edges)
	idx := make([]int, 0, len(g.Edges))
	for i := range g.Edges {
		if i%*shards == *shard {
			idx = append(idx, i)
		}
	}
	if *sample > 0 && *sample < len(idx) {
		rng.Shuffle(len(idx), func(i, j int) { idx[i], idx[j] = idx[j], idx[i] })
		idx = idx[:*sample]
	}
	covered := map[int]bool{}
	actsSeen := map[string]int{}
	distinct := map[string]bool{}
	t0 := time.Now()
	skipped, reroutes, uncoverable := 0, 0, 0
	for _, target := range idx {
		if covered[target] {
			continue
		}
		for attempt := 0; attempt < 12 && !covered[target]; attempt++ {
			if time.Since(t0) > *budget {
				break
			}
			path := g.PathTo(target)
			run := newHubRun(cfg, *ns, res)
			for _, c := range strings.Split(*stuckList, ",") {
				if c != "" {
					run.stuck[c] = true
				}
			}
			res.Behaviours++
			for _, e := range path {
				var a hubAct
				json.Unmarshal(e.Act, &a)
				cur := e
				if !run.enabled(a) {
					// the real map iteration order picked another recipient: follow the sibling transition
					alt := g.Sibling(e, func(o *graph.Edge) bool {
						var b hubAct
						json.Unmarshal(o.Act, &b)
						return b.A == a.A && b.B == a.B && b.S == a.S && run.enabled(b)
					})
					if alt == nil {
						if a.A != "BcSend" && a.A != "CsClose" {
							res.AddDrift(map[string]any{"why": "spec action not enabled on the real object", "act": a, "steps": run.trace})
						}
						break
					}
					reroutes++
					cur = alt
					json.Unmarshal(cur.Act, &a)
				}
				run.step(a)
				if run.broken {
					break
				}
				actsSeen[a.A]++
				covered[g.IndexOf(cur)] = true
				var post hubProj
				json.Unmarshal(cur.Post, &post)
				if ok, why := run.conforms(post); !ok {
					res.AddDrift(map[string]any{"why": "real state differs from spec state: " + why, "act": a, "steps": run.trace})
					break
				}
				if cur != e {
					break // left the planned path
				}
			}
			run.settle()
			key := strings.Join(run.trace, ",")
			if !distinct[key] {
				distinct[key] = true
				if len(run.trace) > 2 {
					res.Distinct++
				}
			}
			if res.Behaviours%1501 == 1 {
				res.AddSample(map[string]any{"cfg": *cfgName, "steps": run.trace}, 6)
			}
		}
		if !covered[target] {
			if time.Since(t0) > *budget {
				skipped++
			} else {
				uncoverable++
			}
		}
	}
	res.Extra["actions_exercised"] = actsSeen
	res.Extra["transitions_covered"] = len(covered)
	res.Extra["reroutes"] = reroutes
	res.Extra["not_reached_after_retries"] = uncoverable
	res.Extra["skipped_over_budget"] = skipped
	res.Print()
}
