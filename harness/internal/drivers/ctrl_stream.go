package drivers

import (
	"bytes"
	"flag"
	"fmt"
	"io"
	"os"
	"path/filepath"
	"time"

	"github.com/sheerbytes/sheerbytes/internal/transfer"
	"github.com/sheerbytes/sheerbytes/verifharness/internal/vnet"
	"github.com/sheerbytes/sheerbytes/verifharness/internal/xfer"
)

// ---- C18 on live streams: what real senders and receivers write is a sequence of whole records --------
//
// The value / sequence enumeration binds the encoder and decoder of single records.  In a running
// transfer several goroutines (per-file resume negotiation, the workers that finish files, the
// acknowledgement writer) emit records on the one control stream, most of them in several Write
// calls.  Here real multi-file transfers run over the simulated connection whose sender side gives up
// the processor after every control-stream Write; afterwards the bytes each side wrote on the control
// stream are decoded with the real decoder: the header, then record after record down to the last
// byte.  A record that does not decode, an unknown type, or bytes left over mean that records were
// interleaved (or encoded with another length than decoded).

func decodeControl(b []byte, withHeader bool) (records int, types map[string]int, err error) {
	r := bytes.NewReader(b)
	types = map[string]int{}
	if withHeader {
		if _, err = transfer.VerifReadControlHeader(r); err != nil {
			return 0, types, fmt.Errorf("header: %w", err)
		}
	}
	for r.Len() > 0 {
		at := len(b) - r.Len()
		typ, msg, e := transfer.VerifReadControlMessage(r)
		if e != nil {
			return records, types, fmt.Errorf("record %d at byte %d of %d: %w", records+1, at, len(b), e)
		}
		records++
		types[fmt.Sprintf("%T", msg)]++
		_ = typ
	}
	return records, types, nil
}

func CtrlStream(args []string) {
	fs := flag.NewFlagSet("ctrl-stream", flag.ExitOnError)
	runs := fs.Int("runs", 24, "transfers (over all shards)")
	seed := fs.Int64("seed", 1, "seed")
	shard := fs.Int("shard", 0, "shard")
	shards := fs.Int("shards", 1, "shards")
	fs.Parse(args)
	installHooks()
	res := &Result{Extra: map[string]any{}}
	base, _ := os.MkdirTemp("", "ctl-")
	defer os.RemoveAll(base)
	totalTypes := map[string]int{}
	outcomes := map[string]int{}
	for i := 0; i < *runs; i++ {
		if i%*shards != *shard {
			continue
		}
		dir := filepath.Join(base, fmt.Sprintf("r%d", i))
		src := filepath.Join(dir, "src", "tree")
		var specs []xfer.FileSpec
		nfiles := 5 + i%4
		for k := 0; k < nfiles; k++ {
			specs = append(specs, xfer.FileSpec{Rel: fmt.Sprintf("d%d/file-%02d.bin", k%2, k), Size: int64(200 + 97*k + 13*i)})
		}
		if err := xfer.MakeTree(src, specs, *seed+int64(i)); err != nil {
			panic(err)
		}
		out := filepath.Join(dir, "out")
		if i%3 == 1 {
			// a second run over a partly delivered tree: resume information flows for files that exist
			xfer.Run(xfer.Config{Transport: "mock", Conns: 1, Streams: 2, ChunkSize: 64, Resume: true, Seed: *seed, Watchdog: 8 * time.Second,
				Fault: &vnetFault{Stream: 1, Dir: 0, Offset: 900, Kind: "abrupt"}}, src, out)
		}
		var pair *vnet.Pair
		cfg := xfer.Config{Transport: "mock", Conns: 1, Streams: 3 + i%3, ChunkSize: 64, Resume: true, CtlYield: true, SmallBelow: 64, VerifyTail: uint32(i % 2),
			Seed: *seed + int64(i), Watchdog: 10 * time.Second, Tap: func(p *vnet.Pair) { pair = p }}
		o, err := xfer.Run(cfg, src, out)
		res.Behaviours++
		if err != nil || pair == nil {
			res.AddDrift(map[string]any{"why": fmt.Sprint("harness: ", err)})
			continue
		}
		for _, side := range []struct {
			name   string
			dir    int
			header bool
		}{{"sender", vnet.A, true}, {"receiver", vnet.B, false}} {
			b := pair.Snapshot(0, side.dir)
			n, types, derr := decodeControl(b, side.header)
			res.Steps += n
			for k, v := range types {
				totalTypes[side.name+" "+k] += v
			}
			if derr != nil {
				outcomes[side.name+": stream does not decode"]++
				res.AddViolation(map[string]any{"kind": "control_stream_is_not_a_sequence_of_whole_records", "written_by": side.name, "property": "C18"},
					map[string]any{"cfg": cfg, "files": nfiles, "bytes": len(b), "records_decoded_before_the_failure": n, "error": derr.Error(), "outcome": o})
			} else {
				outcomes[side.name+": decodes to the last byte"]++
			}
		}
		if !(o.SendOK && o.RecvOK && o.TreeEqual) {
			outcomes["transfer did not succeed"]++
			// nothing was injected: these are healthy (partly resumed) transfers, and they must complete (C03)
			res.AddViolation(map[string]any{"kind": "healthy_transfer_failed", "via": "ctrl-stream", "property": "C03"},
				map[string]any{"cfg": cfg, "files": nfiles, "outcome": o})
		}
		os.RemoveAll(dir)
	}
	res.Distinct = res.Behaviours
	res.Extra["outcomes"] = outcomes
	res.Extra["records_by_type"] = totalTypes
	res.Print()
}

var _ = io.EOF
