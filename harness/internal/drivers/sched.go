package drivers

import (
	"encoding/json"
	"flag"
	"fmt"
	"os"
	"time"

	"github.com/sheerbytes/sheerbytes/internal/scheduler"
	"github.com/sheerbytes/sheerbytes/verifharness/internal/graph"
)

// ---- Sched.tla <-> the real scheduler.HybridScheduler (C17, file activation) -----------------------
//
// The environment steps of a TLC behaviour (which active file shrinks, which one completes, when the
// sender asks for the next file) are applied to the real scheduler the way SendManifestMultiStream
// does it (Add for every file, Next, Add again with StartedAt set, UpdateRemaining, Remove).  At every
// Next the real answer must be one of the answers the specification allows in the current state; the
// walk then follows the edge the implementation took (the choice among medium / large files is the
// implementation's).  Verdicts come from the property: a key returned twice / after it was started,
// "nothing" although files are pending and no file is active, a key that was never added.

type schedAct struct {
	A string `json:"a"`
	R int    `json:"r"`
	F int    `json:"f"`
	C string `json:"c"`
	K int    `json:"k"`
}

type schedX struct {
	Cls  []string `json:"cls"`
	Rank []int    `json:"rank"`
	P    int      `json:"p"`
}

func schedBytes(cls string, rank int) int64 {
	const mib = 1 << 20
	switch cls {
	case "S":
		return int64(rank) * mib // <= 4 MiB
	case "M":
		return int64(8+rank*8) * mib // <= 64 MiB
	}
	return int64(100+rank*50) * mib
}

func schedKey(f int) scheduler.FileKey {
	return scheduler.FileKey{StreamID: uint64(1000 + f), RelPath: fmt.Sprintf("dir/file-%02d.bin", f)}
}

func SchedWalk(args []string) {
	fs := flag.NewFlagSet("sched-walk", flag.ExitOnError)
	edges := fs.String("edges", "", "ndjson emitted by Sched.tla")
	shard := fs.Int("shard", 0, "shard")
	shards := fs.Int("shards", 1, "shards")
	sample := fs.Int("sample", 1, "every n-th transition")
	fs.Parse(args)
	g, err := graph.Load(*edges)
	if err != nil {
		fmt.Fprintln(os.Stderr, err)
		os.Exit(3)
	}
	g.Index()
	res := &Result{Extra: map[string]any{}}
	covered := map[int]bool{}
	actions := map[string]int{}
	for ei := range g.Edges {
		if ei%*shards != *shard {
			continue
		}
		if *sample > 1 && (ei / *shards)%*sample != 0 {
			continue
		}
		path := g.PathTo(ei)
		if len(path) == 0 {
			continue
		}
		var x schedX
		_ = json.Unmarshal(path[0].X, &x)
		n := len(x.Cls)
		sched := scheduler.NewHybridScheduler(scheduler.PolicyConfig{ParallelFiles: x.P})
		now := time.Unix(1_700_000_000, 0)
		metas := map[int]scheduler.FileMeta{}
		for f := 1; f <= n; f++ {
			sz := schedBytes(x.Cls[f-1], x.Rank[f-1])
			m := scheduler.FileMeta{RelPath: schedKey(f).RelPath, Size: sz, Remaining: sz, AddedAt: now}
			metas[f] = m
			sched.Add(schedKey(f), m)
		}
		status := make([]string, n+1) // "" pending, "active", "gone"
		returned := make([]int, n+1)
		res.Behaviours++
		var trace []string
		cur := path
		for si := 0; si < len(cur); si++ {
			e := cur[si]
			var a schedAct
			_ = json.Unmarshal(e.Act, &a)
			now = now.Add(37 * time.Millisecond)
			res.Steps++
			actions[a.A]++
			switch a.A {
			case "Shrink":
				m := metas[a.F]
				m.Remaining = schedBytes(a.C, a.K)
				metas[a.F] = m
				sched.UpdateRemaining(schedKey(a.F), m.Remaining)
				trace = append(trace, fmt.Sprintf("Shrink(%d,%s%d)", a.F, a.C, a.K))
			case "Remove":
				sched.Remove(schedKey(a.F))
				status[a.F] = "gone"
				trace = append(trace, fmt.Sprintf("Remove(%d)", a.F))
			case "Next":
				key, ok := sched.Next(now)
				got := 0
				if ok {
					for f := 1; f <= n; f++ {
						if schedKey(f) == key {
							got = f
						}
					}
					if got == 0 {
						res.AddViolation(map[string]any{"kind": "scheduler_returned_unknown_key", "via": "sched"}, map[string]any{"trace": trace, "key": key})
						si = len(cur)
						continue
					}
				}
				trace = append(trace, fmt.Sprintf("Next=%d", got))
				pending, active := 0, 0
				for f := 1; f <= n; f++ {
					switch status[f] {
					case "":
						pending++
					case "active":
						active++
					}
				}
				replay := map[string]any{"classes": x.Cls, "ranks": x.Rank, "parallel": x.P, "trace": trace}
				if got != 0 {
					returned[got]++
					if status[got] != "" || returned[got] > 1 {
						res.AddViolation(map[string]any{"kind": "started_file_returned_again", "via": "sched"}, replay)
						si = len(cur)
						continue
					}
					status[got] = "active"
					// the sender re-adds the key with its start time once FileBegin is out
					m := metas[got]
					m.StartedAt, m.LastScheduledAt = now, now
					metas[got] = m
					sched.Add(schedKey(got), m)
				} else if pending > 0 && active == 0 {
					res.AddViolation(map[string]any{"kind": "no_file_offered_although_pending_and_idle", "via": "sched"}, replay)
					si = len(cur)
					continue
				}
				if got != a.R {
					// the implementation chose differently from this behaviour: is its choice allowed here?
					alt := g.Sibling(e, func(o *graph.Edge) bool {
						var oa schedAct
						_ = json.Unmarshal(o.Act, &oa)
						return oa.A == "Next" && oa.R == got
					})
					if alt == nil {
						res.AddDrift(map[string]any{"why": "Next returned a file the specification does not allow in this state", "got": got, "spec": a.R, "replay": replay})
					} else {
						covered[g.IndexOf(alt)] = true
					}
					si = len(cur) // the rest of this behaviour belongs to the other choice
					continue
				}
			}
			covered[g.IndexOf(e)] = true
		}
		// drain: complete everything, every file must have been begun exactly once
		for guard := 0; guard < 4*n+4; guard++ {
			now = now.Add(time.Second)
			key, ok := sched.Next(now)
			if ok {
				got := 0
				for f := 1; f <= n; f++ {
					if schedKey(f) == key {
						got = f
					}
				}
				if got == 0 || status[got] != "" {
					res.AddViolation(map[string]any{"kind": "started_file_returned_again", "via": "sched"}, map[string]any{"classes": x.Cls, "trace": trace, "drain": true, "got": got})
					break
				}
				returned[got]++
				status[got] = "active"
				m := metas[got]
				m.StartedAt, m.LastScheduledAt = now, now
				sched.Add(schedKey(got), m)
				continue
			}
			done := true
			for f := 1; f <= n; f++ {
				if status[f] == "active" {
					sched.Remove(schedKey(f))
					status[f] = "gone"
					done = false
					break
				}
			}
			if done {
				break
			}
		}
		for f := 1; f <= n; f++ {
			if returned[f] != 1 {
				res.AddViolation(map[string]any{"kind": "file_not_begun_exactly_once", "via": "sched", "times": returned[f]},
					map[string]any{"classes": x.Cls, "ranks": x.Rank, "parallel": x.P, "trace": trace, "file": f})
				break
			}
		}
		res.AddSample(map[string]any{"classes": x.Cls, "parallel": x.P, "trace": trace}, 4)
	}
	res.Distinct = len(covered)
	res.Transitions = len(g.Edges)
	res.Extra["actions_exercised"] = actions
	res.Print()
}
