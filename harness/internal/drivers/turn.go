package drivers

import (
	"crypto/hmac"
	"crypto/sha1"
	"encoding/base64"
	"net/url"
	"strconv"
	"strings"
	"time"

	"github.com/sheerbytes/sheerbytes/internal/ice"
)

// checkTurn: the credentials the server minted, parsed by the client's own parser,
// must be the user, secret and endpoint the server intended.
func checkTurn(bad func(string, map[string]any), minted, configured, peerID, secret string) {
	got, err := ice.VerifParseTurnServer(minted)
	if err != nil {
		bad("client_cannot_parse_minted_turn_url", map[string]any{"minted": minted, "err": err.Error()})
		return
	}
	// intended endpoint / flags: what the configured URL says (parsed independently)
	raw := configured
	switch {
	case strings.HasPrefix(raw, "turns://"), strings.HasPrefix(raw, "turn://"):
	case strings.HasPrefix(raw, "turns:"):
		raw = "turns://" + strings.TrimPrefix(raw, "turns:")
	case strings.HasPrefix(raw, "turn:"):
		raw = "turn://" + strings.TrimPrefix(raw, "turn:")
	default:
		raw = "turn://" + raw
	}
	u, _ := url.Parse(raw)
	wantTLS := u.Scheme == "turns"
	wantTCP := wantTLS || u.Query().Get("transport") == "tcp"
	if got.Addr != u.Host {
		bad("turn_endpoint_differs", map[string]any{"minted": minted, "parsed": got.Addr, "intended": u.Host})
	}
	if got.UseTLS != wantTLS || got.UseTCP != wantTCP {
		bad("turn_transport_differs", map[string]any{"minted": minted, "tls": got.UseTLS, "tcp": got.UseTCP})
	}
	if sn := u.Query().Get("servername"); sn != "" && got.ServerName != sn {
		bad("turn_servername_lost", map[string]any{"minted": minted, "parsed": got.ServerName})
	}
	// user = "<unix expiry>:<peer id>", secret = base64(HMAC-SHA1(static secret, user))
	i := strings.Index(got.Username, ":")
	if i < 0 {
		bad("turn_user_differs", map[string]any{"parsed": got.Username})
		return
	}
	exp, err := strconv.ParseInt(got.Username[:i], 10, 64)
	if err != nil || exp < time.Now().Unix() || exp > time.Now().Add(2*time.Hour).Unix() {
		bad("turn_user_differs", map[string]any{"parsed": got.Username, "why": "expiry"})
	}
	if got.Username[i+1:] != peerID {
		bad("turn_user_differs", map[string]any{"parsed_peer": got.Username[i+1:], "intended_peer": peerID})
	}
	mac := hmac.New(sha1.New, []byte(secret))
	mac.Write([]byte(got.Username))
	want := base64.StdEncoding.EncodeToString(mac.Sum(nil))
	if got.Password != want {
		// the secret the server minted belongs to the user it intended; recompute for the intended user
		mac2 := hmac.New(sha1.New, []byte(secret))
		mac2.Write([]byte(got.Username[:i+1] + peerID))
		if got.Password != base64.StdEncoding.EncodeToString(mac2.Sum(nil)) {
			bad("turn_secret_differs", map[string]any{"parsed": got.Password})
		} else {
			bad("turn_user_and_secret_do_not_match", map[string]any{"parsed_user": got.Username})
		}
	}
}
