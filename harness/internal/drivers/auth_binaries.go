package drivers

import (
	"context"
	"crypto/rand"
	"flag"
	"fmt"
	"io"
	"os"
	"path/filepath"
	"strings"
	"time"

	"github.com/sheerbytes/sheerbytes/internal/app"
	"github.com/sheerbytes/sheerbytes/internal/transfer"
	"github.com/sheerbytes/sheerbytes/pkg/manifest"
	"github.com/sheerbytes/sheerbytes/pkg/protocol"
)

// ---- C08 on the real binaries' primary connection --------------------------------------------------
//
// A rogue host against a real `thru join`, and a rogue receiver against a real `thru host`: the rogue
// peer takes part in the real signaling (it is on the session, as a man in the middle of the QUIC path
// would effectively be), completes the QUIC/TLS handshake and then misbehaves at the authentication
// step.  The honest binary must refuse, and no manifest or file byte may move: the receiver exits
// non-zero with an output directory that holds no file, the host opens no stream beyond the
// authentication stream and writes nothing but its 50-byte proof; neither trace reaches xfer.begin.

type rogueOutcome struct {
	Attack    string   `json:"attack"`
	Side      string   `json:"honest_side"`
	Exit      int      `json:"exit"`
	Exited    bool     `json:"exited"`
	AuthEnds  []uint64 `json:"auth_end"`
	XferBegin bool     `json:"xfer_begin"`
	DataPts   int      `json:"transfer_points"`
	Files     []string `json:"files_in_output,omitempty"`
	ExtraData int      `json:"bytes_beyond_the_proof"`
	ExtraStr  int      `json:"streams_beyond_the_auth_stream"`
	Output    string   `json:"output_tail"`
	Trouble   string   `json:"trouble,omitempty"`
}

func summariseTrace(evs []hookEv, o *rogueOutcome) {
	for _, e := range evs {
		switch {
		case e.Pt == "auth.end":
			o.AuthEnds = append(o.AuthEnds, e.A)
		case e.Pt == "xfer.begin":
			o.XferBegin = true
		case strings.HasPrefix(e.Pt, "recv.") || strings.HasPrefix(e.Pt, "send."):
			o.DataPts++
		}
	}
}

func listFiles(root string) []string {
	var out []string
	filepath.Walk(root, func(p string, info os.FileInfo, err error) error {
		if err == nil && !info.IsDir() {
			rel, _ := filepath.Rel(root, p)
			out = append(out, rel)
		}
		return nil
	})
	return out
}

// rogue host vs real `thru join`
func rogueHostRun(srvURL, thruBin, attack string) rogueOutcome {
	o := rogueOutcome{Attack: attack, Side: "receiver"}
	work, err := os.MkdirTemp("", "vh-rogue-")
	if err != nil {
		o.Trouble = err.Error()
		return o
	}
	defer os.RemoveAll(work)
	h, err := startScriptedHost(srvURL, thruBin, work, 1, nil)
	if err != nil {
		o.Trouble = err.Error()
		return o
	}
	defer h.close()
	if len(h.cands) == 0 {
		o.Trouble = "no candidate"
		return o
	}
	if strings.HasPrefix(attack, "abandon-") {
		// a dialer without the code opens connections and closes each the way an honest sender abandons the losers of
		// its dial race (the receiver then waits for "the connection the sender kept"); after k of them it opens one more
		// and pushes a file without any authentication
		k := len(h.cands)
		fmt.Sscanf(attack, "abandon-%d-then-plant", &k)
		first, err := dialCandidate(h.cands[0])
		if err != nil {
			o.Trouble = "dial: " + err.Error()
			return o
		}
		time.Sleep(150 * time.Millisecond) // the receiver takes it as its primary
		first.abandon()
		for i := 1; i < k; i++ {
			c, err := dialCandidate(h.cands[i%len(h.cands)])
			if err != nil {
				break
			}
			time.Sleep(60 * time.Millisecond)
			c.abandon()
		}
		last, err := dialCandidate(h.cands[0])
		if err == nil {
			defer last.close()
			src := filepath.Join(work, "plant", "selection")
			os.MkdirAll(src, 0o755)
			os.WriteFile(filepath.Join(src, "planted.txt"), []byte("no code needed"), 0o644)
			if m, err := manifest.Scan(src); err == nil {
				pctx, pcancel := context.WithTimeout(context.Background(), 6*time.Second)
				_ = transfer.SendManifestMultiStream(pctx, last.tc, src, m, transfer.Options{ChunkSize: 64, ParallelFiles: 1})
				pcancel()
			}
		}
		code, exited := h.child.wait(14 * time.Second)
		o.Exit, o.Exited = code, exited
		summariseTrace(h.child.events(), &o)
		o.Files = listFiles(h.outDir)
		o.Output = tailText(h.child.out.String(), 300)
		return o
	}
	c, err := dialCandidate(h.cands[0])
	if err != nil {
		o.Trouble = "dial: " + err.Error()
		return o
	}
	defer c.close()
	ctx, cancel := context.WithTimeout(context.Background(), 8*time.Second)
	defer cancel()
	switch attack {
	case "wrong-code":
		_ = app.VerifAuthenticate(ctx, c.tc, authCodes["guess"], app.VerifRoleSender)
	case "garbage-proof":
		if s, err := c.tc.OpenStream(ctx); err == nil {
			b := make([]byte, authMsgLen)
			rand.Read(b)
			b[0], b[1] = 1, roleSenderB
			s.Write(b)
			io.ReadFull(s, make([]byte, authMsgLen))
		}
	case "receiver-role-proof":
		if s, err := c.tc.OpenStream(ctx); err == nil {
			ekm, _ := ekmOf(c.tc)
			s.Write(makeProof(h.code, ekm, roleRecvB, randNonce())) // right key, wrong role
			io.ReadFull(s, make([]byte, authMsgLen))
		}
	case "manifest-instead-of-auth":
		// skip authentication altogether: start the transfer protocol (control header with a manifest, a file)
		if s, err := c.tc.OpenStream(ctx); err == nil {
			m := manifest.Manifest{Root: "selection", Items: []manifest.FileItem{{RelPath: "evil.txt", Size: 4, ID: "0000000000000001"}}, TotalBytes: 4, FileCount: 1}
			_ = transfer.VerifWriteControlHeader(s, m)
			_ = transfer.VerifWriteRecord(s, transfer.DataStreams{Count: 1})
			_ = transfer.VerifWriteRecord(s, transfer.FileBegin{RelPath: "evil.txt", FileSize: 4, ChunkSize: 4, StreamID: 7})
			if d, err := c.tc.OpenStream(ctx); err == nil {
				d.Write(make([]byte, 24))
			}
		}
	}
	code, exited := h.child.wait(14 * time.Second)
	o.Exit, o.Exited = code, exited
	summariseTrace(h.child.events(), &o)
	o.Files = listFiles(h.outDir)
	o.Output = tailText(h.child.out.String(), 300)
	return o
}

// rogue receiver vs real `thru host`
func rogueReceiverRun(srvURL, thruBin, attack string) rogueOutcome {
	o := rogueOutcome{Attack: attack, Side: "sender"}
	work, err := os.MkdirTemp("", "vh-rogue-")
	if err != nil {
		o.Trouble = err.Error()
		return o
	}
	defer os.RemoveAll(work)
	src := filepath.Join(work, "share")
	if err := makeLiteTree(src, []fileSpecLite{{"secret.txt", 4000}, {"d/more.bin", 70000}}, 7); err != nil {
		o.Trouble = err.Error()
		return o
	}
	host, err := startChild(thruBin, []string{"host", src, "--server-url", srvURL, "--stun-server", "stun:127.0.0.1:9", "--total-connections", "1"},
		filepath.Join(work, "host.trace"), nil, "")
	if err != nil {
		o.Trouble = err.Error()
		return o
	}
	defer host.kill()
	code := ""
	for i := 0; i < 400 && code == ""; i++ {
		txt := host.out.String()
		if j := strings.Index(txt, "Join Code: "); j >= 0 {
			rest := txt[j+len("Join Code: "):]
			if k := strings.IndexAny(rest, " \n"); k > 0 {
				code = rest[:k]
			}
		}
		if code == "" {
			time.Sleep(20 * time.Millisecond)
		}
	}
	if code == "" {
		o.Trouble = "no join code"
		return o
	}
	me := "roguerecv1"
	wsu, err := app.VerifBuildWebSocketURL(srvURL, code, me, "receiver", 0)
	if err != nil {
		o.Trouble = err.Error()
		return o
	}
	ws, _, err := dialWS(wsu)
	if err != nil {
		o.Trouble = "ws: " + err.Error()
		return o
	}
	defer ws.conn.Close()
	h := &scriptedHost{ws: ws, peerID: me}
	offer, ok := h.waitEnv(8*time.Second, func(e protocol.Envelope) bool { return e.Type == protocol.TypeManifestOffer })
	if !ok {
		o.Trouble = "no manifest offer from the host"
		return o
	}
	h.sessionID = offer.SessionID
	var mo protocol.ManifestOffer
	_ = offer.DecodePayload(&mo)
	hostID := offer.From
	if err := h.send(protocol.TypeManifestAccept, hostID, protocol.ManifestAccept{ManifestID: mo.Summary.ManifestID, Mode: "all", ParallelConnections: 1}); err != nil {
		o.Trouble = err.Error()
		return o
	}
	if _, ok := h.waitEnv(8*time.Second, func(e protocol.Envelope) bool { return e.Type == protocol.TypeTransferStart }); !ok {
		o.Trouble = "no transfer_start"
		return o
	}
	ln, err := newQListener()
	if err != nil {
		o.Trouble = err.Error()
		return o
	}
	defer ln.Close()
	if err := h.send(protocol.TypeIceCandidates, hostID, protocol.IceCandidates{Candidates: []string{ln.udp.LocalAddr().String()}}); err != nil {
		o.Trouble = err.Error()
		return o
	}
	ctx, cancel := context.WithTimeout(context.Background(), 12*time.Second)
	defer cancel()
	conn, err := ln.lt.Accept(ctx)
	if err != nil {
		o.Trouble = "the host did not connect: " + tailText(host.out.String(), 200)
		return o
	}
	defer conn.Close()
	s, err := conn.AcceptStream(ctx)
	if err != nil {
		o.Trouble = "no auth stream: " + err.Error()
		return o
	}
	proof := make([]byte, authMsgLen)
	if _, err := io.ReadFull(s, proof); err != nil {
		o.Trouble = "no proof from the host: " + err.Error()
		return o
	}
	ekm, _ := ekmOf(conn)
	switch attack {
	case "reflect":
		s.Write(proof)
	case "garbage-proof":
		b := make([]byte, authMsgLen)
		rand.Read(b)
		b[0], b[1] = 1, roleRecvB
		s.Write(b)
	case "wrong-code":
		s.Write(makeProof(authCodes["guess"], ekm, roleRecvB, randNonce()))
	case "sender-role-proof":
		s.Write(makeProof(code, ekm, roleSenderB, randNonce()))
	case "closes":
		s.Close()
	}
	// anything else from the host on this connection?
	extra := make(chan int, 1)
	go func() {
		n, _ := io.Copy(io.Discard, s)
		extra <- int(n)
	}()
	sctx, scancel := context.WithTimeout(context.Background(), 1500*time.Millisecond)
	if s2, err := conn.AcceptStream(sctx); err == nil {
		o.ExtraStr++
		buf := make([]byte, 4096)
		if dl, ok := s2.(interface{ SetReadDeadline(time.Time) error }); ok {
			_ = dl.SetReadDeadline(time.Now().Add(500 * time.Millisecond))
		}
		n, _ := s2.Read(buf)
		o.ExtraData += n
	}
	scancel()
	select {
	case n := <-extra:
		o.ExtraData += n
	case <-time.After(200 * time.Millisecond):
	}
	host.waitEvent(3*time.Second, func(e hookEv) bool { return e.Pt == "auth.end" })
	summariseTrace(host.events(), &o)
	if c, ok := host.wait(10 * time.Millisecond); ok {
		o.Exit, o.Exited = c, true
	}
	o.Output = tailText(host.out.String(), 300)
	return o
}

func AuthBinaries(args []string) {
	fs := flag.NewFlagSet("auth-binaries", flag.ExitOnError)
	thruserv := fs.String("thruserv", "", "thruserv binary")
	thru := fs.String("thru", "", "thru binary (built with -tags verif)")
	shard := fs.Int("shard", 0, "shard")
	shards := fs.Int("shards", 1, "shards")
	quick := fs.Bool("quick", false, "a subset: one attack per mechanism")
	fs.Parse(args)
	srv, err := startServer(*thruserv, nil, unlimited...)
	if err != nil {
		fmt.Fprintln(os.Stderr, err)
		os.Exit(3)
	}
	defer srv.stop()
	res := &Result{Extra: map[string]any{}}
	type job struct{ side, attack string }
	var jobs []job
	for _, a := range []string{"wrong-code", "garbage-proof", "receiver-role-proof", "manifest-instead-of-auth", "abandon-1-then-plant", "abandon-4-then-plant", "abandon-5-then-plant", "abandon-6-then-plant", "abandon-9-then-plant"} {
		jobs = append(jobs, job{"host", a})
	}
	for _, a := range []string{"reflect", "garbage-proof", "wrong-code", "sender-role-proof", "closes"} {
		jobs = append(jobs, job{"receiver", a})
	}
	if *quick {
		jobs = []job{{"host", "wrong-code"}, {"host", "manifest-instead-of-auth"}, {"receiver", "reflect"}, {"receiver", "wrong-code"},
			{"host", "abandon-5-then-plant"}, {"host", "abandon-6-then-plant"}, {"host", "abandon-2-then-plant"}}
	}
	outcomes := map[string]int{}
	trouble := 0
	for i, j := range jobs {
		if i%*shards != *shard {
			continue
		}
		var o rogueOutcome
		if j.side == "host" {
			o = rogueHostRun(srv.url, *thru, j.attack)
		} else {
			o = rogueReceiverRun(srv.url, *thru, j.attack)
		}
		if o.Trouble != "" {
			trouble++
			fmt.Fprintln(os.Stderr, "trouble:", j.side, j.attack, o.Trouble)
			continue
		}
		res.Behaviours++
		res.Distinct++
		authOK := false
		for _, a := range o.AuthEnds {
			if a == 1 {
				authOK = true
			}
		}
		sig := func(kind string) map[string]any {
			return map[string]any{"prop": "C08", "kind": kind, "rogue": j.side, "attack": j.attack}
		}
		if authOK {
			res.AddViolation(sig("binary_accepted_a_rogue_peer"), o)
		}
		if o.XferBegin || o.DataPts > 0 {
			res.AddViolation(sig("transfer_started_without_authentication"), o)
		}
		if o.Side == "receiver" {
			if len(o.Files) > 0 {
				res.AddViolation(sig("file_written_without_authentication"), o)
			}
			if !o.Exited || o.Exit == 0 {
				res.AddViolation(sig("receiver_did_not_fail_after_rejected_authentication"), o)
			}
		} else if o.ExtraData > 0 || o.ExtraStr > 0 {
			res.AddViolation(sig("host_sent_data_to_an_unauthenticated_peer"), o)
		}
		outcomes[fmt.Sprintf("rogue %s %s: auth_ok=%v xfer=%v", j.side, j.attack, authOK, o.XferBegin)]++
		res.AddSample(o, 9)
	}
	res.Extra["outcomes"] = outcomes
	res.Extra["trouble"] = trouble
	res.Print()
	if trouble > 2 {
		os.Exit(3)
	}
}
