package drivers

import (
	"context"
	"crypto/tls"
	"encoding/json"
	"flag"
	"fmt"
	"net"
	"os"
	"sort"
	"strings"
	"sync"
	"time"

	"github.com/quic-go/quic-go"
	"github.com/sheerbytes/sheerbytes/internal/app"
	"github.com/sheerbytes/sheerbytes/internal/ice"
	"github.com/sheerbytes/sheerbytes/internal/quictransport"
	"github.com/sheerbytes/sheerbytes/verifharness/internal/graph"
)

// ---- ConnRace.tla <-> real ice.Prober.ProbeAndDial (C09, dialing side) ---------------------------
//
// The listener is a real quic-go listener on a wildcard socket, so one listener is reachable under
// several candidate addresses (127.0.0.1, ::1 and every address of the other interfaces).  Every
// dial goroutine of the real ProbeAndDial parks at the `ice.dial.done` hook (client handshake
// complete, before it offers the connection); the driver releases them in the order of the TLC
// behaviour (Offer events) and lets the caller's Take happen where the behaviour has it.  After
// the behaviour the listener takes a census: which server-side connections are still open a grace
// period after ProbeAndDial returned, compared (by TLS exporter value) with the returned one.

type crAct struct {
	A   string `json:"a"`
	K   int    `json:"k"`
	Won bool   `json:"won"`
}

type crX struct {
	Reach   []int    `json:"reach"`
	Ret     int      `json:"ret"`
	Primary int      `json:"primary"`
	Apc     string   `json:"apc"`
	Dpc     string   `json:"dpc"`
	Cpc     []string `json:"cpc"`
}

func localCandidateIPs() []string {
	out := []string{"127.0.0.1", "::1"}
	ifaces, _ := net.Interfaces()
	for _, ifc := range ifaces {
		if ifc.Flags&net.FlagUp == 0 || ifc.Flags&net.FlagLoopback != 0 {
			continue
		}
		addrs, _ := ifc.Addrs()
		for _, a := range addrs {
			if n, ok := a.(*net.IPNet); ok && !n.IP.IsLinkLocalUnicast() && !n.IP.IsMulticast() {
				out = append(out, n.IP.String())
			}
		}
	}
	return out
}

type census struct {
	mu    sync.Mutex
	conns []*quic.Conn
}

func (c *census) add(q *quic.Conn) { c.mu.Lock(); c.conns = append(c.conns, q); c.mu.Unlock() }

func (c *census) open() []*quic.Conn {
	c.mu.Lock()
	defer c.mu.Unlock()
	var out []*quic.Conn
	for _, q := range c.conns {
		if q.Context().Err() == nil {
			out = append(out, q)
		}
	}
	return out
}

func quicEkm(q *quic.Conn) string {
	st := q.ConnectionState()
	b, err := st.TLS.ExportKeyingMaterial("verif-census", nil, 16)
	if err != nil {
		return "?"
	}
	return fmt.Sprintf("%x", b)
}

// dialGate parks the dial goroutines of ProbeAndDial.
type dialGate struct {
	mu      sync.Mutex
	parked  map[string]chan struct{} // candidate address -> release
	arrived chan string
	outcome chan [2]string // (addr, "won"|"lost")
	on      bool
}

var theDialGate = &dialGate{}

func (g *dialGate) reset() {
	g.mu.Lock()
	g.parked = map[string]chan struct{}{}
	g.arrived = make(chan string, 16)
	g.outcome = make(chan [2]string, 16)
	g.on = true
	g.mu.Unlock()
}

func (g *dialGate) hook(name string, a, b uint64, s string) {
	switch name {
	case "ice.dial.done":
		g.mu.Lock()
		if !g.on {
			g.mu.Unlock()
			return
		}
		ch := make(chan struct{})
		g.parked[s] = ch
		arr := g.arrived
		g.mu.Unlock()
		arr <- s
		<-ch
	case "ice.dial.won":
		g.mu.Lock()
		oc := g.outcome
		g.mu.Unlock()
		if oc != nil {
			oc <- [2]string{s, "won"}
		}
	case "ice.dial.lost":
		g.mu.Lock()
		oc := g.outcome
		g.mu.Unlock()
		if oc != nil {
			oc <- [2]string{s, "lost"}
		}
	}
}

func (g *dialGate) release(addr string) bool {
	g.mu.Lock()
	ch := g.parked[addr]
	delete(g.parked, addr)
	g.mu.Unlock()
	if ch == nil {
		return false
	}
	close(ch)
	return true
}

func (g *dialGate) releaseAll() {
	g.mu.Lock()
	g.on = false
	for k, ch := range g.parked {
		close(ch)
		delete(g.parked, k)
	}
	g.mu.Unlock()
}

type crDialOutcome struct {
	Returned   bool
	NeverReturned bool // the call was still running 12 s after every gate had been opened
	RetErr     string
	OpenAtPeer int
	RetOpen    bool // the returned connection is among the open ones
	Accepted   int
	Won, Lost  int
	Sched      string
	Trouble    string
	Dur        time.Duration
	DialErrs   []string
}

// runDialBehaviourDup: every direct candidate is unreachable and listed twice; optionally a reachable relay candidate
// follows. Ungated; the call gets 12 s.
func runDialBehaviourDup(K int, ips []string, withRelay bool) crDialOutcome {
	var out crDialOutcome
	udp, err := net.ListenUDP("udp", &net.UDPAddr{Port: 0})
	if err != nil {
		out.Trouble = err.Error()
		return out
	}
	defer udp.Close()
	ln, err := quictransport.ListenWithConfig(context.Background(), udp, authQuiet, quictransport.DefaultServerQUICConfig())
	if err != nil {
		out.Trouble = err.Error()
		return out
	}
	defer ln.Close()
	actx, acancel := context.WithCancel(context.Background())
	defer acancel()
	go func() {
		for {
			if _, err := ln.Accept(actx); err != nil {
				return
			}
		}
	}()
	dead, _ := net.ListenUDP("udp", &net.UDPAddr{IP: net.IPv4(127, 0, 0, 1)})
	deadPort := dead.LocalAddr().(*net.UDPAddr).Port
	dead.Close()
	var list []string
	for k := 0; k < 2; k++ {
		a := net.JoinHostPort("127.0.0.1", fmt.Sprint(deadPort+k))
		list = append(list, a)
	}
	list = append(list, list...)
	if withRelay {
		list = append(list, "turn:"+net.JoinHostPort(ips[0], fmt.Sprint(udp.LocalAddr().(*net.UDPAddr).Port)))
	}
	prober, err := ice.NewProber(ice.ProberConfig{StunServers: []string{"127.0.0.1:9"}}, authQuiet)
	if err != nil {
		out.Trouble = "prober: " + err.Error()
		return out
	}
	defer prober.Close()
	theDialGate.reset()
	theDialGate.releaseAll()
	pctx, pcancel := context.WithTimeout(context.Background(), 12*time.Second)
	defer pcancel()
	type ret struct {
		c   *quic.Conn
		err error
	}
	retCh := make(chan ret, 1)
	var mu sync.Mutex
	go func() {
		c, err := prober.ProbeAndDial(pctx, list, quictransport.ClientConfig(), quictransport.DefaultClientQUICConfig(), func(u ice.ProbeUpdate) {
			if u.Err != nil {
				mu.Lock()
				out.DialErrs = append(out.DialErrs, u.Addr+": "+u.Err.Error())
				mu.Unlock()
			}
		})
		retCh <- ret{c, err}
	}()
	select {
	case r := <-retCh:
		if r.err != nil {
			out.RetErr = r.err.Error()
		} else {
			out.Returned = true
			r.c.CloseWithError(0, "")
		}
	case <-time.After(20 * time.Second):
		out.NeverReturned = true
	}
	return out
}

// runDialBehaviour drives one behaviour. listStyle: 0 plain, 1 duplicates, 2 one reachable candidate relay-prefixed.
func runDialBehaviour(path []*graph.Edge, K int, reach map[int]bool, ips []string, listStyle int, holdDirect time.Duration) crDialOutcome {
	var out crDialOutcome
	udp, err := net.ListenUDP("udp", &net.UDPAddr{Port: 0})
	if err != nil {
		out.Trouble = err.Error()
		return out
	}
	defer udp.Close()
	ln, err := quictransport.ListenWithConfig(context.Background(), udp, authQuiet, quictransport.DefaultServerQUICConfig())
	if err != nil {
		out.Trouble = err.Error()
		return out
	}
	defer ln.Close()
	port := udp.LocalAddr().(*net.UDPAddr).Port
	cs := &census{}
	actx, acancel := context.WithCancel(context.Background())
	defer acancel()
	go func() {
		for {
			q, err := ln.Accept(actx)
			if err != nil {
				return
			}
			cs.add(q)
		}
	}()
	// a port nobody listens on, for unreachable candidates
	dead, _ := net.ListenUDP("udp", &net.UDPAddr{IP: net.IPv4(127, 0, 0, 1)})
	deadPort := dead.LocalAddr().(*net.UDPAddr).Port
	dead.Close()
	cand := map[int]string{}
	var list []string
	ri := 0
	for k := 1; k <= K; k++ {
		if reach[k] {
			cand[k] = net.JoinHostPort(ips[ri%len(ips)], fmt.Sprint(port))
			ri++
		} else {
			cand[k] = net.JoinHostPort("127.0.0.1", fmt.Sprint(deadPort+k-1))
		}
		list = append(list, cand[k])
	}
	byAddr := map[string]int{}
	for k, a := range cand {
		byAddr[a] = k
	}
	switch listStyle {
	case 1:
		list = append(list, list...)
	case 2:
		// the last reachable candidate is announced as a relay candidate
		for k := K; k >= 1; k-- {
			if reach[k] {
				for i := range list {
					if list[i] == cand[k] {
						list[i] = "turn:" + cand[k]
					}
				}
				byAddr["turn:"+cand[k]] = k
				cand[k] = "turn:" + cand[k]
				break
			}
		}
	}
	prober, err := ice.NewProber(ice.ProberConfig{StunServers: []string{"127.0.0.1:9"}}, authQuiet)
	if err != nil {
		out.Trouble = "prober: " + err.Error()
		return out
	}
	defer prober.Close()
	g := theDialGate
	g.reset()
	if holdDirect < 0 {
		g.releaseAll() // ungated: the hook passes straight through
	}
	type ret struct {
		c   *quic.Conn
		err error
	}
	retCh := make(chan ret, 1)
	var updMu sync.Mutex
	pctx, pcancel := context.WithTimeout(context.Background(), 8*time.Second)
	defer pcancel()
	t0 := time.Now()
	go func() {
		c, err := prober.ProbeAndDial(pctx, list, quictransport.ClientConfig(), quictransport.DefaultClientQUICConfig(), func(u ice.ProbeUpdate) {
			if u.Err != nil {
				updMu.Lock()
				out.DialErrs = append(out.DialErrs, u.Addr+": "+u.Err.Error())
				updMu.Unlock()
			}
		})
		retCh <- ret{c, err}
	}()
	parkedSet := map[int]bool{}
	waitParked := func(k int, d time.Duration) bool {
		if parkedSet[k] {
			return true
		}
		dl := time.After(d)
		for {
			select {
			case a := <-g.arrived:
				parkedSet[byAddr[a]] = true
				if byAddr[a] == k {
					return true
				}
			case <-dl:
				return false
			}
		}
	}
	var r ret
	returned := false
	waitRet := func(d time.Duration) bool {
		if returned {
			return true
		}
		select {
		case r = <-retCh:
			returned = true
			return true
		case <-time.After(d):
			return false
		}
	}
	var sched []string
	for _, e := range path {
		var act crAct
		_ = json.Unmarshal(e.Act, &act)
		switch act.A {
		case "Offer":
			if !waitParked(act.K, 1500*time.Millisecond) {
				sched = append(sched, fmt.Sprintf("offer%d:not-established", act.K))
				continue
			}
			g.release(cand[act.K])
			select {
			case oc := <-g.outcome:
				sched = append(sched, fmt.Sprintf("offer%d:%s", act.K, oc[1]))
				if oc[1] == "won" {
					out.Won++
				} else {
					out.Lost++
				}
			case <-time.After(2 * time.Second):
				sched = append(sched, fmt.Sprintf("offer%d:?", act.K))
			}
		case "Take":
			if waitRet(2 * time.Second) {
				sched = append(sched, "take")
			} else {
				sched = append(sched, "take:pending")
			}
		}
	}
	if holdDirect > 0 {
		// slow direct paths: their handshakes complete only after the caller has returned (or after holdDirect)
		if waitRet(holdDirect) {
			sched = append(sched, "returned-while-direct-paths-pending")
		}
	}
	// let everything else run to completion
	time.Sleep(30 * time.Millisecond)
	g.releaseAll()
	if !waitRet(12 * time.Second) {
		out.Trouble = "ProbeAndDial did not return"
		out.NeverReturned = true
		return out
	}
	out.Dur = time.Since(t0)
	// late dial goroutines (released above) finish their select now
	deadline := time.After(400 * time.Millisecond)
drain:
	for {
		select {
		case oc := <-g.outcome:
			sched = append(sched, fmt.Sprintf("late:%s", oc[1]))
			if oc[1] == "won" {
				out.Won++
			} else {
				out.Lost++
			}
		case <-deadline:
			break drain
		}
	}
	// grace period: closes travel to the listener.  At least 250 ms; on a loaded machine up to 5 s, ending
	// as soon as no more than the expected number of connections is open
	time.Sleep(250 * time.Millisecond)
	expectOpen := 0
	if r.err == nil && r.c != nil {
		expectOpen = 1
	}
	for i := 0; i < 475 && len(cs.open()) > expectOpen; i++ {
		time.Sleep(10 * time.Millisecond)
	}
	open := cs.open()
	out.OpenAtPeer = len(open)
	cs.mu.Lock()
	out.Accepted = len(cs.conns)
	cs.mu.Unlock()
	out.Sched = strings.Join(sched, " ")
	if r.err == nil && r.c != nil {
		out.Returned = true
		want := quicEkm(r.c)
		for _, q := range open {
			if quicEkm(q) == want {
				out.RetOpen = true
			}
		}
		r.c.CloseWithError(0, "")
	} else if r.err != nil {
		out.RetErr = r.err.Error()
		// was the listener reachable at all?  (an independent dial from a fresh socket)
		if len(reach) > 0 {
			ok := false
			for k := 1; k <= K && !ok; k++ {
				if !reach[k] {
					continue
				}
				addr := strings.TrimPrefix(cand[k], "turn:")
				if ra, err := net.ResolveUDPAddr("udp", addr); err == nil {
					if cu, err := net.ListenUDP("udp", &net.UDPAddr{}); err == nil {
						dctx, dcancel := context.WithTimeout(context.Background(), 3*time.Second)
						if qc, err := quictransport.DialWithConfig(dctx, cu, ra, authQuiet, quictransport.DefaultClientQUICConfig()); err == nil {
							ok = true
							qc.CloseWithError(0, "")
						}
						dcancel()
						cu.Close()
					}
				}
			}
			if !ok {
				out.Trouble = "the harness listener was not reachable by an independent dial either: " + strings.Join(out.DialErrs, "; ")
			}
		}
	}
	for _, q := range open {
		q.CloseWithError(0, "")
	}
	return out
}

func ConnRaceDial(args []string) {
	fs := flag.NewFlagSet("connrace-dial", flag.ExitOnError)
	edges := fs.String("edges", "", "ndjson emitted by ConnRace.tla")
	shard := fs.Int("shard", 0, "shard")
	shards := fs.Int("shards", 1, "shards")
	kk := fs.Int("k", 3, "paths in the model")
	free := fs.Int("free", 0, "additional free-running (ungated) dials per shard")
	maxAllFail := fs.Int("max-allfail", 1, "behaviours with no reachable candidate to run per shard (they take the handshake timeout)")
	fs.Parse(args)
	installHooks()
	extraHook = theDialGate.hook
	g, err := graph.Load(*edges)
	if err != nil {
		fmt.Fprintln(os.Stderr, err)
		os.Exit(3)
	}
	g.Index()
	ips := localCandidateIPs()
	res := &Result{Extra: map[string]any{}}
	outcomes := map[string]int{}
	seenProj := map[string]bool{}
	trouble, allFail := 0, 0
	n := 0
	for ei, e := range g.Edges {
		path := g.PathTo(ei)
		// projection on the dialing side: reach set + order of Offer / Take events
		var x crX
		_ = json.Unmarshal(e.X, &x)
		var proj []string
		for _, pe := range path {
			var a crAct
			_ = json.Unmarshal(pe.Act, &a)
			if a.A == "Offer" || a.A == "Take" {
				proj = append(proj, fmt.Sprintf("%s%d", a.A, a.K))
			}
		}
		sort.Ints(x.Reach)
		key := fmt.Sprint(x.Reach, proj)
		if seenProj[key] {
			continue
		}
		seenProj[key] = true
		n++
		if (n-1)%*shards != *shard {
			continue
		}
		reach := map[int]bool{}
		for _, k := range x.Reach {
			reach[k] = true
		}
		if len(reach) == 0 {
			allFail++
			if allFail > *maxAllFail {
				continue
			}
		}
		style := n % 3
		o := runDialBehaviour(path, *kk, reach, ips, style, 0)
		if o.Trouble != "" {
			trouble++
			if trouble <= 3 {
				fmt.Fprintln(os.Stderr, "trouble:", o.Trouble, key)
			}
			continue
		}
		res.Behaviours++
		res.Steps += len(proj)
		replay := map[string]any{"reach": x.Reach, "model_schedule": proj, "observed": o.Sched, "list_style": style,
			"returned": o.Returned, "ret_err": o.RetErr, "open_at_listener": o.OpenAtPeer, "accepted_at_listener": o.Accepted, "won_events": o.Won, "dial_errors": o.DialErrs}
		switch {
		case o.Returned && (o.OpenAtPeer != 1 || !o.RetOpen):
			kind := "extra_connection_left_open"
			if !o.RetOpen {
				kind = "returned_connection_not_open"
			}
			res.AddViolation(map[string]any{"kind": kind, "side": "dialer", "open": o.OpenAtPeer, "winners_declared": o.Won}, replay)
		case !o.Returned && o.OpenAtPeer != 0:
			res.AddViolation(map[string]any{"kind": "connection_left_open_after_error", "side": "dialer", "open": o.OpenAtPeer}, replay)
		case !o.Returned && len(reach) > 0:
			res.AddViolation(map[string]any{"kind": "no_connection_although_reachable", "side": "dialer"}, replay)
		}
		outcomes[fmt.Sprintf("reach=%d returned=%v open=%d won=%d", len(reach), o.Returned, o.OpenAtPeer, o.Won)]++
		res.AddSample(replay, 6)
	}
	// every candidate fails and the list announces them twice (a host without NAT lists its public address after its
	// interface addresses): the call must come back - with "all probes failed", or with the relay candidate
	if *shard == 0 {
		for _, withRelay := range []bool{false, true} {
			reach := map[int]bool{}
			style := 1
			o := runDialBehaviourDup(*kk, ips, withRelay)
			res.Behaviours++
			replay := map[string]any{"candidates": "every direct candidate unreachable and listed twice", "relay_candidate_reachable": withRelay, "returned": o.Returned, "ret_err": o.RetErr, "dial_errors": o.DialErrs, "trouble": o.Trouble}
			_ = reach
			_ = style
			switch {
			case o.NeverReturned:
				res.AddViolation(map[string]any{"kind": "dialer_never_returns", "side": "dialer", "relay_candidate_reachable": withRelay}, replay)
			case withRelay && !o.Returned && o.Trouble == "":
				res.AddViolation(map[string]any{"kind": "no_connection_although_reachable", "side": "dialer", "via": "relay candidate behind duplicated direct ones"}, replay)
			}
			outcomes[fmt.Sprintf("all direct fail, listed twice, relay=%v: returned=%v never=%v", withRelay, o.Returned, o.NeverReturned)]++
		}
	}
	// free-running dials (no gates): all candidates reachable, the Go scheduler and the loopback
	// timing decide; the census is the same
	for i := 0; i < *free; i++ {
		reach := map[int]bool{}
		for k := 1; k <= len(ips) && k <= 4; k++ {
			reach[k] = true
		}
		o := runDialBehaviour(nil, len(reach), reach, ips, i%2, -1)
		if o.Trouble != "" {
			trouble++
			continue
		}
		res.Behaviours++
		replay := map[string]any{"reach": len(reach), "scenario": "free-running (ungated) dials", "observed": o.Sched,
			"returned": o.Returned, "ret_err": o.RetErr, "open_at_listener": o.OpenAtPeer, "accepted_at_listener": o.Accepted, "won_events": o.Won}
		switch {
		case o.Returned && (o.OpenAtPeer != 1 || !o.RetOpen):
			res.AddViolation(map[string]any{"kind": "extra_connection_left_open", "side": "dialer", "open": o.OpenAtPeer, "winners_declared": o.Won}, replay)
		case !o.Returned && o.OpenAtPeer != 0:
			res.AddViolation(map[string]any{"kind": "connection_left_open_after_error", "side": "dialer", "open": o.OpenAtPeer}, replay)
		case !o.Returned:
			res.AddViolation(map[string]any{"kind": "no_connection_although_reachable", "side": "dialer"}, replay)
		}
		outcomes[fmt.Sprintf("free reach=%d returned=%v open=%d accepted=%d", len(reach), o.Returned, o.OpenAtPeer, o.Accepted)]++
	}
	if *shard == 0 {
		// slow direct paths next to a relay-prefixed candidate: the direct handshakes complete late
		for _, rs := range [][]int{{1, 2, 3}, {1, 3}} {
			reach := map[int]bool{}
			for _, k := range rs {
				reach[k] = true
			}
			o := runDialBehaviour(nil, *kk, reach, ips, 2, 4*time.Second)
			if o.Trouble != "" {
				trouble++
				continue
			}
			res.Behaviours++
			replay := map[string]any{"reach": rs, "scenario": "direct handshakes complete late, one candidate relay-prefixed", "observed": o.Sched,
				"returned": o.Returned, "ret_err": o.RetErr, "open_at_listener": o.OpenAtPeer, "accepted_at_listener": o.Accepted, "won_events": o.Won}
			switch {
			case o.Returned && (o.OpenAtPeer != 1 || !o.RetOpen):
				res.AddViolation(map[string]any{"kind": "extra_connection_left_open", "side": "dialer", "open": o.OpenAtPeer, "winners_declared": o.Won}, replay)
			case !o.Returned && o.OpenAtPeer != 0:
				res.AddViolation(map[string]any{"kind": "connection_left_open_after_error", "side": "dialer", "open": o.OpenAtPeer}, replay)
			case !o.Returned:
				res.AddViolation(map[string]any{"kind": "no_connection_although_reachable", "side": "dialer"}, replay)
			}
			outcomes[fmt.Sprintf("slow-direct reach=%d returned=%v open=%d won=%d", len(reach), o.Returned, o.OpenAtPeer, o.Won)]++
		}
	}
	res.Distinct = len(seenProj)
	res.Extra["outcomes"] = outcomes
	res.Extra["trouble"] = trouble
	res.Extra["candidate_ips"] = len(ips)
	res.Print()
	if trouble > res.Behaviours/10+2 {
		os.Exit(3)
	}
}

var _ = tls.VersionTLS13

// ---- ConnRace.tla <-> real `thru join` (C09, accepting side) -------------------------------------
//
// acceptOnce lives inside snapshotReceiver.runTransfer (which ends in os.Exit), so the accepting side
// is observed on the real binary: the driver plays the host over the real signaling server (session
// creation, manifest offer, transfer start, candidate exchange), then establishes / abandons QUIC
// connections to the receiver's candidate addresses in the order of the TLC behaviour, exactly as a
// dialing side that raced them would, and finally runs the real sender-side authentication on the
// connection it kept.  The receiver's hook trace tells which connection it committed to.

// ---- ConnRace.tla <-> real `thru join` (C09, accepting side) -------------------------------------
//
// acceptOnce lives inside snapshotReceiver.runTransfer (which ends in os.Exit), so the accepting side
// is observed on the real binary: the driver plays the host over the real signaling server (session
// creation, manifest offer, transfer start, candidate exchange), then establishes / abandons QUIC
// connections to the receiver's candidate addresses in the order of the TLC behaviour - as a dialing
// side that raced them would - and finally runs the real sender-side authentication on the connection
// it kept.  The receiver's hook trace (conn.primary, auth.end) tells which connection it committed to.

type acceptScript struct {
	Events []string // "done:k" (server-side handshake completion of path k), "close:k" (the dialer's close of k arrives)
	Winner int
}

type acceptOutcome struct {
	Trouble     string
	SenderAuth  string
	RecvAuthOK  bool
	RecvPrimary []int // path numbers the receiver committed to, in order
	RecvExit    int
	RecvExited  bool
	FirstDone   int
	Dur         time.Duration
	RecvOut     string
	AuthEndSeen bool
}

func runAcceptScript(srvURL, thruBin string, sc acceptScript, parallel int) acceptOutcome {
	var out acceptOutcome
	work, err := os.MkdirTemp("", "vh-accept-")
	if err != nil {
		out.Trouble = err.Error()
		return out
	}
	defer os.RemoveAll(work)
	t0 := time.Now()
	h, err := startScriptedHost(srvURL, thruBin, work, parallel, nil)
	if err != nil {
		out.Trouble = err.Error()
		return out
	}
	defer h.close()
	if len(h.cands) == 0 {
		out.Trouble = "receiver announced no usable candidate"
		return out
	}
	conns := map[int]*hostConn{}
	defer func() {
		for _, c := range conns {
			c.close()
		}
	}()
	dial := func(k int) error {
		if conns[k] != nil {
			return nil
		}
		c, err := dialCandidate(h.cands[(k-1)%len(h.cands)])
		if err != nil {
			return err
		}
		conns[k] = c
		time.Sleep(40 * time.Millisecond) // the server side completes and queues the connection
		return nil
	}
	receiverGone := false
	for _, ev := range sc.Events {
		if receiverGone {
			break
		}
		var k int
		switch {
		case strings.HasPrefix(ev, "done:"):
			fmt.Sscanf(ev, "done:%d", &k)
			if out.FirstDone == 0 {
				out.FirstDone = k
			}
			if err := dial(k); err != nil {
				if _, gone := h.child.wait(200 * time.Millisecond); gone {
					receiverGone = true
					break
				}
				out.Trouble = "dial: " + err.Error()
				return out
			}
		case strings.HasPrefix(ev, "close:"):
			fmt.Sscanf(ev, "close:%d", &k)
			if conns[k] != nil {
				conns[k].abandon()
				time.Sleep(25 * time.Millisecond)
			}
		}
	}
	if !receiverGone {
		if err := dial(sc.Winner); err != nil {
			if _, gone := h.child.wait(200 * time.Millisecond); !gone {
				out.Trouble = "dial winner: " + err.Error()
				return out
			}
			receiverGone = true
		}
	}
	if out.FirstDone == 0 {
		out.FirstDone = sc.Winner
	}
	// the dialing side has returned: every other established connection is closed
	for k, c := range conns {
		if k != sc.Winner {
			c.abandon()
		}
	}
	if receiverGone || conns[sc.Winner] == nil {
		err = fmt.Errorf("the receiver has exited")
	} else {
		actx, cancel := context.WithTimeout(context.Background(), 6*time.Second)
		err = app.VerifAuthenticate(actx, conns[sc.Winner].tc, h.code, app.VerifRoleSender)
		cancel()
	}
	out.SenderAuth = errText(err)
	// what did the receiver do?
	_, seen := h.child.waitEvent(3*time.Second, func(e hookEv) bool { return e.Pt == "auth.end" && (e.A == 1 || err != nil) })
	out.AuthEndSeen = seen
	portToPath := map[int]int{}
	for k, c := range conns {
		portToPath[c.port] = k
	}
	for _, e := range h.child.events() {
		switch e.Pt {
		case "conn.primary":
			out.RecvPrimary = append(out.RecvPrimary, portToPath[portOf(e.S)])
		case "auth.end":
			out.RecvAuthOK = e.A == 1
		}
	}
	if code, ok := h.child.wait(300 * time.Millisecond); ok {
		out.RecvExit, out.RecvExited = code, true
	}
	out.RecvOut = tailText(h.child.out.String(), 400)
	out.Dur = time.Since(t0)
	return out
}

func ConnRaceAccept(args []string) {
	fs := flag.NewFlagSet("connrace-accept", flag.ExitOnError)
	edges := fs.String("edges", "", "ndjson emitted by ConnRace.tla")
	shard := fs.Int("shard", 0, "shard")
	shards := fs.Int("shards", 1, "shards")
	thruserv := fs.String("thruserv", "", "thruserv binary")
	thru := fs.String("thru", "", "thru binary (built with -tags verif)")
	max := fs.Int("max", 0, "at most this many scripts per shard (0 = all)")
	withTurn := fs.Bool("turn", false, "the receiver has a TURN allocation (a second, relay listener): thruserv mints credentials for an in-sandbox TURN server")
	loserFirst := fs.Bool("loser-first", false, "only the scripts in which the first connection the listener sees is one the sender abandons")
	fs.Parse(args)
	g, err := graph.Load(*edges)
	if err != nil {
		fmt.Fprintln(os.Stderr, err)
		os.Exit(3)
	}
	g.Index()
	srvFlags := append([]string{}, unlimited...)
	if *withTurn {
		const secret = "static-auth-secret-for-tests"
		ts, terr := startTurnServer(secret)
		if terr != nil {
			fmt.Fprintln(os.Stderr, terr)
			os.Exit(3)
		}
		defer ts.stop()
		srvFlags = append(srvFlags, "--turn-server", "turn:"+ts.addr, "--turn-static-auth-secret", secret)
	}
	srv, err := startServer(*thruserv, nil, srvFlags...)
	if err != nil {
		fmt.Fprintln(os.Stderr, err)
		os.Exit(3)
	}
	defer srv.stop()
	res := &Result{Extra: map[string]any{}}
	outcomes := map[string]int{}
	seen := map[string]bool{}
	trouble, n, ran := 0, 0, 0
	for ei, e := range g.Edges {
		var x crX
		_ = json.Unmarshal(e.X, &x)
		if x.Ret <= 0 {
			continue
		}
		var evs []string
		for _, pe := range g.PathTo(ei) {
			var a crAct
			_ = json.Unmarshal(pe.Act, &a)
			switch a.A {
			case "ServerDone":
				evs = append(evs, fmt.Sprintf("done:%d", a.K))
			case "CloseArrives":
				evs = append(evs, fmt.Sprintf("close:%d", a.K))
			}
		}
		sc := acceptScript{Events: evs, Winner: x.Ret}
		if *loserFirst {
			first := 0
			for _, ev := range evs {
				if strings.HasPrefix(ev, "done:") {
					fmt.Sscanf(ev, "done:%d", &first)
					break
				}
			}
			if first == 0 || first == x.Ret {
				continue
			}
		}
		key := fmt.Sprint(sc)
		if seen[key] {
			continue
		}
		seen[key] = true
		n++
		if (n-1)%*shards != *shard {
			continue
		}
		if *max > 0 && ran >= *max {
			continue
		}
		ran++
		o := runAcceptScript(srv.url, *thru, sc, 1)
		if o.Trouble != "" {
			trouble++
			if trouble <= 3 {
				fmt.Fprintln(os.Stderr, "trouble:", o.Trouble, key)
			}
			continue
		}
		res.Behaviours++
		res.Steps += len(evs)
		replay := map[string]any{"events": evs, "winner": sc.Winner, "first_server_done": o.FirstDone, "receiver_primaries": o.RecvPrimary,
			"receiver_auth_ok": o.RecvAuthOK, "sender_auth": o.SenderAuth, "receiver_exited": o.RecvExited, "receiver_exit": o.RecvExit, "receiver_output": o.RecvOut}
		last := 0
		if len(o.RecvPrimary) > 0 {
			last = o.RecvPrimary[len(o.RecvPrimary)-1]
		}
		firstIsWinner := o.FirstDone == sc.Winner
		switch {
		case o.SenderAuth == "" && o.RecvAuthOK && last == sc.Winner:
		case last != sc.Winner && last != 0:
			res.AddViolation(map[string]any{"kind": "acceptor_committed_to_abandoned_connection", "side": "acceptor", "first_done_is_winner": firstIsWinner}, replay)
		default:
			res.AddViolation(map[string]any{"kind": "authentication_did_not_start_on_the_kept_connection", "side": "acceptor", "first_done_is_winner": firstIsWinner}, replay)
		}
		outcomes[fmt.Sprintf("first_is_winner=%v recv_ok=%v sender_ok=%v", firstIsWinner, o.RecvAuthOK, o.SenderAuth == "")]++
		res.AddSample(replay, 4)
	}
	res.Distinct = len(seen)
	res.Extra["outcomes"] = outcomes
	res.Extra["trouble"] = trouble
	res.Print()
	if trouble > res.Behaviours/10+2 {
		os.Exit(3)
	}
}
