package drivers

import (
	"crypto/hmac"
	"crypto/sha1"
	"encoding/base64"
	"net"
	"strconv"
	"strings"
	"sync"
	"time"

	"github.com/pion/turn/v2"
)

// ---- a real TURN server inside the sandbox -----------------------------------------------------------
//
// pion/turn's server (the module the project itself depends on for its client) on a loopback UDP
// socket and a TCP listener of the same port, authenticating with coturn's "use-auth-secret" scheme -
// the scheme thruserv mints credentials for: username "<unix expiry>[:<user id>]", password
// base64(HMAC-SHA1(static secret, username)).  Relayed addresses are on 127.0.0.1.

type turnServer struct {
	srv   *turn.Server
	addr  string // host:port (UDP and TCP)
	mu    sync.Mutex
	users map[string]int // usernames that passed authentication
	bad   []string       // usernames that were refused
}

func startTurnServer(secret string) (*turnServer, error) {
	ts := &turnServer{users: map[string]int{}}
	var udp net.PacketConn
	var tcp net.Listener
	var err error
	for try := 0; try < 20; try++ {
		udp, err = net.ListenPacket("udp4", "127.0.0.1:0")
		if err != nil {
			continue
		}
		port := udp.LocalAddr().(*net.UDPAddr).Port
		tcp, err = net.Listen("tcp4", net.JoinHostPort("127.0.0.1", strconv.Itoa(port)))
		if err == nil {
			break
		}
		udp.Close()
	}
	if err != nil {
		return nil, err
	}
	ts.addr = udp.LocalAddr().String()
	gen := &turn.RelayAddressGeneratorStatic{RelayAddress: net.ParseIP("127.0.0.1"), Address: "127.0.0.1"}
	ts.srv, err = turn.NewServer(turn.ServerConfig{
		Realm: "thruflux-test",
		AuthHandler: func(username, realm string, src net.Addr) ([]byte, bool) {
			tsPart := username
			if i := strings.Index(username, ":"); i >= 0 {
				tsPart = username[:i]
			}
			exp, perr := strconv.ParseInt(tsPart, 10, 64)
			ts.mu.Lock()
			defer ts.mu.Unlock()
			if perr != nil || exp < time.Now().Unix() {
				ts.bad = append(ts.bad, username)
				return nil, false
			}
			m := hmac.New(sha1.New, []byte(secret))
			m.Write([]byte(username))
			pw := base64.StdEncoding.EncodeToString(m.Sum(nil))
			ts.users[username]++
			return turn.GenerateAuthKey(username, realm, pw), true
		},
		PacketConnConfigs: []turn.PacketConnConfig{{PacketConn: udp, RelayAddressGenerator: gen}},
		ListenerConfigs:   []turn.ListenerConfig{{Listener: tcp, RelayAddressGenerator: gen}},
	})
	if err != nil {
		udp.Close()
		tcp.Close()
		return nil, err
	}
	return ts, nil
}

func (t *turnServer) stop() {
	if t.srv != nil {
		t.srv.Close()
	}
}

// sawUser reports whether a username ending in ":"+id (or equal to it) authenticated.
func (t *turnServer) sawUser(id string) bool {
	t.mu.Lock()
	defer t.mu.Unlock()
	for u := range t.users {
		if u == id || strings.HasSuffix(u, ":"+id) {
			return true
		}
	}
	return false
}
