package drivers

import (
	"bytes"
	"context"
	"encoding/json"
	"flag"
	"fmt"
	"net"
	"io"
	"net/http"
	"os"
	"os/exec"
	"strings"
	"sync"
	"time"

	"github.com/gorilla/websocket"
	"github.com/sheerbytes/sheerbytes/internal/app"
	"github.com/sheerbytes/sheerbytes/internal/clienthttp"
	"github.com/sheerbytes/sheerbytes/pkg/protocol"
	"github.com/sheerbytes/sheerbytes/verifharness/internal/graph"
)

// ---- the real thruserv binary --------------------------------------------------------------

type server struct {
	cmd    *exec.Cmd
	port   int
	url    string
	out    *bytes.Buffer
	exited chan struct{}
}

func freePort() int {
	l, err := net.Listen("tcp", "127.0.0.1:0")
	if err != nil {
		panic(err)
	}
	defer l.Close()
	return l.Addr().(*net.TCPAddr).Port
}

func startServer(bin string, env []string, flags ...string) (*server, error) {
	for attempt := 0; attempt < 5; attempt++ {
		port := freePort()
		s := &server{port: port, url: fmt.Sprintf("http://127.0.0.1:%d", port), out: &bytes.Buffer{}}
		args := append([]string{"--port", fmt.Sprint(port)}, flags...)
		s.cmd = exec.Command(bin, args...)
		s.cmd.Env = append(os.Environ(), env...)
		s.cmd.Stdout, s.cmd.Stderr = s.out, s.out
		if err := s.cmd.Start(); err != nil {
			return nil, err
		}
		s.exited = make(chan struct{})
		go func(s *server) { s.cmd.Wait(); close(s.exited) }(s)
		ok := false
		for i := 0; i < 300; i++ {
			resp, err := http.Get(s.url + "/health")
			if err == nil {
				resp.Body.Close()
				ok = resp.StatusCode == 200
				break
			}
			time.Sleep(10 * time.Millisecond)
		}
		if ok {
			// the port was picked before the start: if another process took it in between, the health
			// answer came from that one and our own server has exited (bind error)
			select {
			case <-s.exited:
				ok = false
			case <-time.After(60 * time.Millisecond):
			}
		}
		if ok {
			return s, nil
		}
		s.stop()
	}
	return nil, fmt.Errorf("thruserv did not come up")
}

func (s *server) stop() {
	if s.cmd != nil && s.cmd.Process != nil {
		s.cmd.Process.Kill()
		if s.exited != nil {
			<-s.exited
		} else {
			s.cmd.Wait()
		}
	}
}

func (s *server) alive() bool {
	resp, err := http.Get(s.url + "/health")
	if err != nil {
		return false
	}
	resp.Body.Close()
	return resp.StatusCode == 200
}

var unlimited = []string{"--ws-connects-per-min", "0", "--ws-msgs-per-sec", "0", "--session-creates-per-min", "0",
	"--max-sessions", "0", "--max-receivers-per-sender", "0", "--max-ws-connections", "0"}

// ---- WebSocket client with a receive log -------------------------------------------------------

type wsClient struct {
	conn  *websocket.Conn
	mu    sync.Mutex
	inbox []protocol.Envelope
	dead  bool
}

func dialWS(url string) (*wsClient, int, error) {
	d := websocket.Dialer{HandshakeTimeout: 3 * time.Second}
	conn, resp, err := d.Dial(url, nil)
	if err != nil {
		code := 0
		if resp != nil {
			code = resp.StatusCode
		}
		return nil, code, err
	}
	c := &wsClient{conn: conn}
	go func() {
		for {
			_, msg, err := conn.ReadMessage()
			if err != nil {
				c.mu.Lock()
				c.dead = true
				c.mu.Unlock()
				return
			}
			var env protocol.Envelope
			if json.Unmarshal(msg, &env) == nil {
				c.mu.Lock()
				c.inbox = append(c.inbox, env)
				c.mu.Unlock()
			}
		}
	}()
	return c, 101, nil
}

func (c *wsClient) snapshot() []protocol.Envelope {
	c.mu.Lock()
	defer c.mu.Unlock()
	return append([]protocol.Envelope(nil), c.inbox...)
}

// ---- Routing.tla <-> thruserv (C10, admission part of C14) ----------------------------------------

type routeAct struct {
	A        string `json:"a"`
	C        string `json:"c"`
	S        string `json:"s"`
	P        string `json:"p"`
	Role     string `json:"role"`
	Admitted bool   `json:"admitted"`
	Kind     string `json:"kind"`
	To       string `json:"to"`
	Spoof    bool   `json:"spoof"`
}

type routeEnv struct {
	Type string `json:"type"`
	From string `json:"from"`
	To   string `json:"to"`
	ID   string `json:"id"`
	N    int    `json:"n"`
}

type routeX struct {
	Inbox map[string][]routeEnv `json:"inbox"`
	Live  map[string]string     `json:"live"`
}

type appPayload struct {
	Author string `json:"author"`
	N      int    `json:"n"`
}

// normalise a real envelope to the spec's envelope shape
func normEnv(e protocol.Envelope) (routeEnv, bool) {
	switch e.Type {
	case protocol.TypePeerList:
		var pl protocol.PeerList
		e.DecodePayload(&pl)
		return routeEnv{Type: "peer_list", From: e.From, To: "-", ID: "-", N: len(pl.Peers)}, true
	case protocol.TypePeerJoined:
		var pj protocol.PeerJoined
		e.DecodePayload(&pj)
		return routeEnv{Type: "peer_joined", From: e.From, To: "-", ID: pj.Peer.PeerID}, true
	case protocol.TypePeerLeft:
		var pl protocol.PeerLeft
		e.DecodePayload(&pl)
		return routeEnv{Type: "peer_left", From: e.From, To: "-", ID: pl.PeerID}, true
	case protocol.TypeError:
		var pe protocol.Error
		e.DecodePayload(&pe)
		id := strings.TrimPrefix(pe.Message, "target peer not found: ")
		return routeEnv{Type: "error", From: e.From, To: e.To, ID: id}, true
	case "app":
		var ap appPayload
		e.DecodePayload(&ap)
		to := e.To
		if to == "" {
			to = "-"
		}
		return routeEnv{Type: "app", From: e.From, To: to, ID: ap.Author, N: ap.N}, true
	}
	return routeEnv{}, false
}

// RoutingReplay executes TLC-simulated histories against the real server.
func RoutingReplay(args []string) {
	fs := flag.NewFlagSet("routing", flag.ExitOnError)
	edges := fs.String("edges", "", "simulated behaviours (Routing.tla)")
	bin := fs.String("thruserv", "", "path of the thruserv binary built from /repo")
	shard := fs.Int("shard", 0, "shard")
	shards := fs.Int("shards", 1, "shards")
	fs.Parse(args)
	g, err := graph.Load(*edges)
	if err != nil {
		panic(err)
	}
	res := &Result{Extra: map[string]any{}}
	srv, err := startServer(*bin, nil, unlimited...)
	if err != nil {
		fmt.Println(`{"error":"` + err.Error() + `"}`)
		os.Exit(2)
	}
	defer srv.stop()
	actsSeen := map[string]int{}
	for bi, beh := range g.Behaviours() {
		if bi%*shards != *shard {
			continue
		}
		res.Behaviours++
		codes := map[string]string{}
		sessIDs := map[string]string{}
		clients := map[string]*wsClient{}
		var trace []string
		fail := func(kind string, extra map[string]any) {
			sig := map[string]any{"kind": kind}
			res.AddViolation(sig, map[string]any{"steps": append([]string(nil), trace...), "detail": extra})
		}
		for _, e := range beh {
			var a routeAct
			var x routeX
			json.Unmarshal(e.Act, &a)
			json.Unmarshal(e.X, &x)
			actsSeen[a.A]++
			res.Steps++
			trace = append(trace, fmt.Sprintf("%s(%s %s %s %s %s to=%s spoof=%v)", a.A, a.C, a.S, a.P, a.Role, a.Kind, a.To, a.Spoof))
			switch a.A {
			case "Create":
				sid, code, _, err := clienthttp.CreateSession(context.Background(), srv.url, 0)
				if err != nil {
					fail("create_session_failed", map[string]any{"err": err.Error()})
				}
				codes[a.S], sessIDs[a.S] = code, sid
			case "Join":
				code, ok := codes[a.S]
				if !ok {
					code = "NOSUCHCD"
				}
				url, _ := app.VerifBuildWebSocketURL(srv.url, code, a.P, a.Role, 0)
				c, status, err := dialWS(url)
				if a.Admitted {
					if err != nil {
						fail("join_with_live_code_rejected", map[string]any{"status": status, "err": err.Error()})
						break
					}
					clients[a.C] = c
				} else {
					if err == nil {
						fail("join_admitted_after_session_ended", map[string]any{"session": a.S})
						c.conn.Close()
					} else if status != 404 {
						fail("join_after_session_ended_not_404", map[string]any{"status": status})
					}
				}
			case "Leave":
				if c := clients[a.C]; c != nil {
					c.conn.Close()
					delete(clients, a.C)
					// the server learns about it asynchronously: wait until the others saw peer_left (below)
				}
			case "Send":
				c := clients[a.C]
				if c == nil {
					break
				}
				var raw []byte
				n := 0
				for _, ev := range x.Inbox { // the spec's sequence number for this author = its count so far; recompute locally
					_ = ev
				}
				n = countAuthored(trace, a.C)
				switch a.Kind {
				case "badjson":
					raw = []byte(`{"v":1,"type":"app","msg_id":`)
				case "badenv":
					raw = []byte(fmt.Sprintf(`{"v":%d,"type":"app","msg_id":"","payload":{"author":%q,"n":%d}}`, []int{1, 2}[n%2], a.C, n))
				default:
					env := map[string]any{"v": 1, "type": "app", "msg_id": fmt.Sprintf("%s-%d", a.C, n), "payload": appPayload{Author: a.C, N: n}}
					if a.Kind == "addr" {
						env["to"] = a.To
					}
					if a.Spoof {
						env["from"] = "somebody-else"
						for s, id := range sessIDs {
							if s != a.S {
								env["session_id"] = id
							}
						}
					}
					raw, _ = json.Marshal(env)
				}
				c.conn.WriteMessage(websocket.TextMessage, raw)
			}
			// settle: wait until every connected client's inbox has the expected length, then compare
			deadline := time.Now().Add(10 * time.Second) // ends as soon as every expected message is there
			for {
				done := true
				for name, c := range clients {
					if len(c.snapshot()) < len(x.Inbox[name]) {
						done = false
					}
				}
				if done || time.Now().After(deadline) {
					break
				}
				time.Sleep(time.Millisecond)
			}
			time.Sleep(3 * time.Millisecond) // room for anything that should NOT have been delivered
			for name, c := range clients {
				var got []routeEnv
				for _, env := range c.snapshot() {
					if ne, ok := normEnv(env); ok {
						got = append(got, ne)
					}
				}
				want := x.Inbox[name]
				if !sameEnvs(got, want) {
					kind := classifyRouting(got, want)
					fail(kind, map[string]any{"client": name, "got": got, "want": want})
					// resynchronise so that one divergence is reported once
					c.mu.Lock()
					c.inbox = nil
					c.mu.Unlock()
					res.AddDrift(map[string]any{"why": "inbox differs from Routing.tla", "client": name})
					goto nextBehaviour
				}
			}
			if !srv.alive() {
				fail("server_died", map[string]any{"log": tailStr(srv.out.String(), 600)})
				srv, _ = startServer(*bin, nil, unlimited...)
				goto nextBehaviour
			}
		}
	nextBehaviour:
		for _, c := range clients {
			c.conn.Close()
		}
		if len(trace) > 6 {
			res.Distinct++
		}
		if bi%37 == 0 {
			res.AddSample(map[string]any{"history": trace}, 5)
		}
	}
	res.Extra["actions_exercised"] = actsSeen
	res.Print()
}

func tailStr(s string, n int) string {
	if len(s) > n {
		return s[len(s)-n:]
	}
	return s
}

func countAuthored(trace []string, c string) int {
	n := 0
	for _, t := range trace {
		if strings.HasPrefix(t, "Send("+c+" ") {
			n++
		}
	}
	return n
}

func sameEnvs(a, b []routeEnv) bool {
	if len(a) != len(b) {
		return false
	}
	for i := range a {
		if a[i] != b[i] {
			return false
		}
	}
	return true
}

// classifyRouting names the C10 clause a divergent inbox breaks.
func classifyRouting(got, want []routeEnv) string {
	count := func(xs []routeEnv) map[routeEnv]int {
		m := map[routeEnv]int{}
		for _, x := range xs {
			m[x]++
		}
		return m
	}
	g, w := count(got), count(want)
	for e, n := range g {
		if e.Type == "app" && n > w[e] {
			for we := range w {
				if we.Type == "app" && we.ID == e.ID && we.N == e.N && we.From != e.From {
					return "recipient_sees_wrong_from"
				}
			}
			if n > 1 && w[e] <= 1 {
				return "message_duplicated"
			}
			return "message_delivered_to_wrong_recipient"
		}
	}
	for e, n := range w {
		if e.Type == "app" && g[e] < n {
			return "message_lost"
		}
		if e.Type == "error" && g[e] < n {
			return "unknown_addressee_not_reported_to_author"
		}
	}
	for e, n := range g {
		if e.Type == "error" && n > w[e] {
			return "error_reported_to_wrong_peer"
		}
	}
	if len(got) == len(want) {
		return "messages_reordered"
	}
	return "membership_notifications_differ"
}

// ---- Server.tla <-> thruserv limits and session lifetime (C14) -------------------------------------

type limitsCase struct {
	Name  string
	Flags []string
	Env   []string
	Run   func(s *server, v func(kind string, extra map[string]any))
}

func createN(s *server, n int, concurrent bool) (ok int, codes []string, statuses []int) {
	type r struct {
		code string
		err  error
	}
	ch := make(chan r, n)
	one := func() {
		_, code, _, err := clienthttp.CreateSession(context.Background(), s.url, 0)
		for try := 0; err != nil && try < 3 && (strings.Contains(err.Error(), "send request") || strings.Contains(err.Error(), "read response")); try++ {
			// transport-level trouble (not an answer of the server): once more
			time.Sleep(50 * time.Millisecond)
			_, code, _, err = clienthttp.CreateSession(context.Background(), s.url, 0)
		}
		ch <- r{code, err}
	}
	for i := 0; i < n; i++ {
		if concurrent {
			go one()
		} else {
			one()
		}
	}
	for i := 0; i < n; i++ {
		x := <-ch
		if x.err == nil {
			ok++
			codes = append(codes, x.code)
		}
	}
	return
}

// mustCreate creates n sessions on a server whose limits allow it; failing that the harness (not the
// server under test) is in trouble and the run is abandoned.
func mustCreate(s *server, n int) []string {
	var codes []string
	for try := 0; try < 20 && len(codes) < n; try++ {
		_, more, _ := createN(s, n-len(codes), false)
		codes = append(codes, more...)
		if len(codes) < n {
			time.Sleep(100 * time.Millisecond)
		}
	}
	if len(codes) < n {
		fmt.Fprintf(os.Stderr, "harness trouble: could not create %d session(s) on %s; server log: %s\n", n, s.url, tailStr(s.out.String(), 400))
		os.Exit(3)
	}
	return codes
}

func wsURL(s *server, code, peer, role string) string {
	u, _ := app.VerifBuildWebSocketURL(s.url, code, peer, role, 0)
	return u
}

// LimitsCheck runs every limit / lifetime scenario against a freshly started real thruserv.
func LimitsCheck(args []string) {
	fs := flag.NewFlagSet("limits", flag.ExitOnError)
	bin := fs.String("thruserv", "", "thruserv binary built from /repo with -tags verif")
	shard := fs.Int("shard", 0, "shard")
	shards := fs.Int("shards", 1, "shards")
	rounds := fs.Int("rounds", 1, "repetitions of the concurrent bursts")
	fs.Parse(args)
	res := &Result{Extra: map[string]any{}}
	off := func(keep ...string) []string {
		// everything unlimited except the flags named in keep (pairs)
		m := map[string]string{"--ws-connects-per-min": "0", "--ws-msgs-per-sec": "0", "--session-creates-per-min": "0", "--max-sessions": "0",
			"--max-receivers-per-sender": "0", "--max-ws-connections": "0"}
		for i := 0; i+1 < len(keep); i += 2 {
			m[keep[i]] = keep[i+1]
		}
		var out []string
		for k, val := range m {
			out = append(out, k, val)
		}
		return out
	}
	var cases []limitsCase
	for _, n := range []int{1, 2, 3} {
		n := n
		cases = append(cases, limitsCase{Name: fmt.Sprintf("max-sessions=%d sequential", n), Flags: off("--max-sessions", fmt.Sprint(n)),
			Run: func(s *server, v func(string, map[string]any)) {
				ok, codes, _ := createN(s, n+3, false)
				if ok != n {
					v("session_limit_not_exact_sequential", map[string]any{"limit": n, "created": ok})
				}
				// a host that leaves frees its session
				if len(codes) > 0 {
					c, _, err := dialWS(wsURL(s, codes[0], "host", "sender"))
					if err == nil {
						c.conn.Close()
						okAgain := false
						for i := 0; i < 100 && !okAgain; i++ {
							time.Sleep(10 * time.Millisecond)
							k, _, _ := createN(s, 1, false)
							okAgain = k == 1
						}
						if !okAgain {
							v("session_slot_not_released_when_host_leaves", map[string]any{"limit": n})
						}
					}
				}
			}})
		cases = append(cases, limitsCase{Name: fmt.Sprintf("max-sessions=%d burst", n), Flags: off("--max-sessions", fmt.Sprint(n)),
			Env: []string{"VERIF_HOOK_DELAY=serv.session.checked@120"},
			Run: func(s *server, v func(string, map[string]any)) {
				ok, _, _ := createN(s, n+4, true)
				if ok > n {
					v("more_sessions_than_max_sessions", map[string]any{"limit": n, "created": ok, "arrival": "concurrent burst"})
				}
				if ok < n {
					v("session_limit_rejects_below_limit", map[string]any{"limit": n, "created": ok})
				}
			}})
		cases = append(cases, limitsCase{Name: fmt.Sprintf("max-receivers=%d sequential", n), Flags: off("--max-receivers-per-sender", fmt.Sprint(n)),
			Run: func(s *server, v func(string, map[string]any)) {
				codes := mustCreate(s, 1)
				host, _, _ := dialWS(wsURL(s, codes[0], "host", "sender"))
				var rs []*wsClient
				okc := 0
				for i := 0; i < n+2; i++ {
					c, _, err := dialWS(wsURL(s, codes[0], fmt.Sprintf("r%d", i), "receiver"))
					if err == nil {
						okc++
						rs = append(rs, c)
					}
				}
				if okc != n {
					v("receiver_limit_not_exact_sequential", map[string]any{"limit": n, "admitted": okc})
				}
				// a second session is not affected by the first one's receivers
				codes2 := mustCreate(s, 1)
				if c, _, err := dialWS(wsURL(s, codes2[0], "r-other", "receiver")); err != nil {
					v("receiver_limit_counts_other_sessions", map[string]any{"limit": n})
				} else {
					c.conn.Close()
				}
				if len(rs) > 0 {
					rs[0].conn.Close()
					again := false
					for i := 0; i < 150 && !again; i++ {
						time.Sleep(10 * time.Millisecond)
						c, _, err := dialWS(wsURL(s, codes[0], "r-new", "receiver"))
						if err == nil {
							again = true
							c.conn.Close()
						}
					}
					if !again {
						v("receiver_slot_not_released_on_leave", map[string]any{"limit": n})
					}
				}
				if host != nil {
					host.conn.Close()
				}
			}})
		cases = append(cases, limitsCase{Name: fmt.Sprintf("max-receivers=%d burst", n), Flags: off("--max-receivers-per-sender", fmt.Sprint(n)),
			Env: []string{"VERIF_HOOK_DELAY=serv.ws.limits.checked@120"},
			Run: func(s *server, v func(string, map[string]any)) {
				codes := mustCreate(s, 1)
				var mu sync.Mutex
				okc := 0
				var wg sync.WaitGroup
				var keep []*wsClient
				for i := 0; i < n+4; i++ {
					wg.Add(1)
					go func(i int) {
						defer wg.Done()
						c, _, err := dialWS(wsURL(s, codes[0], fmt.Sprintf("r%d", i), "receiver"))
						if err == nil {
							mu.Lock()
							okc++
							keep = append(keep, c)
							mu.Unlock()
						}
					}(i)
				}
				wg.Wait()
				if okc > n {
					v("more_receivers_than_max_receivers_per_sender", map[string]any{"limit": n, "admitted": okc, "arrival": "concurrent burst"})
				}
				for _, c := range keep {
					c.conn.Close()
				}
			}})
		cases = append(cases, limitsCase{Name: fmt.Sprintf("max-ws-connections=%d burst", n), Flags: off("--max-ws-connections", fmt.Sprint(n)),
			Env: []string{"VERIF_HOOK_DELAY=serv.ws.limits.checked@80"},
			Run: func(s *server, v func(string, map[string]any)) {
				codes := mustCreate(s, 1)
				var mu sync.Mutex
				okc := 0
				var wg sync.WaitGroup
				var keep []*wsClient
				for i := 0; i < n+4; i++ {
					wg.Add(1)
					go func(i int) {
						defer wg.Done()
						c, _, err := dialWS(wsURL(s, codes[0], fmt.Sprintf("p%d", i), "receiver"))
						if err == nil {
							mu.Lock()
							okc++
							keep = append(keep, c)
							mu.Unlock()
						}
					}(i)
				}
				wg.Wait()
				if okc > n {
					v("more_sockets_than_max_ws_connections", map[string]any{"limit": n, "admitted": okc})
				}
				if okc < n {
					v("connection_limit_rejects_below_limit", map[string]any{"limit": n, "admitted": okc})
				}
				for _, c := range keep {
					c.conn.Close()
				}
			}})
	}
	cases = append(cases, limitsCase{Name: "all limits 0 = unlimited", Flags: off(),
		Run: func(s *server, v func(string, map[string]any)) {
			ok, codes, _ := createN(s, 40, true)
			if ok != 40 {
				v("limit_zero_still_limits", map[string]any{"what": "sessions", "created": ok})
			}
			seen := map[string]bool{}
			for _, c := range codes {
				if seen[c] {
					v("join_codes_of_live_sessions_not_distinct", map[string]any{"code": c})
				}
				seen[c] = true
			}
			if len(codes) == 0 {
				return
			}
			host, _, _ := dialWS(wsURL(s, codes[0], "host", "sender"))
			okc := 0
			var keep []*wsClient
			for i := 0; i < 25; i++ {
				c, _, err := dialWS(wsURL(s, codes[0], fmt.Sprintf("r%d", i), "receiver"))
				if err == nil {
					okc++
					keep = append(keep, c)
				}
			}
			if okc != 25 {
				v("limit_zero_still_limits", map[string]any{"what": "receivers/connections", "admitted": okc})
			}
			for _, c := range keep {
				c.conn.Close()
			}
			if host != nil {
				host.conn.Close()
			}
		}})
	cases = append(cases, limitsCase{Name: "session-timeout expiry", Flags: append(off(), "--session-timeout", "1500ms"),
		Run: func(s *server, v func(string, map[string]any)) {
			t0 := time.Now()
			codes := mustCreate(s, 1)
			// (a join counts as "while live" only if it was over well inside the lifetime: a loaded machine may be late)
			c1, _, err := dialWS(wsURL(s, codes[0], "host", "sender"))
			if err != nil {
				if time.Since(t0) < 1000*time.Millisecond {
					v("join_with_live_code_rejected", map[string]any{"after_ms": time.Since(t0).Milliseconds()})
				}
				return
			}
			c2, _, err := dialWS(wsURL(s, codes[0], "early", "receiver"))
			if err != nil && time.Since(t0) < 1000*time.Millisecond {
				v("join_with_live_code_rejected", map[string]any{"after_ms": time.Since(t0).Milliseconds()})
			}
			time.Sleep(2000*time.Millisecond - time.Since(t0))
			if c, status, err := dialWS(wsURL(s, codes[0], "late", "receiver")); err == nil {
				v("join_admitted_after_session_expired", map[string]any{"after_ms": time.Since(t0).Milliseconds()})
				c.conn.Close()
			} else if status != 404 {
				v("join_after_expiry_not_404", map[string]any{"status": status})
			}
			// connected peers of an expired session are disconnected
			for _, c := range []*wsClient{c1, c2} {
				if c != nil {
					dead := false
					for i := 0; i < 300 && !dead; i++ {
						c.mu.Lock()
						dead = c.dead
						c.mu.Unlock()
						if !dead {
							time.Sleep(10 * time.Millisecond)
						}
					}
					if !dead {
						v("peers_of_expired_session_stay_connected", nil)
					}
					c.conn.Close()
				}
			}
		}})
	// peer ids are chosen by the clients: a receiver that comes under the very peer id of the host (a copied command line,
	// a hostile joiner) must not keep the code alive after the host has gone
	cases = append(cases, limitsCase{Name: "host disconnect ends the code although a receiver took the host's peer id", Flags: off(),
		Run: func(s *server, v func(string, map[string]any)) {
			codes := mustCreate(s, 2)
			host, _, herr := dialWS(wsURL(s, codes[0], "host", "sender"))
			if herr != nil {
				return
			}
			twin, _, terr := dialWS(wsURL(s, codes[0], "host", "receiver"))
			time.Sleep(100 * time.Millisecond)
			host.conn.Close()
			gone := false
			for i := 0; i < 300 && !gone; i++ {
				time.Sleep(10 * time.Millisecond)
				c, status, err := dialWS(wsURL(s, codes[0], "late", "receiver"))
				if err != nil && status == 404 {
					gone = true
				} else if err == nil {
					c.conn.Close()
				}
			}
			if !gone {
				v("join_admitted_after_host_left", map[string]any{"a_receiver_used_the_hosts_peer_id": terr == nil})
			}
			if twin != nil {
				twin.conn.Close()
			}
		}})
	for _, st := range []string{"24h", "0", "30s"} {
		st := st
		cases = append(cases, limitsCase{Name: "host disconnect ends the code (session-timeout " + st + ")", Flags: append(off(), "--session-timeout", st),
			Run: func(s *server, v func(string, map[string]any)) {
				codes := mustCreate(s, 2)
				host, _, _ := dialWS(wsURL(s, codes[0], "host", "sender"))
				r1, _, err := dialWS(wsURL(s, codes[0], "r1", "receiver"))
				if err != nil {
					v("join_with_live_code_rejected", nil)
				}
				host.conn.Close()
				gone := false
				for i := 0; i < 100 && !gone; i++ {
					time.Sleep(10 * time.Millisecond)
					c, status, err := dialWS(wsURL(s, codes[0], "late", "receiver"))
					if err != nil && status == 404 {
						gone = true
					} else if err == nil {
						c.conn.Close()
					}
				}
				if !gone {
					v("join_admitted_after_host_left", nil)
				}
				if c, _, err := dialWS(wsURL(s, codes[1], "r2", "receiver")); err != nil {
					v("other_sessions_code_stopped_working", nil)
				} else {
					c.conn.Close()
				}
				if r1 != nil {
					r1.conn.Close()
				}
			}})
	}
	cases = append(cases, limitsCase{Name: "max-message-bytes", Flags: append(off(), "--max-message-bytes", "512"),
		Run: func(s *server, v func(string, map[string]any)) {
			codes := mustCreate(s, 1)
			a, _, _ := dialWS(wsURL(s, codes[0], "a", "sender"))
			b, _, _ := dialWS(wsURL(s, codes[0], "b", "receiver"))
			mk := func(total int, id string) []byte {
				base := fmt.Sprintf(`{"v":1,"type":"app","msg_id":%q,"to":"b","payload":{"author":"a","pad":""}}`, id)
				pad := total - len(base)
				return []byte(fmt.Sprintf(`{"v":1,"type":"app","msg_id":%q,"to":"b","payload":{"author":"a","pad":%q}}`, id, strings.Repeat("x", pad)))
			}
			a.conn.WriteMessage(websocket.TextMessage, mk(512, "fits"))
			// judged by order, not by the clock: a small message sent afterwards by the same author arrives after it
			// (messages between two peers are not reordered); once that one is there, the first one must be there too
			a.conn.WriteMessage(websocket.TextMessage, mk(200, "after"))
			got, after := false, false
			for i := 0; i < 3000 && !after; i++ {
				time.Sleep(10 * time.Millisecond)
				for _, e := range b.snapshot() {
					if e.MsgID == "fits" {
						got = true
					}
					if e.MsgID == "after" {
						after = true
					}
				}
			}
			if after && !got {
				v("message_at_the_size_limit_not_delivered", nil)
			}
			a.conn.WriteMessage(websocket.TextMessage, mk(700, "toolarge"))
			time.Sleep(150 * time.Millisecond)
			for _, e := range b.snapshot() {
				if e.MsgID == "toolarge" {
					v("message_over_the_size_limit_delivered", map[string]any{"limit": 512, "size": 700})
				}
			}
			a.conn.Close()
			b.conn.Close()
		}})
	cases = append(cases, limitsCase{Name: "ws-msgs-per-sec", Flags: append(off("--ws-msgs-per-sec", "5"), "--ws-msgs-burst", "10"),
		Run: func(s *server, v func(string, map[string]any)) {
			codes := mustCreate(s, 1)
			a, _, _ := dialWS(wsURL(s, codes[0], "a", "sender"))
			b, _, _ := dialWS(wsURL(s, codes[0], "b", "receiver"))
			t0 := time.Now()
			for i := 0; i < 40; i++ {
				a.conn.WriteMessage(websocket.TextMessage, []byte(fmt.Sprintf(`{"v":1,"type":"app","msg_id":"m%d","to":"b","payload":{"author":"a","n":%d}}`, i, i)))
			}
			time.Sleep(200 * time.Millisecond)
			el := time.Since(t0).Seconds()
			count := func() int {
				n := 0
				for _, e := range b.snapshot() {
					if e.Type == "app" {
						n++
					}
				}
				return n
			}
			n := count()
			for i := 0; i < 300 && n < 10; i++ { // the burst must get through; give a loaded machine time to deliver it
				time.Sleep(10 * time.Millisecond)
				n = count()
				el = time.Since(t0).Seconds()
			}
			if float64(n) > 10+5*el+1 {
				v("more_messages_accepted_than_the_rate_allows", map[string]any{"delivered": n, "burst": 10, "rate": 5, "seconds": el})
			}
			if n < 10 {
				v("rate_limit_rejects_within_the_burst", map[string]any{"delivered": n})
			}
			a.conn.Close()
			b.conn.Close()
		}})
	cases = append(cases, limitsCase{Name: "session-creates burst", Flags: append(off("--session-creates-per-min", "60"), "--session-creates-burst", "3"),
		Run: func(s *server, v func(string, map[string]any)) {
			t0 := time.Now()
			ok, _, _ := createN(s, 12, false)
			el := time.Since(t0).Seconds()
			if float64(ok) > 3+el*1+1 {
				v("more_creates_accepted_than_the_rate_allows", map[string]any{"created": ok, "burst": 3})
			}
			if ok < 3 {
				v("rate_limit_rejects_within_the_burst", map[string]any{"created": ok})
			}
		}})
	cases = append(cases, limitsCase{Name: "ws-connects burst", Flags: append(off("--ws-connects-per-min", "60"), "--ws-connects-burst", "4"),
		Run: func(s *server, v func(string, map[string]any)) {
			codes := mustCreate(s, 1)
			t0 := time.Now()
			okc := 0
			var keep []*wsClient
			for i := 0; i < 12; i++ {
				c, _, err := dialWS(wsURL(s, codes[0], fmt.Sprintf("p%d", i), "receiver"))
				if err == nil {
					okc++
					keep = append(keep, c)
				}
			}
			el := time.Since(t0).Seconds()
			if float64(okc) > 4+el+1 {
				v("more_connects_accepted_than_the_rate_allows", map[string]any{"admitted": okc, "burst": 4})
			}
			if okc < 4 {
				v("rate_limit_rejects_within_the_burst", map[string]any{"admitted": okc})
			}
			for _, c := range keep {
				c.conn.Close()
			}
		}})
	// a client that keeps hammering after it was refused must not earn tokens faster than the configured rate
	cases = append(cases, limitsCase{Name: "ws-connects hammering", Flags: append(off("--ws-connects-per-min", "60"), "--ws-connects-burst", "4"),
		Run: func(s *server, v func(string, map[string]any)) {
			codes := mustCreate(s, 1)
			t0 := time.Now()
			okc, tries := 0, 0
			var keep []*wsClient
			for time.Since(t0) < 1500*time.Millisecond {
				c, _, err := dialWS(wsURL(s, codes[0], fmt.Sprintf("h%d", tries), "receiver"))
				tries++
				if err == nil {
					okc++
					keep = append(keep, c)
				}
			}
			el := time.Since(t0).Seconds()
			if float64(okc) > 4+el*1+1 {
				v("more_connects_accepted_than_the_rate_allows", map[string]any{"admitted": okc, "attempts": tries, "burst": 4, "per_second": 1, "seconds": el})
			}
			for _, c := range keep {
				c.conn.Close()
			}
		}})
	cases = append(cases, limitsCase{Name: "session-creates hammering", Flags: append(off("--session-creates-per-min", "60"), "--session-creates-burst", "3"),
		Run: func(s *server, v func(string, map[string]any)) {
			t0 := time.Now()
			ok, tries := 0, 0
			for time.Since(t0) < 1500*time.Millisecond {
				n, _, _ := createN(s, 1, false)
				ok += n
				tries++
			}
			el := time.Since(t0).Seconds()
			if float64(ok) > 3+el*1+1 {
				v("more_creates_accepted_than_the_rate_allows", map[string]any{"created": ok, "attempts": tries, "burst": 3, "per_second": 1, "seconds": el})
			}
		}})
	// a receiver that connects again under its own peer id replaces its hub entry; whatever the server answers,
	// the host must never end up with more registered receivers than the limit once the old socket is gone
	for _, n := range []int{1, 2} {
		n := n
		cases = append(cases, limitsCase{Name: fmt.Sprintf("max-receivers=%d reconnect under the same peer id", n), Flags: off("--max-receivers-per-sender", fmt.Sprint(n)),
			Run: func(s *server, v func(string, map[string]any)) {
				codes := mustCreate(s, 1)
				host, _, _ := dialWS(wsURL(s, codes[0], "host", "sender"))
				var rs []*wsClient
				for i := 0; i < n; i++ {
					c, _, err := dialWS(wsURL(s, codes[0], fmt.Sprintf("r%d", i), "receiver"))
					if err != nil {
						v("receiver_limit_rejects_below_limit", map[string]any{"limit": n, "admitted": i})
						return
					}
					rs = append(rs, c)
				}
				for round := 0; round < 2; round++ {
					// r0 again, while its old socket is still open
					again, _, _ := dialWS(wsURL(s, codes[0], "r0", "receiver"))
					rs[0].conn.Close()
					time.Sleep(150 * time.Millisecond)
					if again != nil {
						rs[0] = again
					} else {
						// refused while the old socket held the slot: once that is gone the receiver gets back in
						for k := 0; k < 100 && again == nil; k++ {
							again, _, _ = dialWS(wsURL(s, codes[0], "r0", "receiver"))
							if again == nil {
								time.Sleep(10 * time.Millisecond)
							}
						}
						if again == nil {
							v("receiver_slot_not_released_on_leave", map[string]any{"limit": n, "after": "reconnect under the same peer id"})
							return
						}
						rs[0] = again
					}
					// now a stranger tries
					extra, _, _ := dialWS(wsURL(s, codes[0], fmt.Sprintf("stranger%d", round), "receiver"))
					time.Sleep(100 * time.Millisecond)
					live := 0
					for _, c := range append(append([]*wsClient{}, rs...), extra) {
						if c != nil && !c.isDead() {
							live++
						}
					}
					if live > n {
						v("more_receivers_than_max_receivers_per_sender", map[string]any{"limit": n, "receivers_connected": live, "arrival": "reconnect under the same peer id, then another receiver"})
						return
					}
					if extra != nil {
						extra.conn.Close()
						time.Sleep(50 * time.Millisecond)
					}
				}
				if host != nil {
					host.conn.Close()
				}
			}})
	}
	// a join code admits until the session lifetime is over - not only until the last full second before it
	cases = append(cases, limitsCase{Name: "session lifetime is not cut short", Flags: append(off(), "--session-timeout", "800ms"),
		Run: func(s *server, v func(string, map[string]any)) {
			for rep := 0; rep < 3; rep++ {
				// create the session at about half past a wall-clock second
				for {
					if f := time.Now().Nanosecond() / 1e6; f >= 450 && f <= 550 {
						break
					}
					time.Sleep(5 * time.Millisecond)
				}
				t0 := time.Now()
				codes := mustCreate(s, 1)
				time.Sleep(time.Until(t0.Add(600 * time.Millisecond)))
				c, status, err := dialWS(wsURL(s, codes[0], "host", "sender"))
				took := time.Since(t0)
				if took > 750*time.Millisecond {
					continue // the machine was too slow for the margin: says nothing
				}
				if err != nil {
					v("join_code_refused_before_the_session_lifetime_ended", map[string]any{"lifetime_ms": 800, "age_ms_at_most": took.Milliseconds(), "status": status})
					return
				}
				c.conn.Close()
			}
		}})
	// the per-address rate limits must not be escapable by claiming another address in a request header
	forged := func(i int) http.Header {
		ip := fmt.Sprintf("203.0.113.%d", 1+i%250)
		h := http.Header{}
		switch i % 3 {
		case 0:
			h.Set("X-Forwarded-For", ip)
		case 1:
			h.Set("X-Real-IP", ip)
		default:
			h.Set("Forwarded", "for="+ip)
		}
		return h
	}
	cases = append(cases, limitsCase{Name: "ws-connects hammering with forged client-address headers", Flags: append(off("--ws-connects-per-min", "60"), "--ws-connects-burst", "4"),
		Run: func(s *server, v func(string, map[string]any)) {
			codes := mustCreate(s, 1)
			t0 := time.Now()
			okc, tries := 0, 0
			var keep []*websocket.Conn
			for time.Since(t0) < 1200*time.Millisecond {
				d := websocket.Dialer{HandshakeTimeout: 3 * time.Second}
				c, _, err := d.Dial(wsURL(s, codes[0], fmt.Sprintf("f%d", tries), "receiver"), forged(tries))
				tries++
				if err == nil {
					okc++
					keep = append(keep, c)
				}
			}
			el := time.Since(t0).Seconds()
			if float64(okc) > 4+el*1+1 {
				v("more_connects_accepted_than_the_rate_allows", map[string]any{"admitted": okc, "attempts": tries, "burst": 4, "per_second": 1, "seconds": el, "headers": "X-Forwarded-For / X-Real-IP / Forwarded differ per request"})
			}
			for _, c := range keep {
				c.Close()
			}
		}})
	cases = append(cases, limitsCase{Name: "session-creates hammering with forged client-address headers", Flags: append(off("--session-creates-per-min", "60"), "--session-creates-burst", "3"),
		Run: func(s *server, v func(string, map[string]any)) {
			t0 := time.Now()
			ok, tries := 0, 0
			cl := &http.Client{Timeout: 3 * time.Second}
			for time.Since(t0) < 1200*time.Millisecond {
				req, _ := http.NewRequest(http.MethodPost, s.url+"/session", nil)
				req.Header = forged(tries)
				tries++
				resp, err := cl.Do(req)
				if err != nil {
					continue
				}
				io.Copy(io.Discard, resp.Body)
				resp.Body.Close()
				if resp.StatusCode >= 200 && resp.StatusCode < 300 {
					ok++
				}
			}
			el := time.Since(t0).Seconds()
			if float64(ok) > 3+el*1+1 {
				v("more_creates_accepted_than_the_rate_allows", map[string]any{"created": ok, "attempts": tries, "burst": 3, "per_second": 1, "seconds": el, "headers": "X-Forwarded-For / X-Real-IP / Forwarded differ per request"})
			}
		}})
	done := map[string]int{}
	for i, c := range cases {
		if i%*shards != *shard {
			continue
		}
		reps := 1
		if strings.Contains(c.Name, "burst") {
			reps = *rounds
		}
		for rep := 0; rep < reps; rep++ {
			srv, err := startServer(*bin, c.Env, c.Flags...)
			if err != nil {
				res.AddDrift(map[string]any{"why": "server did not start", "case": c.Name})
				continue
			}
			c.Run(srv, func(kind string, extra map[string]any) {
				res.AddViolation(map[string]any{"kind": kind}, map[string]any{"case": c.Name, "flags": c.Flags, "env": c.Env, "detail": extra})
			})
			if !srv.alive() {
				res.AddViolation(map[string]any{"kind": "server_died"}, map[string]any{"case": c.Name, "log": tailStr(srv.out.String(), 500)})
			}
			srv.stop()
			res.Behaviours++
			res.Steps++
			res.Distinct++
			done[c.Name]++
		}
		res.AddSample(map[string]any{"case": c.Name, "flags": strings.Join(c.Flags, " ")}, 30)
	}
	res.Extra["cases"] = done
	res.Print()
}

// ---- Config.tla <-> real client functions against the real thruserv (C16) -----------------------------

type cfgRow struct {
	Flags [][]string `json:"flags"`
	Turn  string     `json:"turn"`
	Peer  string     `json:"peer"`
}

var flagValues = map[string]map[string][]string{
	"max-sessions":             {"small": {"--max-sessions", "2"}, "zero": {"--max-sessions", "0"}},
	"max-receivers-per-sender": {"small": {"--max-receivers-per-sender", "1"}, "zero": {"--max-receivers-per-sender", "0"}},
	"max-message-bytes":        {"small": {"--max-message-bytes", "2048"}, "zero": {"--max-message-bytes", "0"}},
	"ws-connects":              {"small": {"--ws-connects-per-min", "6", "--ws-connects-burst", "3"}, "zero": {"--ws-connects-per-min", "0", "--ws-connects-burst", "0"}},
	"ws-msgs":                  {"small": {"--ws-msgs-per-sec", "2", "--ws-msgs-burst", "3"}, "zero": {"--ws-msgs-per-sec", "0", "--ws-msgs-burst", "0"}},
	"session-creates":          {"small": {"--session-creates-per-min", "2", "--session-creates-burst", "1"}, "zero": {"--session-creates-per-min", "0", "--session-creates-burst", "0"}},
	"max-ws-connections":       {"small": {"--max-ws-connections", "2"}, "zero": {"--max-ws-connections", "0"}},
	"ws-idle-timeout":          {"small": {"--ws-idle-timeout", "2s"}, "zero": {"--ws-idle-timeout", "0"}},
	"session-timeout":          {"small": {"--session-timeout", "5s"}, "zero": {"--session-timeout", "0"}},
}

var peerIDs = map[string]string{"hex": "a1b2c3d4e5", "colon": "peer:with:colons", "at": "user@host", "slash": "a/b/c", "question": "who?me",
	"percent": "100%25sure%", "plus": "a+b c", "space": "my laptop", "unicode": "pëer-名前", "amp-eq": "a&b=c", "hash": "frag#ment"}

var turnURLs = map[string]string{"turn:h:p": "turn:relay.example.test:3478", "turn://h:p": "turn://relay.example.test:3478",
	"turns:h:p": "turns:relay.example.test:5349", "turns://h:p": "turns://relay.example.test:5349", "h:p": "relay.example.test:3478",
	"turn:h:p?transport=tcp": "turn:relay.example.test:3478?transport=tcp", "turns:h:p?servername=x": "turns:10.1.2.3:5349?servername=relay.example.test",
	"turn:h:p?transport=udp": "turn:relay.example.test:3478?transport=udp",
	"turn:[v6]:p": "turn:[2001:db8::7]:3478", "turns://[v6]:p": "turns://[2001:db8::7]:5349", "[v6]:p": "[2001:db8::7]:3478"}

// ConfigGrid: for every enumerated configuration start the real server and run the real client functions.
func ConfigGrid(args []string) {
	fs := flag.NewFlagSet("config-grid", flag.ExitOnError)
	edges := fs.String("edges", "", "rows emitted by TLC (Config)")
	bin := fs.String("thruserv", "", "thruserv binary")
	shard := fs.Int("shard", 0, "shard")
	shards := fs.Int("shards", 1, "shards")
	sample := fs.Int("sample", 0, "run every k-th row only")
	fs.Parse(args)
	rows, err := loadRows[cfgRow](*edges)
	if err != nil {
		panic(err)
	}
	res := &Result{Extra: map[string]any{}}
	const secret = "static-auth-secret-for-tests"
	for i, r := range rows {
		if i%*shards != *shard || (*sample > 1 && (i / *shards)%*sample != 0) {
			continue
		}
		var flags []string
		var desc []string
		for _, fl := range r.Flags {
			if fl[1] != "default" {
				flags = append(flags, flagValues[fl[0]][fl[1]]...)
				desc = append(desc, fl[0]+"="+fl[1])
			}
		}
		if r.Turn != "off" {
			flags = append(flags, "--turn-server", turnURLs[r.Turn], "--turn-static-auth-secret", secret)
			desc = append(desc, "turn="+r.Turn, "peer="+r.Peer)
		}
		srv, err := startServer(*bin, nil, flags...)
		if err != nil {
			res.AddViolation(map[string]any{"kind": "server_does_not_start_with_documented_flags"}, map[string]any{"flags": flags})
			continue
		}
		res.Behaviours++
		res.Steps++
		if len(desc) > 0 {
			res.Distinct++
		}
		replay := map[string]any{"config": desc, "flags": flags}
		bad := func(kind string, extra map[string]any) {
			res.AddViolation(map[string]any{"kind": kind, "config": strings.Join(desc, " ")}, map[string]any{"replay": replay, "detail": extra})
		}
		peer := peerIDs[r.Peer]
		ctx, cancel := context.WithTimeout(context.Background(), 8*time.Second)
		hostMax := 4
		for _, fl := range r.Flags {
			if fl[0] == "max-receivers-per-sender" && fl[1] == "small" {
				hostMax = 1 // a host that asks for more than the server allows is (rightly) refused
			}
		}
		var open []*wsClient
		_, code, _, cerr := clienthttp.CreateSession(ctx, srv.url, hostMax)
		if cerr != nil {
			bad("create_session_fails", map[string]any{"err": cerr.Error()})
		} else {
			for _, role := range []string{"sender", "receiver"} {
				pid := peer
				if role == "receiver" {
					pid = peer + "-r"
				}
				maxRecv := 0
				if role == "sender" {
					maxRecv = hostMax
				}
				url, uerr := app.VerifBuildWebSocketURL(srv.url, code, pid, role, maxRecv)
				if uerr != nil {
					bad("client_cannot_build_url", map[string]any{"err": uerr.Error()})
					continue
				}
				c, status, derr := dialWS(url)
				if derr != nil {
					bad(role+"_cannot_connect", map[string]any{"status": status, "err": derr.Error(), "peer_id": pid})
					continue
				}
				// the server must know the peer under exactly the id the client meant
				// (wait for the messages themselves, not for a fixed time: a loaded machine delivers late)
				var turnMsg *protocol.TurnCredentials
				sawSelf, sawList := false, false
				for deadline := time.Now().Add(5 * time.Second); ; {
					turnMsg, sawSelf, sawList = nil, false, false
					for _, e := range c.snapshot() {
						switch e.Type {
						case protocol.TypePeerList:
							var pl protocol.PeerList
							e.DecodePayload(&pl)
							sawList = true
							for _, p := range pl.Peers {
								if p.PeerID == pid && p.Role == role {
									sawSelf = true
								}
							}
						case protocol.TypeTurnCredentials:
							var tc protocol.TurnCredentials
							if e.DecodePayload(&tc) == nil {
								turnMsg = &tc
							}
						}
					}
					if (sawList && (r.Turn == "off" || turnMsg != nil)) || time.Now().After(deadline) {
						break
					}
					time.Sleep(5 * time.Millisecond)
				}
				if r.Turn == "off" {
					time.Sleep(20 * time.Millisecond) // room for a credentials message that must NOT come
					for _, e := range c.snapshot() {
						if e.Type == protocol.TypeTurnCredentials {
							var tc protocol.TurnCredentials
							if e.DecodePayload(&tc) == nil {
								turnMsg = &tc
							}
						}
					}
				}
				if !sawSelf {
					bad("server_registered_a_different_peer_id", map[string]any{"meant": pid, "role": role})
				}
				if r.Turn != "off" {
					if turnMsg == nil || len(turnMsg.Servers) == 0 {
						bad("no_turn_credentials_issued", map[string]any{"role": role})
					} else {
						checkTurn(bad, turnMsg.Servers[0], turnURLs[r.Turn], pid, secret)
					}
				} else if turnMsg != nil {
					bad("turn_credentials_issued_although_off", nil)
				}
				open = append(open, c) // the host stays connected while the receiver joins
			}
		}
		// connected is not enough: the two clients must be able to talk (what the signaling exchange of a session
		// does - offer, accept, credentials, candidates), and stay connected while they do
		if len(open) == 2 {
			host, recv := open[0], open[1]
			hostID, recvID := peer, peer+"-r"
			okTalk := true
			for k := 0; k < 3 && okTalk; k++ {
				if !roundTrip(host, recv, recvID, 7000+2*k) {
					bad("clients_cannot_exchange_messages", map[string]any{"round": k, "direction": "host to receiver"})
					okTalk = false
					break
				}
				if !roundTrip(recv, host, hostID, 7001+2*k) {
					bad("clients_cannot_exchange_messages", map[string]any{"round": k, "direction": "receiver to host"})
					okTalk = false
				}
				time.Sleep(120 * time.Millisecond)
			}
			if okTalk {
				left := false
				for _, c := range open {
					for _, e := range c.snapshot() {
						if e.Type == protocol.TypePeerLeft {
							left = true
						}
					}
				}
				if left || host.isDead() || recv.isDead() {
					bad("peer_dropped_during_the_signaling_exchange", map[string]any{"host_closed": host.isDead(), "receiver_closed": recv.isDead(), "peer_left_seen": left})
				}
			}
		}
		// several receivers join at the same moment (a link posted to a group): each gets the credentials minted for it
		if len(open) == 2 && r.Turn != "off" {
			type burstRes struct {
				pid string
				tc  *protocol.TurnCredentials
			}
			const nb = 12
			resCh := make(chan burstRes, nb)
			for k := 0; k < nb; k++ {
				go func(k int) {
					pid := fmt.Sprintf("%s-burst%d", peer, k)
					out := burstRes{pid: pid}
					defer func() { resCh <- out }()
					u, e := app.VerifBuildWebSocketURL(srv.url, code, pid, "receiver", 0)
					if e != nil {
						return
					}
					c, _, derr := dialWS(u)
					if derr != nil {
						return // (a receiver limit of this configuration: not this check's subject)
					}
					defer c.conn.Close()
					for deadline := time.Now().Add(5 * time.Second); time.Now().Before(deadline) && out.tc == nil; time.Sleep(5 * time.Millisecond) {
						for _, e := range c.snapshot() {
							if e.Type == protocol.TypeTurnCredentials {
								var tc protocol.TurnCredentials
								if e.DecodePayload(&tc) == nil {
									out.tc = &tc
								}
							}
						}
					}
				}(k)
			}
			for k := 0; k < nb; k++ {
				b := <-resCh
				if b.tc != nil && len(b.tc.Servers) > 0 {
					checkTurn(bad, b.tc.Servers[0], turnURLs[r.Turn], b.pid, secret)
				}
			}
		}
		// another host creates a session on the same server: the first session must go on admitting
		if len(open) == 2 {
			if _, _, _, e2 := clienthttp.CreateSession(ctx, srv.url, hostMax); e2 == nil {
				if u3, e3 := app.VerifBuildWebSocketURL(srv.url, code, peer+"-late", "receiver", 0); e3 == nil {
					c3, status3, d3 := dialWS(u3)
					if d3 != nil && status3 == 404 {
						bad("join_code_unknown_after_another_session_was_created", map[string]any{"status": status3})
					}
					if c3 != nil {
						c3.conn.Close()
					}
				}
			}
		}
		for _, c := range open {
			c.conn.Close()
		}
		cancel()
		if !srv.alive() {
			bad("server_died", map[string]any{"log": tailStr(srv.out.String(), 400)})
		}
		srv.stop()
		if i%23 == 0 {
			res.AddSample(map[string]any{"config": desc}, 8)
		}
	}
	res.Print()
}
