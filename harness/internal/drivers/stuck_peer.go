package drivers

import (
	"sync"
	"encoding/json"
	"flag"
	"fmt"
	"net"
	"net/http"
	"strings"
	"time"

	"github.com/gorilla/websocket"
	"github.com/sheerbytes/sheerbytes/pkg/protocol"
)

// ---- C11 on the real server: a peer whose socket has stopped draining -----------------------------
//
// A peer that stays connected but no longer reads (dead NAT binding, suspended laptop) makes the
// server-side writer of its connection block inside the socket write once the kernel buffers are
// full.  HubBlock.tla: no hub operation and no handler of another peer may wait for such a writer.
// Scenarios against a real thruserv, each with an uninvolved second session that must keep working:
//   reconnect  the stuck peer reconnects under its own peer id (last write wins): the new connection
//              must become routable
//   leave      another peer of the session leaves and joins again while the stuck peer stays
//   expiry     the session's lifetime ends while the stuck peer is connected: every other peer of the
//              session must be disconnected, the code must stop admitting
// A step that does not complete within the bound means something waited for the stuck writer.

const stuckBound = 6 * time.Second

// quietDial opens a WebSocket that nobody reads from, with a small receive buffer.
func quietDial(wsu string) (*websocket.Conn, error) { return quietDialBuf(wsu, 4096) }

// quietDialBuf: rcvbuf 0 leaves the kernel's default receive buffer (a peer that will wake up again and read at full speed).
func quietDialBuf(wsu string, rcvbuf int) (*websocket.Conn, error) {
	d := websocket.Dialer{HandshakeTimeout: 3 * time.Second, ReadBufferSize: 1024,
		NetDial: func(network, addr string) (net.Conn, error) {
			c, err := net.DialTimeout(network, addr, 3*time.Second)
			if err == nil {
				if tc, ok := c.(*net.TCPConn); ok {
					tc.SetReadBuffer(4096)
				}
			}
			return c, err
		}}
	conn, _, err := d.Dial(wsu, nil)
	return conn, err
}

func appEnv(to string, n int, pad int) protocol.Envelope {
	env, _ := protocol.NewEnvelope("app", fmt.Sprintf("m%d", n), map[string]any{"author": "flood", "n": n, "pad": strings.Repeat("x", pad)})
	env.To = to
	return env
}

// waitFor polls the client's inbox for an envelope satisfying f.
func (c *wsClient) waitFor(d time.Duration, f func(protocol.Envelope) bool) bool {
	end := time.Now().Add(d)
	for time.Now().Before(end) {
		for _, e := range c.snapshot() {
			if f(e) {
				return true
			}
		}
		time.Sleep(10 * time.Millisecond)
	}
	return false
}

func (c *wsClient) isDead() bool {
	c.mu.Lock()
	defer c.mu.Unlock()
	return c.dead
}

func (c *wsClient) sendEnv(env protocol.Envelope) error {
	c.mu.Lock()
	defer c.mu.Unlock()
	c.conn.SetWriteDeadline(time.Now().Add(3 * time.Second))
	return c.conn.WriteJSON(env)
}

type stuckOutcome struct {
	Scenario   string   `json:"scenario"`
	FloodBytes int      `json:"flood_bytes"`
	Steps      []string `json:"steps"`
	Failed     string   `json:"failed_step,omitempty"`
	Trouble    string   `json:"trouble,omitempty"`
	Errors     []string `json:"errors_received_by_the_author,omitempty"`
	SetupMS    int64    `json:"setup_ms,omitempty"`
}

// roundTrip: x sends an addressed message to y's peer id; y must receive it.
func roundTrip(x, y *wsClient, yID string, n int) bool {
	if err := x.sendEnv(appEnv(yID, n, 0)); err != nil {
		return false
	}
	id := fmt.Sprintf("m%d", n)
	return y.waitFor(stuckBound, func(e protocol.Envelope) bool { return e.Type == "app" && e.MsgID == id })
}

func runStuckScenario(bin, scenario string, round int) stuckOutcome {
	o := stuckOutcome{Scenario: scenario}
	flags := append([]string{"--ws-idle-timeout", "10m"}, unlimited...)
	if scenario == "expiry" {
		flags = append(flags, "--session-timeout", "12s")
	}
	srv, err := startServer(bin, nil, flags...)
	if err != nil {
		o.Trouble = err.Error()
		return o
	}
	defer srv.stop()
	t0 := time.Now()
	codes := mustCreate(srv, 2)
	dial := func(code, peer, role string) *wsClient {
		c, _, err := dialWS(wsURL(srv, code, peer, role))
		if err != nil {
			o.Trouble = "dial " + peer + ": " + err.Error()
			return nil
		}
		// the handshake answer comes before the server has entered the connection into the session; the peer list,
		// the first thing the server sends on it, comes after
		if !c.waitFor(stuckBound, func(e protocol.Envelope) bool { return e.Type == protocol.TypePeerList }) {
			o.Trouble = "no peer list for " + peer
			c.conn.Close()
			return nil
		}
		return c
	}
	// the uninvolved session
	hb, rb := dial(codes[1], "hostB", "sender"), dial(codes[1], "recvB", "receiver")
	// the session with the stuck peer
	ha := dial(codes[0], "hostA", "sender")
	r2 := dial(codes[0], "recvA2", "receiver")
	if o.Trouble != "" {
		return o
	}
	// the expiry scenario: more peers in the stuck peer's session - the server closes them one after the other, in no
	// particular order, and each of them must be closed whatever the position of the stuck one among them
	var crowd []*wsClient
	if scenario == "expiry" {
		for k := 0; k < 6; k++ {
			crowd = append(crowd, dial(codes[0], fmt.Sprintf("recvA%d", 3+k), "receiver"))
		}
		if o.Trouble != "" {
			return o
		}
	}
	defer func() {
		for _, c := range append([]*wsClient{hb, rb, ha, r2}, crowd...) {
			if c != nil {
				c.conn.Close()
			}
		}
	}()
	rcvbuf, nflood := 4096, 420
	stuck, err := quietDialBuf(wsURL(srv, codes[0], "recvA1", "receiver"), rcvbuf)
	if err != nil {
		o.Trouble = "dial stuck peer: " + err.Error()
		return o
	}
	defer stuck.Close()
	// the handshake answer comes before the server has entered the connection into the session: wait until the host
	// has been told that the peer joined (nobody reads on the stuck connection itself)
	if !ha.waitFor(stuckBound, func(e protocol.Envelope) bool {
		if e.Type != protocol.TypePeerJoined {
			return false
		}
		var pj protocol.PeerJoined
		e.DecodePayload(&pj)
		return pj.Peer.PeerID == "recvA1"
	}) {
		o.Trouble = "the host was not told that the stuck peer joined"
		return o
	}
	// fill the path to the stuck peer: addressed messages of ~48 KiB until well beyond what the kernel buffers and
	// the connection's queue (256 messages) can hold; the queue drops what does not fit, so the flood itself is cheap
	for i := 0; i < nflood; i++ {
		env := appEnv("recvA1", 100000+i, 48000)
		if err := r2.sendEnv(env); err != nil {
			o.Trouble = "flood: " + err.Error()
			return o
		}
		o.FloodBytes += 48000
	}
	step := func(name string, ok bool) bool {
		o.Steps = append(o.Steps, fmt.Sprintf("%s=%v", name, ok))
		if !ok && o.Failed == "" {
			o.Failed = name
		}
		return ok
	}
	// the flood has been consumed by the server (a marker sent after it comes through to the host)
	if !step("marker_after_flood_routed", roundTrip(r2, ha, "hostA", 1)) {
		return o
	}
	if scenario == "expiry" && time.Since(t0) > 10*time.Second {
		// (a machine so busy that the session is about to end before the scenario is set up: no verdict)
		o.Trouble = "setting the scenario up took longer than the session lives"
		return o
	}
	// the stuck peer is connected all the while: the server may drop what its queue cannot hold, but it must not tell
	// the author that the addressee does not exist
	notFound := false
	for _, e := range r2.snapshot() {
		if e.Type == protocol.TypeError {
			var pe protocol.Error
			if e.DecodePayload(&pe) == nil && strings.Contains(pe.Message, "recvA1") {
				notFound = true
				if len(o.Errors) < 3 {
					o.Errors = append(o.Errors, fmt.Sprintf("%s: %s (in reply to %s)", pe.Code, pe.Message, e.MsgID))
				}
			}
		}
	}
	o.SetupMS = time.Since(t0).Milliseconds()
	step("connected_peer_never_reported_as_unknown", !notFound)
	switch scenario {
	case "noisy":
		// the peer that does not read is also one that talks: it addresses envelopes to a peer id nobody has. Every
		// one of them is answered (peer_not_found) on its own connection, until that answer does not go out any more.
		// Then somebody routes an envelope to it. Two writers now want the one connection - and the server has to
		// survive that
		wrote := 0
		for i := 0; i < 120000; i++ {
			stuck.SetWriteDeadline(time.Now().Add(400 * time.Millisecond))
			if err := stuck.WriteJSON(appEnv("nobody", 300000+i, 0)); err != nil {
				break
			}
			wrote++
		}
		o.Steps = append(o.Steps, fmt.Sprintf("envelopes_to_an_unknown_peer_written=%d", wrote))
		for k := 0; k < 5; k++ {
			r2.sendEnv(appEnv("recvA1", 400000+k, 100))
			ha.sendEnv(appEnv("recvA1", 500000+k, 100))
			time.Sleep(30 * time.Millisecond)
		}
		time.Sleep(300 * time.Millisecond)
	case "reconnect":
		// the stuck peer's device comes back: a new connection under the same peer id
		done := make(chan *wsClient, 1)
		go func() {
			c, _, err := dialWS(wsURL(srv, codes[0], "recvA1", "receiver"))
			if err != nil {
				done <- nil
				return
			}
			done <- c
		}()
		var again *wsClient
		select {
		case again = <-done:
		case <-time.After(stuckBound):
		}
		if !step("reconnect_admitted", again != nil) {
			return o
		}
		defer again.conn.Close()
		step("new_connection_gets_peer_list", again.waitFor(stuckBound, func(e protocol.Envelope) bool { return e.Type == protocol.TypePeerList }))
		step("new_connection_routable", roundTrip(ha, again, "recvA1", 2))
	case "leave":
		r2.conn.Close()
		step("host_sees_peer_left", ha.waitFor(stuckBound, func(e protocol.Envelope) bool {
			if e.Type != protocol.TypePeerLeft {
				return false
			}
			var pl protocol.PeerLeft
			e.DecodePayload(&pl)
			return pl.PeerID == "recvA2"
		}))
		again, _, rerr := dialWS(wsURL(srv, codes[0], "recvA2", "receiver"))
		if !step("rejoin_admitted", rerr == nil && again != nil) {
			r2 = nil
			return o
		}
		r2 = again
		// (the peer list is the first thing the server sends once the connection is entered into the session)
		step("rejoined_peer_gets_peer_list", r2.waitFor(stuckBound, func(e protocol.Envelope) bool { return e.Type == protocol.TypePeerList }))
		step("rejoined_peer_routable", roundTrip(ha, r2, "recvA2", 3))
	case "expiry":
		// both sessions were created at t0 and live 12 s; wait for the end of the stuck peer's session. Around that
		// moment late joiners keep trying the code (a link that is still open in somebody's terminal): some of the
		// attempts fall between the end of the lifetime and the end of the server's own clean-up
		for time.Since(t0) < 11800*time.Millisecond {
			time.Sleep(20 * time.Millisecond)
		}
		var lateWG sync.WaitGroup
		for g := 0; g < 6; g++ {
			lateWG.Add(1)
			go func(g int) {
				defer lateWG.Done()
				for k := 0; time.Since(t0) < 12700*time.Millisecond; k++ {
					if c, _, err := dialWS(wsURL(srv, codes[0], fmt.Sprintf("late%d-%d", g, k), "receiver")); err == nil {
						c.conn.Close()
					}
				}
			}(g)
		}
		lateWG.Wait()
		end := time.Now().Add(stuckBound)
		for time.Now().Before(end) && !(ha.isDead() && r2.isDead()) {
			time.Sleep(20 * time.Millisecond)
		}
		step("host_disconnected_at_expiry", ha.isDead())
		step("other_receiver_disconnected_at_expiry", r2.isDead())
		crowdDead := func() bool {
			for _, c := range crowd {
				if !c.isDead() {
					return false
				}
			}
			return true
		}
		for time.Now().Before(end) && !crowdDead() {
			time.Sleep(20 * time.Millisecond)
		}
		step("every_other_receiver_disconnected_at_expiry", crowdDead())
		// the uninvolved session expires at the same time: its peers must be disconnected as well
		for time.Now().Before(end) && !(hb.isDead() && rb.isDead()) {
			time.Sleep(20 * time.Millisecond)
		}
		step("uninvolved_session_expired_too", hb.isDead() && rb.isDead())
		_, code, err := dialWS(wsURL(srv, codes[0], "late", "receiver"))
		step("code_no_longer_admits", err != nil && code != 101)
	}
	if scenario != "expiry" {
		// the uninvolved session and the server as a whole
		step("uninvolved_session_routes", roundTrip(hb, rb, "recvB", 4))
	}
	cl := http.Client{Timeout: stuckBound}
	resp, err := cl.Get(srv.url + "/health")
	if err == nil {
		resp.Body.Close()
	}
	step("health_answers", err == nil)
	more := make(chan bool, 1)
	go func() { _, cs, _ := createN(srv, 1, false); more <- len(cs) == 1 }()
	select {
	case ok := <-more:
		step("new_session_can_be_created", ok)
	case <-time.After(stuckBound):
		step("new_session_can_be_created", false)
	}
	return o
}

func StuckPeer(args []string) {
	fs := flag.NewFlagSet("stuck-peer", flag.ExitOnError)
	bin := fs.String("thruserv", "", "thruserv binary")
	rounds := fs.Int("rounds", 1, "rounds of the scenarios")
	scen := fs.String("scenarios", "reconnect,leave,expiry,expiry,noisy", "comma separated scenarios")
	shard := fs.Int("shard", 0, "shard")
	shards := fs.Int("shards", 1, "shards")
	fs.Parse(args)
	res := &Result{Extra: map[string]any{}}
	outcomes := map[string]int{}
	n := 0
	trouble := 0
	for round := 0; round < *rounds; round++ {
		for _, sc := range strings.Split(*scen, ",") {
			n++
			if (n-1)%*shards != *shard {
				continue
			}
			o := runStuckScenario(*bin, sc, round)
			if o.Trouble != "" {
				trouble++
				outcomes[sc+": trouble"]++
				continue
			}
			res.Behaviours++
			res.Distinct++
			res.Steps += len(o.Steps)
			if o.Failed != "" {
				outcomes[sc+": "+o.Failed+" failed"]++
				kind := "server_waits_for_a_peer_that_stopped_reading"
				if o.Failed == "connected_peer_never_reported_as_unknown" {
					kind = "connected_peer_reported_as_unknown"
				}
				if o.Failed == "health_answers" || o.Failed == "new_session_can_be_created" || o.Failed == "uninvolved_session_routes" || o.Failed == "uninvolved_session_expired_too" {
					kind = "server_stopped_serving_uninvolved_clients"
				}
				res.AddViolation(map[string]any{"kind": kind, "scenario": sc, "step": o.Failed}, o)
			} else {
				outcomes[sc+": ok"]++
			}
			b, _ := json.Marshal(o)
			var m map[string]any
			json.Unmarshal(b, &m)
			res.AddSample(m, 3)
		}
	}
	res.Extra["outcomes"] = outcomes
	res.Extra["trouble"] = trouble
	res.Print()
}
