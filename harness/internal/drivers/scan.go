package drivers

import (
	"encoding/json"
	"flag"
	"fmt"
	"io"
	"os"
	"path/filepath"
	"sort"
	"strings"

	"github.com/sheerbytes/sheerbytes/internal/app"
	"github.com/sheerbytes/sheerbytes/pkg/manifest"
)

// ---- Scan.tla <-> manifest.ScanPaths / app.buildPathResolver (C13) ---------------------------

type scanItem struct {
	Disp   []any    `json:"disp"`
	Rest   []string `json:"rest"`
	IsDir  bool     `json:"isDir"`
	Size   int64    `json:"size"`
	Origin []string `json:"origin"`
}

type scanRow struct {
	List   [][]string `json:"list"`
	Items  []scanItem `json:"items"`
	Unique bool       `json:"unique"`
}

func (it scanItem) relPath() string {
	name := fmt.Sprint(it.Disp[2])
	if fmt.Sprint(it.Disp[0]) == "ORD" {
		name = fmt.Sprintf("%v_%s", it.Disp[1], name)
	}
	if len(it.Rest) == 0 {
		return name
	}
	return name + "/" + strings.Join(it.Rest, "/")
}

// materialise the universe forest of Scan.tla under root
func buildUniverse(root string) {
	mk := func(rel string) { os.MkdirAll(filepath.Join(root, rel), 0755) }
	wr := func(rel string, n int) {
		os.MkdirAll(filepath.Dir(filepath.Join(root, rel)), 0755)
		os.WriteFile(filepath.Join(root, rel), []byte(strings.Repeat("x", n)), 0644)
	}
	mk("A/x/sub")
	mk("A/x/emptydir")
	wr("A/x/f1", 3)
	wr("A/x/sub/f2", 0)
	wr("A/x/sub.txt", 2)
	wr("A/x/sub-old/k", 1)
	wr("A/x/notes..txt", 4)
	wr("A/x/v1..v2/d...p", 2)
	wr("A/x/sub\\f2", 6) // one name with a backslash in it
	wr("A/y.txt", 7)
	mk("B/x")
	wr("B/x/f1", 5)
	os.Symlink("../../A/x/f1", filepath.Join(root, "B/x/ln_file"))
	os.Symlink("../../A/x/sub", filepath.Join(root, "B/x/ln_dir"))
	os.Symlink("nowhere", filepath.Join(root, "B/x/ln_broken"))
	wr("B/y.txt", 2)
	wr("C/1_x/g", 1)
	wr("D/u n/z z", 4)
	wr("E/2_x/h", 6)
}

// ScanCheck runs the real ScanPaths + resolver on every enumerated path list.
func ScanCheck(args []string) {
	fs := flag.NewFlagSet("scan-check", flag.ExitOnError)
	edges := fs.String("edges", "", "rows emitted by TLC (Scan)")
	shard := fs.Int("shard", 0, "shard")
	shards := fs.Int("shards", 1, "shards")
	fs.Parse(args)
	rows, err := loadRows[scanRow](*edges)
	if err != nil {
		panic(err)
	}
	res := &Result{Extra: map[string]any{}}
	root, _ := os.MkdirTemp("", "scanuni-")
	defer os.RemoveAll(root)
	root, _ = filepath.EvalSymlinks(root)
	buildUniverse(root)
	outcomes := map[string]int{}
	for n, r := range rows {
		if n%*shards != *shard {
			continue
		}
		var paths []string
		for i, p := range r.List {
			abs := filepath.Join(append([]string{root}, p...)...)
			// spelling variants of the same path
			switch (n + i) % 4 {
			case 1:
				abs += "/"
			case 2:
				abs = filepath.Dir(abs) + "/./" + filepath.Base(abs)
			case 3:
				abs = abs + "/../" + filepath.Base(abs)
			}
			paths = append(paths, abs)
		}
		// every 5th list: the first path is given as "." from inside it (relative spelling)
		if n%5 == 0 {
			if st, err := os.Stat(paths[0]); err == nil && st.IsDir() {
				if os.Chdir(paths[0]) == nil {
					paths[0] = "."
					defer os.Chdir("/")
				}
			}
		}
		m, serr := manifest.ScanPaths(paths)
		m2, _ := manifest.ScanPaths(paths)
		res.Behaviours++
		res.Steps++
		replay := map[string]any{"list": r.List, "paths": paths}
		if serr != nil {
			res.AddViolation(map[string]any{"kind": "scan_of_readable_paths_reports_errors"}, map[string]any{"replay": replay, "err": serr.Error()})
		}
		// ---- independent oracle on the real output ----
		seen := map[string]bool{}
		dup := ""
		for i, it := range m.Items {
			if seen[it.RelPath] {
				dup = it.RelPath
			}
			seen[it.RelPath] = true
			if i > 0 && m.Items[i-1].RelPath > it.RelPath {
				res.AddViolation(map[string]any{"kind": "manifest_not_sorted"}, replay)
			}
			// (a backslash may be part of a name on this platform: the universe has one such file)
			if strings.HasPrefix(it.RelPath, "/") {
				res.AddViolation(map[string]any{"kind": "rel_path_not_slash_separated_relative"}, replay)
			}
		}
		if dup != "" {
			cause := "other"
			for _, p := range r.List {
				b := p[len(p)-1]
				if len(b) > 2 && b[1] == '_' && b[0] >= '1' && b[0] <= '9' {
					cause = "a shared path's own name looks like an ordinal prefix"
				}
			}
			res.AddViolation(map[string]any{"kind": "duplicate_rel_path", "cause": cause}, map[string]any{"replay": replay, "dup": dup})
		}
		var files, dirs int
		var total int64
		resolver, rerr := app.VerifBuildPathResolver(paths)
		if rerr != nil {
			res.AddViolation(map[string]any{"kind": "resolver_fails_for_scannable_paths"}, map[string]any{"replay": replay, "err": rerr.Error()})
		}
		for _, it := range m.Items {
			if it.IsDir {
				dirs++
				continue
			}
			files++
			total += it.Size
			if resolver == nil || dup != "" {
				continue
			}
			src := resolver(it.RelPath)
			if src == "" {
				res.AddViolation(map[string]any{"kind": "listed_file_does_not_resolve"}, map[string]any{"replay": replay, "rel": it.RelPath})
				continue
			}
			// bytes the sender can read through the resolved path
			f, err := os.Open(src)
			if err != nil {
				res.AddViolation(map[string]any{"kind": "listed_file_cannot_be_read"}, map[string]any{"replay": replay, "rel": it.RelPath, "err": err.Error()})
				continue
			}
			nread, _ := io.Copy(io.Discard, f)
			f.Close()
			if nread != it.Size {
				res.AddViolation(map[string]any{"kind": "listed_size_differs_from_readable_bytes"}, map[string]any{"replay": replay, "rel": it.RelPath, "size": it.Size, "readable": nread})
			}
		}
		if files != m.FileCount || dirs != m.FolderCount || total != m.TotalBytes {
			res.AddViolation(map[string]any{"kind": "counts_or_totals_do_not_add_up"}, replay)
		}
		b1, _ := json.Marshal(m)
		b2, _ := json.Marshal(m2)
		if string(b1) != string(b2) {
			res.AddViolation(map[string]any{"kind": "second_scan_differs"}, replay)
		}
		// ---- conformance with the spec's expected manifest ----
		want := map[string]scanItem{}
		for _, it := range r.Items {
			want[it.relPath()] = it
		}
		got := map[string]manifest.FileItem{}
		for _, it := range m.Items {
			got[it.RelPath] = it
		}
		var drift []string
		for k, w := range want {
			g, ok := got[k]
			if !ok {
				drift = append(drift, "missing:"+k)
			} else if g.IsDir != w.IsDir || (!g.IsDir && g.Size != w.Size) {
				drift = append(drift, "differs:"+k)
			}
		}
		for k := range got {
			if _, ok := want[k]; !ok {
				drift = append(drift, "extra:"+k)
			}
		}
		// completeness in the property's own terms: every regular file / directory of the expected set is listed
		if len(drift) > 0 {
			sort.Strings(drift)
			res.AddDrift(map[string]any{"why": "real manifest differs from Scan.tla's expected manifest", "list": r.List, "diff": drift})
			for _, d := range drift {
				if strings.HasPrefix(d, "missing:") && r.Unique {
					res.AddViolation(map[string]any{"kind": "file_or_directory_beneath_a_path_not_listed"}, map[string]any{"replay": replay, "diff": drift})
					break
				}
			}
		}
		if len(r.List) > 1 {
			res.Distinct++
		}
		if dup == "" && len(drift) == 0 {
			outcomes["ok"]++
		} else {
			outcomes["flagged"]++
		}
		if n%131 == 0 {
			var rels []string
			for _, it := range m.Items {
				rels = append(rels, fmt.Sprintf("%s:%d", it.RelPath, it.Size))
			}
			res.AddSample(map[string]any{"list": r.List, "manifest": rels}, 6)
		}
	}
	res.Extra["outcomes"] = outcomes
	res.Print()
}
