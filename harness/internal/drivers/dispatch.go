package drivers

import (
	"encoding/json"
	"flag"
	"fmt"
	"math/rand"

	"github.com/sheerbytes/sheerbytes/internal/transfer"
	"github.com/sheerbytes/sheerbytes/verifharness/internal/graph"
)

// ---- Dispatch.tla <-> transfer.sendFileState (C17, binding A1) ---------------

type dispIn struct {
	N            int   `json:"n"`
	Bits         []int `json:"bits"`
	Tail         int   `json:"tail"`
	HashUnknown  bool  `json:"hashUnknown"`
	Mismatch     bool  `json:"mismatch"`
	VerifyOn     bool  `json:"verifyOn"`
	Report       bool  `json:"report"`
	V            int   `json:"v"`
	ForceFrom    int   `json:"forceFrom"`
	VerifyNeeded bool  `json:"verifyNeeded"`
}

type dispProj struct {
	Next          int  `json:"next"`
	InFlight      int  `json:"inFlight"`
	SchedDone     bool `json:"schedDone"`
	EndSent       bool `json:"endSent"`
	VerifyPending bool `json:"verifyPending"`
	ResendPending bool `json:"resendPending"`
	PlanSet       bool `json:"planSet"`
	Ends          int  `json:"ends"`
}

type dispAct struct {
	A string `json:"a"`
	W int    `json:"w"`
}

// dispRun is one execution of the real object plus the harness-side oracle.
type dispRun struct {
	in             dispIn
	st             *transfer.VerifSendState
	bits           map[int]bool
	ready          bool
	rpc            string // wait | vp | planned | none
	vpc            string // off | running | done
	wpc            []string
	wchunk         []int
	handed         map[int]int
	resends        int
	ends           int
	planned        bool
	trace          []string
	res            *Result
	verifyAfterEnd bool
}

func newDispRun(in dispIn, res *Result, verifyAfterEnd bool, workers int) *dispRun {
	r := &dispRun{in: in, res: res, bits: map[int]bool{}, handed: map[int]int{}, verifyAfterEnd: verifyAfterEnd}
	for _, b := range in.Bits {
		r.bits[b] = true
	}
	r.st = transfer.VerifNewSendState(int64(in.N)*4, 4)
	r.wpc = make([]string, workers+1)
	r.wchunk = make([]int, workers+1)
	for w := 1; w <= workers; w++ {
		r.wpc[w] = "idle"
		r.wchunk[w] = -1
	}
	r.vpc = "off"
	if in.Report {
		r.rpc = "wait"
	} else {
		r.rpc = "none"
		r.ready = true
		r.st.Ready()
	}
	return r
}

func (r *dispRun) viol(kind string, extra map[string]any) {
	sig := map[string]any{"kind": kind}
	for k, v := range extra {
		sig[k] = v
	}
	r.res.AddViolation(sig, map[string]any{"in": r.in, "steps": append([]string(nil), r.trace...)})
}

func (r *dispRun) enabled(a dispAct) bool {
	switch a.A {
	case "Ready":
		return !r.ready && r.rpc == "wait"
	case "SetVerifyPending":
		return r.rpc == "wait" && r.in.VerifyNeeded
	case "SetPlan":
		return r.rpc == "vp" || (r.rpc == "wait" && !r.in.VerifyNeeded)
	case "Verdict":
		return r.vpc == "running"
	case "Take":
		return r.ready && r.wpc[a.W] == "idle"
	case "Finish":
		return r.wpc[a.W] == "hold"
	case "TryEnd":
		return r.wpc[a.W] == "none"
	}
	return false
}

func (r *dispRun) holders() int {
	n := 0
	for w := 1; w < len(r.wpc); w++ {
		if r.wpc[w] == "hold" {
			n++
		}
	}
	return n
}

func (r *dispRun) onEnd(how string) {
	r.ends++
	if r.ends > 1 {
		r.viol("second_end", map[string]any{"via": how})
	}
	snap := r.st.Snap()
	if r.holders() > 0 {
		r.viol("end_while_chunk_in_flight", map[string]any{"via": how})
	}
	if r.vpc == "running" {
		r.viol("end_while_verification_pending", map[string]any{"via": how})
	}
	if snap.ResendPending {
		r.viol("end_before_resend", map[string]any{"via": how})
	}
	// every needed chunk handed out exactly once
	for i := 0; i < r.in.N; i++ {
		needed := !r.in.Report || !r.bits[i]
		if needed && r.handed[i] != 1 {
			r.viol("needed_chunk_not_dispatched_once_at_end", map[string]any{"count": r.handed[i]})
		}
	}
}

// step performs one action on the real object and evaluates the oracle.
func (r *dispRun) step(a dispAct) {
	r.trace = append(r.trace, fmt.Sprintf("%s(%d)", a.A, a.W))
	r.res.Steps++
	switch a.A {
	case "Ready":
		r.st.Ready()
		r.ready = true
	case "SetVerifyPending":
		r.rpc = "vp"
		if r.st.EndSent() && !r.verifyAfterEnd {
			break
		}
		r.st.SetVerifyPending()
		r.vpc = "running"
	case "SetPlan":
		r.st.SetPlan(r.in.Bits, uint32(r.in.ForceFrom))
		r.st.Ready()
		r.rpc = "planned"
		r.planned = true
		r.ready = true
	case "Verdict":
		r.st.Verdict(r.in.Mismatch, uint32(r.in.V))
		r.vpc = "done"
	case "Take":
		before := r.st.Snap()
		idx, _, ok := r.st.Take()
		if !ok {
			r.wpc[a.W] = "none"
			break
		}
		r.wpc[a.W] = "hold"
		r.wchunk[a.W] = int(idx)
		if r.ends > 0 {
			r.viol("chunk_dispatched_after_end", map[string]any{"resend": before.ResendPending})
		}
		if before.ResendPending {
			r.resends++
			if r.resends > 1 {
				r.viol("resend_more_than_once", nil)
			}
			if !(r.in.Mismatch && r.in.VerifyNeeded) || int(idx) != r.in.V {
				r.viol("unexpected_resend", map[string]any{"idx": int(idx)})
			}
		} else {
			if int(idx) >= r.in.N {
				r.viol("chunk_index_out_of_range", map[string]any{"idx": int(idx)})
			}
			r.handed[int(idx)]++
			if r.handed[int(idx)] > 1 {
				r.viol("chunk_dispatched_twice", nil)
			}
			if r.planned && r.bits[int(idx)] && int(idx) < r.in.ForceFrom {
				r.viol("skippable_chunk_sent_after_plan", nil)
			}
		}
	case "Finish":
		end := r.st.Finish()
		r.wpc[a.W] = "idle"
		r.wchunk[a.W] = -1
		if end {
			r.onEnd("Finish")
		}
	case "TryEnd":
		end := r.st.TryEnd()
		r.wpc[a.W] = "idle"
		if end {
			r.onEnd("TryEnd")
		}
	}
}

// complete drives the run to quiescence with a seeded fair schedule and
// applies the end-of-run oracle.
func (r *dispRun) complete(rng *rand.Rand) {
	workers := len(r.wpc) - 1
	for i := 0; i < 400; i++ {
		var en []dispAct
		for _, n := range []string{"Ready", "SetVerifyPending", "SetPlan", "Verdict"} {
			if r.enabled(dispAct{A: n}) {
				en = append(en, dispAct{A: n})
			}
		}
		for w := 1; w <= workers; w++ {
			for _, n := range []string{"Finish", "TryEnd"} {
				if r.enabled(dispAct{A: n, W: w}) {
					en = append(en, dispAct{A: n, W: w})
				}
			}
		}
		if len(en) == 0 {
			// only polling Takes remain: quiescent once a full polling round yields nothing
			if !r.ready {
				break
			}
			progressed := false
			for w := 1; w <= workers; w++ {
				if r.enabled(dispAct{A: "Take", W: w}) {
					r.step(dispAct{A: "Take", W: w})
					if r.wpc[w] == "hold" {
						progressed = true
						break
					}
					endsBefore := r.ends
					r.step(dispAct{A: "TryEnd", W: w})
					if r.ends != endsBefore {
						progressed = true
					}
				}
			}
			if !progressed {
				break
			}
			continue
		}
		// mix in polling takes
		for w := 1; w <= workers; w++ {
			if r.enabled(dispAct{A: "Take", W: w}) {
				en = append(en, dispAct{A: "Take", W: w})
			}
		}
		r.step(en[rng.Intn(len(en))])
	}
	if r.ends != 1 {
		r.viol("no_single_end_at_quiescence", map[string]any{"ends": r.ends})
	}
	if r.vpc == "done" && r.in.Mismatch && r.resends != 1 {
		r.viol("mismatch_without_exactly_one_resend", map[string]any{"resends": r.resends})
	}
	if r.in.Mismatch == false && r.resends != 0 {
		r.viol("resend_without_mismatch", nil)
	}
}

func projEqual(p dispProj, s transfer.VerifSendSnap) bool {
	return p.Next == int(s.Next) && p.InFlight == s.InFlight && p.SchedDone == s.SchedDone && p.EndSent == s.EndSent &&
		p.VerifyPending == s.VerifyPending && p.ResendPending == s.ResendPending && p.PlanSet == s.PlanSet
}

// Dispatch replays Dispatch.tla behaviours on the real sendFileState.
func Dispatch(args []string) {
	fs := flag.NewFlagSet("dispatch", flag.ExitOnError)
	edges := fs.String("edges", "", "ndjson transitions emitted by TLC")
	mode := fs.String("mode", "cover", "cover (one behaviour per transition) | sim (behaviours as generated)")
	workers := fs.Int("workers", 2, "W of the spec")
	seed := fs.Int64("seed", 1, "seed for the completion schedule")
	vae := fs.Bool("verify-after-end", true, "config switch VerifyAfterEnd of the spec")
	fs.Parse(args)
	g, err := graph.Load(*edges)
	if err != nil {
		fmt.Println(`{"error":"` + err.Error() + `"}`)
		return
	}
	res := &Result{Extra: map[string]any{}}
	rng := rand.New(rand.NewSource(*seed))
	var behaviours [][]*graph.Edge
	if *mode == "cover" {
		g.Index()
		res.States = g.States()
		res.Transitions = len(g.Edges)
		for i := range g.Edges {
			behaviours = append(behaviours, g.PathTo(i))
		}
	} else {
		behaviours = g.Behaviours()
		res.Transitions = len(g.Edges)
	}
	distinct := map[string]bool{}
	actsSeen := map[string]int{}
	for _, b := range behaviours {
		var in dispIn
		if err := json.Unmarshal(b[0].In, &in); err != nil {
			panic(err)
		}
		run := newDispRun(in, res, *vae, *workers)
		res.Behaviours++
		drifted := false
		for _, e := range b {
			var a dispAct
			var post dispProj
			json.Unmarshal(e.Act, &a)
			json.Unmarshal(e.Post, &post)
			if !run.enabled(a) {
				drifted = true
				res.AddDrift(map[string]any{"why": "spec action not enabled on the real object", "act": a, "in": in, "steps": run.trace})
				break
			}
			run.step(a)
			actsSeen[a.A]++
			snap := run.st.Snap()
			okW := true
			if a.A == "Take" {
				var ws []int
				json.Unmarshal(e.X, &ws)
				if len(ws) >= a.W && ws[a.W-1] != run.wchunk[a.W] && !(ws[a.W-1] == -1 && run.wpc[a.W] == "none") {
					okW = false
				}
			}
			if !projEqual(post, snap) || post.Ends != run.ends || !okW {
				drifted = true
				res.AddDrift(map[string]any{"why": "real state differs from spec state", "act": a, "in": in, "steps": run.trace, "spec": post, "real": snap, "real_ends": run.ends})
				break
			}
		}
		_ = drifted
		run.complete(rng)
		key := fmt.Sprintf("%v|%v", in, run.trace)
		if !distinct[key] {
			distinct[key] = true
			if len(run.trace) > 4 {
				res.Distinct++
			}
		}
		if res.Behaviours%997 == 1 {
			res.AddSample(map[string]any{"in": in, "steps": run.trace}, 6)
		}
	}
	res.Extra["actions_exercised"] = actsSeen
	res.Print()
}
