package drivers

import (
	"flag"
	"fmt"
	"os"
	"path/filepath"
	"strings"
	"time"

	"github.com/sheerbytes/sheerbytes/internal/app"
	"github.com/sheerbytes/sheerbytes/internal/ice"
	"github.com/sheerbytes/sheerbytes/pkg/protocol"
)

// ---- C16 with a TURN server that really answers --------------------------------------------------------
//
// config-grid compares what the client parses out of the minted URL with what the operator configured.
// Here the circle is closed: thruserv is started with each spelling of the TURN server's address, a
// real client connection receives the credentials message, and the real ice.Prober is built with it -
// it must obtain a relay allocation from the TURN server, which authenticates with the very scheme the
// credentials were minted for; the server must have seen the peer's id in the username.

func TurnAlloc(args []string) {
	fs := flag.NewFlagSet("turn-alloc", flag.ExitOnError)
	bin := fs.String("thruserv", "", "thruserv binary")
	shard := fs.Int("shard", 0, "shard")
	shards := fs.Int("shards", 1, "shards")
	fs.Parse(args)
	res := &Result{Extra: map[string]any{}}
	const secret = "static-auth-secret-for-tests"
	outcomes := map[string]int{}
	spellings := []string{"turn:%s", "turn://%s", "%s", "turn:%s?transport=udp", "turn:%s?transport=tcp", "turn://%s?transport=tcp"}
	peers := []string{"hex", "colon", "at", "space", "unicode", "percent", "slash"}
	n := 0
	for si, sp := range spellings {
		for pi, pk := range peers {
			n++
			if (n-1)%*shards != *shard {
				continue
			}
			// all peer-id classes with the first spelling, two of them with the others
			if si > 0 && pi != si%len(peers) && pi != 0 {
				continue
			}
			ts, err := startTurnServer(secret)
			if err != nil {
				res.AddDrift(map[string]any{"why": "turn server: " + err.Error()})
				continue
			}
			configured := fmt.Sprintf(sp, ts.addr)
			srv, err := startServer(*bin, nil, append([]string{"--turn-server", configured, "--turn-static-auth-secret", secret}, unlimited...)...)
			if err != nil {
				ts.stop()
				res.AddViolation(map[string]any{"kind": "server_does_not_start_with_documented_flags", "turn": sp}, map[string]any{"configured": configured})
				continue
			}
			peer := peerIDs[pk]
			replay := map[string]any{"configured": configured, "peer_id": peer}
			func() {
				defer srv.stop()
				defer ts.stop()
				codes := mustCreate(srv, 1)
				u, uerr := app.VerifBuildWebSocketURL(srv.url, codes[0], peer, "sender", 2)
				if uerr != nil {
					res.AddViolation(map[string]any{"kind": "client_cannot_build_url", "peer": pk}, replay)
					return
				}
				c, _, derr := dialWS(u)
				if derr != nil {
					res.AddViolation(map[string]any{"kind": "sender_cannot_connect", "peer": pk, "turn": sp}, replay)
					return
				}
				defer c.conn.Close()
				var creds *protocol.TurnCredentials
				c.waitFor(5*time.Second, func(e protocol.Envelope) bool {
					if e.Type != protocol.TypeTurnCredentials {
						return false
					}
					var tc protocol.TurnCredentials
					if e.DecodePayload(&tc) == nil {
						creds = &tc
					}
					return creds != nil
				})
				res.Behaviours++
				res.Steps++
				if creds == nil || len(creds.Servers) == 0 {
					outcomes["no credentials"]++
					res.AddViolation(map[string]any{"kind": "no_turn_credentials_issued", "turn": sp}, replay)
					return
				}
				replay["minted"] = creds.Servers
				p, perr := ice.NewProber(ice.ProberConfig{StunServers: []string{"127.0.0.1:9"}, TurnServers: creds.Servers}, authQuiet)
				if perr != nil {
					res.AddDrift(map[string]any{"why": "prober: " + perr.Error()})
					return
				}
				defer p.Close()
				relay := ""
				for _, cand := range p.GetProbingAddresses() {
					if ice.IsTurnCandidate(cand) {
						relay = cand
					}
				}
				switch {
				case p.TurnTransport() == nil || relay == "":
					outcomes["no allocation"]++
					ts.mu.Lock()
					replay["refused_usernames"] = append([]string(nil), ts.bad...)
					ts.mu.Unlock()
					res.AddViolation(map[string]any{"kind": "minted_turn_credentials_do_not_yield_an_allocation", "turn": sp, "peer": pk}, replay)
				case !ts.sawUser(peer):
					outcomes["allocation under another user"]++
					res.AddViolation(map[string]any{"kind": "turn_user_differs", "turn": sp, "peer": pk}, replay)
				default:
					outcomes["allocated"]++
				}
			}()
		}
	}
	res.Distinct = res.Behaviours
	res.Extra["outcomes"] = outcomes
	res.Print()
}

// ---- whole sessions with a relay that really relays (C09 / C03 / C08 over TURN) ------------------------

// E2ETurn: real thruserv (minting credentials for the in-sandbox TURN server), real `thru host` and
// `thru join`. Mode "available": the relay candidate is announced next to the direct ones; mode "only":
// both sides run with --test-turn (relay candidates only, the receiver listens on its allocation).
// Both processes must succeed with the identical tree, in bounded time, and without a stall.
func E2ETurn(args []string) {
	fs := flag.NewFlagSet("e2e-turn", flag.ExitOnError)
	n := fs.Int("n", 4, "sessions (over all shards)")
	shard := fs.Int("shard", 0, "shard")
	shards := fs.Int("shards", 1, "shards")
	thruserv := fs.String("thruserv", "", "thruserv binary")
	thru := fs.String("thru", "", "thru binary")
	seed := fs.Int64("seed", 1, "seed")
	fs.Parse(args)
	const secret = "static-auth-secret-for-tests"
	res := &Result{Extra: map[string]any{}}
	outcomes := map[string]int{}
	trouble := 0
	for i := 0; i < *n; i++ {
		if i%*shards != *shard {
			continue
		}
		mode := []string{"only", "available"}[i%2]
		conns := []string{"1", "3"}[(i/2)%2]
		ts, err := startTurnServer(secret)
		if err != nil {
			trouble++
			continue
		}
		srv, err := startServer(*thruserv, nil, append([]string{"--turn-server", "turn:" + ts.addr, "--turn-static-auth-secret", secret}, unlimited...)...)
		if err != nil {
			ts.stop()
			trouble++
			continue
		}
		work, _ := os.MkdirTemp("", "vh-e2eturn-")
		func() {
			defer os.RemoveAll(work)
			defer srv.stop()
			defer ts.stop()
			src := filepath.Join(work, "src", "share")
			if err := makeLiteTree(src, []fileSpecLite{{"a.bin", 900000}, {"d/b.bin", 70000}, {"e.txt", 9}, {"d/empty", 0}}, *seed+int64(i)); err != nil {
				trouble++
				return
			}
			extra := []string{}
			if mode == "only" {
				extra = append(extra, "--test-turn")
			}
			host, err := startChild(*thru, append([]string{"host", src, "--server-url", srv.url, "--stun-server", "stun:127.0.0.1:9", "--total-connections", conns}, extra...),
				filepath.Join(work, "host.trace"), nil, "")
			if err != nil {
				trouble++
				return
			}
			defer host.kill()
			code := ""
			for k := 0; k < 400 && code == ""; k++ {
				txt := host.out.String()
				if j := strings.Index(txt, "Join Code: "); j >= 0 {
					rest := txt[j+len("Join Code: "):]
					if e := strings.IndexAny(rest, " \n"); e > 0 {
						code = rest[:e]
					}
				}
				if code == "" {
					time.Sleep(20 * time.Millisecond)
				}
			}
			if code == "" {
				trouble++
				return
			}
			out := filepath.Join(work, "out")
			os.MkdirAll(out, 0o755)
			t0 := time.Now()
			join, err := startChild(*thru, append([]string{"join", code, "--out", out, "--server-url", srv.url, "--stun-server", "stun:127.0.0.1:9"}, extra...),
				filepath.Join(work, "join.trace"), nil, "y\n")
			if err != nil {
				trouble++
				return
			}
			defer join.kill()
			rc, done := join.wait(45 * time.Second)
			dur := time.Since(t0)
			res.Behaviours++
			res.Steps++
			want, _ := treeDigest(filepath.Join(work, "src"))
			got, _ := treeDigest(out)
			equal := len(want) == len(got)
			for k, v := range want {
				if got[k] != v {
					equal = false
				}
			}
			ts.mu.Lock()
			allocs := len(ts.users)
			ts.mu.Unlock()
			// how many connections the host's transfer ran on (hook xfer.begin)
			hostConns := 0
			for _, e := range host.events() {
				if e.Pt == "xfer.begin" {
					hostConns = int(e.A)
				}
			}
			requested := 1
			fmt.Sscanf(conns, "%d", &requested)
			replay := map[string]any{"session": i, "mode": mode, "connections": conns, "join_exit": rc, "join_returned": done, "seconds": dur.Seconds(), "tree_equal": equal,
				"turn_users_authenticated": allocs, "host_connections": hostConns, "join_tail": tailText(join.out.String(), 400), "host_tail": tailText(host.out.String(), 400)}
			label := "turn " + mode + " conns=" + conns
			switch {
			case !done:
				outcomes[label+": join never finished"]++
				res.AddViolation(map[string]any{"prop": "C03", "kind": "session_over_relay_hangs", "mode": mode}, replay)
			case rc != 0:
				outcomes[label+": failed"]++
				res.AddViolation(map[string]any{"prop": "C03", "kind": "session_over_relay_fails", "mode": mode}, replay)
			case !equal:
				outcomes[label+": tree differs"]++
				res.AddViolation(map[string]any{"prop": "C01", "kind": "both_succeed_tree_differs", "tree": "session-over-relay"}, replay)
			case dur > 9*time.Second && hostConns < requested:
				// (both together: the session waited out a 10 s timeout AND ended up with fewer connections than asked for;
				// a slow machine alone does not lose connections)
				outcomes[label+": stall"]++
				res.AddViolation(map[string]any{"prop": "C09", "kind": "session_stalls_on_connections_the_peer_never_gets", "mode": mode, "connections": conns}, replay)
			case allocs < 2:
				outcomes[label+": ok without relay allocations"]++
				res.AddViolation(map[string]any{"prop": "C16", "kind": "minted_turn_credentials_do_not_yield_an_allocation"}, replay)
			default:
				outcomes[label+": ok"]++
			}
		}()
	}
	res.Distinct = res.Behaviours
	res.Extra["outcomes"] = outcomes
	res.Extra["trouble"] = trouble
	res.Print()
	if trouble > res.Behaviours/3+1 {
		os.Exit(3)
	}
}
