package drivers

import (
	"bytes"
	"context"
	"encoding/json"
	"flag"
	"fmt"
	"io"
	"log/slog"
	"math/rand"
	"net"
	"os"
	"os/exec"
	"os/signal"
	"path/filepath"
	"sort"
	"strings"
	"sync"
	"syscall"
	"time"

	"github.com/sheerbytes/sheerbytes/internal/quictransport"
	"github.com/sheerbytes/sheerbytes/internal/transfer"
	"github.com/sheerbytes/sheerbytes/internal/transferquic"
	"github.com/sheerbytes/sheerbytes/internal/verifhook"
	"github.com/sheerbytes/sheerbytes/pkg/manifest"
	"github.com/sheerbytes/sheerbytes/verifharness/internal/vnet"
	"github.com/sheerbytes/sheerbytes/verifharness/internal/xfer"
)

type vnetFault = vnet.FaultSpec

// ---- Resume.tla <-> a real receiver process killed at hook points (C04, C05, C06) ----

var quiet = slog.New(slog.NewTextHandler(io.Discard, nil))

// RecvChild is the receiver process: it dials the parent and runs the real
// RecvManifestMultiStream with resume on.  VERIF_HOOK_KILL / VERIF_HOOK_FLUSH
// (read by the verifhook package) make it flush / SIGKILL itself at a hook point.
func RecvChild(args []string) {
	fs := flag.NewFlagSet("recv-child", flag.ExitOnError)
	addr := fs.String("addr", "", "parent address")
	out := fs.String("out", "", "output directory")
	streams := fs.Int("streams", 2, "parallel streams")
	fs.Parse(args)
	verifhook.OnFlushTrigger = func() { go transfer.FlushAllFlushers() }
	if os.Getenv("VERIF_CHILD_SYNCFLUSH") != "" {
		verifhook.OnFlushTrigger = func() { transfer.FlushAllFlushers() }
	}
	if v := os.Getenv("VERIF_CHILD_FSIZE"); v != "" {
		// output-path fault: after the k-th FileBegin writes at offsets >= limit fail with EFBIG
		var limit, k int
		fmt.Sscanf(v, "%d@%d", &limit, &k)
		signal.Ignore(syscall.SIGXFSZ)
		hits := 0
		verifhook.Set(func(name string, a, b uint64, s string) {
			if name == "recv.filebegin" {
				hits++
				if hits == k {
					syscall.Setrlimit(syscall.RLIMIT_FSIZE, &syscall.Rlimit{Cur: uint64(limit), Max: uint64(limit)})
				}
			}
		})
	}
	udp, err := net.ListenUDP("udp", &net.UDPAddr{IP: net.IPv4(127, 0, 0, 1)})
	if err != nil {
		fmt.Println("child: listen:", err)
		os.Exit(3)
	}
	raddr, _ := net.ResolveUDPAddr("udp", *addr)
	ctx := context.Background()
	qc, err := quictransport.DialWithConfig(ctx, udp, raddr, quiet, quictransport.DefaultClientQUICConfig())
	if err != nil {
		fmt.Println("child: dial:", err)
		os.Exit(3)
	}
	conn, err := transferquic.NewDialer(qc, quiet).Dial(ctx, "parent")
	if err != nil {
		fmt.Println("child: conn:", err)
		os.Exit(3)
	}
	_, err = transfer.RecvManifestMultiStream(ctx, conn, *out, transfer.Options{
		Resume: true, NoRootDir: true, HashAlg: "crc32c", ParallelFiles: *streams,
	})
	if err != nil {
		fmt.Println("child: recv error:", err)
		conn.Close()
		os.Exit(1)
	}
	conn.Close()
	fmt.Println("child: ok")
}

type killPlan struct {
	Point   string `json:"point"`   // hook point at which the child kills itself ("" = no kill)
	K       int    `json:"k"`       // at its k-th hit
	FlushPt string `json:"flushPt"` // optional: trigger FlushAllFlushers (concurrently) at this point ...
	FlushK  int    `json:"flushK"`  // ... at its k-th hit
	Sync    bool   `json:"sync"`    // run the triggered flush synchronously
	FSize   int    `json:"fsize"`   // output-path fault: writes at offsets >= FSize fail (EFBIG) after the FSizeK-th FileBegin
	FSizeK  int    `json:"fsizeK"`
}

type tapStream struct {
	transfer.Stream
	mu  *sync.Mutex
	buf *bytes.Buffer
}

func (t *tapStream) Read(p []byte) (int, error) {
	n, err := t.Stream.Read(p)
	if n > 0 {
		t.mu.Lock()
		t.buf.Write(p[:n])
		t.mu.Unlock()
	}
	return n, err
}
func (t *tapStream) StreamID() uint64 {
	if s, ok := t.Stream.(transfer.StreamIDer); ok {
		return s.StreamID()
	}
	return 0
}
func (t *tapStream) SetReadDeadline(d time.Time) error {
	if s, ok := t.Stream.(interface{ SetReadDeadline(time.Time) error }); ok {
		return s.SetReadDeadline(d)
	}
	return nil
}
func (t *tapStream) SetWriteDeadline(d time.Time) error {
	if s, ok := t.Stream.(interface{ SetWriteDeadline(time.Time) error }); ok {
		return s.SetWriteDeadline(d)
	}
	return nil
}
func (t *tapStream) SetDeadline(d time.Time) error {
	t.SetReadDeadline(d)
	return t.SetWriteDeadline(d)
}

// tapConn records what the sender reads on its control stream (the first stream it opens).
type tapConn struct {
	transfer.Conn
	mu    sync.Mutex
	buf   bytes.Buffer
	first bool
}

func (c *tapConn) OpenStream(ctx context.Context) (transfer.Stream, error) {
	s, err := c.Conn.OpenStream(ctx)
	if err != nil {
		return nil, err
	}
	if !c.first {
		c.first = true
		return &tapStream{Stream: s, mu: &c.mu, buf: &c.buf}, nil
	}
	return s, nil
}

// resumeInfos parses the FileResumeInfo records the receiver sent.
func (c *tapConn) resumeInfos() map[uint64]transfer.FileResumeInfo {
	c.mu.Lock()
	data := append([]byte(nil), c.buf.Bytes()...)
	c.mu.Unlock()
	out := map[uint64]transfer.FileResumeInfo{}
	r := bytes.NewReader(data)
	for r.Len() > 0 {
		typ, msg, err := transfer.VerifReadControlMessage(r)
		if err != nil {
			break
		}
		if typ == transfer.VerifTypeFileResumeInfo {
			info := msg.(transfer.FileResumeInfo)
			out[info.StreamID] = info
		}
	}
	return out
}

type runResult struct {
	SendErr  string                             `json:"sendErr"`
	ChildOut string                             `json:"childOut"`
	ChildRC  int                                `json:"childRC"`
	Killed   bool                               `json:"killed"`
	Infos    map[uint64]transfer.FileResumeInfo `json:"-"`
	Framed   map[uint64][]int                   `json:"-"` // file key -> chunk indices framed by the sender (in order)
	Hung     bool                               `json:"hung"`
}

// childTraceSink, when set, collects the hook traces of the receiver child processes.
var (
	childTraceSink io.Writer
	childTraceN    int
)

// oneRun: parent = real sender on a loopback QUIC listener, child = real receiver process.
func oneRun(self string, src, outDir string, m manifest.Manifest, sendRoot string, streams int, chunk uint32, tail uint32, plan killPlan, timeout time.Duration) runResult {
	var rr runResult
	udp, err := net.ListenUDP("udp", &net.UDPAddr{IP: net.IPv4(127, 0, 0, 1)})
	if err != nil {
		rr.SendErr = "listen: " + err.Error()
		return rr
	}
	defer udp.Close()
	ctx, cancel := context.WithTimeout(context.Background(), timeout)
	defer cancel()
	ln, err := quictransport.ListenWithConfig(ctx, udp, quiet, quictransport.DefaultServerQUICConfig())
	if err != nil {
		rr.SendErr = "quic listen: " + err.Error()
		return rr
	}
	lt := transferquic.NewListener(ln, quiet)
	defer lt.Close()
	cmd := exec.Command(self, "recv-child", "-addr", udp.LocalAddr().String(), "-out", outDir, "-streams", fmt.Sprint(streams))
	cmd.Env = append(os.Environ(), "VERIF_HOOK_TRACE=", "VERIF_HOOK_KILL=", "VERIF_HOOK_FLUSH=")
	childTracePath := ""
	if childTraceSink != nil {
		childTraceN++
		childTracePath = filepath.Join(os.TempDir(), fmt.Sprintf("vh-child-%d-%d.trace", os.Getpid(), childTraceN))
		cmd.Env = append(cmd.Env, "VERIF_HOOK_TRACE="+childTracePath)
		defer func() {
			// the receiver process's own hook trace (possibly cut short by its kill), for SessionTrace.tla
			writeNormalisedTrace(childTraceSink, "child", childTraceN, readHookTrace(childTracePath), false)
			os.Remove(childTracePath)
		}()
	}
	if plan.Point != "" {
		cmd.Env = append(cmd.Env, fmt.Sprintf("VERIF_HOOK_KILL=%s@%d", plan.Point, plan.K))
	}
	if plan.FSize > 0 {
		cmd.Env = append(cmd.Env, fmt.Sprintf("VERIF_CHILD_FSIZE=%d@%d", plan.FSize, plan.FSizeK))
	}
	if plan.FlushPt != "" {
		cmd.Env = append(cmd.Env, fmt.Sprintf("VERIF_HOOK_FLUSH=%s@%d", plan.FlushPt, plan.FlushK))
		if plan.Sync {
			cmd.Env = append(cmd.Env, "VERIF_CHILD_SYNCFLUSH=1")
		}
	}
	var cout bytes.Buffer
	cmd.Stdout = &cout
	cmd.Stderr = &cout
	if err := cmd.Start(); err != nil {
		rr.SendErr = "start child: " + err.Error()
		return rr
	}
	childDone := make(chan error, 1)
	go func() { childDone <- cmd.Wait() }()
	conn, err := lt.Accept(ctx)
	if err != nil {
		rr.SendErr = "accept: " + err.Error()
		cmd.Process.Kill()
		<-childDone
		return rr
	}
	tc := &tapConn{Conn: conn}
	framed := map[uint64][]int{}
	var fmu sync.Mutex
	extraHook = func(name string, a, b uint64, s string) {
		if name == "send.chunk.framed" {
			fmu.Lock()
			framed[a] = append(framed[a], int(b))
			fmu.Unlock()
		}
	}
	sctx, scancel := context.WithCancel(ctx)
	sendDone := make(chan error, 1)
	go func() {
		sendDone <- transfer.SendManifestMultiStream(sctx, tc, sendRoot, m, transfer.Options{
			ChunkSize: chunk, ParallelFiles: streams, Resume: true, ResumeVerify: "last", HashAlg: "crc32c",
			ResumeVerifyTail: tail, ResumeTimeout: 10 * time.Second,
		})
	}()
	var cerr error
	select {
	case cerr = <-childDone:
		// child exited (finished, failed or killed itself): a dead peer sends nothing, tear the sender down
		select {
		case e := <-sendDone:
			if e != nil {
				rr.SendErr = e.Error()
			}
		case <-time.After(1500 * time.Millisecond):
			scancel()
			conn.Close()
			select {
			case e := <-sendDone:
				if e != nil {
					rr.SendErr = e.Error()
				}
			case <-time.After(5 * time.Second):
				rr.SendErr = "sender did not return after the peer died"
				rr.Hung = true
			}
		}
	case <-ctx.Done():
		rr.Hung = true
		cmd.Process.Kill()
		cerr = <-childDone
		scancel()
		conn.Close()
		select {
		case <-sendDone:
		case <-time.After(3 * time.Second):
		}
	}
	extraHook = nil
	conn.Close()
	rr.ChildOut = strings.TrimSpace(cout.String())
	if cerr != nil {
		if ee, ok := cerr.(*exec.ExitError); ok {
			rr.ChildRC = ee.ExitCode()
			if ee.ExitCode() == -1 {
				rr.Killed = true
			}
		} else {
			rr.ChildRC = -2
		}
	}
	rr.Infos = tc.resumeInfos()
	fmu.Lock()
	rr.Framed = framed
	fmu.Unlock()
	return rr
}

type sidecarObs struct {
	Rel    string `json:"rel"`
	Bits   []int  `json:"bits"`
	Total  uint32 `json:"total"`
	Loaded bool   `json:"loaded"`
}

// inspectDisk: C05's oracle. Every sidecar LoadSidecar accepts may only mark
// chunks whose bytes in the output file equal the source.
func inspectDisk(res *Result, src, outDir string, m manifest.Manifest, chunk uint32, replay any) map[uint64]sidecarObs {
	obs := map[uint64]sidecarObs{}
	for _, item := range m.Items {
		if item.IsDir {
			continue
		}
		key := transfer.VerifFileKey(item)
		scPath := transfer.SidecarPath(outDir, "", transfer.VerifSidecarID(item))
		o := sidecarObs{Rel: item.RelPath}
		sc, err := transfer.LoadSidecar(scPath)
		if err == nil {
			o.Loaded = true
			o.Total = sc.TotalChunks
			o.Bits = transfer.VerifSidecarBits(sc)
			if sc.FileID == item.ID && sc.FileSize == item.Size && sc.ChunkSize == chunk {
				srcBytes, _ := os.ReadFile(filepath.Join(src, filepath.FromSlash(item.RelPath)))
				outBytes, _ := os.ReadFile(filepath.Join(outDir, filepath.FromSlash(item.RelPath)))
				for _, c := range o.Bits {
					lo := int64(c) * int64(chunk)
					hi := lo + int64(chunk)
					if hi > item.Size {
						hi = item.Size
					}
					if int64(len(outBytes)) < hi || !bytes.Equal(outBytes[lo:hi], srcBytes[lo:hi]) {
						res.AddViolation(map[string]any{"kind": "metadata_marks_chunk_not_in_file", "property": "C05"},
							map[string]any{"plan": replay, "file": item.RelPath, "chunk": c, "bits": o.Bits})
					}
				}
			}
		}
		// a leftover temp file must never be taken for the sidecar: the final name is either absent or complete
		if fi, err := os.Stat(scPath); err == nil && fi.Size() > 0 && !o.Loaded {
			res.AddViolation(map[string]any{"kind": "unreadable_sidecar_under_final_name", "property": "C05"},
				map[string]any{"plan": replay, "file": item.RelPath, "size": fi.Size()})
		}
		obs[key] = o
	}
	return obs
}

func bitsFromBitmap(bm []byte, total uint32) []int {
	var out []int
	for i := 0; i < int(total); i++ {
		if i/8 < len(bm) && bm[i/8]&(1<<uint(i%8)) != 0 {
			out = append(out, i)
		}
	}
	return out
}

func sameInts(a, b []int) bool {
	if len(a) != len(b) {
		return false
	}
	for i := range a {
		if a[i] != b[i] {
			return false
		}
	}
	return true
}

var resumeTrees = map[string][]xfer.FileSpec{
	"one4":  {{Rel: "big.bin", Size: 4*64 - 5}},
	"two":   {{Rel: "a.bin", Size: 3 * 64}, {Rel: "d/b.bin", Size: 2*64 + 1}, {Rel: "d/zero", Size: 0}},
	"eight": {{Rel: "e.bin", Size: 8 * 64}},
	// files that fit into one chunk (most files of a source tree) next to one that does not
	"smalls": {{Rel: "s0.bin", Size: 40}, {Rel: "s1.bin", Size: 64}, {Rel: "t/s2.bin", Size: 50}, {Rel: "t/big.bin", Size: 3*64 + 1}},
}

// ResumeKill enumerates kill points of the receiver process, checks the disk
// after each kill (C05) and the resumed run(s) (C04).
func ResumeKill(args []string) {
	fs := flag.NewFlagSet("resume-kill", flag.ExitOnError)
	seed := fs.Int64("seed", 1, "seed")
	shard := fs.Int("shard", 0, "shard")
	shards := fs.Int("shards", 1, "shards")
	sample := fs.Int("sample", 0, "seeded sample of plans per shard (0 = all)")
	chains := fs.Bool("chains", false, "add a second kill before the final resumed run for a third of the plans")
	budget := fs.Duration("budget", 10*time.Minute, "budget")
	plansOnly := fs.Bool("plans-only", false, "print the plan space and exit")
	traceOut := fs.String("trace-out", "", "prefix of the file collecting the children's hook traces (shard number appended)")
	fs.Parse(args)
	installHooks()
	if *traceOut != "" && !*plansOnly {
		if f, err := os.Create(fmt.Sprintf("%s.%d", *traceOut, *shard)); err == nil {
			defer f.Close()
			childTraceSink = f
		}
	}
	self, _ := os.Executable()
	res := &Result{Extra: map[string]any{}}
	const chunk = 64
	type job struct {
		Tree    string   `json:"tree"`
		Streams int      `json:"streams"`
		Tail    uint32   `json:"tail"`
		Plan    killPlan `json:"plan"`
	}
	var jobs []job
	points := []string{"recv.filebegin", "recv.chunk.header", "recv.chunk.written", "recv.chunk.marked", "recv.finalize",
		"sidecar.flush.begin", "sidecar.flush.tmp", "sidecar.flush.renamed"}
	for _, tree := range []string{"one4", "two", "eight", "smalls"} {
		nchunks := 0
		for _, f := range resumeTrees[tree] {
			nchunks += int((f.Size + chunk - 1) / chunk)
		}
		for _, streams := range []int{1, 2} {
			for _, pt := range points {
				maxK := nchunks
				if strings.HasPrefix(pt, "sidecar.") || pt == "recv.filebegin" || pt == "recv.finalize" {
					maxK = 2*len(resumeTrees[tree]) + 1
				}
				for k := 1; k <= maxK; k++ {
					jobs = append(jobs, job{tree, streams, uint32(k % 2), killPlan{Point: pt, K: k}})
					// the same kill with a concurrent flush (the SIGINT / ticker path) triggered just before
					if strings.HasPrefix(pt, "recv.chunk") && k > 1 {
						jobs = append(jobs, job{tree, streams, 1, killPlan{Point: pt, K: k, FlushPt: "recv.chunk.marked", FlushK: k - 1}})
						jobs = append(jobs, job{tree, streams, 0, killPlan{Point: "sidecar.flush.tmp", K: 2 + k%3, FlushPt: "recv.chunk.written", FlushK: k}})
					}
				}
			}
		}
	}
	// output-path faults: the write of some chunk fails (EFBIG), the receiver finalises the file as failed and flushes
	for _, tree := range []string{"one4", "eight", "two"} {
		for _, streams := range []int{1, 2} {
			for lim := 1; lim < 8*chunk; lim += chunk/2 + 7 {
				jobs = append(jobs, job{tree, streams, 1, killPlan{FSize: lim, FSizeK: 1}})
			}
		}
	}
	if *plansOnly {
		res.Extra["plans"] = len(jobs)
		res.Print()
		return
	}
	var mine []job
	for i, j := range jobs {
		if i%*shards == *shard {
			mine = append(mine, j)
		}
	}
	rng := rand.New(rand.NewSource(*seed*31 + int64(*shard)))
	if *sample > 0 && *sample < len(mine) {
		rng.Shuffle(len(mine), func(i, j int) { mine[i], mine[j] = mine[j], mine[i] })
		mine = mine[:*sample]
	}
	base, _ := os.MkdirTemp("", "kill-")
	defer os.RemoveAll(base)
	t0 := time.Now()
	outcomes := map[string]int{}
	skipped := 0
	for n, j := range mine {
		if time.Since(t0) > *budget {
			skipped++
			continue
		}
		dir := filepath.Join(base, fmt.Sprintf("j%d", n))
		src := filepath.Join(dir, "src", "payload")
		outDir := filepath.Join(dir, "out")
		if err := xfer.MakeTree(src, resumeTrees[j.Tree], *seed+int64(n)); err != nil {
			panic(err)
		}
		os.MkdirAll(outDir, 0755)
		m, sendRoot, err := xfer.Scan(src, false)
		if err != nil {
			panic(err)
		}
		res.Behaviours++
		r1 := oneRun(self, src, outDir, m, sendRoot, j.Streams, chunk, j.Tail, j.Plan, 20*time.Second)
		res.Steps++
		replay := map[string]any{"job": j, "seed": *seed + int64(n), "run1": r1}
		if r1.Killed {
			outcomes["killed"]++
			res.Distinct++
		} else if j.Plan.FSize > 0 && r1.ChildRC != 0 {
			outcomes["write_fault_struck"]++
			res.Distinct++
		} else {
			outcomes["kill_point_not_reached"]++
		}
		if r1.Hung {
			res.AddViolation(map[string]any{"kind": "interrupted_run_hung", "property": "C04"}, replay)
		}
		disk := inspectDisk(res, src, outDir, m, chunk, replay)
		// optional second interruption
		if *chains && n%3 == 0 {
			p2 := killPlan{Point: "recv.chunk.marked", K: 1 + n%2}
			r2 := oneRun(self, src, outDir, m, sendRoot, j.Streams, chunk, j.Tail, p2, 20*time.Second)
			res.Steps++
			replay["run2"] = r2
			if r2.Killed {
				outcomes["killed_twice"]++
			}
			disk = inspectDisk(res, src, outDir, m, chunk, replay)
		}
		// resumed run: must succeed on the healthy connection and end in the identical tree
		rf := oneRun(self, src, outDir, m, sendRoot, j.Streams, chunk, j.Tail, killPlan{}, 25*time.Second)
		res.Steps++
		replay["resumed"] = rf
		want, _ := xfer.Digest(src)
		got, _ := xfer.Digest(outDir)
		diffs := xfer.DiffDigests(want, got)
		ok := rf.SendErr == "" && rf.ChildRC == 0 && !rf.Hung
		switch {
		case rf.Hung:
			outcomes["resume_hung"]++
			res.AddViolation(map[string]any{"kind": "resumed_run_hung", "property": "C04"}, replay)
		case !ok:
			outcomes["resume_failed"]++
			res.AddViolation(map[string]any{"kind": "resumed_run_failed", "property": "C04", "sendErr": trunc(rf.SendErr), "child": trunc(rf.ChildOut)}, replay)
		case len(diffs) > 0:
			outcomes["resume_wrong_tree"]++
			res.AddViolation(map[string]any{"kind": "resumed_run_succeeded_with_wrong_tree", "property": "C04", "diffs": diffs}, replay)
		default:
			outcomes["resume_ok"]++
		}
		// (ii) what the receiver advertised == what its metadata marked after the kill
		// (iii) chunks advertised below the verification point are not sent again
		for key, o := range disk {
			info, has := rf.Infos[key]
			if !o.Loaded || o.Total == 0 {
				continue
			}
			if !has {
				// the sender never asked about this file (the run went through to the end, so every question it asked was
				// answered): whatever the metadata marks as complete and the sender framed all the same was finished work
				// sent again
				again := 0
				for _, c := range rf.Framed[key] {
					for _, b := range o.Bits {
						if c == b {
							again++
						}
					}
				}
				if again > 0 && ok {
					res.AddViolation(map[string]any{"kind": "finished_chunks_sent_again_without_asking_the_receiver", "property": "C04"},
						map[string]any{"replay": replay, "file": o.Rel, "chunks_of_the_file": o.Total, "framed": rf.Framed[key], "on_disk": o.Bits})
				}
				continue
			}
			adv := bitsFromBitmap(info.Bitmap, info.TotalChunks)
			if !sameInts(adv, o.Bits) {
				res.AddViolation(map[string]any{"kind": "advertised_bitmap_differs_from_metadata", "property": "C04"},
					map[string]any{"replay": replay, "file": o.Rel, "advertised": adv, "on_disk": o.Bits})
			}
			if len(o.Bits) > 0 {
				force := o.Bits[len(o.Bits)-1] + 1 - int(j.Tail)
				if len(o.Bits) >= int(o.Total) {
					force = o.Bits[len(o.Bits)-1] + 1
				}
				resent := 0
				for _, c := range rf.Framed[key] {
					for _, b := range o.Bits {
						if c == b && c < force-0 && c != o.Bits[len(o.Bits)-1] {
							resent++
						}
					}
				}
				// the plan is only known once the report arrived; chunks framed before that are allowed.
				// With an immediate report (loopback) at most the grace window matters, so require a majority saved.
				if resent > 0 && resent >= len(o.Bits)-1 && len(o.Bits) > 2 {
					res.AddViolation(map[string]any{"kind": "finished_chunks_requested_again", "property": "C04"},
						map[string]any{"replay": replay, "file": o.Rel, "framed": rf.Framed[key], "on_disk": o.Bits})
				}
			}
		}
		if n%29 == 0 {
			var ds []sidecarObs
			for _, o := range disk {
				ds = append(ds, o)
			}
			sort.Slice(ds, func(a, b int) bool { return ds[a].Rel < ds[b].Rel })
			res.AddSample(map[string]any{"job": j, "killed": r1.Killed, "disk_after_kill": ds, "resumed_ok": ok && len(diffs) == 0}, 6)
		}
		os.RemoveAll(dir)
	}
	res.Extra["plans_total"] = len(jobs)
	res.Extra["outcomes"] = outcomes
	res.Extra["skipped_over_budget"] = skipped
	b, _ := json.Marshal(outcomes)
	_ = b
	res.Print()
}

// ---- C06: tampered resume state -------------------------------------------------------

type tamperCase struct {
	Kind   string `json:"kind"`
	Arg    int    `json:"arg"`
	Arg2   int    `json:"arg2"`
	Stream int    `json:"streams"`
	Tail   uint32 `json:"tail"`
	Lag    bool   `json:"data_streams_lag,omitempty"`
	SlowHash bool `json:"receiver_hash_takes_longer_than_its_timeout,omitempty"` // the receiver's hash of the highest recorded chunk takes longer than the 2 s it allows itself (a slow disk): the report says "hash unknown"
}

func copyDir(src, dst string) error {
	return filepath.Walk(src, func(p string, info os.FileInfo, err error) error {
		if err != nil {
			return err
		}
		rel, _ := filepath.Rel(src, p)
		t := filepath.Join(dst, rel)
		if info.IsDir() {
			return os.MkdirAll(t, 0755)
		}
		b, err := os.ReadFile(p)
		if err != nil {
			return err
		}
		return os.WriteFile(t, b, 0644)
	})
}

// makePartial produces a real interrupted output directory: the transfer is cut
// (abrupt loss) after the receiver flushed its metadata with `flushAfter` chunks marked.
func makePartial(src, outDir string, flushAfter int, cutAt int, streams int) error {
	marked := 0
	var mu sync.Mutex
	extraHook = func(name string, a, b uint64, s string) {
		if name == "recv.chunk.marked" {
			mu.Lock()
			marked++
			n := marked
			mu.Unlock()
			if n == flushAfter {
				transfer.FlushAllFlushers()
			}
		}
	}
	defer func() { extraHook = nil }()
	cfg := xfer.Config{Transport: "mock", Conns: 1, Streams: streams, ChunkSize: 64, Resume: true, NoRootDir: true, Seed: 1, Watchdog: 8 * time.Second,
		Fault: &vnetFault{Stream: 1, Dir: 0, Offset: cutAt, Kind: "abrupt"}}
	_, err := xfer.Run(cfg, src, outDir)
	return err
}

// ResumeTamper enumerates damaged / foreign / stale resume states (C06).
func ResumeTamper(args []string) {
	fs := flag.NewFlagSet("resume-tamper", flag.ExitOnError)
	seed := fs.Int64("seed", 1, "seed")
	shard := fs.Int("shard", 0, "shard")
	shards := fs.Int("shards", 1, "shards")
	stride := fs.Int("stride", 1, "take every n-th bit flip")
	budget := fs.Duration("budget", 10*time.Minute, "budget")
	only := fs.String("only", "", "run only the cases whose kind starts with one of these comma separated prefixes")
	unreadableIgnored := fs.Bool("unreadable-ignored", false, "C05: metadata that does not load (damaged, cut short, garbage) is ignored - the transfer must still succeed")
	requireComplete := fs.Bool("require-complete", false, "C03: prior histories an interrupted transfer can leave behind (untouched, torn highest chunk) must end in success on both sides")
	fs.Parse(args)
	installHooks()
	res := &Result{Extra: map[string]any{}}
	base, _ := os.MkdirTemp("", "tamper-")
	defer os.RemoveAll(base)
	const chunk = 64
	tree := []xfer.FileSpec{{Rel: "e.bin", Size: 8*chunk - 7}, {Rel: "small.bin", Size: chunk + 1}}
	src := filepath.Join(base, "src", "payload")
	if err := xfer.MakeTree(src, tree, *seed); err != nil {
		panic(err)
	}
	m, _, _ := xfer.Scan(src, false)
	var big manifest.FileItem
	for _, it := range m.Items {
		if it.RelPath == "e.bin" {
			big = it
		}
	}
	// template: 5 chunks of e.bin marked and flushed, transfer cut afterwards
	tmpl := filepath.Join(base, "tmpl")
	os.MkdirAll(tmpl, 0755)
	// frames: 20-byte header + 64 payload = 84 bytes each; cut in the 7th frame of stream 1
	if err := makePartial(src, tmpl, 5, 84*6+30, 1); err != nil {
		res.AddDrift(map[string]any{"why": "cannot build the interrupted template: " + err.Error()})
	}
	scPath := transfer.SidecarPath(tmpl, "", transfer.VerifSidecarID(big))
	scBytes, err := os.ReadFile(scPath)
	if err != nil {
		res.AddDrift(map[string]any{"why": "template has no sidecar: " + err.Error()})
		res.Print()
		return
	}
	tsc, err := transfer.LoadSidecar(scPath)
	if err != nil {
		res.AddDrift(map[string]any{"why": "template sidecar unreadable: " + err.Error()})
		res.Print()
		return
	}
	tbits := transfer.VerifSidecarBits(tsc)
	res.Extra["template_bits"] = tbits
	res.Extra["sidecar_len"] = len(scBytes)
	var cases []tamperCase
	for bit := 0; bit < len(scBytes)*8; bit += *stride {
		cases = append(cases, tamperCase{Kind: "sidecar-bitflip", Arg: bit, Stream: 1 + bit%2, Tail: uint32(bit % 2)})
	}
	for n := 0; n < len(scBytes); n++ {
		cases = append(cases, tamperCase{Kind: "sidecar-truncate", Arg: n, Stream: 1, Tail: 1})
	}
	for n := 0; n < 12; n++ {
		cases = append(cases, tamperCase{Kind: "sidecar-garbage", Arg: []int{0, 1, 5, 6, 10, 27, 49, 50, 64, 200, 4096, 70000}[n], Arg2: n, Stream: 2, Tail: 1})
	}
	for _, k := range []string{"foreign-chunksize", "foreign-filesize", "foreign-id", "foreign-allbits"} {
		cases = append(cases, tamperCase{Kind: k, Stream: 1, Tail: 1}, tamperCase{Kind: k, Stream: 2, Tail: 0})
	}
	cases = append(cases, tamperCase{Kind: "datafile-deleted", Stream: 1, Tail: 1}, tamperCase{Kind: "datafile-deleted", Stream: 2, Tail: 0})
	// the same lost data file, and the first resumed attempt is killed while it handles FileBegin (a real receiver
	// process SIGKILLs itself at the k-th recv.file.sized: the output file exists again in full length); then a second attempt
	for k := 1; k <= 2; k++ {
		cases = append(cases, tamperCase{Kind: "datafile-deleted-killed-at-begin", Arg2: k, Stream: 1, Tail: 1}, tamperCase{Kind: "datafile-deleted-killed-at-begin", Arg2: k, Stream: 2, Tail: 0},
			tamperCase{Kind: "datafile-truncated-killed-at-begin", Arg: chunk + 1, Arg2: k, Stream: 1, Tail: 0})
	}
	for c := 0; c <= 8; c++ {
		for _, d := range []int{-1, 0, 1} {
			n := c*chunk + d
			if n >= 0 && n < int(big.Size) {
				cases = append(cases, tamperCase{Kind: "datafile-truncated", Arg: n, Stream: 1 + c%2, Tail: uint32(c % 2)})
			}
		}
	}
	for _, c := range tbits {
		for _, pos := range []int{0, 1, chunk / 2, chunk - 1} {
			cases = append(cases, tamperCase{Kind: "torn-chunk", Arg: c, Arg2: pos, Stream: 1, Tail: 1}, tamperCase{Kind: "torn-chunk", Arg: c, Arg2: pos, Stream: 2, Tail: 0})
		}
	}
	// the same tears of the highest recorded chunk with data streams that lag behind the control stream:
	// the repair frame is still in flight when FileEnd / End arrive
	for _, pos := range []int{0, chunk / 2} {
		hc := tbits[len(tbits)-1]
		cases = append(cases, tamperCase{Kind: "torn-chunk", Arg: hc, Arg2: pos, Stream: 1, Tail: 0, Lag: true}, tamperCase{Kind: "torn-chunk", Arg: hc, Arg2: pos, Stream: 2, Tail: 0, Lag: true},
			tamperCase{Kind: "torn-chunk", Arg: hc, Arg2: pos, Stream: 2, Tail: 1, Lag: true})
	}
	for _, pos := range []int{0, chunk / 2} {
		cases = append(cases, tamperCase{Kind: "complete-torn-last", Arg2: pos, Stream: 1, Tail: 0, Lag: true}, tamperCase{Kind: "complete-torn-last", Arg2: pos, Stream: 2, Tail: 1, Lag: true})
	}
	// a completed file (every bit set) whose final chunk is damaged: only the hash check can notice
	for _, pos := range []int{0, 3, chunk / 2, chunk - 8} {
		for _, tl := range []uint32{0, 1} {
			cases = append(cases, tamperCase{Kind: "complete-torn-last", Arg2: pos, Stream: 1 + pos%2, Tail: tl})
		}
	}
	// metadata written with another chunk size that happens to give the same number of chunks, non-contiguous bitmap
	cases = append(cases, tamperCase{Kind: "foreign-chunksize-samecount", Stream: 1, Tail: 1}, tamperCase{Kind: "foreign-chunksize-samecount", Stream: 2, Tail: 0})
	// the same leftover in the second place the receiver looks (below the root directory, when it runs without one)
	cases = append(cases, tamperCase{Kind: "foreign-chunksize-samecount-fallback", Stream: 1, Tail: 1}, tamperCase{Kind: "foreign-chunksize-samecount-fallback", Stream: 2, Tail: 0})
	// the receiver cannot hash the highest recorded chunk in time and reports "unknown": a chunk that cannot be verified
	// cannot be trusted either
	for _, pos := range []int{0, chunk / 2} {
		cases = append(cases, tamperCase{Kind: "torn-chunk", Arg: tbits[len(tbits)-1], Arg2: pos, Stream: 1, Tail: 0, SlowHash: true}, tamperCase{Kind: "torn-chunk", Arg: tbits[len(tbits)-1], Arg2: pos, Stream: 2, Tail: 0, SlowHash: true})
	}
	// only the first chunk is recorded, and it is torn: the chunk to verify is the very chunk the sender would hand out next
	for _, pos := range []int{0, 5, chunk - 8} {
		cases = append(cases, tamperCase{Kind: "torn-first-only", Arg2: pos, Stream: 1 + pos%2, Tail: 0}, tamperCase{Kind: "torn-first-only", Arg2: pos, Stream: 2, Tail: 0, Lag: true})
	}
	cases = append(cases, tamperCase{Kind: "untouched", Stream: 1, Tail: 1}, tamperCase{Kind: "untouched", Stream: 2, Tail: 0})
	// plain interrupted state, verification tail re-sent as duplicates, data streams lagging: the duplicates arrive late
	cases = append(cases, tamperCase{Kind: "untouched", Stream: 2, Tail: 1, Lag: true}, tamperCase{Kind: "untouched", Stream: 1, Tail: 2, Lag: true}, tamperCase{Kind: "untouched", Stream: 3, Tail: 3, Lag: true})
	rng := rand.New(rand.NewSource(*seed))
	t0 := time.Now()
	kinds, outcomes := map[string]int{}, map[string]int{}
	skipped := 0
	highest := tbits[len(tbits)-1]
	if *only != "" {
		var sel []tamperCase
		for _, c := range cases {
			for _, pre := range strings.Split(*only, ",") {
				if strings.HasPrefix(c.Kind, pre) {
					sel = append(sel, c)
					break
				}
			}
		}
		cases = sel
	}
	for i, c := range cases {
		if i%*shards != *shard {
			continue
		}
		if time.Since(t0) > *budget {
			skipped++
			continue
		}
		out := filepath.Join(base, fmt.Sprintf("c%d", i))
		if err := copyDir(tmpl, out); err != nil {
			panic(err)
		}
		sp := transfer.SidecarPath(out, "", transfer.VerifSidecarID(big))
		dp := filepath.Join(out, "e.bin")
		expectRepair := true // whether an identical tree is required after a successful run
		switch c.Kind {
		case "sidecar-bitflip":
			b := append([]byte(nil), scBytes...)
			b[c.Arg/8] ^= 1 << uint(c.Arg%8)
			os.WriteFile(sp, b, 0644)
		case "sidecar-truncate":
			os.WriteFile(sp, scBytes[:c.Arg], 0644)
		case "sidecar-garbage":
			g := make([]byte, c.Arg)
			rng.Read(g)
			if c.Arg2%2 == 0 && c.Arg >= 4 {
				copy(g, "SBM2")
			}
			os.WriteFile(sp, g, 0644)
		case "foreign-chunksize", "foreign-filesize", "foreign-id", "foreign-allbits":
			os.Remove(sp)
			id, size, cs := big.ID, big.Size, uint32(chunk)
			switch c.Kind {
			case "foreign-chunksize":
				cs = chunk / 2
			case "foreign-filesize":
				size = big.Size + 1
			case "foreign-id":
				id = "0000000000000000"
			}
			fsc, err := transfer.CreateSidecar(sp, id, size, cs)
			if err == nil {
				for k := uint32(0); k < fsc.TotalChunks; k++ {
					if c.Kind != "foreign-allbits" || int(k) > highest {
						fsc.MarkComplete(k)
					}
				}
				fsc.Flush()
			}
			if c.Kind == "foreign-allbits" {
				// same identity, but claims chunks that were never written (e.g. copied from another directory):
				// nothing in the protocol can detect this except for the highest chunk -> loud failure or wrong tree is possible;
				// recorded as an observation, not judged
				expectRepair = false
			}
		case "complete-torn-last":
			// finish the transfer into this directory first (real run), then tear the last chunk
			xfer.Run(xfer.Config{Transport: "mock", Conns: 1, Streams: 1, ChunkSize: chunk, Resume: true, NoRootDir: true, Seed: 5, Watchdog: 8 * time.Second}, src, out)
			last := int((big.Size - 1) / chunk)
			f, _ := os.OpenFile(dp, os.O_RDWR, 0644)
			lo := last*chunk + c.Arg2
			if lo >= int(big.Size) {
				lo = int(big.Size) - 1
			}
			junk := make([]byte, int(big.Size)-lo)
			for k := range junk {
				junk[k] = 0xEE
			}
			f.WriteAt(junk, int64(lo))
			f.Close()
		case "foreign-chunksize-samecount":
			os.Remove(sp)
			fsc, err := transfer.CreateSidecar(sp, big.ID, big.Size, 70) // ceil(505/70) = 8 = ceil(505/64)
			if err == nil {
				for _, k := range []uint32{0, 1, 2, 5, 7} {
					fsc.MarkComplete(k)
				}
				fsc.Flush()
			}
		case "foreign-chunksize-samecount-fallback":
			os.Remove(sp)
			fp := transfer.SidecarPath(filepath.Join(out, m.Root), "", transfer.VerifSidecarID(big))
			fsc, err := transfer.CreateSidecar(fp, big.ID, big.Size, 70)
			if err == nil {
				for _, k := range []uint32{0, 1, 2, 5, 7} {
					fsc.MarkComplete(k)
				}
				fsc.Flush()
			}
		case "torn-first-only":
			os.Remove(sp)
			fsc, err := transfer.CreateSidecar(sp, big.ID, big.Size, chunk)
			if err == nil {
				fsc.MarkComplete(0)
				fsc.Flush()
			}
			f, _ := os.OpenFile(dp, os.O_RDWR, 0644)
			junk := make([]byte, chunk-c.Arg2)
			for k := range junk {
				junk[k] = 0xEE
			}
			f.WriteAt(junk, int64(c.Arg2))
			f.Close()
		case "datafile-deleted":
			os.Remove(dp)
		case "datafile-truncated":
			os.Truncate(dp, int64(c.Arg))
		case "datafile-deleted-killed-at-begin", "datafile-truncated-killed-at-begin":
			if c.Kind == "datafile-deleted-killed-at-begin" {
				os.Remove(dp)
			} else {
				os.Truncate(dp, int64(c.Arg))
			}
			self, _ := os.Executable()
			r1 := oneRun(self, src, out, m, src, c.Stream, chunk, c.Tail, killPlan{Point: "recv.file.sized", K: c.Arg2}, 20*time.Second)
			if !r1.Killed {
				res.AddDrift(map[string]any{"why": "the first attempt was not killed at recv.file.sized", "case": c, "child": trunc(r1.ChildOut)})
			}
		case "torn-chunk":
			f, _ := os.OpenFile(dp, os.O_RDWR, 0644)
			junk := make([]byte, chunk-c.Arg2)
			for k := range junk {
				junk[k] = 0xEE
			}
			f.WriteAt(junk, int64(c.Arg*chunk+c.Arg2))
			f.Close()
			if c.Arg != highest {
				expectRepair = false // only the last chunk recorded as complete is covered by the hash check (C06's statement)
			}
		}
		unreadable := false
		if strings.HasPrefix(c.Kind, "sidecar-") {
			_, lerr := transfer.LoadSidecar(sp)
			unreadable = lerr != nil
		}
		// 1. the parser itself
		func() {
			defer func() {
				if p := recover(); p != nil {
					res.AddViolation(map[string]any{"kind": "LoadSidecar_panics", "case": c.Kind}, map[string]any{"case": c, "panic": fmt.Sprint(p)})
				}
			}()
			if sc, err := transfer.LoadSidecar(sp); err == nil {
				bits := transfer.VerifSidecarBits(sc)
				if c.Kind == "sidecar-bitflip" || c.Kind == "sidecar-truncate" || c.Kind == "sidecar-garbage" {
					// a damaged file that still loads must at least be internally consistent
					if len(bits) > int(sc.TotalChunks) {
						res.AddViolation(map[string]any{"kind": "damaged_sidecar_loads_inconsistent", "case": c.Kind}, map[string]any{"case": c})
					}
				}
			}
		}()
		// 2. a resumed transfer from that state
		transport := "mock"
		if c.Lag {
			transport = "vlag" // the data streams lag behind the control stream (packet loss / retransmission on a data packet)
		}
		cfg := xfer.Config{Transport: transport, Conns: 1, Streams: c.Stream, ChunkSize: chunk, Resume: true, NoRootDir: true, VerifyTail: c.Tail,
			Seed: *seed + int64(i), Watchdog: 8 * time.Second}
		// which chunk frames did the sender write, which did the receiver apply?
		var hmu sync.Mutex
		framed, written := map[[2]uint64]int{}, map[[2]uint64]int{}
		extraHook = func(name string, a, b uint64, s string) {
			switch name {
			case "send.chunk.framed":
				hmu.Lock()
				framed[[2]uint64{a, b}]++
				hmu.Unlock()
			case "recv.chunk.written":
				hmu.Lock()
				written[[2]uint64{a, b}]++
				hmu.Unlock()
			case "recv.resume.hash":
				if c.SlowHash {
					hmu.Lock()
					framed[[2]uint64{^uint64(0), a}]++ // (remembered: the delay was applied)
					written[[2]uint64{^uint64(0), a}]++
					hmu.Unlock()
					time.Sleep(2300 * time.Millisecond)
				}
			}
		}
		o, err := xfer.Run(cfg, src, out)
		extraHook = nil
		if c.Kind == "foreign-chunksize-samecount-fallback" && len(o.Diffs) == 1 && o.Diffs[0] == "extra:"+m.Root {
			// (the directory this case itself made to hold the leftover metadata)
			o.Diffs, o.TreeEqual = nil, true
		}
		hmu.Lock()
		unapplied := 0
		for k, n := range framed {
			if written[k] < n {
				unapplied++
			}
		}
		hmu.Unlock()
		res.Behaviours++
		res.Steps++
		kinds[c.Kind]++
		if c.Kind != "untouched" {
			res.Distinct++
		}
		replay := map[string]any{"case": c, "template_bits": tbits, "outcome": o}
		if c.SlowHash {
			hmu.Lock()
			slowed := 0
			for k := range framed {
				if k[0] == ^uint64(0) {
					slowed++
				}
			}
			hmu.Unlock()
			outcomes[fmt.Sprintf("slow hash applied to %d chunk(s)", slowed)]++
		}
		switch {
		case err != nil:
			res.AddDrift(map[string]any{"why": "harness: " + err.Error(), "case": c})
		case o.Hung:
			outcomes["hung"]++
			res.AddViolation(map[string]any{"kind": "resumed_transfer_hangs", "case": c.Kind}, replay)
		case o.SendOK && o.RecvOK && !o.TreeEqual && expectRepair:
			outcomes["silent_wrong_tree"]++
			sig := map[string]any{"kind": "stale_or_damaged_resume_state_trusted", "case": c.Kind}
			if unapplied > 0 {
				// the sender did write the repair, the receiver returned success without applying it
				sig["cause"] = "repair_frame_sent_but_not_applied_before_the_receiver_returned"
				replay["chunk_frames_written_by_the_sender_but_never_applied"] = unapplied
			}
			res.AddViolation(sig, replay)
		case o.SendOK && o.RecvOK && !o.TreeEqual:
			outcomes["wrong_tree_outside_statement"]++
		case o.SendOK && o.RecvOK:
			outcomes["identical"]++
		default:
			outcomes["failed_loudly"]++
			if *unreadableIgnored && unreadable {
				res.AddViolation(map[string]any{"property": "C05", "kind": "unreadable_resume_metadata_not_ignored", "case": c.Kind,
					"sendErr": trunc(o.SendErr), "recvErr": trunc(o.RecvErr)}, replay)
			}
			legit := c.Kind == "untouched" || c.Kind == "complete-torn-last" || c.Kind == "torn-first-only" || (c.Kind == "torn-chunk" && c.Arg == highest)
			if *requireComplete && legit {
				res.AddViolation(map[string]any{"property": "C03", "kind": "resumed_transfer_between_healthy_peers_failed", "history": c.Kind, "lagging_data_streams": c.Lag,
					"sendErr": trunc(o.SendErr), "recvErr": trunc(o.RecvErr)}, replay)
			}
		}
		if i%53 == 0 {
			res.AddSample(map[string]any{"case": c, "sendOK": o.SendOK, "recvOK": o.RecvOK, "treeEqual": o.TreeEqual, "recvErr": trunc(o.RecvErr)}, 8)
		}
		os.RemoveAll(out)
	}
	res.Extra["cases_total"] = len(cases)
	res.Extra["by_kind"] = kinds
	res.Extra["outcomes"] = outcomes
	res.Extra["skipped_over_budget"] = skipped
	res.Print()
}

// ---- C05 at arbitrary instants: an observer instead of a kill ---------------------------
//
// While a real transfer runs (several data-stream readers, extra flusher
// goroutines hammering FlushAllFlushers next to the receiver's own flushes) an
// observer keeps doing what a post-mortem would do after a kill at that
// instant: load the sidecar under its final name, then read the data file, and
// compare every marked chunk with the source.  Because the data file only ever
// gains correct chunks, reading it *after* the sidecar makes a mismatch
// conclusive.  A file under the final name that exists but does not load is a
// torn replacement.
func ResumeObserve(args []string) {
	fs := flag.NewFlagSet("resume-observe", flag.ExitOnError)
	seed := fs.Int64("seed", 1, "seed")
	shard := fs.Int("shard", 0, "shard")
	shards := fs.Int("shards", 1, "shards")
	rounds := fs.Int("rounds", 6, "transfers per shard")
	fs.Parse(args)
	_ = shards
	installHooks()
	res := &Result{Extra: map[string]any{}}
	base, _ := os.MkdirTemp("", "observe-")
	defer os.RemoveAll(base)
	const chunk = 32 * 1024
	observations, loads := 0, 0
	for round := 0; round < *rounds; round++ {
		rs := *seed*1000 + int64(*shard*100+round)
		dir := filepath.Join(base, fmt.Sprintf("r%d", round))
		src := filepath.Join(dir, "src", "payload")
		nchunks := 48 + round*8
		tree := []xfer.FileSpec{{Rel: "big.bin", Size: int64(nchunks*chunk - 11)}}
		if err := xfer.MakeTree(src, tree, rs); err != nil {
			panic(err)
		}
		outDir := filepath.Join(dir, "out")
		os.MkdirAll(outDir, 0755)
		m, _, _ := xfer.Scan(src, false)
		item := m.Items[0]
		srcBytes, _ := os.ReadFile(filepath.Join(src, "big.bin"))
		scPath := transfer.SidecarPath(outDir, "", transfer.VerifSidecarID(item))
		dataPath := filepath.Join(outDir, "big.bin")
		stop := make(chan struct{})
		var wg sync.WaitGroup
		for k := 0; k < 2; k++ {
			wg.Add(1)
			go func() {
				defer wg.Done()
				for {
					select {
					case <-stop:
						return
					default:
						transfer.FlushAllFlushers()
					}
				}
			}()
		}
		wg.Add(1)
		go func() {
			defer wg.Done()
			for {
				select {
				case <-stop:
					return
				default:
				}
				observations++
				fi, err := os.Stat(scPath)
				if err != nil {
					continue
				}
				sc, err := transfer.LoadSidecar(scPath)
				if err != nil {
					if fi.Size() >= 0 {
						// re-stat: if the same inode content is still there and unreadable it is a torn replacement
						if _, err2 := transfer.LoadSidecar(scPath); err2 != nil {
							res.AddViolation(map[string]any{"kind": "unreadable_sidecar_under_final_name", "property": "C05"},
								map[string]any{"round": round, "seed": rs, "err": err.Error(), "size": fi.Size()})
						}
					}
					continue
				}
				loads++
				bits := transfer.VerifSidecarBits(sc)
				if len(bits) == 0 {
					continue
				}
				out, err := os.ReadFile(dataPath)
				if err != nil {
					continue
				}
				for _, c := range bits {
					lo := c * chunk
					hi := lo + chunk
					if hi > len(srcBytes) {
						hi = len(srcBytes)
					}
					if len(out) < hi || !bytes.Equal(out[lo:hi], srcBytes[lo:hi]) {
						res.AddViolation(map[string]any{"kind": "metadata_marks_chunk_not_in_file", "property": "C05"},
							map[string]any{"round": round, "seed": rs, "chunk": c, "marked": len(bits)})
						break
					}
				}
			}
		}()
		cfg := xfer.Config{Transport: "vquic", Conns: 1, Streams: 2 + round%3, ChunkSize: chunk, Resume: true, NoRootDir: true, Seed: rs, Watchdog: 30 * time.Second}
		o, err := xfer.Run(cfg, src, outDir)
		close(stop)
		wg.Wait()
		res.Behaviours++
		res.Steps++
		if err != nil || o.Hung || !o.SendOK || !o.RecvOK || !o.TreeEqual {
			res.AddDrift(map[string]any{"why": "observed transfer did not complete cleanly", "outcome": o, "err": fmt.Sprint(err)})
		} else {
			res.Distinct++
		}
		if round == 0 {
			res.AddSample(map[string]any{"chunks": nchunks, "streams": cfg.Streams, "chunk_bytes": chunk}, 2)
		}
		os.RemoveAll(dir)
	}
	res.Extra["observations"] = observations
	res.Extra["sidecar_loads_compared"] = loads
	res.Print()
}

// ---- C04: every consistent on-disk state is resumed correctly ---------------------------
//
// The states a kill can leave (Resume.tla: any bitmap; marked chunks are in the
// file; unmarked chunks are zero or already written) are built directly with the
// real Sidecar API and resumed by a real transfer.
func ResumeStates(args []string) {
	fs := flag.NewFlagSet("resume-states", flag.ExitOnError)
	seed := fs.Int64("seed", 1, "seed")
	shard := fs.Int("shard", 0, "shard")
	shards := fs.Int("shards", 1, "shards")
	nchunks := fs.Int("chunks", 5, "chunks of the file (2^chunks bitmaps)")
	fs.Parse(args)
	installHooks()
	res := &Result{Extra: map[string]any{}}
	base, _ := os.MkdirTemp("", "states-")
	defer os.RemoveAll(base)
	const chunk = 64
	src := filepath.Join(base, "src", "payload")
	size := int64(*nchunks*chunk - 9)
	xfer.MakeTree(src, []xfer.FileSpec{{Rel: "f.bin", Size: size}, {Rel: "other.bin", Size: 10}}, *seed)
	m, _, _ := xfer.Scan(src, false)
	var item manifest.FileItem
	for _, it := range m.Items {
		if it.RelPath == "f.bin" {
			item = it
		}
	}
	key := transfer.VerifFileKey(item)
	srcBytes, _ := os.ReadFile(filepath.Join(src, "f.bin"))
	outcomes := map[string]int{}
	n := 0
	for mask := 0; mask < 1<<uint(*nchunks); mask++ {
		for _, extra := range []int{0, 1} { // 1: one unmarked chunk is already written (killed between write and mark)
			for _, streams := range []int{1, 2} {
				for _, tail := range []uint32{0, 1} {
					n++
					if n%*shards != *shard {
						continue
					}
					out := filepath.Join(base, fmt.Sprintf("s%d", n))
					os.MkdirAll(out, 0755)
					data := make([]byte, size)
					var bits []int
					for c := 0; c < *nchunks; c++ {
						lo, hi := c*chunk, (c+1)*chunk
						if hi > int(size) {
							hi = int(size)
						}
						if mask&(1<<uint(c)) != 0 {
							copy(data[lo:hi], srcBytes[lo:hi])
							bits = append(bits, c)
						} else if extra == 1 && (c == (mask+1)%*nchunks) {
							copy(data[lo:hi], srcBytes[lo:hi])
						}
					}
					os.WriteFile(filepath.Join(out, "f.bin"), data, 0644)
					sc, err := transfer.CreateSidecar(transfer.SidecarPath(out, "", transfer.VerifSidecarID(item)), item.ID, size, chunk)
					if err != nil {
						panic(err)
					}
					for _, c := range bits {
						sc.MarkComplete(uint32(c))
					}
					sc.Flush()
					var framed []int
					var fmu sync.Mutex
					extraHook = func(name string, a, b uint64, s string) {
						if name == "send.chunk.framed" && a == key {
							fmu.Lock()
							framed = append(framed, int(b))
							fmu.Unlock()
						}
					}
					cfg := xfer.Config{Transport: "mock", Conns: 1, Streams: streams, ChunkSize: chunk, Resume: true, NoRootDir: true, VerifyTail: tail, Seed: *seed + int64(n), Watchdog: 8 * time.Second}
					o, err := xfer.Run(cfg, src, out)
					extraHook = nil
					res.Behaviours++
					res.Steps++
					if len(bits) > 0 && len(bits) < *nchunks {
						res.Distinct++
					}
					replay := map[string]any{"bitmap": bits, "extra_written": extra, "streams": streams, "tail": tail, "outcome": o, "framed": framed}
					switch {
					case err != nil:
						res.AddDrift(map[string]any{"why": "harness: " + err.Error()})
					case o.Hung:
						outcomes["hung"]++
						res.AddViolation(map[string]any{"kind": "resumed_run_hung", "property": "C04"}, replay)
					case !o.SendOK || !o.RecvOK:
						outcomes["failed"]++
						res.AddViolation(map[string]any{"kind": "resumed_run_failed", "property": "C04", "sendErr": trunc(o.SendErr), "recvErr": trunc(o.RecvErr)}, replay)
					case !o.TreeEqual:
						outcomes["wrong_tree"]++
						res.AddViolation(map[string]any{"kind": "resumed_run_succeeded_with_wrong_tree", "property": "C04"}, replay)
					default:
						outcomes["ok"]++
						// finished work is not requested again: chunks marked and below the verification point
						// (highest marked, minus the tail) are not framed, except the verified chunk on mismatch
						if len(bits) > 0 {
							force := bits[len(bits)-1] + 1
							if len(bits) < *nchunks {
								force -= int(tail)
							}
							for _, c := range framed {
								if mask&(1<<uint(c)) != 0 && c < force {
									res.AddViolation(map[string]any{"kind": "finished_chunk_sent_again", "property": "C04"}, replay)
									break
								}
							}
						}
					}
					if n%97 == 0 {
						res.AddSample(map[string]any{"bitmap": bits, "streams": streams, "tail": tail, "framed": framed, "ok": o.SendOK && o.RecvOK && o.TreeEqual}, 6)
					}
					os.RemoveAll(out)
				}
			}
		}
	}
	res.Extra["outcomes"] = outcomes
	res.Print()
}
