package drivers

import (
	"context"
	"encoding/json"
	"errors"
	"flag"
	"fmt"
	"math/rand"
	"runtime"
	"sort"
	"strings"
	"sync"
	"sync/atomic"
	"time"

	"github.com/sheerbytes/sheerbytes/internal/app"
	"github.com/sheerbytes/sheerbytes/verifharness/internal/graph"
)

// ---- Admission.tla <-> app.SnapshotSender (C12) -------------------------------

type admAct struct {
	A  string `json:"a"`
	P  string `json:"p"`
	I  int    `json:"i"`
	Ok bool   `json:"ok"`
	D  int    `json:"d"`
}

type admProj struct {
	Queue  []string          `json:"queue"`
	Active map[string]bool   `json:"active"`
	Status map[string]string `json:"status"`
}

type admX struct {
	Emits [][]string     `json:"emits"`
	Live  map[string]int `json:"live"`
}

type admStub struct {
	id          int
	peer        string
	ctx         context.Context
	deadAtStart bool
	result      chan error
	returned    bool
}

type admRun struct {
	v         *app.VerifSender
	stuck     bool // an event handler did not return
	max       int
	ttl       time.Duration
	stubs     []*admStub
	startCh   chan *admStub
	doneCh    chan string
	mu        sync.Mutex
	emitted   []string
	connected map[string]bool
	waiting   []string
	trace     []string
	res       *Result
}

var admCurrent *admRun

// admDoneHookLost is set once the host.transfer.done hook failed to arrive
// (e.g. the tail of runTransfer was rewritten); the driver then falls back to
// waiting until the real object's state is stable.
var admDoneHookLost bool

func (r *admRun) awaitTail() {
	if !admDoneHookLost {
		select {
		case <-r.doneCh:
			return
		case <-time.After(400 * time.Millisecond):
			admDoneHookLost = true
		}
	}
	// fallback: state stable over 3 ms and no hook arrived in between
	prev := fmt.Sprint(r.v.Snap())
	stable := 0
	for i := 0; i < 2000 && stable < 3; i++ {
		time.Sleep(time.Millisecond)
		select {
		case <-r.doneCh:
			return
		default:
		}
		cur := fmt.Sprint(r.v.Snap())
		if cur == prev {
			stable++
		} else {
			stable = 0
			prev = cur
		}
	}
}

func admInstallHook() {
	installHooks()
	extraHook = func(name string, a, b uint64, s string) {
		r := admCurrent
		if r == nil {
			return
		}
		switch name {
		case "host.emit.start":
			r.mu.Lock()
			r.emitted = append(r.emitted, "S:"+s)
			r.mu.Unlock()
		case "host.emit.queued":
			r.mu.Lock()
			r.emitted = append(r.emitted, "Q:"+s)
			r.mu.Unlock()
		case "host.transfer.done":
			r.doneCh <- s
		}
	}
}

func newAdmRun(max int, res *Result) *admRun {
	r := &admRun{max: max, ttl: 10 * time.Minute, startCh: make(chan *admStub, 16), doneCh: make(chan string, 16),
		connected: map[string]bool{}, res: res}
	r.v = app.VerifNewSender(max, r.ttl, func(ctx context.Context, peer string) error {
		st := &admStub{peer: peer, ctx: ctx, deadAtStart: ctx.Err() != nil, result: make(chan error, 1)}
		r.startCh <- st
		return <-st.result
	})
	admCurrent = r
	return r
}

func (r *admRun) viol(kind string, extra map[string]any) {
	sig := map[string]any{"kind": kind}
	for k, v := range extra {
		sig[k] = v
	}
	r.res.AddViolation(sig, map[string]any{"max": r.max, "steps": append([]string(nil), r.trace...)})
}

func (r *admRun) live() []*admStub {
	var out []*admStub
	for _, s := range r.stubs {
		if !s.returned && !s.deadAtStart && s.ctx.Err() == nil {
			out = append(out, s)
		}
	}
	return out
}

func (r *admRun) enabled(a admAct) bool {
	switch a.A {
	case "Join":
		return !r.connected[a.P]
	case "Accept", "Leave":
		return r.connected[a.P]
	case "Complete":
		return a.I >= 1 && a.I <= len(r.stubs) && !r.stubs[a.I-1].returned
	case "Tick":
		return true
	}
	return false
}

func removeStr(xs []string, x string) []string {
	out := xs[:0:0]
	for _, y := range xs {
		if y != x {
			out = append(out, y)
		}
	}
	return out
}

func hasStr(xs []string, x string) bool {
	for _, y := range xs {
		if y == x {
			return true
		}
	}
	return false
}

// step performs one event on the real SnapshotSender; returns the messages emitted.
func (r *admRun) step(a admAct) (emits []string, trouble string) {
	r.trace = append(r.trace, admFmt(a))
	r.res.Steps++
	r.mu.Lock()
	r.emitted = nil
	r.mu.Unlock()
	// every event handler returns: one that waits for the sender's own lock never does
	bounded := func(f func()) bool {
		done := make(chan struct{})
		go func() { defer close(done); f() }()
		select {
		case <-done:
			return true
		case <-time.After(20 * time.Second):
			return false
		}
	}
	stuck := func(what string) ([]string, string) {
		r.stuck = true
		r.res.AddViolation(map[string]any{"kind": "event_handler_never_returns", "handler": what}, map[string]any{"steps": append([]string(nil), r.trace...)})
		return nil, "handler " + what + " did not return"
	}
	switch a.A {
	case "Join":
		r.v.Join(a.P)
		r.connected[a.P] = true
	case "Accept":
		hasLive := false
		for _, s := range r.live() {
			if s.peer == a.P {
				hasLive = true
			}
		}
		if !hasLive && !hasStr(r.waiting, a.P) {
			r.waiting = append(r.waiting, a.P)
		}
		if !bounded(func() { r.v.Accept(context.Background(), a.P) }) {
			return stuck("manifest accept")
		}
	case "Leave":
		if !bounded(func() { r.v.Leave(a.P) }) {
			return stuck("peer left")
		}
		r.connected[a.P] = false
		r.waiting = removeStr(r.waiting, a.P)
		for _, s := range r.stubs {
			if s.peer == a.P && !s.returned && s.ctx.Err() == nil {
				r.viol("transfer_of_leaver_not_cancelled", nil)
			}
		}
	case "Complete":
		st := r.stubs[a.I-1]
		st.returned = true
		if a.Ok {
			st.result <- nil
		} else {
			st.result <- errors.New("stub transfer failed")
		}
		r.awaitTail()
	case "Tick":
		if a.D == 1 {
			r.v.Now = r.v.Now.Add(6 * time.Minute)
		} else {
			r.v.Now = r.v.Now.Add(11 * time.Minute)
		}
		if !bounded(r.v.Cleanup) {
			return stuck("cleanup tick")
		}
	}
	// collect the transfers this step started (in emit order)
	r.mu.Lock()
	emits = append([]string(nil), r.emitted...)
	r.mu.Unlock()
	var startedPeers []string
	for _, e := range emits {
		if strings.HasPrefix(e, "S:") {
			startedPeers = append(startedPeers, e[2:])
		}
	}
	got := map[string]*admStub{}
	for range startedPeers {
		select {
		case st := <-r.startCh:
			got[st.peer] = st
		case <-time.After(500 * time.Millisecond):
			trouble = "announced transfer never started"
		}
	}
	for _, p := range startedPeers {
		st := got[p]
		if st == nil {
			continue
		}
		st.id = len(r.stubs) + 1
		r.stubs = append(r.stubs, st)
		if st.deadAtStart {
			r.viol("transfer_started_with_cancelled_context", nil)
		}
		if len(r.waiting) == 0 || r.waiting[0] != p {
			if hasStr(r.waiting, p) {
				r.viol("start_order_not_fifo", nil)
			} else {
				r.viol("started_receiver_that_was_not_waiting", nil)
			}
		}
		r.waiting = removeStr(r.waiting, p)
	}
	// stray starts (not announced)
	select {
	case st := <-r.startCh:
		st.id = len(r.stubs) + 1
		r.stubs = append(r.stubs, st)
		r.viol("unannounced_transfer_started", nil)
	default:
	}
	r.oracle()
	return emits, trouble
}

// oracle evaluates the property on ground truth (stub census) and on the
// real queue after every event.
func (r *admRun) oracle() {
	live := r.live()
	if len(live) > r.max {
		r.viol("more_live_transfers_than_max", map[string]any{"live": len(live), "max": r.max})
	}
	perPeer := map[string]int{}
	for _, s := range live {
		perPeer[s.peer]++
		if perPeer[s.peer] > 1 {
			r.viol("two_live_transfers_for_one_receiver", nil)
		}
		if !r.connected[s.peer] {
			r.viol("live_transfer_for_receiver_that_left", nil)
		}
	}
	snap := r.v.Snap()
	seen := map[string]bool{}
	for _, p := range snap.Queue {
		if seen[p] {
			r.viol("receiver_queued_twice", nil)
		}
		seen[p] = true
		if !r.connected[p] {
			r.viol("receiver_that_left_still_queued", nil)
		}
		if perPeer[p] > 0 {
			r.viol("receiver_queued_and_transferring", nil)
		}
	}
	for _, p := range r.waiting {
		if !seen[p] {
			r.viol("waiting_receiver_dropped_from_queue", nil)
		}
	}
	if len(r.waiting) > 0 && len(live) < r.max {
		r.viol("free_slot_but_waiting_receiver_not_started", nil)
	}
}

// drain completes every outstanding transfer and checks that nobody who
// accepted and stayed connected was left behind.
func (r *admRun) drain(rng *rand.Rand) {
	for guard := 0; guard < 50; guard++ {
		idx := -1
		for i, s := range r.stubs {
			if !s.returned {
				idx = i
				break
			}
		}
		if idx < 0 {
			break
		}
		r.step(admAct{A: "Complete", I: idx + 1, P: r.stubs[idx].peer, Ok: rng.Intn(3) != 0})
	}
	if len(r.waiting) > 0 {
		r.viol("accepted_receiver_never_started", nil)
	}
}

func sameStrs(a, b []string) bool {
	if len(a) != len(b) {
		return false
	}
	for i := range a {
		if a[i] != b[i] {
			return false
		}
	}
	return true
}

// Admission replays Admission.tla behaviours on a real SnapshotSender.
func Admission(args []string) {
	fs := flag.NewFlagSet("admission", flag.ExitOnError)
	edges := fs.String("edges", "", "ndjson transitions emitted by TLC")
	mode := fs.String("mode", "cover", "cover | sim")
	max := fs.Int("max", 1, "Max of the spec")
	seed := fs.Int64("seed", 1, "seed")
	shard := fs.Int("shard", 0, "this shard")
	shards := fs.Int("shards", 1, "number of shards")
	budget := fs.Duration("budget", 10*time.Minute, "wall-clock budget; remaining behaviours are skipped (reported)")
	fs.Parse(args)
	t0 := time.Now()
	g, err := graph.Load(*edges)
	if err != nil {
		panic(err)
	}
	admInstallHook()
	res := &Result{Extra: map[string]any{}}
	rng := rand.New(rand.NewSource(*seed))
	var behaviours [][]*graph.Edge
	if *mode == "cover" {
		g.Index()
		res.States = g.States()
		res.Transitions = len(g.Edges)
		for i := range g.Edges {
			if i%*shards == *shard {
				behaviours = append(behaviours, g.PathTo(i))
			}
		}
	} else {
		for i, b := range g.Behaviours() {
			if i%*shards == *shard {
				behaviours = append(behaviours, b)
			}
		}
		res.Transitions = len(g.Edges)
	}
	actsSeen := map[string]int{}
	distinct := map[string]bool{}
	troubles := 0
	skipped := 0
	for _, b := range behaviours {
		if time.Since(t0) > *budget {
			skipped++
			continue
		}
		run := newAdmRun(*max, res)
		res.Behaviours++
		for _, e := range b {
			var a admAct
			var post admProj
			var x admX
			json.Unmarshal(e.Act, &a)
			json.Unmarshal(e.Post, &post)
			json.Unmarshal(e.X, &x)
			if !run.enabled(a) {
				res.AddDrift(map[string]any{"why": "spec event not enabled on the real object", "act": a, "steps": run.trace})
				break
			}
			emits, trouble := run.step(a)
			actsSeen[a.A]++
			if trouble != "" {
				troubles++
				res.AddDrift(map[string]any{"why": trouble, "act": a, "steps": run.trace})
				break
			}
			snap := run.v.Snap()
			var wantEmits []string
			for _, m := range x.Emits {
				if len(m) == 2 {
					wantEmits = append(wantEmits, m[0]+":"+m[1])
				}
			}
			var wantActive []string
			for p, on := range post.Active {
				if on {
					wantActive = append(wantActive, p)
				}
			}
			sort.Strings(wantActive)
			okStatus := true
			for p, st := range post.Status {
				real, ok := snap.Status[p]
				if st == "absent" {
					if ok {
						okStatus = false
					}
				} else if !ok || real != st {
					okStatus = false
				}
			}
			if !sameStrs(snap.Queue, post.Queue) || !sameStrs(snap.Active, wantActive) || !okStatus || !sameStrs(emits, wantEmits) {
				res.AddDrift(map[string]any{"why": "real state differs from spec state", "act": a, "steps": run.trace,
					"spec": post, "spec_emits": wantEmits, "real": snap, "real_emits": emits})
				break
			}
		}
		if run.stuck {
			// the sender's lock is held for good: nothing more can be learnt from this process
			res.Extra["stopped_after_a_handler_that_never_returned"] = true
			break
		}
		run.drain(rng)
		key := strings.Join(run.trace, ",")
		if !distinct[key] {
			distinct[key] = true
			if len(run.trace) > 3 {
				res.Distinct++
			}
		}
		if res.Behaviours%2003 == 1 {
			res.AddSample(map[string]any{"max": *max, "events": run.trace}, 6)
		}
	}
	admCurrent = nil
	res.Extra["actions_exercised"] = actsSeen
	res.Extra["troubles"] = troubles
	res.Extra["skipped_over_budget"] = skipped
	res.Extra["done_hook_lost"] = admDoneHookLost
	res.Print()
}

func admFmt(a admAct) string {
	switch a.A {
	case "Complete":
		return fmt.Sprintf("Complete(run %d of %s, ok=%v)", a.I, a.P, a.Ok)
	case "Tick":
		if a.D == 1 {
			return "Tick(+6min)"
		}
		return "Tick(+11min>TTL)"
	}
	return a.A + "(" + a.P + ")"
}

// ---- C12 under free-running concurrency ------------------------------------------------------------
//
// The gated replay performs one dispatch at a time.  In the running host the signaling read loop
// (accepts, departures) and the goroutines of transfers that have just ended all call the scheduler,
// possibly at the same moment.  Here the real SnapshotSender runs with a transfer function that
// counts how many of its invocations are in progress; batches of transfers end together while the
// read loop keeps admitting receivers.  More invocations in progress than max-receivers is the
// violation; every admitted receiver must also be served in the end (nobody lost).
func AdmissionStress(args []string) {
	fs := flag.NewFlagSet("admission-stress", flag.ExitOnError)
	rounds := fs.Int("rounds", 200, "rounds")
	shard := fs.Int("shard", 0, "shard")
	shards := fs.Int("shards", 1, "shards")
	seed := fs.Int64("seed", 1, "seed")
	fs.Parse(args)
	res := &Result{Extra: map[string]any{}}
	over, lost := 0, 0
	for round := 0; round < *rounds; round++ {
		if round%*shards != *shard {
			continue
		}
		maxRecv := 1 + (round+int(*seed))%3
		n := 3*maxRecv + 4 + round%4
		var running, peak, served atomic.Int64
		fn := func(ctx context.Context, peer string) error {
			cur := running.Add(1)
			for {
				p := peak.Load()
				if cur <= p || peak.CompareAndSwap(p, cur) {
					break
				}
			}
			// transfers end in batches: wait (briefly) until every slot is busy, then all return at about the same time
			end := time.Now().Add(300 * time.Microsecond)
			for running.Load() < int64(maxRecv) && time.Now().Before(end) {
				runtime.Gosched()
			}
			running.Add(-1)
			served.Add(1)
			return nil
		}
		v := app.VerifNewSender(maxRecv, time.Hour, fn)
		if round%2 == 0 {
			v.SetOnChange(runtime.Gosched) // the CLI logs its state here (I/O)
		}
		ctx, cancel := context.WithCancel(context.Background())
		// the signaling read loop: receivers join and accept one after the other while transfers start and end
		for i := 0; i < n; i++ {
			p := fmt.Sprintf("r%d", i)
			v.Join(p)
			v.Accept(ctx, p)
		}
		deadline := time.Now().Add(5 * time.Second)
		for served.Load() < int64(n) && time.Now().Before(deadline) {
			time.Sleep(200 * time.Microsecond)
		}
		res.Behaviours++
		res.Steps += n
		if pk := peak.Load(); pk > int64(maxRecv) {
			over++
			res.AddViolation(map[string]any{"kind": "more_transfers_running_than_max_receivers", "via": "admission-stress"},
				map[string]any{"max_receivers": maxRecv, "receivers": n, "transfers_running_at_once": pk, "round": round})
		}
		if served.Load() < int64(n) {
			lost++
			res.AddViolation(map[string]any{"kind": "accepted_receiver_never_served", "via": "admission-stress"},
				map[string]any{"max_receivers": maxRecv, "receivers": n, "served": served.Load(), "round": round, "state": v.Snap()})
		}
		cancel()
	}
	res.Distinct = res.Behaviours
	res.Extra["rounds_over_capacity"] = over
	res.Extra["rounds_with_unserved_receivers"] = lost
	res.Print()
}
