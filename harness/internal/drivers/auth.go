package drivers

import (
	"context"
	"crypto/hmac"
	"crypto/rand"
	"crypto/sha256"
	"encoding/json"
	"errors"
	"flag"
	"fmt"
	"io"
	"log/slog"
	"net"
	"os"
	"strings"
	"sync"
	"time"

	"github.com/quic-go/quic-go"
	"github.com/sheerbytes/sheerbytes/internal/app"
	"github.com/sheerbytes/sheerbytes/internal/quictransport"
	"github.com/sheerbytes/sheerbytes/internal/transfer"
	"github.com/sheerbytes/sheerbytes/internal/transferquic"
)

// ---- Auth.tla <-> real authenticateTransport over real loopback QUIC (C08) ---------------------
//
// Every terminal behaviour of Auth.tla is an attack script.  The honest ends run the real
// app.authenticateTransport (export shim) on real transferquic connections; the attacker is
// scripted here on the other end of real TLS sessions (it can export the keying material of its
// own sessions and nothing else); alterations between two honest ends are applied by a wrapper
// around the sender's connection.  The proof format used by the attacker is written here a second
// time from the property text (HMAC(HMAC(code, exporter), ver||role||nonce)), so an honest
// scripted peer doubles as an interoperability check.

var authQuiet = slog.New(slog.NewTextHandler(io.Discard, nil))

type authMsg struct {
	Ver   int      `json:"ver"`
	Role  string   `json:"role"`
	Nonce string   `json:"nonce"`
	Mk    []string `json:"mk"`
	Mr    string   `json:"mr"`
	Mn    string   `json:"mn"`
	Mok   bool     `json:"mok"`
	Full  bool     `json:"full"`
	Src   string   `json:"src"`
}

type authStep struct {
	A   string   `json:"a"`
	Ok  *bool    `json:"ok,omitempty"`
	M   *authMsg `json:"m,omitempty"`
	To  string   `json:"to,omitempty"`
	Cls string   `json:"cls,omitempty"`
}

type authRow struct {
	Scen       string     `json:"scen"`
	CS         string     `json:"cS"`
	CR         string     `json:"cR"`
	Adv        []string   `json:"adv"`
	Hist       []authStep `json:"hist"`
	PcS        string     `json:"pcS"`
	PcR        string     `json:"pcR"`
	Used       []string   `json:"used"`
	PeerHoldsS bool       `json:"peerHoldsS"`
	PeerHoldsR bool       `json:"peerHoldsR"`
}

var authCodes = map[string]string{"c1": "K7QM-2XPA", "c2": "K7QM-2XPB", "guess": "ZZZZ-0000"}

const (
	authMsgLen  = 50
	authLabelV  = "thruflux-auth-v1"
	roleSenderB = byte(1)
	roleRecvB   = byte(2)
)

type exporter interface {
	ExportKeyingMaterial(label string, context []byte, length int) ([]byte, error)
}

func ekmOf(c transfer.Conn) ([]byte, error) {
	e, ok := c.(exporter)
	if !ok {
		return nil, fmt.Errorf("connection cannot export keying material")
	}
	return e.ExportKeyingMaterial(authLabelV, nil, 32)
}

// proof as the property states it
func makeProof(code string, ekm []byte, role byte, nonce []byte) []byte {
	k := hmac.New(sha256.New, []byte(code))
	k.Write(ekm)
	key := k.Sum(nil)
	m := hmac.New(sha256.New, key)
	m.Write([]byte{1, role})
	m.Write(nonce)
	out := make([]byte, 0, authMsgLen)
	out = append(out, 1, role)
	out = append(out, nonce...)
	return append(out, m.Sum(nil)...)
}

func randNonce() []byte {
	b := make([]byte, 16)
	_, _ = rand.Read(b)
	return b
}

func roleByte(r string) byte {
	switch r {
	case "S":
		return roleSenderB
	case "R":
		return roleRecvB
	}
	return 3
}

// ---- QUIC plumbing ------------------------------------------------------------------------------

type qListener struct {
	udp *net.UDPConn
	lt  *transferquic.QUICTransport
}

func newQListener() (*qListener, error) {
	udp, err := net.ListenUDP("udp", &net.UDPAddr{IP: net.IPv4(127, 0, 0, 1)})
	if err != nil {
		return nil, err
	}
	ln, err := quictransport.ListenWithConfig(context.Background(), udp, authQuiet, quictransport.DefaultServerQUICConfig())
	if err != nil {
		udp.Close()
		return nil, err
	}
	return &qListener{udp: udp, lt: transferquic.NewListener(ln, authQuiet)}, nil
}

func (l *qListener) Close() { l.lt.Close(); l.udp.Close() }

// connect dials the listener; returns (dialer side, accepted side, cleanup)
func (l *qListener) connect() (transfer.Conn, transfer.Conn, func(), error) {
	ctx, cancel := context.WithTimeout(context.Background(), 10*time.Second)
	defer cancel()
	cudp, err := net.ListenUDP("udp", &net.UDPAddr{IP: net.IPv4(127, 0, 0, 1)})
	if err != nil {
		return nil, nil, nil, err
	}
	type acc struct {
		c   transfer.Conn
		err error
	}
	ch := make(chan acc, 1)
	go func() {
		c, err := l.lt.Accept(ctx)
		ch <- acc{c, err}
	}()
	qc, err := quictransport.DialWithConfig(ctx, cudp, l.udp.LocalAddr(), authQuiet, quictransport.DefaultClientQUICConfig())
	if err != nil {
		cudp.Close()
		return nil, nil, nil, err
	}
	dc, err := transferquic.NewDialer(qc, authQuiet).Dial(ctx, "peer")
	if err != nil {
		cudp.Close()
		return nil, nil, nil, err
	}
	a := <-ch
	if a.err != nil {
		qc.CloseWithError(0, "")
		cudp.Close()
		return nil, nil, nil, a.err
	}
	return dc, a.c, func() { a.c.Close(); qc.CloseWithError(0, ""); cudp.Close() }, nil
}

// ---- alteration between two honest ends: a wrapper around the sender's connection ---------------

type tamperPlan struct {
	toR, toS func([]byte) ([]byte, bool) // returns the altered bytes and whether the rest is cut off
	tapS     []byte                      // what the sender wrote
	tapR     []byte                      // what the sender was to read
	mu       sync.Mutex
}

type tamperConn struct {
	transfer.Conn
	plan *tamperPlan
}

func (t *tamperConn) ExportKeyingMaterial(label string, c []byte, n int) ([]byte, error) {
	return t.Conn.(exporter).ExportKeyingMaterial(label, c, n)
}

func (t *tamperConn) OpenStream(ctx context.Context) (transfer.Stream, error) {
	s, err := t.Conn.OpenStream(ctx)
	if err != nil {
		return nil, err
	}
	return &tamperStream{Stream: s, plan: t.plan}, nil
}

type tamperStream struct {
	transfer.Stream
	plan    *tamperPlan
	inbuf   []byte
	inDone  bool
	inCut   bool
	readOff int
}

func (s *tamperStream) Write(p []byte) (int, error) {
	s.plan.mu.Lock()
	s.plan.tapS = append(s.plan.tapS, p...)
	s.plan.mu.Unlock()
	if s.plan.toR == nil {
		return s.Stream.Write(p)
	}
	q, cut := s.plan.toR(append([]byte{}, p...))
	if _, err := s.Stream.Write(q); err != nil {
		return 0, err
	}
	if cut {
		if cw, ok := s.Stream.(interface{ CloseWrite() error }); ok {
			// give the prefix a moment to leave, then abandon the rest of the message
			time.Sleep(20 * time.Millisecond)
			_ = cw.CloseWrite()
		}
	}
	return len(p), nil
}

func (s *tamperStream) Read(p []byte) (int, error) {
	if s.plan.toS == nil {
		n, err := s.Stream.Read(p)
		s.plan.mu.Lock()
		s.plan.tapR = append(s.plan.tapR, p[:n]...)
		s.plan.mu.Unlock()
		return n, err
	}
	if !s.inDone {
		buf := make([]byte, authMsgLen)
		n, err := io.ReadFull(s.Stream, buf)
		s.inDone = true
		if n > 0 {
			s.plan.mu.Lock()
			s.plan.tapR = append(s.plan.tapR, buf[:n]...)
			s.plan.mu.Unlock()
		}
		if err != nil && n < authMsgLen {
			return 0, err
		}
		s.inbuf, s.inCut = s.plan.toS(buf)
	}
	if s.readOff >= len(s.inbuf) {
		return 0, io.EOF
	}
	n := copy(p, s.inbuf[s.readOff:])
	s.readOff += n
	return n, nil
}

// ---- realising a spec message as bytes ----------------------------------------------------------

type authEnv struct {
	captured map[string][]byte        // src -> genuine bytes ("S", "R", "oldS", "oldR")
	advConn  map[string]transfer.Conn // "s1"/"s2" -> the attacker's end
	variant  int
}

func alterBytes(b []byte, cls string, variant int) ([]byte, bool) {
	out := append([]byte{}, b...)
	switch cls {
	case "ver":
		out[0] = []byte{2, 3, 0x81, 0}[variant%4]
	case "roleSwap":
		if out[1] == roleSenderB {
			out[1] = roleRecvB
		} else {
			out[1] = roleSenderB
		}
	case "roleBad":
		out[1] = []byte{3, 0, 0xff, 0x11}[variant%4]
	case "nonce":
		bit := variant % 128
		out[2+bit/8] ^= 1 << (bit % 8)
	case "mac":
		bit := (variant * 37) % 256
		out[18+bit/8] ^= 1 << (bit % 8)
	case "trunc":
		n := []int{49, 0, 1, 2, 17, 18, 25, 48}[variant%8]
		return out[:n], true
	}
	return out, false
}

func (e *authEnv) realise(m *authMsg) ([]byte, bool, error) {
	var base []byte
	if m.Src == "forge" {
		if len(m.Mk) != 2 {
			return nil, false, fmt.Errorf("bad key term")
		}
		c := e.advConn[m.Mk[1]]
		if c == nil {
			return nil, false, fmt.Errorf("attacker has no session %s", m.Mk[1])
		}
		ekm, err := ekmOf(c)
		if err != nil {
			return nil, false, err
		}
		base = makeProof(authCodes[m.Mk[0]], ekm, roleByte(m.Mr), randNonce())
	} else {
		base = e.captured[m.Src]
		if len(base) != authMsgLen {
			return nil, false, fmt.Errorf("message %q not captured (%d bytes)", m.Src, len(base))
		}
		base = append([]byte{}, base...)
	}
	cut := false
	if m.Ver != 1 {
		base, _ = alterBytes(base, "ver", e.variant)
	}
	if m.Role != m.Mr {
		if m.Role == "X" {
			base, _ = alterBytes(base, "roleBad", e.variant)
		} else {
			base, _ = alterBytes(base, "roleSwap", e.variant)
		}
	}
	if m.Nonce != m.Mn {
		base, _ = alterBytes(base, "nonce", e.variant)
	}
	if !m.Mok {
		base, _ = alterBytes(base, "mac", e.variant)
	}
	if !m.Full {
		base, cut = alterBytes(base, "trunc", e.variant)
	}
	return base, cut, nil
}

// ---- one script ---------------------------------------------------------------------------------

type authOutcome struct {
	ErrS, ErrR string
	RanS, RanR bool
	AccS, AccR bool
	Trouble    string
	Attack     string
	LeakS      int // bytes / streams the honest sender put on the connection beyond its 50-byte proof after failing
}

type authShared struct {
	lnR, lnA *qListener
	old      map[string][]byte // "S:c1", "R:c1", "R:c2": genuine messages of earlier honest sessions
}

func newAuthShared() (*authShared, error) {
	lnR, err := newQListener()
	if err != nil {
		return nil, err
	}
	lnA, err := newQListener()
	if err != nil {
		return nil, err
	}
	sh := &authShared{lnR: lnR, lnA: lnA, old: map[string][]byte{}}
	for _, c := range []string{"c1", "c2"} {
		d, a, cleanup, err := lnR.connect()
		if err != nil {
			return nil, err
		}
		plan := &tamperPlan{}
		tc := &tamperConn{Conn: d, plan: plan}
		errs := make(chan error, 2)
		ctx, cancel := context.WithTimeout(context.Background(), 5*time.Second)
		go func() { errs <- app.VerifAuthenticate(ctx, tc, authCodes[c], app.VerifRoleSender) }()
		go func() { errs <- app.VerifAuthenticate(ctx, a, authCodes[c], app.VerifRoleReceiver) }()
		e1, e2 := <-errs, <-errs
		cancel()
		cleanup()
		if e1 != nil || e2 != nil {
			return nil, fmt.Errorf("honest warm-up session failed: %v / %v", e1, e2)
		}
		if len(plan.tapS) != authMsgLen || len(plan.tapR) != authMsgLen {
			return nil, fmt.Errorf("warm-up tap sizes %d/%d", len(plan.tapS), len(plan.tapR))
		}
		sh.old["S:"+c] = plan.tapS
		sh.old["R:"+c] = plan.tapR
	}
	return sh, nil
}

func (sh *authShared) Close() { sh.lnR.Close(); sh.lnA.Close() }

func hasStep(row authRow, a string) bool {
	for _, s := range row.Hist {
		if s.A == a {
			return true
		}
	}
	return false
}

func errText(err error) string {
	if err == nil {
		return ""
	}
	return err.Error()
}

func describeAttack(row authRow) string {
	var parts []string
	for _, s := range row.Hist {
		switch s.A {
		case "AdvToR", "AdvToS":
			d := s.A + ":" + s.M.Src
			if s.M.Src == "forge" {
				d += "(" + s.M.Mk[0] + "," + s.M.Mk[1] + ",role=" + s.M.Mr + ")"
			}
			if s.M.Ver != 1 {
				d += "+ver"
			}
			if s.M.Role != s.M.Mr {
				d += "+role=" + s.M.Role
			}
			if s.M.Nonce != s.M.Mn {
				d += "+nonce"
			}
			if !s.M.Mok {
				d += "+mac"
			}
			if !s.M.Full {
				d += "+trunc"
			}
			parts = append(parts, d)
		case "Tamper":
			parts = append(parts, "Tamper:"+s.To+":"+s.Cls)
		case "STimeout", "RTimeout":
			parts = append(parts, s.A)
		}
	}
	return strings.Join(parts, " ")
}

// runAuthScript executes one behaviour of Auth.tla.  realSilence: a silent attacker really stays
// silent (the honest end runs into its caller's timeout, shortened) instead of closing.
func runAuthScript(sh *authShared, row authRow, variant int, realSilence bool) authOutcome {
	out := authOutcome{Attack: describeAttack(row)}
	env := &authEnv{captured: map[string][]byte{}, advConn: map[string]transfer.Conn{}, variant: variant}
	env.captured["oldS"] = sh.old["S:"+row.CS]
	env.captured["oldR"] = sh.old["R:"+row.CR]
	var cleanups []func()
	defer func() {
		for i := len(cleanups) - 1; i >= 0; i-- {
			cleanups[i]()
		}
	}()
	var sConn, rConn transfer.Conn
	plan := &tamperPlan{}
	switch row.Scen {
	case "direct":
		d, a, c, err := sh.lnR.connect()
		if err != nil {
			out.Trouble = err.Error()
			return out
		}
		cleanups = append(cleanups, c)
		for _, s := range row.Hist {
			if s.A == "Tamper" {
				cls := s.Cls
				f := func(b []byte) ([]byte, bool) { return alterBytes(b, cls, variant) }
				if s.To == "R" {
					plan.toR = f
				} else {
					plan.toS = f
				}
			}
		}
		sConn, rConn = &tamperConn{Conn: d, plan: plan}, a
	case "rogueDialer":
		d, a, c, err := sh.lnR.connect()
		if err != nil {
			out.Trouble = err.Error()
			return out
		}
		cleanups = append(cleanups, c)
		env.advConn["s1"], rConn = d, a
	case "rogueListener":
		d, a, c, err := sh.lnA.connect()
		if err != nil {
			out.Trouble = err.Error()
			return out
		}
		cleanups = append(cleanups, c)
		sConn, env.advConn["s1"] = d, a
	case "relay":
		d1, a1, c1, err := sh.lnA.connect()
		if err != nil {
			out.Trouble = err.Error()
			return out
		}
		cleanups = append(cleanups, c1)
		d2, a2, c2, err := sh.lnR.connect()
		if err != nil {
			out.Trouble = err.Error()
			return out
		}
		cleanups = append(cleanups, c2)
		sConn, env.advConn["s1"] = d1, a1
		env.advConn["s2"], rConn = d2, a2
	default:
		out.Trouble = "unknown scenario " + row.Scen
		return out
	}
	long := 4 * time.Second
	short := 350 * time.Millisecond
	toS, toR := long, long
	if realSilence {
		if hasStep(row, "STimeout") && row.Scen != "direct" {
			toS = short
		}
		if hasStep(row, "RTimeout") {
			toR = short
		}
	}
	sessR := "s1"
	if row.Scen == "relay" {
		sessR = "s2"
	}
	resS, resR := make(chan error, 1), make(chan error, 1)
	if rConn != nil {
		out.RanR = true
		go func() {
			ctx, cancel := context.WithTimeout(context.Background(), toR)
			defer cancel()
			resR <- app.VerifAuthenticate(ctx, rConn, authCodes[row.CR], app.VerifRoleReceiver)
		}()
	}
	var advS, advR transfer.Stream // the attacker's streams towards S and towards R
	ctxA, cancelA := context.WithTimeout(context.Background(), long)
	defer cancelA()
	var errS, errR error
	gotS, gotR := false, false
	waitS := func() {
		if !gotS && out.RanS {
			errS, gotS = <-resS, true
		}
	}
	waitR := func() {
		if !gotR && out.RanR {
			errR, gotR = <-resR, true
		}
	}
	for _, st := range row.Hist {
		switch st.A {
		case "SSend":
			out.RanS = true
			go func() {
				ctx, cancel := context.WithTimeout(context.Background(), toS)
				defer cancel()
				resS <- app.VerifAuthenticate(ctx, sConn, authCodes[row.CS], app.VerifRoleSender)
			}()
			if row.Scen != "direct" {
				s, err := env.advConn["s1"].AcceptStream(ctxA)
				if err != nil {
					out.Trouble = "attacker accept stream: " + err.Error()
					return out
				}
				advS = s
				buf := make([]byte, authMsgLen)
				if _, err := io.ReadFull(s, buf); err != nil {
					out.Trouble = "attacker read sender proof: " + err.Error()
					return out
				}
				env.captured["S"] = buf
			}
		case "AdvToR":
			b, cut, err := env.realise(st.M)
			if err != nil {
				out.Trouble = err.Error()
				return out
			}
			s, err := env.advConn[sessR].OpenStream(ctxA)
			if err != nil {
				out.Trouble = "attacker open stream: " + err.Error()
				return out
			}
			advR = s
			if len(b) > 0 {
				if _, err := s.Write(b); err != nil {
					out.Trouble = "attacker write: " + err.Error()
					return out
				}
			}
			if cut {
				if len(b) == 0 {
					// a stream only becomes visible with data or FIN
					_ = s.Close()
				} else {
					time.Sleep(10 * time.Millisecond)
					_ = s.Close()
				}
			}
		case "AdvToS":
			b, cut, err := env.realise(st.M)
			if err != nil {
				out.Trouble = err.Error()
				return out
			}
			if advS == nil {
				out.Trouble = "AdvToS before the sender's stream exists"
				return out
			}
			if len(b) > 0 {
				if _, err := advS.Write(b); err != nil {
					out.Trouble = "attacker write: " + err.Error()
					return out
				}
			}
			if cut {
				time.Sleep(10 * time.Millisecond)
				_ = advS.Close()
			}
		case "RRecv":
			if row.Scen != "direct" && st.Ok != nil && *st.Ok {
				// the spec expects a reply: capture it if the real receiver sends one
				buf := make([]byte, authMsgLen)
				if dl, ok := advR.(interface{ SetReadDeadline(time.Time) error }); ok {
					_ = dl.SetReadDeadline(time.Now().Add(2 * time.Second))
				}
				if _, err := io.ReadFull(advR, buf); err == nil {
					env.captured["R"] = buf
				}
			}
			waitR()
			if row.Scen != "direct" && env.captured["R"] == nil && errR == nil && advR != nil {
				// the real receiver accepted although the spec said it would not: pick the reply up anyway
				buf := make([]byte, authMsgLen)
				if dl, ok := advR.(interface{ SetReadDeadline(time.Time) error }); ok {
					_ = dl.SetReadDeadline(time.Now().Add(500 * time.Millisecond))
				}
				if _, err := io.ReadFull(advR, buf); err == nil {
					env.captured["R"] = buf
				}
			}
		case "RTimeout":
			if !realSilence {
				_ = env.advConn[sessR].Close()
			}
			waitR()
		case "SRecv":
			waitS()
		case "STimeout":
			if row.Scen != "direct" && !realSilence && advS != nil {
				_ = advS.Close()
			}
			waitS()
		case "Commit":
			waitS()
			waitR()
		}
	}
	waitS()
	waitR()
	out.ErrS, out.ErrR = errText(errS), errText(errR)
	out.AccS, out.AccR = out.RanS && errS == nil, out.RanR && errR == nil
	return out
}

func judgeAuth(res *Result, row authRow, o authOutcome, idx int) {
	altered := map[string]string{}
	for _, s := range row.Hist {
		if s.A == "Tamper" {
			altered[s.To] = s.Cls
		}
	}
	replay := map[string]any{"row": idx, "scen": row.Scen, "cS": row.CS, "cR": row.CR, "adv": row.Adv, "attack": o.Attack,
		"errS": o.ErrS, "errR": o.ErrR, "hist": row.Hist}
	flagged := false
	if o.AccS && !row.PeerHoldsS {
		res.AddViolation(map[string]any{"kind": "accepted_peer_without_code", "end": "sender", "scen": row.Scen, "attack": o.Attack}, replay)
		flagged = true
	}
	if o.AccR && !row.PeerHoldsR {
		res.AddViolation(map[string]any{"kind": "accepted_peer_without_code", "end": "receiver", "scen": row.Scen, "attack": o.Attack}, replay)
		flagged = true
	}
	if cls, ok := altered["S"]; ok && o.AccS {
		res.AddViolation(map[string]any{"kind": "altered_message_accepted", "end": "sender", "class": cls}, replay)
		flagged = true
	}
	if cls, ok := altered["R"]; ok && o.AccR {
		res.AddViolation(map[string]any{"kind": "altered_message_accepted", "end": "receiver", "class": cls}, replay)
		flagged = true
	}
	if row.Scen == "direct" && row.CS == row.CR && len(altered) == 0 && (!o.AccS || !o.AccR) {
		res.AddViolation(map[string]any{"kind": "honest_pair_rejected", "scen": row.Scen}, replay)
		flagged = true
	}
	if !flagged {
		if (o.RanS && o.AccS != (row.PcS == "ok")) || (o.RanR && o.AccR != (row.PcR == "ok")) {
			res.AddDrift(replay)
		}
	}
}

// AuthScripts replays the behaviours of Auth.tla.
func AuthScripts(args []string) {
	fs := flag.NewFlagSet("auth-scripts", flag.ExitOnError)
	edges := fs.String("edges", "", "ndjson emitted by Auth.tla")
	shard := fs.Int("shard", 0, "shard")
	shards := fs.Int("shards", 1, "shards")
	sample := fs.Int("sample", 1, "take every n-th relay script (all others are always run)")
	variants := fs.Int("variants", 1, "spellings per alteration class")
	silenceEvery := fs.Int("silence-every", 25, "every n-th script with a silent attacker really stays silent (timeout path)")
	seed := fs.Int("seed", 1, "seed")
	fs.Parse(args)
	rows, err := loadRows[authRow](*edges)
	if err != nil {
		fmt.Fprintln(os.Stderr, err)
		os.Exit(3)
	}
	sh, err := newAuthShared()
	if err != nil {
		fmt.Fprintln(os.Stderr, "auth setup:", err)
		os.Exit(3)
	}
	defer sh.Close()
	res := &Result{Extra: map[string]any{}}
	outcomes := map[string]int{}
	distinct := map[string]bool{}
	trouble := 0
	nRelay, nSilent := 0, 0
	for i, row := range rows {
		if i%*shards != *shard {
			continue
		}
		if row.Scen == "relay" {
			nRelay++
			if *sample > 1 && (nRelay+*seed)%*sample != 0 {
				continue
			}
		}
		for v := 0; v < *variants; v++ {
			silent := false
			if hasStep(row, "RTimeout") || (hasStep(row, "STimeout") && row.Scen != "direct") {
				nSilent++
				silent = nSilent%*silenceEvery == 0
			}
			o := runAuthScript(sh, row, v+*seed, silent)
			if o.Trouble != "" {
				trouble++
				if trouble <= 3 {
					fmt.Fprintln(os.Stderr, "trouble:", o.Trouble, o.Attack)
				}
				continue
			}
			res.Behaviours++
			res.Steps += len(row.Hist)
			k := fmt.Sprintf("%s S=%v R=%v", row.Scen, accText(o.RanS, o.AccS), accText(o.RanR, o.AccR))
			outcomes[k]++
			distinct[row.Scen+"|"+o.Attack+"|"+fmt.Sprint(row.CS == row.CR, row.PeerHoldsS, row.PeerHoldsR)] = true
			judgeAuth(res, row, o, i)
			res.AddSample(map[string]any{"scen": row.Scen, "attack": o.Attack, "S": accText(o.RanS, o.AccS), "R": accText(o.RanR, o.AccR)}, 6)
		}
	}
	res.Distinct = len(distinct)
	res.Extra["outcomes"] = outcomes
	res.Extra["trouble"] = trouble
	res.Print()
	if trouble > res.Behaviours/20+3 {
		os.Exit(3)
	}
}

func accText(ran, acc bool) string {
	if !ran {
		return "-"
	}
	if acc {
		return "accept"
	}
	return "reject"
}

// AuthBits: two honest ends with the same code on one TLS session; every single-bit flip and every
// truncation length of either authentication message must make the end that reads it reject.
func AuthBits(args []string) {
	fs := flag.NewFlagSet("auth-bits", flag.ExitOnError)
	shard := fs.Int("shard", 0, "shard")
	shards := fs.Int("shards", 1, "shards")
	sample := fs.Int("sample", 1, "take every n-th case")
	seed := fs.Int("seed", 1, "seed")
	fs.Parse(args)
	sh, err := newAuthShared()
	if err != nil {
		fmt.Fprintln(os.Stderr, "auth setup:", err)
		os.Exit(3)
	}
	defer sh.Close()
	res := &Result{Extra: map[string]any{}}
	type bcase struct {
		to   string
		bit  int // -1: truncation
		trim int
	}
	var cases []bcase
	for _, to := range []string{"R", "S"} {
		for b := 0; b < authMsgLen*8; b++ {
			cases = append(cases, bcase{to, b, 0})
		}
		for n := 0; n < authMsgLen; n++ {
			cases = append(cases, bcase{to, -1, n})
		}
	}
	cases = append(cases, bcase{"none", 0, 0})
	outcomes := map[string]int{}
	trouble := 0
	for i, c := range cases {
		if i%*shards != *shard {
			continue
		}
		// version and role bytes (16 bit positions per direction) are never sampled out
		if *sample > 1 && c.to != "none" && !(c.bit >= 0 && c.bit < 16) && ((i / *shards)+*seed)%*sample != 0 {
			continue
		}
		d, a, cleanup, err := sh.lnR.connect()
		if err != nil {
			trouble++
			continue
		}
		plan := &tamperPlan{}
		f := func(b []byte) ([]byte, bool) {
			if c.bit >= 0 {
				b[c.bit/8] ^= 1 << (c.bit % 8)
				return b, false
			}
			return b[:c.trim], true
		}
		switch c.to {
		case "R":
			plan.toR = f
		case "S":
			plan.toS = f
		}
		tc := &tamperConn{Conn: d, plan: plan}
		resS, resR := make(chan error, 1), make(chan error, 1)
		code := authCodes["c1"]
		go func() {
			ctx, cancel := context.WithTimeout(context.Background(), 1500*time.Millisecond)
			defer cancel()
			resS <- app.VerifAuthenticate(ctx, tc, code, app.VerifRoleSender)
		}()
		go func() {
			ctx, cancel := context.WithTimeout(context.Background(), 1500*time.Millisecond)
			defer cancel()
			resR <- app.VerifAuthenticate(ctx, a, code, app.VerifRoleReceiver)
		}()
		errS, errR := <-resS, <-resR
		cleanup()
		res.Behaviours++
		field := "none"
		if c.to != "none" {
			switch {
			case c.bit < 0:
				field = "truncate"
			case c.bit < 8:
				field = "version"
			case c.bit < 16:
				field = "role"
			case c.bit < 144:
				field = "nonce"
			default:
				field = "mac"
			}
		}
		outcomes[fmt.Sprintf("to=%s %s S=%s R=%s", c.to, field, accText(true, errS == nil), accText(true, errR == nil))]++
		replay := map[string]any{"to": c.to, "bit": c.bit, "truncate_to": c.trim, "errS": errText(errS), "errR": errText(errR)}
		switch c.to {
		case "none":
			if errS != nil || errR != nil {
				res.AddViolation(map[string]any{"kind": "honest_pair_rejected", "scen": "direct"}, replay)
			}
		case "R":
			if errR == nil {
				res.AddViolation(map[string]any{"kind": "altered_message_accepted", "end": "receiver", "class": field}, replay)
			}
			if errS == nil {
				res.AddViolation(map[string]any{"kind": "sender_accepted_although_receiver_rejected", "class": field}, replay)
			}
		case "S":
			if errS == nil {
				res.AddViolation(map[string]any{"kind": "altered_message_accepted", "end": "sender", "class": field}, replay)
			}
		}
	}
	res.Distinct = len(outcomes)
	res.Extra["outcomes"] = outcomes
	res.Extra["trouble"] = trouble
	res.Print()
	if trouble > 3 {
		os.Exit(3)
	}
}

// ---- AuthExtras.tla <-> real acceptExtraConns / dialExtraConns ------------------------------------

type extrasRow struct {
	Side   string   `json:"side"`
	Kinds  []string `json:"kinds"`
	Conns  []int    `json:"conns"`
	Failed []int    `json:"failed"`
}

// writeSplit delivers a message in two pieces with a pause in between (two STREAM frames on the wire).
func writeSplit(w io.Writer, msg []byte) {
	cut := 1 + len(msg)/3
	_, _ = w.Write(msg[:cut])
	time.Sleep(30 * time.Millisecond)
	_, _ = w.Write(msg[cut:])
}

// scripted peer on the dialing side (towards the real acceptExtraConns)
func extrasDialPeer(ctx context.Context, conn transfer.Conn, kind, code string) {
	s, err := conn.OpenStream(ctx)
	if err != nil {
		return
	}
	ekm, _ := ekmOf(conn)
	switch kind {
	case "honest":
		// (in two pieces: how a message is cut into frames is the network's business)
		writeSplit(s, makeProof(code, ekm, roleSenderB, randNonce()))
	case "wrongcode":
		_, _ = s.Write(makeProof(authCodes["guess"], ekm, roleSenderB, randNonce()))
	case "garbage":
		b := make([]byte, authMsgLen)
		_, _ = rand.Read(b)
		b[0], b[1] = 1, roleSenderB
		_, _ = s.Write(b)
	case "reflect":
		// a receiver-role proof under the right key material but the attacker does not hold the code
		_, _ = s.Write(makeProof(authCodes["guess"], ekm, roleRecvB, randNonce()))
	case "closes":
		_ = s.Close()
		return
	}
	buf := make([]byte, authMsgLen)
	if dl, ok := s.(interface{ SetReadDeadline(time.Time) error }); ok {
		_ = dl.SetReadDeadline(time.Now().Add(2 * time.Second))
	}
	_, _ = io.ReadFull(s, buf)
}

// scripted peer on the listening side (towards the real dialExtraConns)
func extrasListenPeer(ctx context.Context, conn transfer.Conn, kind, code string) {
	s, err := conn.AcceptStream(ctx)
	if err != nil {
		return
	}
	buf := make([]byte, authMsgLen)
	if _, err := io.ReadFull(s, buf); err != nil {
		return
	}
	ekm, _ := ekmOf(conn)
	switch kind {
	case "honest":
		writeSplit(s, makeProof(code, ekm, roleRecvB, randNonce()))
	case "wrongcode":
		_, _ = s.Write(makeProof(authCodes["guess"], ekm, roleRecvB, randNonce()))
	case "garbage":
		b := make([]byte, authMsgLen)
		_, _ = rand.Read(b)
		b[0], b[1] = 1, roleRecvB
		_, _ = s.Write(b)
	case "reflect":
		_, _ = s.Write(buf)
	case "closes":
	}
	_ = s.Close()
}

func runExtras(row extrasRow) (returned []int, trouble string) {
	for _, k := range row.Kinds {
		if k == "relay" {
			return runExtrasRelay(row)
		}
	}
	code := authCodes["c1"]
	n := len(row.Kinds)
	ctx, cancel := context.WithTimeout(context.Background(), 20*time.Second)
	defer cancel()
	ln, err := newQListener()
	if err != nil {
		return nil, err.Error()
	}
	defer ln.Close()
	if row.Side == "accept" {
		type ret struct {
			conns []transfer.Conn
			err   error
		}
		done := make(chan ret, 1)
		go func() {
			c, err := app.VerifAcceptExtraConns(ctx, code, ln.lt, n)
			done <- ret{c, err}
		}()
		locals := map[string]int{}
		var closers []func()
		stop := false
		for i := 0; i < n && !stop; i++ {
			cudp, err := net.ListenUDP("udp", &net.UDPAddr{IP: net.IPv4(127, 0, 0, 1)})
			if err != nil {
				return nil, err.Error()
			}
			qc, err := quictransport.DialWithConfig(ctx, cudp, ln.udp.LocalAddr(), authQuiet, quictransport.DefaultClientQUICConfig())
			if err != nil {
				cudp.Close()
				// the loop has stopped accepting (it broke out after a failure): nothing more to do
				break
			}
			closers = append(closers, func() { qc.CloseWithError(0, ""); cudp.Close() })
			dc, _ := transferquic.NewDialer(qc, authQuiet).Dial(ctx, "peer")
			locals[ekmKey(dc)] = i + 1
			extrasDialPeer(ctx, dc, row.Kinds[i], code)
			if row.Kinds[i] != "honest" {
				// the real loop stops at the first failure; later dials would only sit in the backlog
				stop = true
			}
		}
		var r ret
		select {
		case r = <-done:
		case <-time.After(15 * time.Second):
			return nil, "acceptExtraConns did not return"
		}
		for _, c := range r.conns {
			id, ok := locals[ekmKey(c)]
			if !ok {
				return nil, "returned connection from unknown peer " + c.RemoteAddr().String()
			}
			returned = append(returned, id)
			c.Close()
		}
		for _, c := range closers {
			c()
		}
		return returned, ""
	}
	// dial side: the rogue listener serves the i-th accepted connection as kind[i]
	accepted := map[string]int{}
	var mu sync.Mutex
	serving := 0 // connections the rogue listener is still answering (a counter under mu: the accept loop may take a
	// connection at the very moment the dial loop returns, which a WaitGroup does not allow)
	go func() {
		for i := 0; i < n; i++ {
			c, err := ln.lt.Accept(ctx)
			if err != nil {
				return
			}
			mu.Lock()
			accepted[ekmKey(c)] = i + 1
			serving++
			mu.Unlock()
			func(c transfer.Conn, kind string) {
				defer func() { mu.Lock(); serving--; mu.Unlock() }()
				extrasListenPeer(ctx, c, kind, code)
			}(c, row.Kinds[i])
		}
	}()
	conns, closeAll, _ := app.VerifDialExtraConns(ctx, code, ln.udp.LocalAddr().(*net.UDPAddr), n)
	for k := 0; k < 7500; k++ {
		mu.Lock()
		busy := serving
		mu.Unlock()
		if busy == 0 {
			break
		}
		time.Sleep(2 * time.Millisecond)
	}
	for _, c := range conns {
		la := ekmKey(c)
		mu.Lock()
		id, ok := accepted[la]
		mu.Unlock()
		// the loop may return a connection before the listener's Accept has come back with it
		for k := 0; k < 150 && !ok; k++ {
			time.Sleep(20 * time.Millisecond)
			mu.Lock()
			id, ok = accepted[la]
			mu.Unlock()
		}
		if !ok {
			closeAll()
			return nil, "returned connection not matched to a peer"
		}
		returned = append(returned, id)
	}
	closeAll()
	return returned, ""
}

// ---- an attacker on the path of one extra connection ------------------------------------------------

// relayDemux is the attacker's UDP socket in front of the receiver's address. Flows (by source address,
// in order of first appearance) listed in `terminate` are handed to the attacker's own QUIC stack; all
// other flows are forwarded raw to the honest receiver through one upstream socket each.
type relayDemux struct {
	net.PacketConn
	upstream  net.Addr
	terminate map[int]bool
	mu        sync.Mutex
	flows     map[string]int
	ups       map[string]*net.UDPConn
}

func (d *relayDemux) ReadFrom(p []byte) (int, net.Addr, error) {
	for {
		n, addr, err := d.PacketConn.ReadFrom(p)
		if err != nil {
			return n, addr, err
		}
		d.mu.Lock()
		idx, ok := d.flows[addr.String()]
		if !ok {
			idx = len(d.flows)
			d.flows[addr.String()] = idx
			if !d.terminate[idx] {
				if up, err := net.ListenUDP("udp", &net.UDPAddr{IP: net.IPv4(127, 0, 0, 1)}); err == nil {
					d.ups[addr.String()] = up
					go func(to net.Addr) {
						buf := make([]byte, 65536)
						for {
							m, _, err := up.ReadFrom(buf)
							if err != nil {
								return
							}
							_, _ = d.PacketConn.WriteTo(buf[:m], to)
						}
					}(addr)
				}
			}
		}
		up := d.ups[addr.String()]
		d.mu.Unlock()
		if d.terminate[idx] {
			return n, addr, nil
		}
		if up != nil {
			_, _ = up.WriteTo(p[:n], d.upstream)
		}
	}
}

func (d *relayDemux) closeUps() {
	d.mu.Lock()
	for _, u := range d.ups {
		u.Close()
	}
	d.mu.Unlock()
}

// runExtrasRelay: the real dialExtraConns loop against the real acceptExtraConns loop; the connections of
// kind "relay" are terminated by an attacker without the code who passes the authentication messages on
// verbatim between its two sessions. Returned: ids of the connections the judged side's loop kept.
func runExtrasRelay(row extrasRow) (returned []int, trouble string) {
	n := len(row.Kinds)
	// the receiver's loop stops at the first failure and the sender's later dials would then wait for their
	// timeouts: only rows whose relay is the last connection are run
	for i, k := range row.Kinds {
		if k == "relay" && i != n-1 {
			return nil, "skip"
		}
	}
	code := authCodes["c1"]
	ctx, cancel := context.WithTimeout(context.Background(), 40*time.Second)
	defer cancel()
	ln, err := newQListener()
	if err != nil {
		return nil, err.Error()
	}
	defer ln.Close()
	mUDP, err := net.ListenUDP("udp", &net.UDPAddr{IP: net.IPv4(127, 0, 0, 1)})
	if err != nil {
		return nil, err.Error()
	}
	defer mUDP.Close()
	demux := &relayDemux{PacketConn: mUDP, upstream: ln.udp.LocalAddr(), terminate: map[int]bool{n - 1: true}, flows: map[string]int{}, ups: map[string]*net.UDPConn{}}
	defer demux.closeUps()
	mTr := &quic.Transport{Conn: demux}
	defer mTr.Close()
	mLn, err := mTr.Listen(quictransport.ServerConfig(), quictransport.DefaultServerQUICConfig())
	if err != nil {
		return nil, err.Error()
	}
	defer mLn.Close()
	var ekmA, ekmB string
	var emu sync.Mutex
	attackerDone := make(chan struct{})
	go func() {
		defer close(attackerDone)
		a, err := mLn.Accept(ctx)
		if err != nil {
			return
		}
		defer a.CloseWithError(0, "")
		if st := a.ConnectionState(); true {
			if b, err := st.TLS.ExportKeyingMaterial(authLabelV, nil, 32); err == nil {
				emu.Lock()
				ekmA = fmt.Sprintf("%x", b)
				emu.Unlock()
			}
		}
		aStream, err := a.AcceptStream(ctx)
		if err != nil {
			return
		}
		msg1 := make([]byte, authMsgLen)
		if _, err := io.ReadFull(aStream, msg1); err != nil {
			return
		}
		bUDP, err := net.ListenUDP("udp", &net.UDPAddr{IP: net.IPv4(127, 0, 0, 1)})
		if err != nil {
			return
		}
		defer bUDP.Close()
		b, err := quictransport.DialWithConfig(ctx, bUDP, ln.udp.LocalAddr(), authQuiet, quictransport.DefaultClientQUICConfig())
		if err != nil {
			return
		}
		defer b.CloseWithError(0, "")
		if st := b.ConnectionState(); true {
			if x, err := st.TLS.ExportKeyingMaterial(authLabelV, nil, 32); err == nil {
				emu.Lock()
				ekmB = fmt.Sprintf("%x", x)
				emu.Unlock()
			}
		}
		bStream, err := b.OpenStreamSync(ctx)
		if err != nil {
			return
		}
		if _, err := bStream.Write(msg1); err != nil {
			return
		}
		msg2 := make([]byte, authMsgLen)
		_ = bStream.SetReadDeadline(time.Now().Add(12 * time.Second))
		if _, err := io.ReadFull(bStream, msg2); err != nil {
			return
		}
		_, _ = aStream.Write(msg2)
		// keep both sessions open until the loops have returned
		<-ctx.Done()
	}()
	type ret struct {
		conns []transfer.Conn
		err   error
	}
	accDone := make(chan ret, 1)
	go func() {
		c, err := app.VerifAcceptExtraConns(ctx, code, ln.lt, n)
		accDone <- ret{c, err}
	}()
	sConns, closeAll, _ := app.VerifDialExtraConns(ctx, code, mUDP.LocalAddr().(*net.UDPAddr), n)
	var r ret
	select {
	case r = <-accDone:
	case <-time.After(25 * time.Second):
		if closeAll != nil {
			closeAll()
		}
		return nil, "acceptExtraConns did not return (relay row)"
	}
	judged := sConns
	if row.Side == "accept" {
		judged = r.conns
	}
	emu.Lock()
	ea, eb := ekmA, ekmB
	emu.Unlock()
	honest := 0
	for _, c := range judged {
		k := ekmKey(c)
		if (ea != "" && k == ea) || (eb != "" && k == eb) {
			returned = append(returned, n) // the relayed connection
		} else {
			honest++
			returned = append(returned, honest)
		}
	}
	for _, c := range r.conns {
		c.Close()
	}
	if closeAll != nil {
		closeAll()
	}
	cancel()
	<-attackerDone
	return returned, ""
}

// ekmKey identifies a TLS session at either end: both ends export the same keying material.
func ekmKey(c transfer.Conn) string {
	b, err := ekmOf(c)
	if err != nil {
		return "?" + c.RemoteAddr().String()
	}
	return fmt.Sprintf("%x", b)
}

func AuthExtras(args []string) {
	fs := flag.NewFlagSet("auth-extras", flag.ExitOnError)
	edges := fs.String("edges", "", "ndjson emitted by AuthExtras.tla")
	shard := fs.Int("shard", 0, "shard")
	shards := fs.Int("shards", 1, "shards")
	fs.Parse(args)
	rows, err := loadRows[extrasRow](*edges)
	if err != nil {
		fmt.Fprintln(os.Stderr, err)
		os.Exit(3)
	}
	res := &Result{Extra: map[string]any{}}
	trouble := 0
	outcomes := map[string]int{}
	for i, row := range rows {
		if i%*shards != *shard {
			continue
		}
		got, tr := runExtras(row)
		if tr == "skip" {
			continue
		}
		if tr != "" {
			trouble++
			if trouble <= 3 {
				fmt.Fprintln(os.Stderr, "trouble:", tr, row.Side, row.Kinds)
			}
			continue
		}
		res.Behaviours++
		res.Steps += len(row.Kinds)
		replay := map[string]any{"side": row.Side, "kinds": row.Kinds, "returned": got, "spec": row.Conns}
		bad := false
		for _, id := range got {
			if row.Kinds[id-1] != "honest" {
				res.AddViolation(map[string]any{"kind": "unauthenticated_extra_connection_used", "side": row.Side, "peer": row.Kinds[id-1]}, replay)
				bad = true
			}
		}
		if !bad {
			want := map[int]bool{}
			for _, c := range row.Conns {
				want[c] = true
			}
			same := len(want) == len(got)
			for _, id := range got {
				if !want[id] {
					same = false
				}
			}
			missingHonest := false
			for c := range want {
				found := false
				for _, id := range got {
					if id == c {
						found = true
					}
				}
				if !found && row.Kinds[c-1] == "honest" {
					missingHonest = true
				}
			}
			if missingHonest {
				// the "if" half: a peer with the code on the same TLS session is accepted
				res.AddViolation(map[string]any{"kind": "honest_peer_with_the_code_rejected", "side": row.Side}, replay)
			} else if !same {
				res.AddDrift(replay)
			}
		}
		outcomes[fmt.Sprintf("%s returned=%d of %d", row.Side, len(got), len(row.Kinds))]++
		res.AddSample(replay, 6)
	}
	res.Distinct = res.Behaviours
	res.Extra["outcomes"] = outcomes
	res.Extra["trouble"] = trouble
	res.Print()
	if trouble > res.Behaviours/20+2 {
		os.Exit(3)
	}
}

var _ = errors.New
var _ = json.Marshal
