package drivers

import (
	"flag"
	"fmt"
	"os"
	"path/filepath"
	"time"
)

// ---- C07 at the application level: the root name in the signaling offer ---------------------------
//
// Before any transfer byte moves, `thru join` looks for resume metadata under
// <out>/<root name>/.thruflux_resumedata and - when the user chooses "overwrite" - removes it.  The
// root name comes from the peer's manifest offer.  A scripted host offers hostile root names to the
// real binary inside a jail; the user accepts and chooses overwrite; nothing outside the output
// directory may be created, changed or deleted.

func PathsBinary(args []string) {
	fs := flag.NewFlagSet("paths-binary", flag.ExitOnError)
	thruserv := fs.String("thruserv", "", "thruserv binary")
	thru := fs.String("thru", "", "thru binary (built with -tags verif)")
	shard := fs.Int("shard", 0, "shard")
	shards := fs.Int("shards", 1, "shards")
	edges := fs.String("edges", "", "rows emitted by TLC (Paths), optional")
	sample := fs.Int("sample", 1, "take every n-th enumerated case")
	fs.Parse(args)
	srv, err := startServer(*thruserv, nil, unlimited...)
	if err != nil {
		fmt.Fprintln(os.Stderr, err)
		os.Exit(3)
	}
	defer srv.stop()
	res := &Result{Extra: map[string]any{}}
	roots := []string{"..", "../victim", "../../outer", "a/../../victim", "victim/../../victim", "./../victim", "..\\victim", "selection",
		" ..", ".. ", "\t..", " .. "} // (the last four: ".." padded with white space - ordinary names unless somebody trims them)
	if *edges != "" {
		// the enumerated cases of Paths.tla (field "offer"), spelled with the same segment texts as the transfer-level driver
		rows, err := loadRows[pathRow](*edges)
		if err != nil {
			fmt.Fprintln(os.Stderr, err)
			os.Exit(3)
		}
		seen := map[string]bool{}
		k := 0
		for _, r := range rows {
			if r.Field != "offer" || !r.Reached || r.NoRootDir {
				continue
			}
			k++
			if *sample > 1 && k%*sample != 0 {
				continue
			}
			t := pathText(r, k)
			if !seen[t] {
				seen[t] = true
				roots = append(roots, t)
			}
		}
	}
	answers := []string{"y\no\n", "y\ny\n"}
	n := 0
	outcomes := map[string]int{}
	for _, root := range roots {
		for _, ans := range answers {
			n++
			if (n-1)%*shards != *shard {
				continue
			}
			jail, err := os.MkdirTemp("", "vh-pbin-")
			if err != nil {
				continue
			}
			func() {
				defer os.RemoveAll(jail)
				// jail/outer/.thruflux_resumedata, jail/l1/victim/..., jail/l1/out (the output directory)
				out := filepath.Join(jail, "l1", "out")
				for _, d := range []string{filepath.Join(jail, "outer"), filepath.Join(jail, "l1", "victim"), filepath.Join(jail, "l1"), jail, out} {
					rd := filepath.Join(d, ".thruflux_resumedata")
					os.MkdirAll(rd, 0o755)
					os.WriteFile(filepath.Join(rd, "0123456789abcdef.sbxmap"), []byte("SBM2 precious resume state of another download"), 0o644)
					os.WriteFile(filepath.Join(d, "precious.txt"), []byte("do not touch"), 0o644)
				}
				before := snapshotAround(jail, out)
				scriptedRootName, scriptedStdin = root, ans
				defer func() { scriptedRootName, scriptedStdin = "selection", "y\n" }()
				work := filepath.Join(jail, "l1", "work-is-out")
				_ = work
				h, err := startScriptedHostIn(srv.url, *thru, out)
				if err != nil {
					// the receiver may refuse the offer and exit: that is a fine outcome, judge the jail anyway
					outcomes["receiver refused / exited early"]++
				} else {
					time.Sleep(400 * time.Millisecond)
					h.close()
				}
				after := snapshotAround(jail, out)
				res.Behaviours++
				res.Distinct++
				if d := diffSnap(before, after); len(d) > 0 {
					if len(d) > 6 {
						d = d[:6]
					}
					res.AddViolation(map[string]any{"kind": "receiver_touched_outside_output_directory", "field": "offer.root_name", "level": "binary"},
						map[string]any{"root_name": root, "user_answers": ans, "changes": d})
					outcomes["touched outside"]++
				} else {
					outcomes["confined"]++
				}
			}()
		}
	}
	res.Extra["outcomes"] = outcomes
	res.Print()
}
