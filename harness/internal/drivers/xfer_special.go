package drivers

import (
	"encoding/json"
	"bytes"
	"context"
	"flag"
	"fmt"
	"os"
	"path/filepath"
	"strings"
	"sync"
	"time"

	"github.com/sheerbytes/sheerbytes/internal/app"
	"github.com/sheerbytes/sheerbytes/internal/transfer"
	"github.com/sheerbytes/sheerbytes/pkg/manifest"
	"github.com/sheerbytes/sheerbytes/verifharness/internal/vnet"
	"github.com/sheerbytes/sheerbytes/verifharness/internal/xfer"
)

// ---- C01: two input regions the configuration grid does not reach --------------------------------
//
//  (1) an output directory that is not empty: longer files (and non-empty files where the source is
//      empty), stray files inside directories of the tree, a file where a directory must be - the
//      delivered tree must still equal the source for everything the manifest lists;
//  (2) a single file beyond 4 GiB (chunk index x chunk size crosses 2^32) at the default and at a
//      small chunk size.  Source and destination are sparse; the destination holds the low chunks and
//      the tool's own resume metadata marks them complete (written with the real Sidecar API), so only
//      the chunks around and beyond the 4 GiB mark travel.

func XferSpecial(args []string) {
	fs := flag.NewFlagSet("xfer-special", flag.ExitOnError)
	seed := fs.Int64("seed", 1, "seed")
	shard := fs.Int("shard", 0, "shard")
	shards := fs.Int("shards", 1, "shards")
	large := fs.Bool("large", true, "include the files beyond 4 GiB")
	groups := fs.String("groups", "prepop,manychunks,manyfiles,large", "comma separated: prepop manychunks manyfiles large rechunk symlink onestream geometry largemeta largetorn resend")
	fs.Parse(args)
	installHooks()
	res := &Result{Extra: map[string]any{}}
	outcomes := map[string]int{}
	base, _ := os.MkdirTemp("", "xsp-")
	defer os.RemoveAll(base)
	n := 0
	on := func(g string) bool {
		for _, x := range strings.Split(*groups, ",") {
			if x == g {
				return true
			}
		}
		return false
	}
	mine := func() bool { n++; return (n-1)%*shards == *shard }
	if on("rechunk") {
		specialRechunk(res, outcomes, base, *seed, mine)
	}
	if on("dupflip") {
		specialDupFlip(res, outcomes, base, *seed, mine)
	}
	if on("lateinfo") {
		specialLateInfo(res, outcomes, base, *seed, mine)
	}
	if on("longlag") {
		specialLongLag(res, outcomes, base, *seed, mine)
	}
	if on("resend") {
		specialResend(res, outcomes, base, *seed, mine)
	}
	if on("multiselect") {
		specialSpellings(res, outcomes, base, *seed, mine)
	}
	if on("multiselect") {
		specialMultiSelect(res, outcomes, base, *seed, mine)
	}
	if on("symlink") {
		specialSymlink(res, outcomes, base, *seed, mine)
	}
	if on("onestream") {
		specialOneStream(res, outcomes, base, *seed, mine)
	}
	if on("geometry") {
		specialGeometry(res, outcomes, base, *seed, mine)
	}
	for _, mode := range []string{"largemeta", "largetorn"} {
		if on(mode) {
			for _, cs := range []uint32{transfer.DefaultChunkSize, 1 << 20} {
				if !mine() {
					continue
				}
				specialLarge(res, outcomes, filepath.Join(base, fmt.Sprintf("L%d", n)), cs, mode)
			}
		}
	}
	// (1) prepopulated output directories
	// (z.img / sub/z2.img hold runs of zeros that cover whole chunks: the holes of a disk image)
	tree := []xfer.FileSpec{{Rel: "a.bin", Size: 100}, {Rel: "sub/b.bin", Size: 64}, {Rel: "sub/empty.dat", Size: 0}, {Rel: "c.txt", Size: 5000}, {Rel: "sub/deep/d.bin", Size: 33},
		{Rel: "z.img", Size: 256, Zero: [][2]int64{{64, 128}, {192, 256}}}, {Rel: "sub/z2.img", Size: 3 * 4096, Zero: [][2]int64{{4096, 8192}}}}
	for _, chunk := range []uint32{32, 64, 4096} {
		if !on("prepop") {
			break
		}
		for _, resume := range []bool{false, true} {
			for _, noRoot := range []bool{false, true} {
				for _, streams := range []int{1, 2} {
					n++
					if (n-1)%*shards != *shard {
						continue
					}
					dir := filepath.Join(base, fmt.Sprintf("p%d", n))
					src := filepath.Join(dir, "src", "tree")
					if err := xfer.MakeTree(src, tree, *seed+int64(n)); err != nil {
						panic(err)
					}
					out := filepath.Join(dir, "out")
					root := out
					if !noRoot {
						root = filepath.Join(out, "tree")
					}
					// stale content of an earlier, different download
					stale := []xfer.FileSpec{{Rel: "a.bin", Size: 320}, {Rel: "sub/b.bin", Size: 64 + 8}, {Rel: "sub/empty.dat", Size: 26}, {Rel: "c.txt", Size: 5000}, {Rel: "sub/deep/d.bin", Size: 1},
						{Rel: "z.img", Size: []int64{256, 300}[n%2]}, {Rel: "sub/z2.img", Size: 3 * 4096}}
					if err := xfer.MakeTree(root, stale, *seed+1000+int64(n)); err != nil {
						panic(err)
					}
					cfg := xfer.Config{Transport: []string{"mock", "vquic"}[n%2], Conns: 1, Streams: streams, ChunkSize: chunk, Resume: resume, NoRootDir: noRoot,
						Seed: *seed + int64(n), Watchdog: 8 * time.Second}
					o, err := xfer.Run(cfg, src, out)
					res.Behaviours++
					res.Steps++
					replay := map[string]any{"scenario": "output directory holds stale longer / shorter files", "cfg": cfg, "outcome": o}
					switch {
					case err != nil:
						res.AddDrift(map[string]any{"why": err.Error()})
					case o.SendOK && o.RecvOK && !o.TreeEqual:
						res.AddViolation(map[string]any{"property": "C01", "kind": "both_succeed_tree_differs", "tree": "prepopulated-output"}, replay)
						outcomes["prepopulated: differs"]++
					case o.SendOK && o.RecvOK:
						outcomes["prepopulated: identical"]++
					default:
						outcomes["prepopulated: failed loudly"]++
					}
					if resume && err == nil {
						// whatever metadata is on disk afterwards marks only chunks that are in the file (C05)
						if m, _, serr := xfer.Scan(src, false); serr == nil {
							inspectDisk(res, src, root, m, chunk, replay)
						}
					}
				}
			}
		}
	}
	// (1b) one file of many chunks read by several workers at once (the workers share the open source file)
	for rep := 0; rep < 12 && on("manychunks"); rep++ {
		n++
		if (n-1)%*shards != *shard {
			continue
		}
		dir := filepath.Join(base, fmt.Sprintf("m%d", n))
		src := filepath.Join(dir, "src", "tree")
		if err := xfer.MakeTree(src, []xfer.FileSpec{{Rel: "many.bin", Size: 300*64 + 17}, {Rel: "other.bin", Size: 40 * 64}}, *seed+int64(n)); err != nil {
			panic(err)
		}
		cfg := xfer.Config{Transport: []string{"mock", "vquic"}[rep%2], Conns: 1 + rep%2, Streams: 4 + rep%3, ChunkSize: 64, Seed: *seed + int64(n), Watchdog: 10 * time.Second}
		o, err := xfer.Run(cfg, src, filepath.Join(dir, "out"))
		res.Behaviours++
		judgeHealthy(res, outcomes, "many chunks", "many-chunks-many-workers", cfg, o, err)
	}
	// (1c) many small files over several streams: FileBegin / FileEnd / FileDone records of different files
	// are written to the one control stream by different goroutines
	for rep := 0; rep < 10 && on("manyfiles"); rep++ {
		n++
		if (n-1)%*shards != *shard {
			continue
		}
		dir := filepath.Join(base, fmt.Sprintf("f%d", n))
		src := filepath.Join(dir, "src", "tree")
		var specs []xfer.FileSpec
		for k := 0; k < 90; k++ {
			specs = append(specs, xfer.FileSpec{Rel: fmt.Sprintf("d%d/f%03d.bin", k%7, k), Size: int64(1 + (k*37)%150)})
		}
		if err := xfer.MakeTree(src, specs, *seed+int64(n)); err != nil {
			panic(err)
		}
		cfg := xfer.Config{Transport: []string{"mock", "vquic"}[rep%2], Conns: 1 + rep%3, Streams: 3 + rep%4, ChunkSize: 64, Resume: rep%4 == 3, Seed: *seed + int64(n), Watchdog: 10 * time.Second}
		o, err := xfer.Run(cfg, src, filepath.Join(dir, "out"))
		res.Behaviours++
		judgeHealthy(res, outcomes, "many files", "many-small-files", cfg, o, err)
	}
	// (2) beyond 4 GiB
	if *large && on("large") {
		for _, cs := range []uint32{transfer.DefaultChunkSize, 1 << 20} {
			n++
			if (n-1)%*shards != *shard {
				continue
			}
			kind, detail := largeFileRun(filepath.Join(base, fmt.Sprintf("l%d", n)), cs)
			res.Behaviours++
			res.Distinct++
			outcomes["beyond 4 GiB: "+kind]++
			if kind == "differs" {
				res.AddViolation(map[string]any{"property": "C01", "kind": "both_succeed_tree_differs", "tree": "file-beyond-4GiB"}, detail)
			} else if kind == "trouble" {
				res.AddDrift(detail)
			} else if kind == "failed loudly" {
				// nothing is wrong with the peers or the network: the transfer has to complete (C03)
				res.AddViolation(map[string]any{"property": "C03", "kind": "healthy_transfer_failed", "tree": "file-beyond-4GiB"}, detail)
			}
		}
	}
	res.Extra["outcomes"] = outcomes
	res.Print()
}

// judgeHealthy applies C01 (identical tree after success) and C03 (a healthy transfer completes) to one run.
func judgeHealthy(res *Result, outcomes map[string]int, label, tree string, cfg xfer.Config, o xfer.Outcome, err error) {
	replay := map[string]any{"scenario": label, "cfg": cfg, "outcome": o}
	switch {
	case err != nil:
		res.AddDrift(map[string]any{"why": err.Error()})
	case o.Hung:
		res.AddViolation(map[string]any{"property": "C03", "kind": "hang", "tree": tree}, replay)
		outcomes[label+": hung"]++
	case o.SendOK && o.RecvOK && !o.TreeEqual:
		res.AddViolation(map[string]any{"property": "C01", "kind": "both_succeed_tree_differs", "tree": tree}, replay)
		outcomes[label+": differs"]++
	case o.SendOK && o.RecvOK:
		outcomes[label+": identical"]++
	default:
		res.AddViolation(map[string]any{"property": "C03", "kind": "healthy_transfer_failed", "tree": tree, "sendErr": trunc(o.SendErr), "recvErr": trunc(o.RecvErr)}, replay)
		outcomes[label+": failed"]++
	}
}

func largeFileRun(dir string, chunkSize uint32) (string, map[string]any) {
	return largeFileRunMode(dir, chunkSize, "")
}

// largeFileRunMode: mode "" as described above; "largetorn": the metadata marks everything up to and including the first chunk
// that starts at the 4 GiB mark, and that chunk is torn on disk (C06: detected by hash and repaired);
// with every mode the metadata left on disk is compared with the file (detail["metadata_claims_wrongly"]).
func largeFileRunMode(dir string, chunkSize uint32, mode string) (string, map[string]any) {
	detail := map[string]any{"chunk_size": chunkSize, "mode": mode}
	srcDir := filepath.Join(dir, "big")
	outDir := filepath.Join(dir, "out")
	if err := os.MkdirAll(srcDir, 0o755); err != nil {
		return "trouble", map[string]any{"why": err.Error()}
	}
	done := uint32((int64(1)<<32)/int64(chunkSize)) - 1 // chunks wholly below the 4 GiB mark, minus one
	const tailLen = 1000
	fileSize := int64(done+3)*int64(chunkSize) + tailLen
	total := done + 4
	detail["file_size"], detail["chunks"], detail["chunks_marked_complete"] = fileSize, total, done
	pattern := func(n int, seed byte) []byte {
		b := make([]byte, n)
		for i := range b {
			b[i] = seed + byte(i*13) + byte(i>>8)
		}
		return b
	}
	type region struct {
		off  int64
		data []byte
	}
	head := region{0, pattern(int(chunkSize), 0x11)}
	mid := region{int64(done/2) * int64(chunkSize), pattern(4096, 0x77)}
	var tail []region
	for k := uint32(0); k < 3; k++ {
		tail = append(tail, region{int64(done+k) * int64(chunkSize), pattern(int(chunkSize), 0xA0+byte(k))})
	}
	tail = append(tail, region{int64(done+3) * int64(chunkSize), pattern(tailLen, 0x3C)})
	writeSparse := func(path string, regions ...region) error {
		f, err := os.OpenFile(path, os.O_RDWR|os.O_CREATE, 0o644)
		if err != nil {
			return err
		}
		defer f.Close()
		if err := f.Truncate(fileSize); err != nil {
			return err
		}
		for _, r := range regions {
			if _, err := f.WriteAt(r.data, r.off); err != nil {
				return err
			}
		}
		return nil
	}
	srcPath := filepath.Join(srcDir, "big.img")
	if err := writeSparse(srcPath, append([]region{head, mid}, tail...)...); err != nil {
		return "trouble", map[string]any{"why": "cannot create a sparse file: " + err.Error()}
	}
	m, err := manifest.Scan(srcDir)
	if err != nil {
		return "trouble", map[string]any{"why": err.Error()}
	}
	var item manifest.FileItem
	for _, it := range m.Items {
		if !it.IsDir {
			item = it
		}
	}
	destRoot := filepath.Join(outDir, m.Root)
	if err := os.MkdirAll(destRoot, 0o755); err != nil {
		return "trouble", map[string]any{"why": err.Error()}
	}
	dstPath := filepath.Join(destRoot, "big.img")
	marked := done
	dstRegions := []region{head, mid}
	if mode == "largetorn" {
		marked = done + 2
		torn := region{tail[1].off, append([]byte(nil), tail[1].data...)}
		for i := len(torn.data) / 2; i < len(torn.data); i++ {
			torn.data[i] = 0xEE
		}
		dstRegions = append(dstRegions, tail[0], torn)
		detail["torn_chunk"], detail["torn_chunk_offset"] = done+1, torn.off
	}
	if err := writeSparse(dstPath, dstRegions...); err != nil {
		return "trouble", map[string]any{"why": err.Error()}
	}
	sc, err := transfer.CreateSidecar(transfer.SidecarPath(outDir, m.Root, transfer.VerifSidecarID(item)), item.ID, item.Size, chunkSize)
	if err != nil {
		return "trouble", map[string]any{"why": "sidecar: " + err.Error()}
	}
	if sc.TotalChunks != total {
		return "trouble", map[string]any{"why": fmt.Sprintf("sidecar has %d chunks, expected %d", sc.TotalChunks, total)}
	}
	for i := uint32(0); i < marked; i++ {
		sc.MarkComplete(i)
	}
	detail["chunks_marked_complete"] = marked
	if err := sc.Flush(); err != nil {
		return "trouble", map[string]any{"why": err.Error()}
	}
	p := vnet.NewPair(vnet.Options{Mock: true})
	defer p.Shutdown()
	ctx, cancel := context.WithTimeout(context.Background(), 90*time.Second)
	defer cancel()
	recvErr := make(chan error, 1)
	go func() {
		_, err := transfer.RecvManifestMultiStream(ctx, p.End(vnet.B), outDir, transfer.Options{ParallelFiles: 2, Resume: true, ResumeVerify: "last"})
		recvErr <- err
	}()
	sendErr := transfer.SendManifestMultiStream(ctx, p.End(vnet.A), srcDir, m, transfer.Options{ChunkSize: chunkSize, ParallelFiles: 2, Resume: true,
		ResumeTimeout: 20 * time.Second, ResumeVerify: "last", HashAlg: "crc32c"})
	rerr := <-recvErr
	detail["send_err"], detail["recv_err"] = errText(sendErr), errText(rerr)
	if sendErr != nil || rerr != nil {
		return "failed loudly", detail
	}
	st, err := os.Stat(dstPath)
	if err != nil || st.Size() != fileSize {
		detail["delivered_size"] = st.Size()
		return "differs", detail
	}
	src, _ := os.Open(srcPath)
	defer src.Close()
	dst, _ := os.Open(dstPath)
	defer dst.Close()
	var bad []string
	check := func(name string, off int64, n int) {
		want, got := make([]byte, n), make([]byte, n)
		src.ReadAt(want, off)
		dst.ReadAt(got, off)
		if !bytes.Equal(want, got) {
			bad = append(bad, fmt.Sprintf("%s at offset %d", name, off))
		}
	}
	check("chunk 0", 0, int(chunkSize))
	check("chunk 1", int64(chunkSize), int(chunkSize))
	check("middle", mid.off, len(mid.data))
	for k, r := range tail {
		check(fmt.Sprintf("chunk done+%d", k), r.off, len(r.data))
	}
	check("around 2^32", int64(1)<<32-4096, 8192)
	// the metadata left on disk against the file: chunks it marks, among those whose content is known
	if lsc, lerr := transfer.LoadSidecar(transfer.SidecarPath(outDir, m.Root, transfer.VerifSidecarID(item))); lerr == nil && lsc.ChunkSize == chunkSize {
		isSet := map[int]bool{}
		for _, k := range transfer.VerifSidecarBits(lsc) {
			isSet[k] = true
		}
		var wrong []int
		for _, k := range []uint32{0, 1, done, done + 1, done + 2, done + 3} {
			if !isSet[int(k)] {
				continue
			}
			ln := int(chunkSize)
			if k == done+3 {
				ln = tailLen
			}
			want, got := make([]byte, ln), make([]byte, ln)
			src.ReadAt(want, int64(k)*int64(chunkSize))
			dst.ReadAt(got, int64(k)*int64(chunkSize))
			if !bytes.Equal(want, got) {
				wrong = append(wrong, int(k))
			}
		}
		if len(wrong) > 0 {
			detail["metadata_claims_wrongly"] = wrong
		}
	}
	if len(bad) > 0 {
		detail["regions_that_differ"] = bad
		return "differs", detail
	}
	return "identical", detail
}


// ---- more input regions outside the grid ---------------------------------------------------------

// specialRechunk: the output directory holds the leftovers of an interrupted attempt that used ANOTHER
// chunk size (the host was restarted with a different --chunk-size): a partly written file and resume
// metadata (written with the real Sidecar API) whose bitmap has holes, as several data streams leave
// it.  Pairs with equal and with different chunk counts.  Judged for three properties:
//   C01  both sides report success => identical tree
//   C05  whatever metadata is on disk afterwards marks only chunks whose bytes (in the metadata's own
//        geometry) equal the source
//   C19  metadata the resumed transfer works with has the chunk size / count of that transfer
func specialRechunk(res *Result, outcomes map[string]int, base string, seed int64, mine func() bool) {
	const size = 1000
	pairs := [][2]uint32{{400, 450}, {450, 400}, {150, 200}, {200, 150}, {64, 70}, {100, 1000}, {1000, 100}, {334, 500}, {500, 334}}
	for pi, pr := range pairs {
		for _, streams := range []int{1, 2} {
			for _, tail := range []uint32{0, 1} {
				if !mine() {
					continue
				}
				a, b := pr[0], pr[1]
				dir := filepath.Join(base, fmt.Sprintf("r%d_%d_%d", pi, streams, tail))
				src := filepath.Join(dir, "src", "tree")
				if err := xfer.MakeTree(src, []xfer.FileSpec{{Rel: "e.bin", Size: size}, {Rel: "small.bin", Size: 10}}, seed+int64(pi)); err != nil {
					panic(err)
				}
				out := filepath.Join(dir, "out")
				os.MkdirAll(out, 0o755)
				m, _, _ := xfer.Scan(src, false)
				var item manifest.FileItem
				for _, it := range m.Items {
					if it.RelPath == "e.bin" {
						item = it
					}
				}
				srcBytes, _ := os.ReadFile(filepath.Join(src, "e.bin"))
				// the earlier attempt (chunk size a): every chunk but the second and the last one made it
				totalA := uint32((size + int64(a) - 1) / int64(a))
				partial := make([]byte, size)
				sp := transfer.SidecarPath(out, "", transfer.VerifSidecarID(item))
				sc, err := transfer.CreateSidecar(sp, item.ID, item.Size, a)
				if err != nil {
					res.AddDrift(map[string]any{"why": "sidecar: " + err.Error()})
					continue
				}
				var marked []uint32
				for k := uint32(0); k < totalA; k++ {
					if (k == 1 && totalA >= 2) || (k == totalA-1 && totalA > 3) {
						continue
					}
					lo, hi := int(k)*int(a), int(k+1)*int(a)
					if hi > size {
						hi = size
					}
					copy(partial[lo:hi], srcBytes[lo:hi])
					sc.MarkComplete(k)
					marked = append(marked, k)
				}
				sc.Flush()
				os.WriteFile(filepath.Join(out, "e.bin"), partial, 0o644)
				var hmu sync.Mutex
				began := false
				extraHook = func(name string, x, y uint64, s string) {
					if name == "recv.filebegin" {
						hmu.Lock()
						began = true
						hmu.Unlock()
					}
				}
				cfg := xfer.Config{Transport: []string{"mock", "vquic"}[pi%2], Conns: 1, Streams: streams, ChunkSize: b, Resume: true, NoRootDir: true, VerifyTail: tail,
					Seed: seed + int64(pi), Watchdog: 8 * time.Second}
				o, err := xfer.Run(cfg, src, out)
				extraHook = nil
				res.Behaviours++
				res.Steps++
				res.Distinct++
				replay := map[string]any{"scenario": "leftovers of an attempt with another chunk size", "earlier_chunk_size": a, "earlier_marked": marked, "cfg": cfg, "outcome": o}
				label := "rechunk"
				if totalA == uint32((size+int64(b)-1)/int64(b)) {
					label = "rechunk (equal chunk count)"
				}
				switch {
				case err != nil:
					res.AddDrift(map[string]any{"why": err.Error()})
					continue
				case o.Hung:
					outcomes[label+": hung"]++
					res.AddViolation(map[string]any{"property": "C03", "kind": "hang", "tree": "stale-geometry"}, replay)
				case o.SendOK && o.RecvOK && !o.TreeEqual:
					outcomes[label+": differs"]++
					res.AddViolation(map[string]any{"property": "C01", "kind": "both_succeed_tree_differs", "tree": "stale-geometry"}, replay)
				case o.SendOK && o.RecvOK:
					outcomes[label+": identical"]++
				default:
					outcomes[label+": failed loudly"]++
				}
				// the metadata now on disk
				if lsc, lerr := transfer.LoadSidecar(sp); lerr == nil {
					got, _ := os.ReadFile(filepath.Join(out, "e.bin"))
					var wrong []int
					for _, k := range transfer.VerifSidecarBits(lsc) {
						lo, hi := k*int(lsc.ChunkSize), (k+1)*int(lsc.ChunkSize)
						if hi > size {
							hi = size
						}
						if lo >= size || hi > len(got) || !bytes.Equal(got[lo:hi], srcBytes[lo:hi]) {
							wrong = append(wrong, k)
						}
					}
					if len(wrong) > 0 && lsc.FileID == item.ID && lsc.FileSize == item.Size {
						replay["metadata"] = map[string]any{"chunk_size": lsc.ChunkSize, "total": lsc.TotalChunks, "claims_wrongly": wrong}
						res.AddViolation(map[string]any{"property": "C05", "kind": "metadata_claims_chunk_not_in_file", "tree": "stale-geometry"}, replay)
					}
					hmu.Lock()
					b0 := began
					hmu.Unlock()
					wantTotal := uint32((size + int64(b) - 1) / int64(b))
					if b0 && (lsc.ChunkSize != b || lsc.TotalChunks != wantTotal) {
						replay["metadata_geometry"] = map[string]any{"chunk_size": lsc.ChunkSize, "total": lsc.TotalChunks, "transfer_chunk_size": b, "transfer_total": wantTotal}
						res.AddViolation(map[string]any{"property": "C19", "kind": "metadata_chunk_count_disagrees_with_the_transfer", "tree": "stale-geometry"}, replay)
					}
				}
			}
		}
	}
}

// specialSymlink: symbolic links to regular files inside the hosted tree are listed as files; what
// arrives must be the target's bytes at the target's length.
// specialResend: a host scans once and serves every receiver from that one manifest value; a transfer must leave it as
// it was (same entries, same order, same counts), and the second receiver must get the same tree as the first.
func specialResend(res *Result, outcomes map[string]int, base string, seed int64, mine func() bool) {
	tree := []xfer.FileSpec{{Rel: "docs/a.txt", Size: 300}, {Rel: "docs/deep/b.bin", Size: 70}, {Rel: "docs/empty-dir", Size: -1}, {Rel: "img/c.bin", Size: 5000},
		{Rel: "top.bin", Size: 10}, {Rel: "zero.dat", Size: 0}, {Rel: "lone-dir", Size: -1}}
	for ci, chunk := range []uint32{64, 4096} {
		for _, sp := range []bool{false, true} {
			for _, resume := range []bool{false, true} {
				if !mine() {
					continue
				}
				dir := filepath.Join(base, fmt.Sprintf("rs%d_%v_%v", ci, sp, resume))
				src := filepath.Join(dir, "src", "tree")
				if err := xfer.MakeTree(src, tree, seed+int64(ci)); err != nil {
					panic(err)
				}
				m, _, err := xfer.Scan(src, sp)
				if err != nil {
					res.AddDrift(map[string]any{"why": "scan: " + err.Error()})
					continue
				}
				before, _ := json.Marshal(m)
				cfg := xfer.Config{Transport: []string{"mock", "vquic"}[ci%2], Conns: 1, Streams: 2, ChunkSize: chunk, Resume: resume, ScanPaths: sp, NoRootDir: sp, Seed: seed, Watchdog: 8 * time.Second, Manifest: &m}
				for k := 1; k <= 2; k++ {
					o, err := xfer.Run(cfg, src, filepath.Join(dir, fmt.Sprintf("out%d", k)))
					res.Behaviours++
					res.Distinct++
					judgeHealthy(res, outcomes, fmt.Sprintf("receiver %d of the same manifest", k), "one-manifest-two-receivers", cfg, o, err)
					after, _ := json.Marshal(m)
					if string(after) != string(before) {
						outcomes["manifest changed by a transfer"]++
						res.AddViolation(map[string]any{"property": "C13", "kind": "manifest_changed_by_a_transfer", "after_receiver": k},
							map[string]any{"cfg": cfg, "manifest_before": json.RawMessage(before), "manifest_after": json.RawMessage(after)})
						break
					}
				}
			}
		}
	}
}

func specialSymlink(res *Result, outcomes map[string]int, base string, seed int64, mine func() bool) {
	trees := [][]xfer.FileSpec{
		{{Rel: "real/data.bin", Size: 5000}, {Rel: "current/latest.bin", Link: "../real/data.bin"}, {Rel: "top.lnk", Link: "real/data.bin"}, {Rel: "z.bin", Size: 70}},
		{{Rel: "real/data.bin", Size: 5000}, {Rel: "real/tiny", Size: 3}, {Rel: "current/latest.bin", Link: "../real/data.bin"},
			{Rel: "top.lnk", Link: "real/tiny"}, {Rel: "real/a-rather-long-link-name-for-a-tiny-target.lnk", Link: "tiny"}, {Rel: "z.bin", Size: 70}},
	}
	// entries that are not listed (a link that leads nowhere, a named pipe, a link to a directory) next to entries that
	// sort after them: files, a subtree, an empty directory, a zero-length file
	trees = append(trees, []xfer.FileSpec{{Rel: "mid/a-dangling.lnk", Link: "nowhere"}, {Rel: "mid/a-pipe", Fifo: true}, {Rel: "mid/b.bin", Size: 300}, {Rel: "mid/sub/c.bin", Size: 70},
		{Rel: "mid/zz-empty", Size: -1}, {Rel: "mid/zero.dat", Size: 0}, {Rel: "a-dirlink", Link: "mid"}, {Rel: "b-after.bin", Size: 10}, {Rel: "real/data.bin", Size: 900}, {Rel: "z-last.lnk", Link: "real/data.bin"}})
	for ci, chunk := range []uint32{64, 4096, 64, 4096, 64, 4096} {
		tree := trees[ci/2]
		for _, sp := range []bool{false, true} {
			for _, resume := range []bool{false, true} {
				if !mine() {
					continue
				}
				dir := filepath.Join(base, fmt.Sprintf("s%d_%v_%v", ci, sp, resume))
				src := filepath.Join(dir, "src", "tree")
				if err := xfer.MakeTree(src, tree, seed+int64(ci)); err != nil {
					res.AddDrift(map[string]any{"why": "cannot create symlinks: " + err.Error()})
					return
				}
				cfg := xfer.Config{Transport: []string{"mock", "vquic"}[ci%2], Conns: 1, Streams: 2, ChunkSize: chunk, Resume: resume, ScanPaths: sp, Seed: seed, Watchdog: 8 * time.Second}
				o, err := xfer.Run(cfg, src, filepath.Join(dir, "out"))
				res.Behaviours++
				res.Distinct++
				judgeHealthy(res, outcomes, "symlinks to files", "symlinks-to-files", cfg, o, err)
			}
		}
	}
}

// specialOneStream: one connection, one stream (thru host --total-streams 1) and files on both sides
// of the scheduler's small-file threshold (4 MiB).
func specialOneStream(res *Result, outcomes map[string]int, base string, seed int64, mine func() bool) {
	trees := [][]xfer.FileSpec{
		{{Rel: "big.bin", Size: 5<<20 + 17}},
		{{Rel: "s1", Size: 100}, {Rel: "big.bin", Size: 4<<20 + 1}, {Rel: "s2", Size: 0}, {Rel: "mid.bin", Size: 1 << 20}},
		{{Rel: "a/huge.bin", Size: 9 << 20}, {Rel: "a/huge2.bin", Size: 6 << 20}},
	}
	for ti, tree := range trees {
		for _, chunk := range []uint32{0, 1 << 20} {
			for _, resume := range []bool{false, true} {
				if !mine() {
					continue
				}
				dir := filepath.Join(base, fmt.Sprintf("o%d_%d_%v", ti, chunk, resume))
				src := filepath.Join(dir, "src", "tree")
				if err := xfer.MakeTree(src, tree, seed+int64(ti)); err != nil {
					panic(err)
				}
				cfg := xfer.Config{Transport: "mock", Conns: 1, Streams: 1, ChunkSize: chunk, Resume: resume, Seed: seed, Watchdog: 8 * time.Second}
				o, err := xfer.Run(cfg, src, filepath.Join(dir, "out"))
				res.Behaviours++
				res.Distinct++
				judgeHealthy(res, outcomes, "one stream", "one-stream-files-above-small-threshold", cfg, o, err)
			}
		}
	}
}

// specialGeometry (C19): real transfers over (file size, chunk size) pairs far outside the grid's small
// chunk sizes - chunks of several MiB up to 64 MiB, sizes around multiples of the chunk and around the
// 8 / 16 MiB marks.  The tiles the sender read and the offsets the receiver wrote are judged through
// their effect: both sides succeed and the bytes differ <=> the tiles did not cover the file exactly.
func specialGeometry(res *Result, outcomes map[string]int, base string, seed int64, mine func() bool) {
	type pair struct {
		size  int64
		chunk uint32
	}
	pairs := []pair{{20<<20 + 1234, 12 << 20}, {16 << 20, 16 << 20}, {16<<20 + 1, 16 << 20}, {24<<20 - 1, 8<<20 + 1}, {9 << 20, 64 << 20}, {33 << 20, 11 << 20},
		{3<<20 + 5, 1<<20 + 3}, {17 << 20, 8 << 20}, {12<<20 + 7, 0}, {1 << 20, 1<<20 - 1}}
	for pi, pr := range pairs {
		if !mine() {
			continue
		}
		dir := filepath.Join(base, fmt.Sprintf("g%d", pi))
		src := filepath.Join(dir, "src", "tree")
		if err := xfer.MakeTree(src, []xfer.FileSpec{{Rel: "g.bin", Size: pr.size}, {Rel: "other", Size: 9}}, seed+int64(pi)); err != nil {
			panic(err)
		}
		cfg := xfer.Config{Transport: "mock", Conns: 1, Streams: 1 + pi%3, ChunkSize: pr.chunk, Resume: pi%2 == 1, Seed: seed, Watchdog: 10 * time.Second}
		o, err := xfer.Run(cfg, src, filepath.Join(dir, "out"))
		res.Behaviours++
		res.Distinct++
		replay := map[string]any{"scenario": "large chunk sizes", "file_size": pr.size, "cfg": cfg, "outcome": o}
		if cfg.Resume && err == nil {
			// whatever metadata is on disk afterwards marks only chunks that are in the file (C05)
			if m, _, serr := xfer.Scan(src, false); serr == nil {
				inspectDisk(res, src, filepath.Join(dir, "out", filepath.Base(src)), m, pr.chunk, replay)
			}
		}
		switch {
		case err != nil:
			res.AddDrift(map[string]any{"why": err.Error()})
		case o.Hung:
			outcomes["large chunks: hung"]++
			res.AddViolation(map[string]any{"property": "C03", "kind": "hang", "tree": "large-chunk-sizes"}, replay)
		case o.SendOK && o.RecvOK && !o.TreeEqual:
			outcomes["large chunks: differs"]++
			res.AddViolation(map[string]any{"property": "C19", "kind": "chunks_read_and_written_do_not_tile_the_file", "tree": "large-chunk-sizes"}, replay)
			res.AddViolation(map[string]any{"property": "C01", "kind": "both_succeed_tree_differs", "tree": "large-chunk-sizes"}, replay)
		case o.SendOK && o.RecvOK:
			outcomes["large chunks: identical"]++
		default:
			outcomes["large chunks: failed"]++
			res.AddViolation(map[string]any{"property": "C03", "kind": "healthy_transfer_failed", "tree": "large-chunk-sizes", "sendErr": trunc(o.SendErr), "recvErr": trunc(o.RecvErr)}, replay)
		}
		os.RemoveAll(dir)
	}
}


func specialLarge(res *Result, outcomes map[string]int, dir string, cs uint32, mode string) {
	kind, detail := largeFileRunMode(dir, cs, map[string]string{"largemeta": "", "largetorn": "largetorn"}[mode])
	os.RemoveAll(dir)
	res.Behaviours++
	res.Distinct++
	outcomes[mode+": "+kind]++
	if kind == "trouble" {
		res.AddDrift(detail)
		return
	}
	if w, ok := detail["metadata_claims_wrongly"]; ok {
		res.AddViolation(map[string]any{"property": "C05", "kind": "metadata_claims_chunk_not_in_file", "tree": "file-beyond-4GiB"}, map[string]any{"detail": detail, "chunks": w})
	}
	if mode == "largetorn" && kind == "differs" {
		res.AddViolation(map[string]any{"property": "C06", "kind": "damaged_last_complete_chunk_not_repaired", "tree": "file-beyond-4GiB"}, detail)
	}
}

// specialMultiSelect (C01): several selections with the same base name, given in an order that differs
// from their lexical order (thru host zeta/photos alpha/photos), same relative files of equal sizes in
// each. The manifest comes from the real ScanPaths, the sender opens files through the application's
// real path resolver; what arrives under "<k>_<name>/" must be the content of the k-th selection.
func specialMultiSelect(res *Result, outcomes map[string]int, base string, seed int64, mine func() bool) {
	orders := [][]string{{"zeta/photos", "alpha/photos"}, {"alpha/photos", "zeta/photos"}, {"m/photos", "zeta/photos", "alpha/photos"}, {"zeta/photos", "solo", "alpha/photos"}}
	for oi, order := range orders {
		for _, noRoot := range []bool{false, true} {
			if !mine() {
				continue
			}
			dir := filepath.Join(base, fmt.Sprintf("ms%d_%v", oi, noRoot))
			var paths []string
			for si, rel := range order {
				p := filepath.Join(dir, "src", filepath.FromSlash(rel))
				if err := xfer.MakeTree(p, []xfer.FileSpec{{Rel: "img1.raw", Size: 300}, {Rel: "sub/img2.raw", Size: 90}, {Rel: "empty", Size: 0}}, seed+int64(100*oi+si)); err != nil {
					panic(err)
				}
				paths = append(paths, p)
			}
			m, err := manifest.ScanPaths(paths)
			if err != nil {
				res.AddDrift(map[string]any{"why": "ScanPaths: " + err.Error()})
				continue
			}
			resolve, err := app.VerifBuildPathResolver(paths)
			if err != nil {
				res.AddDrift(map[string]any{"why": "resolver: " + err.Error()})
				continue
			}
			out := filepath.Join(dir, "out")
			p := vnet.NewPair(vnet.Options{Mock: true})
			ctx, cancel := context.WithTimeout(context.Background(), 20*time.Second)
			recvErr := make(chan error, 1)
			go func() {
				_, err := transfer.RecvManifestMultiStream(ctx, p.End(vnet.B), out, transfer.Options{ParallelFiles: 2, Resume: true, NoRootDir: noRoot, HashAlg: "crc32c"})
				recvErr <- err
			}()
			sendErr := transfer.SendManifestMultiStream(ctx, p.End(vnet.A), ".", m, transfer.Options{ChunkSize: 64, ParallelFiles: 2, Resume: true, NoRootDir: noRoot, ResolveFilePath: resolve})
			rerr := <-recvErr
			cancel()
			p.Shutdown()
			res.Behaviours++
			res.Distinct++
			replay := map[string]any{"selections_in_order": order, "noRootDir": noRoot, "send_err": errText(sendErr), "recv_err": errText(rerr)}
			if sendErr != nil || rerr != nil {
				outcomes["several selections: failed"]++
				res.AddViolation(map[string]any{"property": "C03", "kind": "healthy_transfer_failed", "tree": "several-selections-same-base-name"}, replay)
				continue
			}
			root := out
			if !noRoot {
				root = filepath.Join(out, m.Root)
			}
			// how many selections share each base name, and the ordinal of each selection among them
			count := map[string]int{}
			for _, rel := range order {
				count[filepath.Base(rel)]++
			}
			seen := map[string]int{}
			var bad []string
			for si, rel := range order {
				b := filepath.Base(rel)
				seen[b]++
				top := b
				if count[b] > 1 {
					top = fmt.Sprintf("%d_%s", seen[b], b)
				}
				for _, f := range []string{"img1.raw", "sub/img2.raw", "empty"} {
					want, _ := os.ReadFile(filepath.Join(paths[si], filepath.FromSlash(f)))
					got, gerr := os.ReadFile(filepath.Join(root, top, filepath.FromSlash(f)))
					if gerr != nil || !bytes.Equal(want, got) {
						bad = append(bad, top+"/"+f)
					}
				}
			}
			if len(bad) > 0 {
				replay["files_that_are_not_their_selections_content"] = bad
				outcomes["several selections: differs"]++
				res.AddViolation(map[string]any{"property": "C01", "kind": "both_succeed_tree_differs", "tree": "several-selections-same-base-name"}, replay)
			} else {
				outcomes["several selections: identical"]++
			}
		}
	}
}


// specialSpellings (C03 / C01): one hosted directory, spelled on the command line the ways people spell the directory
// they are in or next to: ".", "./", "sub/..", "../proj", "proj/", an absolute path. The manifest comes from the real
// ScanPaths and the sender opens the files through the application's real path resolver, both given the spelling as
// typed; the process's working directory is where the user would be.
func specialSpellings(res *Result, outcomes map[string]int, base string, seed int64, mine func() bool) {
	type sp struct{ cwd, arg string }
	home, _ := os.Getwd()
	defer os.Chdir(home)
	for si, c := range []sp{{"proj", "."}, {"proj", "./"}, {"proj", "sub/.."}, {"proj/sub", ".."}, {"proj/sub", "../"}, {"", "proj"}, {"", "proj/"}, {"", "./proj"}, {"other", "../proj"}, {"", "@abs"}} {
		if !mine() {
			continue
		}
		dir := filepath.Join(base, fmt.Sprintf("spell%d", si))
		proj := filepath.Join(dir, "src", "proj")
		if err := xfer.MakeTree(proj, []xfer.FileSpec{{Rel: "a.txt", Size: 300}, {Rel: "sub/b.bin", Size: 90}, {Rel: "sub/empty", Size: 0}}, seed+int64(si)); err != nil {
			panic(err)
		}
		os.MkdirAll(filepath.Join(dir, "src", "other"), 0755)
		if err := os.Chdir(filepath.Join(dir, "src", filepath.FromSlash(c.cwd))); err != nil {
			res.AddDrift(map[string]any{"why": "chdir: " + err.Error()})
			continue
		}
		arg := c.arg
		if arg == "@abs" {
			arg = proj
		}
		paths := []string{arg}
		m, err := manifest.ScanPaths(paths)
		if err != nil {
			os.Chdir(home)
			res.AddDrift(map[string]any{"why": "ScanPaths: " + err.Error(), "arg": arg})
			continue
		}
		resolve, err := app.VerifBuildPathResolver(paths)
		if err != nil {
			os.Chdir(home)
			res.AddDrift(map[string]any{"why": "resolver: " + err.Error(), "arg": arg})
			continue
		}
		out := filepath.Join(dir, "out")
		p := vnet.NewPair(vnet.Options{Mock: true})
		ctx, cancel := context.WithTimeout(context.Background(), 20*time.Second)
		recvErr := make(chan error, 1)
		go func() {
			_, err := transfer.RecvManifestMultiStream(ctx, p.End(vnet.B), out, transfer.Options{ParallelFiles: 2, Resume: true, NoRootDir: true, HashAlg: "crc32c"})
			recvErr <- err
		}()
		sendErr := transfer.SendManifestMultiStream(ctx, p.End(vnet.A), ".", m, transfer.Options{ChunkSize: 64, ParallelFiles: 2, Resume: true, NoRootDir: true, ResolveFilePath: resolve})
		rerr := <-recvErr
		cancel()
		p.Shutdown()
		os.Chdir(home)
		res.Behaviours++
		res.Distinct++
		replay := map[string]any{"working_directory": "src/" + c.cwd, "path_as_typed": c.arg, "send_err": errText(sendErr), "recv_err": errText(rerr)}
		if sendErr != nil || rerr != nil {
			outcomes["spelled selection: failed"]++
			res.AddViolation(map[string]any{"property": "C03", "kind": "healthy_transfer_failed", "tree": "selection-spelled-relative-to-the-working-directory", "spelling": c.arg}, replay)
			continue
		}
		var bad []string
		for _, f := range []string{"a.txt", "sub/b.bin", "sub/empty"} {
			want, _ := os.ReadFile(filepath.Join(proj, filepath.FromSlash(f)))
			got, gerr := os.ReadFile(filepath.Join(out, "proj", filepath.FromSlash(f)))
			if gerr != nil || !bytes.Equal(want, got) {
				bad = append(bad, "proj/"+f)
			}
		}
		if len(bad) > 0 {
			replay["files_that_differ"] = bad
			outcomes["spelled selection: differs"]++
			res.AddViolation(map[string]any{"property": "C01", "kind": "both_succeed_tree_differs", "tree": "selection-spelled-relative-to-the-working-directory", "spelling": c.arg}, replay)
		} else {
			outcomes["spelled selection: identical"]++
		}
	}
}

// specialLongLag (C03): the data streams lag far behind the control stream - every FileEnd (and End) is
// handled seconds before the chunk frames of the file arrive (a slow link with multi-MiB chunks queued).
// Nothing is lost, so the transfer has to complete.
func specialLongLag(res *Result, outcomes map[string]int, base string, seed int64, mine func() bool) {
	for i, lag := range []time.Duration{6500 * time.Millisecond} {
		if !mine() {
			continue
		}
		dir := filepath.Join(base, fmt.Sprintf("lag%d", i))
		src := filepath.Join(dir, "src", "tree")
		if err := xfer.MakeTree(src, []xfer.FileSpec{{Rel: "a.bin", Size: 300}, {Rel: "d/b.bin", Size: 70}, {Rel: "d/empty", Size: 0}}, seed); err != nil {
			panic(err)
		}
		cfg := xfer.Config{Transport: "vlag", DataLag: lag, Conns: 1, Streams: 2, ChunkSize: 64, Resume: i%2 == 1, Seed: seed, Watchdog: lag + 6*time.Second}
		o, err := xfer.Run(cfg, src, filepath.Join(dir, "out"))
		res.Behaviours++
		res.Distinct++
		judgeHealthy(res, outcomes, fmt.Sprintf("data %v behind control", lag), "data-streams-seconds-behind-the-control-stream", cfg, o, err)
	}
}


// specialLateInfo (C04 / C06): a long round trip - the receiver's resume information reaches the sender
// only after the sender's 300 ms grace period, while the sender's data writes are slow (a thin uplink).
//   C04  the information still counts when it comes: the sender must not go on to send the finished
//        chunks wholesale (what it sent before the information arrived is the price of the grace period)
//   C06  the highest recorded chunk is torn on disk: it must still be detected by hash and repaired,
//        also when the sender's statistics callback (status line, log) is slow
func specialLateInfo(res *Result, outcomes map[string]int, base string, seed int64, mine func() bool) {
	const chunk, total, have = 64, 60, 54
	for _, mode := range []string{"plain", "torn", "torn-slowhash"} {
		torn, slowHash := mode != "plain", mode == "torn-slowhash"
		for _, streams := range []int{1, 2} {
			if !mine() {
				continue
			}
			dir := filepath.Join(base, fmt.Sprintf("late_%s_%d", mode, streams))
			src := filepath.Join(dir, "src", "tree")
			size := int64(total*chunk - 11)
			if err := xfer.MakeTree(src, []xfer.FileSpec{{Rel: "f.bin", Size: size}}, seed+int64(streams)); err != nil {
				panic(err)
			}
			out := filepath.Join(dir, "out")
			os.MkdirAll(out, 0o755)
			m, _, _ := xfer.Scan(src, false)
			var item manifest.FileItem
			for _, it := range m.Items {
				if it.RelPath == "f.bin" {
					item = it
				}
			}
			srcBytes, _ := os.ReadFile(filepath.Join(src, "f.bin"))
			data := make([]byte, size)
			copy(data[:have*chunk], srcBytes[:have*chunk])
			if torn {
				for i := (have-1)*chunk + chunk/2; i < have*chunk; i++ {
					data[i] = 0xEE
				}
			}
			os.WriteFile(filepath.Join(out, "f.bin"), data, 0o644)
			sc, err := transfer.CreateSidecar(transfer.SidecarPath(out, "", transfer.VerifSidecarID(item)), item.ID, item.Size, chunk)
			if err != nil {
				res.AddDrift(map[string]any{"why": err.Error()})
				continue
			}
			for k := uint32(0); k < have; k++ {
				sc.MarkComplete(k)
			}
			sc.Flush()
			key := transfer.VerifFileKey(item)
			var fmu sync.Mutex
			framed := map[int]int{}
			extraHook = func(name string, a, b uint64, s string) {
				if name == "send.chunk.framed" && a == key {
					fmu.Lock()
					framed[int(b)]++
					fmu.Unlock()
				}
				if slowHash && name == "recv.resume.hash" {
					// a slow disk: hashing the highest recorded chunk takes longer than the 2 s the receiver allows itself;
					// its report says "hash unknown"
					time.Sleep(2300 * time.Millisecond)
				}
			}
			cfg := xfer.Config{Transport: "vquic", Conns: 1, Streams: streams, ChunkSize: chunk, Resume: true, NoRootDir: true, Seed: seed,
				CtlBackLag: 450 * time.Millisecond, DataWriteDelay: 5 * time.Millisecond, Watchdog: 10 * time.Second}
			if torn {
				cfg.ResumeStatsDelay = 300 * time.Millisecond
			}
			if slowHash {
				cfg.CtlBackLag, cfg.DataWriteDelay, cfg.ResumeStatsDelay = 0, 70*time.Millisecond, 0
			}
			o, err := xfer.Run(cfg, src, out)
			extraHook = nil
			res.Behaviours++
			res.Distinct++
			fmu.Lock()
			again := 0
			for c := range framed {
				if c < have-1 {
					again++
				}
			}
			fmu.Unlock()
			replay := map[string]any{"scenario": "resume information arrives after the grace period", "chunks": total, "recorded_complete": have, "highest_recorded_chunk_torn": torn, "receiver_hash_timed_out": slowHash,
				"finished_chunks_sent_again": again, "cfg": cfg, "outcome": o}
			label := fmt.Sprintf("late resume information (%s)", mode)
			switch {
			case err != nil:
				res.AddDrift(map[string]any{"why": err.Error()})
			case o.Hung:
				outcomes[label+": hung"]++
				res.AddViolation(map[string]any{"property": "C03", "kind": "hang", "tree": "late-resume-information"}, replay)
			case !(o.SendOK && o.RecvOK):
				outcomes[label+": failed"]++
				res.AddViolation(map[string]any{"property": "C03", "kind": "healthy_transfer_failed", "tree": "late-resume-information", "sendErr": trunc(o.SendErr), "recvErr": trunc(o.RecvErr)}, replay)
			case !o.TreeEqual && torn:
				outcomes[label+": torn chunk not repaired"]++
				res.AddViolation(map[string]any{"property": "C06", "kind": "damaged_last_complete_chunk_not_repaired", "tree": "late-resume-information"}, replay)
			case !o.TreeEqual:
				outcomes[label+": differs"]++
				res.AddViolation(map[string]any{"property": "C01", "kind": "both_succeed_tree_differs", "tree": "late-resume-information"}, replay)
			case !torn && again*10 >= (have-1)*9:
				outcomes[label+": everything sent again"]++
				res.AddViolation(map[string]any{"property": "C04", "kind": "resume_information_ignored_finished_work_sent_again", "tree": "late-resume-information"}, replay)
			default:
				outcomes[fmt.Sprintf("%s: ok (%d of %d finished chunks sent before the information came)", label, again, have-1)]++
			}
		}
	}
}


// specialDupFlip (C05): a resumed transfer whose verification tail re-sends chunks the metadata already
// marks; the payload of such a duplicate is damaged in flight. Whatever the receiver does with the frame,
// the metadata on disk afterwards may only mark chunks whose bytes in the file are the source's.
func specialDupFlip(res *Result, outcomes map[string]int, base string, seed int64, mine func() bool) {
	const chunk, total, have = 64, 8, 5
	for _, tail := range []uint32{1, 2, 5} {
		for frame := 0; frame < 2; frame++ {
			if !mine() {
				continue
			}
			dir := filepath.Join(base, fmt.Sprintf("dup_%d_%d", tail, frame))
			src := filepath.Join(dir, "src", "tree")
			size := int64(total*chunk - 5)
			if err := xfer.MakeTree(src, []xfer.FileSpec{{Rel: "f.bin", Size: size}}, seed+int64(tail)); err != nil {
				panic(err)
			}
			out := filepath.Join(dir, "out")
			os.MkdirAll(out, 0o755)
			m, _, _ := xfer.Scan(src, false)
			var item manifest.FileItem
			for _, it := range m.Items {
				if it.RelPath == "f.bin" {
					item = it
				}
			}
			srcBytes, _ := os.ReadFile(filepath.Join(src, "f.bin"))
			data := make([]byte, size)
			copy(data[:have*chunk], srcBytes[:have*chunk])
			os.WriteFile(filepath.Join(out, "f.bin"), data, 0o644)
			sc, err := transfer.CreateSidecar(transfer.SidecarPath(out, "", transfer.VerifSidecarID(item)), item.ID, item.Size, chunk)
			if err != nil {
				res.AddDrift(map[string]any{"why": err.Error()})
				continue
			}
			for k := uint32(0); k < have; k++ {
				sc.MarkComplete(k)
			}
			sc.Flush()
			cfg := xfer.Config{Transport: "mock", Conns: 1, Streams: 1, ChunkSize: chunk, Resume: true, NoRootDir: true, VerifyTail: tail, Seed: seed, Watchdog: 8 * time.Second,
				Flip: &vnet.FlipSpec{Stream: 1, Dir: vnet.A, Part: "payload", Frame: frame, Offset: 3 + frame, Bit: 2}}
			o, err := xfer.Run(cfg, src, out)
			res.Behaviours++
			res.Distinct++
			if err != nil {
				res.AddDrift(map[string]any{"why": err.Error()})
				continue
			}
			replay := map[string]any{"scenario": "payload of a re-sent (already marked) chunk damaged in flight", "recorded_complete": have, "tail": tail, "damaged_frame": frame, "outcome": o}
			before := len(res.Violations)
			inspectDisk(res, src, out, m, chunk, replay)
			switch {
			case len(res.Violations) > before:
				outcomes["damaged duplicate: metadata marks a chunk that is not in the file"]++
			case o.SendOK && o.RecvOK && !o.TreeEqual:
				outcomes["damaged duplicate: silent wrong tree"]++
				res.AddViolation(map[string]any{"property": "C02", "kind": "receiver_reports_success_with_wrong_tree", "fault": "flip of a duplicate"}, replay)
			case o.SendOK && o.RecvOK:
				outcomes["damaged duplicate: not hit / repaired"]++
			default:
				outcomes["damaged duplicate: failed loudly, metadata sound"]++
			}
		}
	}
}
