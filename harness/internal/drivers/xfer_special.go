package drivers

import (
	"bytes"
	"context"
	"flag"
	"fmt"
	"os"
	"path/filepath"
	"time"

	"github.com/sheerbytes/sheerbytes/internal/transfer"
	"github.com/sheerbytes/sheerbytes/pkg/manifest"
	"github.com/sheerbytes/sheerbytes/verifharness/internal/vnet"
	"github.com/sheerbytes/sheerbytes/verifharness/internal/xfer"
)

// ---- C01: two input regions the configuration grid does not reach --------------------------------
//
//  (1) an output directory that is not empty: longer files (and non-empty files where the source is
//      empty), stray files inside directories of the tree, a file where a directory must be - the
//      delivered tree must still equal the source for everything the manifest lists;
//  (2) a single file beyond 4 GiB (chunk index x chunk size crosses 2^32) at the default and at a
//      small chunk size.  Source and destination are sparse; the destination holds the low chunks and
//      the tool's own resume metadata marks them complete (written with the real Sidecar API), so only
//      the chunks around and beyond the 4 GiB mark travel.

func XferSpecial(args []string) {
	fs := flag.NewFlagSet("xfer-special", flag.ExitOnError)
	seed := fs.Int64("seed", 1, "seed")
	shard := fs.Int("shard", 0, "shard")
	shards := fs.Int("shards", 1, "shards")
	large := fs.Bool("large", true, "include the files beyond 4 GiB")
	fs.Parse(args)
	res := &Result{Extra: map[string]any{}}
	outcomes := map[string]int{}
	base, _ := os.MkdirTemp("", "xsp-")
	defer os.RemoveAll(base)
	n := 0
	// (1) prepopulated output directories
	tree := []xfer.FileSpec{{Rel: "a.bin", Size: 100}, {Rel: "sub/b.bin", Size: 64}, {Rel: "sub/empty.dat", Size: 0}, {Rel: "c.txt", Size: 5000}, {Rel: "sub/deep/d.bin", Size: 33}}
	for _, chunk := range []uint32{32, 64, 4096} {
		for _, resume := range []bool{false, true} {
			for _, noRoot := range []bool{false, true} {
				for _, streams := range []int{1, 2} {
					n++
					if (n-1)%*shards != *shard {
						continue
					}
					dir := filepath.Join(base, fmt.Sprintf("p%d", n))
					src := filepath.Join(dir, "src", "tree")
					if err := xfer.MakeTree(src, tree, *seed+int64(n)); err != nil {
						panic(err)
					}
					out := filepath.Join(dir, "out")
					root := out
					if !noRoot {
						root = filepath.Join(out, "tree")
					}
					// stale content of an earlier, different download
					stale := []xfer.FileSpec{{Rel: "a.bin", Size: 320}, {Rel: "sub/b.bin", Size: 64 + 8}, {Rel: "sub/empty.dat", Size: 26}, {Rel: "c.txt", Size: 5000}, {Rel: "sub/deep/d.bin", Size: 1}}
					if err := xfer.MakeTree(root, stale, *seed+1000+int64(n)); err != nil {
						panic(err)
					}
					cfg := xfer.Config{Transport: []string{"mock", "vquic"}[n%2], Conns: 1, Streams: streams, ChunkSize: chunk, Resume: resume, NoRootDir: noRoot,
						Seed: *seed + int64(n), Watchdog: 8 * time.Second}
					o, err := xfer.Run(cfg, src, out)
					res.Behaviours++
					res.Steps++
					replay := map[string]any{"scenario": "output directory holds stale longer / shorter files", "cfg": cfg, "outcome": o}
					switch {
					case err != nil:
						res.AddDrift(map[string]any{"why": err.Error()})
					case o.SendOK && o.RecvOK && !o.TreeEqual:
						res.AddViolation(map[string]any{"property": "C01", "kind": "both_succeed_tree_differs", "tree": "prepopulated-output"}, replay)
						outcomes["prepopulated: differs"]++
					case o.SendOK && o.RecvOK:
						outcomes["prepopulated: identical"]++
					default:
						outcomes["prepopulated: failed loudly"]++
					}
				}
			}
		}
	}
	// (1b) one file of many chunks read by several workers at once (the workers share the open source file)
	for rep := 0; rep < 12; rep++ {
		n++
		if (n-1)%*shards != *shard {
			continue
		}
		dir := filepath.Join(base, fmt.Sprintf("m%d", n))
		src := filepath.Join(dir, "src", "tree")
		if err := xfer.MakeTree(src, []xfer.FileSpec{{Rel: "many.bin", Size: 300*64 + 17}, {Rel: "other.bin", Size: 40 * 64}}, *seed+int64(n)); err != nil {
			panic(err)
		}
		cfg := xfer.Config{Transport: []string{"mock", "vquic"}[rep%2], Conns: 1 + rep%2, Streams: 4 + rep%3, ChunkSize: 64, Seed: *seed + int64(n), Watchdog: 10 * time.Second}
		o, err := xfer.Run(cfg, src, filepath.Join(dir, "out"))
		res.Behaviours++
		judgeHealthy(res, outcomes, "many chunks", "many-chunks-many-workers", cfg, o, err)
	}
	// (1c) many small files over several streams: FileBegin / FileEnd / FileDone records of different files
	// are written to the one control stream by different goroutines
	for rep := 0; rep < 10; rep++ {
		n++
		if (n-1)%*shards != *shard {
			continue
		}
		dir := filepath.Join(base, fmt.Sprintf("f%d", n))
		src := filepath.Join(dir, "src", "tree")
		var specs []xfer.FileSpec
		for k := 0; k < 90; k++ {
			specs = append(specs, xfer.FileSpec{Rel: fmt.Sprintf("d%d/f%03d.bin", k%7, k), Size: int64(1 + (k*37)%150)})
		}
		if err := xfer.MakeTree(src, specs, *seed+int64(n)); err != nil {
			panic(err)
		}
		cfg := xfer.Config{Transport: []string{"mock", "vquic"}[rep%2], Conns: 1 + rep%3, Streams: 3 + rep%4, ChunkSize: 64, Resume: rep%4 == 3, Seed: *seed + int64(n), Watchdog: 10 * time.Second}
		o, err := xfer.Run(cfg, src, filepath.Join(dir, "out"))
		res.Behaviours++
		judgeHealthy(res, outcomes, "many files", "many-small-files", cfg, o, err)
	}
	// (2) beyond 4 GiB
	if *large {
		for _, cs := range []uint32{transfer.DefaultChunkSize, 1 << 20} {
			n++
			if (n-1)%*shards != *shard {
				continue
			}
			kind, detail := largeFileRun(filepath.Join(base, fmt.Sprintf("l%d", n)), cs)
			res.Behaviours++
			res.Distinct++
			outcomes["beyond 4 GiB: "+kind]++
			if kind == "differs" {
				res.AddViolation(map[string]any{"property": "C01", "kind": "both_succeed_tree_differs", "tree": "file-beyond-4GiB"}, detail)
			} else if kind == "trouble" {
				res.AddDrift(detail)
			}
		}
	}
	res.Extra["outcomes"] = outcomes
	res.Print()
}

// judgeHealthy applies C01 (identical tree after success) and C03 (a healthy transfer completes) to one run.
func judgeHealthy(res *Result, outcomes map[string]int, label, tree string, cfg xfer.Config, o xfer.Outcome, err error) {
	replay := map[string]any{"scenario": label, "cfg": cfg, "outcome": o}
	switch {
	case err != nil:
		res.AddDrift(map[string]any{"why": err.Error()})
	case o.Hung:
		res.AddViolation(map[string]any{"property": "C03", "kind": "hang", "tree": tree}, replay)
		outcomes[label+": hung"]++
	case o.SendOK && o.RecvOK && !o.TreeEqual:
		res.AddViolation(map[string]any{"property": "C01", "kind": "both_succeed_tree_differs", "tree": tree}, replay)
		outcomes[label+": differs"]++
	case o.SendOK && o.RecvOK:
		outcomes[label+": identical"]++
	default:
		res.AddViolation(map[string]any{"property": "C03", "kind": "healthy_transfer_failed", "tree": tree, "sendErr": trunc(o.SendErr), "recvErr": trunc(o.RecvErr)}, replay)
		outcomes[label+": failed"]++
	}
}

func largeFileRun(dir string, chunkSize uint32) (string, map[string]any) {
	detail := map[string]any{"chunk_size": chunkSize}
	srcDir := filepath.Join(dir, "big")
	outDir := filepath.Join(dir, "out")
	if err := os.MkdirAll(srcDir, 0o755); err != nil {
		return "trouble", map[string]any{"why": err.Error()}
	}
	done := uint32((int64(1)<<32)/int64(chunkSize)) - 1 // chunks wholly below the 4 GiB mark, minus one
	const tailLen = 1000
	fileSize := int64(done+3)*int64(chunkSize) + tailLen
	total := done + 4
	detail["file_size"], detail["chunks"], detail["chunks_marked_complete"] = fileSize, total, done
	pattern := func(n int, seed byte) []byte {
		b := make([]byte, n)
		for i := range b {
			b[i] = seed + byte(i*13) + byte(i>>8)
		}
		return b
	}
	type region struct {
		off  int64
		data []byte
	}
	head := region{0, pattern(int(chunkSize), 0x11)}
	mid := region{int64(done/2) * int64(chunkSize), pattern(4096, 0x77)}
	var tail []region
	for k := uint32(0); k < 3; k++ {
		tail = append(tail, region{int64(done+k) * int64(chunkSize), pattern(int(chunkSize), 0xA0+byte(k))})
	}
	tail = append(tail, region{int64(done+3) * int64(chunkSize), pattern(tailLen, 0x3C)})
	writeSparse := func(path string, regions ...region) error {
		f, err := os.OpenFile(path, os.O_RDWR|os.O_CREATE, 0o644)
		if err != nil {
			return err
		}
		defer f.Close()
		if err := f.Truncate(fileSize); err != nil {
			return err
		}
		for _, r := range regions {
			if _, err := f.WriteAt(r.data, r.off); err != nil {
				return err
			}
		}
		return nil
	}
	srcPath := filepath.Join(srcDir, "big.img")
	if err := writeSparse(srcPath, append([]region{head, mid}, tail...)...); err != nil {
		return "trouble", map[string]any{"why": "cannot create a sparse file: " + err.Error()}
	}
	m, err := manifest.Scan(srcDir)
	if err != nil {
		return "trouble", map[string]any{"why": err.Error()}
	}
	var item manifest.FileItem
	for _, it := range m.Items {
		if !it.IsDir {
			item = it
		}
	}
	destRoot := filepath.Join(outDir, m.Root)
	if err := os.MkdirAll(destRoot, 0o755); err != nil {
		return "trouble", map[string]any{"why": err.Error()}
	}
	dstPath := filepath.Join(destRoot, "big.img")
	if err := writeSparse(dstPath, head, mid); err != nil {
		return "trouble", map[string]any{"why": err.Error()}
	}
	sc, err := transfer.CreateSidecar(transfer.SidecarPath(outDir, m.Root, transfer.VerifSidecarID(item)), item.ID, item.Size, chunkSize)
	if err != nil {
		return "trouble", map[string]any{"why": "sidecar: " + err.Error()}
	}
	if sc.TotalChunks != total {
		return "trouble", map[string]any{"why": fmt.Sprintf("sidecar has %d chunks, expected %d", sc.TotalChunks, total)}
	}
	for i := uint32(0); i < done; i++ {
		sc.MarkComplete(i)
	}
	if err := sc.Flush(); err != nil {
		return "trouble", map[string]any{"why": err.Error()}
	}
	p := vnet.NewPair(vnet.Options{Mock: true})
	defer p.Shutdown()
	ctx, cancel := context.WithTimeout(context.Background(), 90*time.Second)
	defer cancel()
	recvErr := make(chan error, 1)
	go func() {
		_, err := transfer.RecvManifestMultiStream(ctx, p.End(vnet.B), outDir, transfer.Options{ParallelFiles: 2, Resume: true, ResumeVerify: "last"})
		recvErr <- err
	}()
	sendErr := transfer.SendManifestMultiStream(ctx, p.End(vnet.A), srcDir, m, transfer.Options{ChunkSize: chunkSize, ParallelFiles: 2, Resume: true,
		ResumeTimeout: 20 * time.Second, ResumeVerify: "last", HashAlg: "crc32c"})
	rerr := <-recvErr
	detail["send_err"], detail["recv_err"] = errText(sendErr), errText(rerr)
	if sendErr != nil || rerr != nil {
		return "failed loudly", detail
	}
	st, err := os.Stat(dstPath)
	if err != nil || st.Size() != fileSize {
		detail["delivered_size"] = st.Size()
		return "differs", detail
	}
	src, _ := os.Open(srcPath)
	defer src.Close()
	dst, _ := os.Open(dstPath)
	defer dst.Close()
	var bad []string
	check := func(name string, off int64, n int) {
		want, got := make([]byte, n), make([]byte, n)
		src.ReadAt(want, off)
		dst.ReadAt(got, off)
		if !bytes.Equal(want, got) {
			bad = append(bad, fmt.Sprintf("%s at offset %d", name, off))
		}
	}
	check("chunk 0", 0, int(chunkSize))
	check("chunk 1", int64(chunkSize), int(chunkSize))
	check("middle", mid.off, len(mid.data))
	for k, r := range tail {
		check(fmt.Sprintf("chunk done+%d", k), r.off, len(r.data))
	}
	check("around 2^32", int64(1)<<32-4096, 8192)
	if len(bad) > 0 {
		detail["regions_that_differ"] = bad
		return "differs", detail
	}
	return "identical", detail
}
