package drivers

import (
	"context"
	"encoding/json"
	"flag"
	"fmt"
	"sort"
	"sync"
	"time"

	"github.com/sheerbytes/sheerbytes/internal/app"
	"github.com/sheerbytes/sheerbytes/verifharness/internal/graph"
)

// ---- DispatchLoop.tla <-> the real SnapshotSender.maybeStartTransfers (C12) -------------------------
//
// Every dispatcher of a TLC behaviour is a goroutine running the real loop: calls from the read loop
// are started by the driver, transfer tails are the real runTransfer goroutines (their stub transfer
// function returns when the behaviour says so).  All of them park at the hook point host.emit.start,
// i.e. after an iteration has claimed a slot and before the transfer goroutine is launched; the driver
// releases exactly the dispatcher TLC moved.  After every step the real queue and slot table are
// compared with the specification's, and the property is evaluated on the real object: never more
// slots taken (and never more transfer functions running) than max-receivers.

type dlAct struct {
	A string `json:"a"`
	D int    `json:"d"`
	P int    `json:"p"`
	Q int    `json:"q"`
}

type dlX struct {
	Queue  []int    `json:"queue"`
	Active []int    `json:"active"`
	PC     []string `json:"pc"`
	Claim  []int    `json:"claim"`
	Dead   []int    `json:"dead"`
}

type dlRun struct {
	v       *app.VerifSender
	max     int
	mu      sync.Mutex
	release map[string]chan struct{}
	tops    map[string]*gatedOp // peer -> the op of its transfer goroutine
	started chan string
	inside  map[string]context.Context // transfer functions that have not returned, with the context each was given
	peak    int                        // most transfer functions inside at once whose context was still live
	disp    map[int]*gatedOp
	trace   []string
	dead    []string // receivers whose transfer function was entered with a cancelled context
}

func dlPeer(i int) string { return fmt.Sprintf("p%d", i) }

func (r *dlRun) transferFn(ctx context.Context, peer string) error {
	op := adoptCurrent("transfer:"+peer, "host.emit.start", "host.transfer.done")
	r.mu.Lock()
	if ctx.Err() != nil {
		r.dead = append(r.dead, peer)
	}
	r.tops[peer] = op
	ch := r.release[peer]
	r.inside[peer] = ctx
	// a transfer whose receiver has left (context cancelled) is winding down, not serving: the bound is on the live ones
	live := 0
	for _, c := range r.inside {
		if c.Err() == nil {
			live++
		}
	}
	if live > r.peak {
		r.peak = live
	}
	r.mu.Unlock()
	r.started <- peer
	<-ch // (a transfer function takes its time to notice that its context was cancelled: the driver decides when it returns)
	r.mu.Lock()
	delete(r.inside, peer)
	r.mu.Unlock()
	return ctx.Err()
}

func (r *dlRun) waitStarted(peer string) bool {
	deadline := time.After(5 * time.Second)
	for {
		select {
		case p := <-r.started:
			if p == peer {
				return true
			}
		case <-deadline:
			return false
		}
	}
}

// settled: the op is parked at host.emit.start (claimed another receiver) or has reached its end.
func dlState(op *gatedOp) (string, string) {
	if op.done {
		return "done", ""
	}
	if op.parked != nil {
		if op.parked.Name == "host.transfer.done" {
			return "done", ""
		}
		return "claimed", op.parked.S
	}
	return "running", ""
}

func DispatchLoop(args []string) {
	fs := flag.NewFlagSet("dispatch-loop", flag.ExitOnError)
	edges := fs.String("edges", "", "ndjson emitted by DispatchLoop.tla")
	max := fs.Int("max", 2, "Max")
	nq := fs.Int("nq", 4, "NQ")
	busy := fs.Int("busy", 1, "Busy")
	late := fs.Int("late", 0, "Late")
	shard := fs.Int("shard", 0, "shard")
	shards := fs.Int("shards", 1, "shards")
	fs.Parse(args)
	g, err := graph.Load(*edges)
	if err != nil {
		panic(err)
	}
	g.Index()
	installHooks()
	res := &Result{Extra: map[string]any{}}
	res.States, res.Transitions = g.States(), len(g.Edges)
	covered := map[int]bool{}
	acts := map[string]int{}
	for target := range g.Edges {
		if target%*shards != *shard || covered[target] {
			continue
		}
		path := g.PathTo(target)
		r := &dlRun{max: *max, release: map[string]chan struct{}{}, tops: map[string]*gatedOp{}, inside: map[string]context.Context{}, started: make(chan string, 64), disp: map[int]*gatedOp{}}
		r.v = app.VerifNewSender(*max, time.Hour, r.transferFn)
		ctx, cancel := context.WithCancel(context.Background())
		for i := 1; i <= *nq+*busy+*late; i++ {
			r.release[dlPeer(i)] = make(chan struct{})
		}
		trouble := ""
		// the transfers that are running at the start
		for i := *nq + 1; i <= *nq+*busy && trouble == ""; i++ {
			r.v.Join(dlPeer(i))
			r.v.Accept(ctx, dlPeer(i))
			if !r.waitStarted(dlPeer(i)) {
				trouble = "initial transfer did not start"
			}
		}
		for i := 1; i <= *nq; i++ {
			r.v.Join(dlPeer(i))
			r.v.Enqueue(dlPeer(i))
		}
		res.Behaviours++
		ok := trouble == ""
		for _, e := range path {
			if !ok {
				break
			}
			var a dlAct
			json.Unmarshal(e.Act, &a)
			var x dlX
			json.Unmarshal(e.X, &x)
			r.trace = append(r.trace, fmt.Sprintf("%s(d%d,p%d,q%d)", a.A, a.D, a.P, a.Q))
			res.Steps++
			acts[a.A]++
			var op *gatedOp
			switch a.A {
			case "Start":
				op = startOpOnly(fmt.Sprintf("disp:%d", a.D), nil, []string{"host.emit.start"}, func() { r.v.Dispatch(ctx) })
				r.disp[a.D] = op
			case "Iter":
				op = r.disp[a.D]
				claimed := ""
				if op.parked != nil && op.parked.Name == "host.emit.start" {
					claimed = op.parked.S
				}
				if op.advance(5 * time.Second) {
					res.AddViolation(map[string]any{"kind": "dispatcher_stuck"}, map[string]any{"steps": r.trace})
					ok = false
					break
				}
				if claimed != "" && !r.waitStarted(claimed) {
					trouble = "the transfer of " + claimed + " was not launched after its dispatcher moved on"
					ok = false
				}
			case "Enqueue":
				r.v.Join(dlPeer(a.Q))
				r.v.Enqueue(dlPeer(a.Q))
			case "LeaveRunning":
				// the receiver of a running transfer leaves: the real handlePeerLeft (slot released, context cancelled, dispatch)
				peer := dlPeer(a.P)
				op = startOpOnly(fmt.Sprintf("leave:%s", peer), nil, []string{"host.emit.start"}, func() { r.v.Leave(peer) })
				r.disp[a.D] = op
			case "Finish", "FinishLeft":
				peer := dlPeer(a.P)
				r.mu.Lock()
				top := r.tops[peer]
				r.mu.Unlock()
				if top == nil {
					trouble = "no running transfer for " + peer
					ok = false
					break
				}
				close(r.release[peer])
				if top.await(5 * time.Second) {
					res.AddViolation(map[string]any{"kind": "dispatcher_stuck", "who": "transfer tail"}, map[string]any{"steps": r.trace})
					ok = false
					break
				}
				op = top
				r.disp[a.D] = top
			}
			if !ok {
				break
			}
			covered[g.IndexOf(e)] = true
			// the property on the real object
			snap := r.v.Snap()
			r.mu.Lock()
			peak := r.peak
			dead := append([]string(nil), r.dead...)
			r.mu.Unlock()
			if len(dead) > 0 {
				res.AddViolation(map[string]any{"kind": "transfer_started_with_a_cancelled_context", "via": "dispatch-loop"},
					map[string]any{"steps": r.trace, "receivers_started_dead_although_they_never_left": dead})
				ok = false
				break
			}
			if len(snap.Active) > *max || peak > *max {
				res.AddViolation(map[string]any{"kind": "more_transfers_than_max_receivers", "via": "dispatch-loop"},
					map[string]any{"steps": r.trace, "max_receivers": *max, "slots_taken": snap.Active, "transfer_functions_running_at_once": peak})
				ok = false
				break
			}
			// conformance with the specification's state
			var wantQ, wantA []string
			for _, q := range x.Queue {
				wantQ = append(wantQ, dlPeer(q))
			}
			for _, p := range x.Active {
				wantA = append(wantA, dlPeer(p))
			}
			sort.Strings(wantA)
			if a.A == "Enqueue" {
				if !sameStrs(snap.Queue, wantQ) {
					res.AddDrift(map[string]any{"why": "real queue differs from DispatchLoop.tla after Enqueue", "steps": r.trace, "real": snap.Queue, "spec": wantQ})
					ok = false
				}
				continue
			}
			st, claimed := dlState(op)
			wantPC := x.PC[a.D-1]
			wantClaim := ""
			if x.Claim[a.D-1] != 0 {
				wantClaim = dlPeer(x.Claim[a.D-1])
			}
			if !sameStrs(snap.Queue, wantQ) || !sameStrs(snap.Active, wantA) || st != wantPC || claimed != wantClaim {
				res.AddDrift(map[string]any{"why": "real scheduler state differs from DispatchLoop.tla", "steps": r.trace,
					"real": map[string]any{"queue": snap.Queue, "active": snap.Active, "dispatcher": st, "claimed": claimed},
					"spec": map[string]any{"queue": wantQ, "active": wantA, "dispatcher": wantPC, "claimed": wantClaim}})
				ok = false
			}
		}
		if trouble != "" {
			res.AddDrift(map[string]any{"why": "harness: " + trouble, "steps": r.trace})
		}
		// let everything run out
		cancel()
		for p, ch := range r.release {
			select {
			case <-ch:
			default:
				close(ch)
			}
			_ = p
		}
		deadline := time.Now().Add(3 * time.Second)
		for time.Now().Before(deadline) {
			busyOps := 0
			r.mu.Lock()
			ops := []*gatedOp{}
			for _, o := range r.disp {
				ops = append(ops, o)
			}
			for _, o := range r.tops {
				ops = append(ops, o)
			}
			r.mu.Unlock()
			for _, o := range ops {
				if o.done {
					continue
				}
				select {
				case ev := <-o.evCh:
					_ = ev
					o.relCh <- struct{}{}
					busyOps++
				case rv := <-o.doneCh:
					o.done = true
					_ = rv
				default:
					if o.parked != nil {
						o.parked = nil
						o.relCh <- struct{}{}
					}
					busyOps++
				}
			}
			snap := r.v.Snap()
			if len(snap.Queue) == 0 && len(snap.Active) == 0 {
				break
			}
			time.Sleep(200 * time.Microsecond)
		}
		if res.Behaviours%97 == 1 {
			res.AddSample(map[string]any{"steps": r.trace}, 5)
		}
	}
	res.Distinct = res.Behaviours
	res.Extra["transitions_covered"] = len(covered)
	res.Extra["actions"] = acts
	res.Print()
}
