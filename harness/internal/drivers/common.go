// Package drivers contains one replay / trace driver per specification
// module.  Every driver prints a single JSON Result on stdout.
package drivers

import (
	"encoding/json"
	"fmt"
	"os"
	"sort"

	"github.com/sheerbytes/sheerbytes/verifharness/internal/graph"
)

// Violation is a property violation observed on the real code.
type Violation struct {
	Sig    map[string]any `json:"sig"`
	Replay any            `json:"replay,omitempty"`
}

// Result is what every driver reports.
type Result struct {
	Behaviours   int            `json:"behaviours"`
	Steps        int            `json:"steps"`
	States       int            `json:"states,omitempty"`
	Transitions  int            `json:"transitions,omitempty"`
	Distinct     int            `json:"distinct"`
	Drift        int            `json:"drift"`
	DriftSamples []any          `json:"drift_samples,omitempty"`
	Violations   []Violation    `json:"violations"`
	ViolCount    int            `json:"viol_count"`
	Samples      []any          `json:"samples"`
	Extra        map[string]any `json:"extra,omitempty"`
	sigSeen      map[string]bool
}

func (r *Result) AddViolation(sig map[string]any, replay any) {
	r.ViolCount++
	if r.sigSeen == nil {
		r.sigSeen = map[string]bool{}
	}
	b, _ := json.Marshal(sig)
	if r.sigSeen[string(b)] {
		return
	}
	r.sigSeen[string(b)] = true
	if len(r.Violations) < 40 {
		r.Violations = append(r.Violations, Violation{Sig: sig, Replay: replay})
	}
}

func (r *Result) AddDrift(sample any) {
	r.Drift++
	if len(r.DriftSamples) < 5 {
		r.DriftSamples = append(r.DriftSamples, sample)
	}
}

func (r *Result) AddSample(s any, max int) {
	if len(r.Samples) < max {
		r.Samples = append(r.Samples, s)
	}
}

func (r *Result) Print() {
	if r.Violations == nil {
		r.Violations = []Violation{}
	}
	if r.Samples == nil {
		r.Samples = []any{}
	}
	b, err := json.Marshal(r)
	if err != nil {
		fmt.Fprintln(os.Stderr, "marshal result:", err)
		os.Exit(3)
	}
	fmt.Println(string(b))
}

func sortedKeys[V any](m map[string]V) []string {
	ks := make([]string, 0, len(m))
	for k := range m {
		ks = append(ks, k)
	}
	sort.Strings(ks)
	return ks
}

// loadRows reads the `x` payload of every emitted line as a T.
func loadRows[T any](path string) ([]T, error) {
	g, err := graph.Load(path)
	if err != nil {
		return nil, err
	}
	out := make([]T, 0, len(g.Edges))
	for _, e := range g.Edges {
		var t T
		if err := json.Unmarshal(e.X, &t); err != nil {
			return nil, err
		}
		out = append(out, t)
	}
	return out, nil
}
