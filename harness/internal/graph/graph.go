// Package graph loads the transitions a TLA+ spec emitted through its
// ACTION_CONSTRAINT (one JSON object per generated transition) and turns them
// into behaviours: for every transition one witness path from an initial
// state (transition cover), or - for simulation output - the behaviours as
// they were generated.
package graph

import (
	"bufio"
	"encoding/json"
	"fmt"
	"os"
)

// Edge is one emitted transition.
type Edge struct {
	In   json.RawMessage `json:"in"`
	Pre  json.RawMessage `json:"pre"`
	Post json.RawMessage `json:"post"`
	Act  json.RawMessage `json:"act"`
	D    int             `json:"d"`
	PK   string          `json:"pk"`
	QK   string          `json:"qk"`
	X    json.RawMessage `json:"x"`
	pre  int
	post int
}

type Graph struct {
	Edges  []*Edge
	ids    map[string]int
	out    map[int][]int
	parent map[int]int // state -> edge index that first reaches it (BFS), -1 for initial
	Inits  []int
	pos    map[*Edge]int
}

func Load(path string) (*Graph, error) {
	f, err := os.Open(path)
	if err != nil {
		return nil, err
	}
	defer f.Close()
	g := &Graph{ids: map[string]int{}, out: map[int][]int{}, parent: map[int]int{}}
	sc := bufio.NewScanner(f)
	sc.Buffer(make([]byte, 1<<20), 64<<20)
	for sc.Scan() {
		line := sc.Bytes()
		if len(line) == 0 {
			continue
		}
		e := &Edge{}
		if err := json.Unmarshal(line, e); err != nil {
			return nil, fmt.Errorf("bad edge line: %v", err)
		}
		g.Edges = append(g.Edges, e)
	}
	return g, sc.Err()
}

func (g *Graph) id(k string) int {
	if i, ok := g.ids[k]; ok {
		return i
	}
	i := len(g.ids)
	g.ids[k] = i
	return i
}

// Index builds the state graph (needs pk/qk state keys on every edge).
func (g *Graph) Index() {
	hasIn := map[int]bool{}
	for i, e := range g.Edges {
		e.pre, e.post = g.id(e.PK), g.id(e.QK)
		g.out[e.pre] = append(g.out[e.pre], i)
		hasIn[e.post] = true
	}
	// initial states: sources of depth-1 edges
	seen := map[int]bool{}
	for _, e := range g.Edges {
		if e.D == 1 && !seen[e.pre] {
			seen[e.pre] = true
			g.Inits = append(g.Inits, e.pre)
		}
	}
	queue := append([]int(nil), g.Inits...)
	for _, s := range g.Inits {
		g.parent[s] = -1
	}
	for len(queue) > 0 {
		s := queue[0]
		queue = queue[1:]
		for _, ei := range g.out[s] {
			t := g.Edges[ei].post
			if _, ok := g.parent[t]; !ok {
				g.parent[t] = ei
				queue = append(queue, t)
			}
		}
	}
}

func (g *Graph) States() int { return len(g.ids) }

// PathTo returns the edges of a shortest path from an initial state to the
// source of edge ei, followed by ei itself.
func (g *Graph) PathTo(ei int) []*Edge {
	var rev []*Edge
	rev = append(rev, g.Edges[ei])
	s := g.Edges[ei].pre
	for {
		pe, ok := g.parent[s]
		if !ok || pe < 0 {
			break
		}
		rev = append(rev, g.Edges[pe])
		s = g.Edges[pe].pre
	}
	for i, j := 0, len(rev)-1; i < j; i, j = i+1, j-1 {
		rev[i], rev[j] = rev[j], rev[i]
	}
	return rev
}

// Behaviours splits simulation output (consecutive edges, depth restarting at
// 1) into behaviours.
func (g *Graph) Behaviours() [][]*Edge {
	var out [][]*Edge
	var cur []*Edge
	for _, e := range g.Edges {
		if e.D == 1 && len(cur) > 0 {
			out = append(out, cur)
			cur = nil
		}
		cur = append(cur, e)
	}
	if len(cur) > 0 {
		out = append(out, cur)
	}
	return out
}

// Sibling returns another transition leaving the same state as e that satisfies ok.
func (g *Graph) Sibling(e *Edge, ok func(*Edge) bool) *Edge {
	for _, ei := range g.out[e.pre] {
		o := g.Edges[ei]
		if o != e && ok(o) {
			return o
		}
	}
	return nil
}

// IndexOf returns the position of e in g.Edges.
func (g *Graph) IndexOf(e *Edge) int {
	if g.pos == nil {
		g.pos = map[*Edge]int{}
		for i, x := range g.Edges {
			g.pos[x] = i
		}
	}
	return g.pos[e]
}
