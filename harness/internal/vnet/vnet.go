// Package vnet is an in-memory transfer.Conn / transfer.Stream pair with the
// semantics of a QUIC connection that matter to the transfer protocol:
//
//   - writes never block, bytes become readable when they are *released*
//     (immediately, or under control of a seeded releaser that chooses the
//     cross-stream arrival order, or of the driver),
//   - QUIC stream visibility: AcceptStream only returns a stream once data or
//     FIN of it (or of a higher-numbered stream of the same initiator) has
//     arrived; in Mock mode a stream is visible as soon as it is opened,
//   - Close of a stream sends FIN for the local write side and makes local
//     reads/writes fail (like transferquic.QUICStream.Close),
//   - Close of a connection is CloseWithError(0): the peer sees
//     "Application error 0x0 (remote)", the closer "Application error 0x0 (local)",
//   - faults: the connection dies (gracefully closed by the writer's side, or
//     abruptly) at an exact byte position of a chosen stream direction; payload
//     bits can be flipped at an exact byte position.
//
// Its assumptions about quic-go are checked against a real loopback QUIC pair
// by the transport-conformance driver.
package vnet

import (
	"runtime"
	"context"
	"errors"
	"io"
	"math/rand"
	"net"
	"sync"
	"time"

	"github.com/sheerbytes/sheerbytes/internal/transfer"
)

// Side of a connection pair.
const (
	A = 0 // dialer (opens the control stream: the transfer sender)
	B = 1 // acceptor
)

// Fault kinds.
const (
	FaultNone         = ""
	FaultGracefulPeer = "graceful" // the writer's endpoint closed the connection with application code 0
	FaultAbrupt       = "abrupt"   // the path died: both ends see an idle timeout
)

var (
	ErrRemoteClose = errors.New("Application error 0x0 (remote)")
	ErrLocalClose  = errors.New("Application error 0x0 (local)")
	ErrIdleTimeout = errors.New("timeout: no recent network activity")
	errDeadline    = deadlineErr{}
)

type deadlineErr struct{}

func (deadlineErr) Error() string   { return "deadline exceeded" }
func (deadlineErr) Timeout() bool   { return true }
func (deadlineErr) Temporary() bool { return true }

// Options configures a pair.
type Options struct {
	Mock        bool  // streams visible on open (like transfer.MockTransport)
	Hold        bool  // bytes are readable only after Release / the auto releaser
	AutoRelease bool  // with Hold: a seeded goroutine releases bytes in random cross-stream order
	Seed        int64 // for AutoRelease
	YieldOnCtl  bool  // side A gives up the processor after every Write on the control stream (index 0): goroutines that write records in several pieces interleave if nothing else orders them
	DataLag     time.Duration // with LagData: how long the control stream has to be quiet before data arrives (0: 15 ms)
	DataWriteDelay time.Duration // every Write of side A on a data stream takes this long (a slow uplink)
	CtlBackLag  time.Duration // with AutoRelease: what side B writes on the control stream arrives this much later (a long round trip)
	LagData     bool  // with AutoRelease: data streams lag - their bytes arrive only after the control stream (index 0) has been quiet for a while
}

// FaultSpec kills the connection when the reader of (stream index, direction)
// has consumed exactly Offset bytes and asks for more.
type FaultSpec struct {
	Stream int // index in opening order of the initiating side A (0 = control stream)
	Dir    int // A: bytes written by A, read by B;  B: the other way
	Offset int
	Kind   string
}

// FlipSpec flips one bit written on (stream, dir).  With Part == "" Offset is a
// raw byte offset of the stream; with Part == "payload" / "crc" the stream is
// parsed as chunk frames (20-byte header: key, index, length, crc32c; then the
// payload) and Offset counts bytes of that part of the Frame-th frame.
type FlipSpec struct {
	Stream, Dir, Offset int
	Bit                 uint
	Part                string
	Frame               int
}

type stamp struct {
	end int
	t   time.Time
}

type dirBuf struct {
	stamps   []stamp // (CtlBackLag) when each written prefix was written
	agedTo   int     // (CtlBackLag) bytes old enough to arrive
	data     []byte
	readPos  int
	released int  // bytes that have arrived at the reader
	fin      bool // writer closed its side
	finRel   bool // FIN has arrived
}

type streamCore struct {
	id        uint64
	index     int // opening order per initiator
	initiator int
	dir       [2]dirBuf // dir[A]: written by A
	accepted  bool
}

// Pair is one simulated connection.
type Pair struct {
	mu      sync.Mutex
	cond    *sync.Cond
	opts    Options
	streams []*streamCore // in opening order (both initiators)
	opened  [2]int
	connErr [2]error // per side: non-nil once the connection is dead for that side
	fault   *FaultSpec
	flips   []FlipSpec
	fired   bool
	rng     *rand.Rand
	lastCtl time.Time
	stop    chan struct{}
	ends    [2]*Conn
	// statistics
	Written [2]int64
}

// NewPair creates a connected pair.
func NewPair(opts Options) *Pair {
	p := &Pair{opts: opts, stop: make(chan struct{})}
	p.cond = sync.NewCond(&p.mu)
	p.ends[A] = &Conn{p: p, side: A}
	p.ends[B] = &Conn{p: p, side: B}
	if opts.Hold && opts.AutoRelease {
		p.rng = rand.New(rand.NewSource(opts.Seed))
		go p.releaser()
	}
	return p
}

func (p *Pair) End(side int) *Conn { return p.ends[side] }

// SetFault installs the (single) connection fault.
func (p *Pair) SetFault(f FaultSpec) {
	p.mu.Lock()
	p.fault = &f
	p.mu.Unlock()
}

// AddFlip installs a bit flip.
func (p *Pair) AddFlip(f FlipSpec) {
	p.mu.Lock()
	p.flips = append(p.flips, f)
	p.mu.Unlock()
}

// FaultFired reports whether the installed fault has struck.
func (p *Pair) FaultFired() bool {
	p.mu.Lock()
	defer p.mu.Unlock()
	return p.fired
}

// Shutdown stops the releaser goroutine.
func (p *Pair) Shutdown() {
	select {
	case <-p.stop:
	default:
		close(p.stop)
	}
	p.mu.Lock()
	p.cond.Broadcast()
	p.mu.Unlock()
}

// StreamBytes reports, per stream in A's opening order, the bytes written in each direction.
func (p *Pair) StreamBytes() [][2]int {
	p.mu.Lock()
	defer p.mu.Unlock()
	var out [][2]int
	for _, s := range p.streams {
		if s.initiator == A {
			out = append(out, [2]int{len(s.dir[A].data), len(s.dir[B].data)})
		}
	}
	return out
}

// Snapshot copies the bytes written so far on stream idx (A's opening order) in direction dir.
func (p *Pair) Snapshot(idx, dir int) []byte {
	p.mu.Lock()
	defer p.mu.Unlock()
	for _, s := range p.streams {
		if s.initiator == A && s.index == idx {
			return append([]byte(nil), s.dir[dir].data...)
		}
	}
	return nil
}

// Idle reports whether nothing is pending release (used by watchdogs).
func (p *Pair) pendingLocked() []*dirBuf {
	var out []*dirBuf
	for _, s := range p.streams {
		for d := 0; d < 2; d++ {
			b := &s.dir[d]
			if b.released < len(b.data) || (b.fin && !b.finRel) {
				out = append(out, b)
			}
		}
	}
	return out
}

func (p *Pair) releaser() {
	for {
		select {
		case <-p.stop:
			return
		default:
		}
		p.mu.Lock()
		pend := p.pendingLocked()
		for len(pend) == 0 {
			select {
			case <-p.stop:
				p.mu.Unlock()
				return
			default:
			}
			p.cond.Wait()
			pend = p.pendingLocked()
		}
		if p.opts.CtlBackLag > 0 {
			// bytes side B wrote on the control stream have to age before they arrive
			var ok []*dirBuf
			now := time.Now()
			for _, x := range pend {
				if len(x.stamps) == 0 {
					ok = append(ok, x)
					continue
				}
				aged := 0
				for _, st := range x.stamps {
					if now.Sub(st.t) >= p.opts.CtlBackLag {
						aged = st.end
					}
				}
				x.agedTo = aged
				if aged > x.released || (x.fin && !x.finRel && aged >= len(x.data)) {
					ok = append(ok, x)
				}
			}
			if len(ok) == 0 {
				p.mu.Unlock()
				time.Sleep(2 * time.Millisecond)
				continue
			}
			pend = ok
		}
		b := pend[p.rng.Intn(len(pend))]
		if p.opts.LagData {
			// control stream first; data only after a quiet period on the control stream
			var ctl *dirBuf
			for _, s := range p.streams {
				if s.index != 0 || s.initiator != A {
					continue
				}
				for d := 0; d < 2; d++ {
					cb := &s.dir[d]
					if cb.released < len(cb.data) || (cb.fin && !cb.finRel) {
						ctl = cb
					}
				}
			}
			if ctl != nil {
				b = ctl
				p.lastCtl = time.Now()
			} else if quiet := p.opts.DataLag; time.Since(p.lastCtl) < func() time.Duration {
				if quiet > 0 {
					return quiet
				}
				return 15 * time.Millisecond
			}() {
				p.mu.Unlock()
				time.Sleep(2 * time.Millisecond)
				continue
			}
		}
		if b.released < len(b.data) {
			n := len(b.data) - b.released
			if len(b.stamps) > 0 && p.opts.CtlBackLag > 0 {
				n = b.agedTo - b.released
				if n <= 0 {
					p.mu.Unlock()
					continue
				}
			}
			switch p.rng.Intn(3) {
			case 0:
				n = 1 + p.rng.Intn(n)
			case 1:
				if n > 20 {
					n = 20
				}
			}
			b.released += n
		} else {
			b.finRel = true
		}
		p.cond.Broadcast()
		p.mu.Unlock()
		if p.rng.Intn(4) == 0 {
			time.Sleep(time.Duration(p.rng.Intn(50)) * time.Microsecond)
		}
	}
}

// ReleaseAll makes everything written so far readable (driver-controlled Hold mode).
func (p *Pair) ReleaseAll() {
	p.mu.Lock()
	for _, s := range p.streams {
		for d := 0; d < 2; d++ {
			s.dir[d].released = len(s.dir[d].data)
			if s.dir[d].fin {
				s.dir[d].finRel = true
			}
		}
	}
	p.cond.Broadcast()
	p.mu.Unlock()
}

func (p *Pair) arrived(b *dirBuf) int {
	if p.opts.Hold {
		return b.released
	}
	return len(b.data)
}

func (p *Pair) finArrived(b *dirBuf) bool {
	if p.opts.Hold {
		return b.finRel
	}
	return b.fin
}

// visibleLocked: can `side` accept stream s (initiated by the peer)?
func (p *Pair) visibleLocked(s *streamCore, side int) bool {
	if p.opts.Mock {
		return true
	}
	from := 1 - side
	for _, o := range p.streams {
		if o.initiator != from || o.index < s.index {
			continue
		}
		b := &o.dir[from]
		if p.arrived(b) > 0 || p.finArrived(b) {
			return true
		}
	}
	return false
}

func (p *Pair) fireLocked(f *FaultSpec) {
	if p.fired {
		return
	}
	p.fired = true
	switch f.Kind {
	case FaultGracefulPeer:
		// the writer of that direction closed the connection
		p.connErr[f.Dir] = ErrLocalClose
		p.connErr[1-f.Dir] = ErrRemoteClose
	default:
		p.connErr[A] = ErrIdleTimeout
		p.connErr[B] = ErrIdleTimeout
	}
	p.cond.Broadcast()
}

// Conn is one end of a Pair.
type Conn struct {
	p    *Pair
	side int
}

var _ transfer.Conn = (*Conn)(nil)

func (c *Conn) OpenStream(ctx context.Context) (transfer.Stream, error) {
	p := c.p
	p.mu.Lock()
	defer p.mu.Unlock()
	if err := p.connErr[c.side]; err != nil {
		return nil, err
	}
	idx := p.opened[c.side]
	p.opened[c.side]++
	s := &streamCore{id: uint64(idx*4 + c.side), index: idx, initiator: c.side}
	p.streams = append(p.streams, s)
	p.cond.Broadcast()
	return &Stream{p: p, core: s, side: c.side}, nil
}

func (c *Conn) AcceptStream(ctx context.Context) (transfer.Stream, error) {
	p := c.p
	stopWatch := watchCtx(ctx, p)
	defer stopWatch()
	p.mu.Lock()
	defer p.mu.Unlock()
	for {
		if err := p.connErr[c.side]; err != nil {
			return nil, err
		}
		if err := ctx.Err(); err != nil {
			return nil, err
		}
		for _, s := range p.streams {
			if s.initiator == 1-c.side && !s.accepted {
				// streams are accepted in id order
				if p.visibleLocked(s, c.side) {
					s.accepted = true
					return &Stream{p: p, core: s, side: c.side}, nil
				}
				break
			}
		}
		p.cond.Wait()
	}
}

func watchCtx(ctx context.Context, p *Pair) func() {
	if ctx.Done() == nil {
		return func() {}
	}
	done := make(chan struct{})
	go func() {
		select {
		case <-ctx.Done():
			p.mu.Lock()
			p.cond.Broadcast()
			p.mu.Unlock()
		case <-done:
		}
	}()
	return func() { close(done) }
}

func (c *Conn) RemoteAddr() net.Addr {
	return &net.UDPAddr{IP: net.IPv4(127, 0, 0, 1), Port: 4000 + c.side}
}

// Close is CloseWithError(0, "").
func (c *Conn) Close() error {
	p := c.p
	p.mu.Lock()
	defer p.mu.Unlock()
	if p.connErr[c.side] == nil {
		p.connErr[c.side] = ErrLocalClose
	}
	if p.connErr[1-c.side] == nil {
		p.connErr[1-c.side] = ErrRemoteClose
	}
	p.cond.Broadcast()
	return nil
}

// Dead reports the connection error seen by this side (nil while alive).
func (c *Conn) Dead() error {
	c.p.mu.Lock()
	defer c.p.mu.Unlock()
	return c.p.connErr[c.side]
}

// Stream is one end of a bidirectional stream.
type Stream struct {
	p       *Pair
	core    *streamCore
	side    int
	closed  bool
	readDL  time.Time
	writeDL time.Time
	dlTimer *time.Timer
}

var _ transfer.Stream = (*Stream)(nil)

func (s *Stream) StreamID() uint64 { return s.core.id }

func (s *Stream) Read(b []byte) (int, error) {
	p := s.p
	p.mu.Lock()
	defer p.mu.Unlock()
	in := &s.core.dir[1-s.side]
	for {
		if s.closed {
			return 0, io.ErrClosedPipe
		}
		if err := p.connErr[s.side]; err != nil {
			return 0, err
		}
		if len(b) == 0 {
			return 0, nil
		}
		avail := p.arrived(in) - in.readPos
		// fault position: reader consumed exactly Offset bytes of this direction and wants more
		if f := p.fault; f != nil && !p.fired && s.core.initiator == A && f.Stream == s.core.index && f.Dir == 1-s.side {
			if in.readPos >= f.Offset {
				p.fireLocked(f)
				continue
			}
			if in.readPos+avail > f.Offset {
				avail = f.Offset - in.readPos
			}
		}
		if avail > 0 {
			n := copy(b, in.data[in.readPos:in.readPos+avail])
			in.readPos += n
			return n, nil
		}
		if p.finArrived(in) && in.readPos >= len(in.data) {
			return 0, io.EOF
		}
		if !s.readDL.IsZero() && !time.Now().Before(s.readDL) {
			return 0, errDeadline
		}
		p.cond.Wait()
	}
}

func (s *Stream) Write(b []byte) (int, error) {
	n, err := s.write(b)
	if d := s.p.opts.DataWriteDelay; d > 0 && s.side == A && s.core.initiator == A && s.core.index > 0 {
		time.Sleep(d)
	}
	if s.p.opts.YieldOnCtl && s.side == A && s.core.initiator == A && s.core.index == 0 {
		runtime.Gosched()
		time.Sleep(3 * time.Microsecond)
	}
	return n, err
}

func (s *Stream) write(b []byte) (int, error) {
	p := s.p
	p.mu.Lock()
	defer p.mu.Unlock()
	if s.closed {
		return 0, io.ErrClosedPipe
	}
	if err := p.connErr[s.side]; err != nil {
		return 0, err
	}
	out := &s.core.dir[s.side]
	if out.fin {
		return 0, errors.New("write on closed stream")
	}
	start := len(out.data)
	out.data = append(out.data, b...)
	if p.opts.CtlBackLag > 0 && s.side == B && s.core.initiator == A && s.core.index == 0 {
		out.stamps = append(out.stamps, stamp{end: len(out.data), t: time.Now()})
	}
	if s.core.initiator == A {
		for _, f := range p.flips {
			if f.Stream != s.core.index || f.Dir != s.side {
				continue
			}
			if f.Part == "" {
				if f.Offset >= start && f.Offset < start+len(b) {
					out.data[f.Offset] ^= 1 << (f.Bit % 8)
				}
				continue
			}
			// frame-aware: locate the target byte by parsing the frames written so far
			if off, ok := frameByte(out.data, f); ok && off >= start && off < start+len(b) {
				out.data[off] ^= 1 << (f.Bit % 8)
			}
		}
	}
	p.Written[s.side] += int64(len(b))
	p.cond.Broadcast()
	return len(b), nil
}

// Close sends FIN on the local write side and invalidates the local end.
func (s *Stream) Close() error {
	p := s.p
	p.mu.Lock()
	defer p.mu.Unlock()
	if s.closed {
		return nil
	}
	s.closed = true
	s.core.dir[s.side].fin = true
	p.cond.Broadcast()
	return nil
}

func (s *Stream) armTimer(t time.Time) {
	if t.IsZero() {
		return
	}
	d := time.Until(t)
	if d < 0 {
		d = 0
	}
	time.AfterFunc(d, func() {
		s.p.mu.Lock()
		s.p.cond.Broadcast()
		s.p.mu.Unlock()
	})
}

func (s *Stream) SetReadDeadline(t time.Time) error {
	s.p.mu.Lock()
	s.readDL = t
	s.p.mu.Unlock()
	if !t.IsZero() && time.Until(t) < time.Minute {
		s.armTimer(t)
	}
	return nil
}

func (s *Stream) SetWriteDeadline(t time.Time) error {
	s.p.mu.Lock()
	s.writeDL = t
	s.p.mu.Unlock()
	return nil
}

func (s *Stream) SetDeadline(t time.Time) error {
	s.SetReadDeadline(t)
	return s.SetWriteDeadline(t)
}

// frameByte returns the stream offset of the byte a frame-aware FlipSpec targets,
// once enough of the stream has been written to know it.
func frameByte(data []byte, f FlipSpec) (int, bool) {
	pos := 0
	for n := 0; ; n++ {
		if pos+20 > len(data) {
			return 0, false
		}
		length := int(uint32(data[pos+12])<<24 | uint32(data[pos+13])<<16 | uint32(data[pos+14])<<8 | uint32(data[pos+15]))
		if n == f.Frame {
			if f.Part == "crc" {
				return pos + 16 + f.Offset%4, true
			}
			if length == 0 {
				return 0, false
			}
			return pos + 20 + f.Offset%length, true
		}
		pos += 20 + length
	}
}
