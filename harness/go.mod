module github.com/sheerbytes/sheerbytes/verifharness

go 1.24

require (
	github.com/gorilla/websocket v1.5.1
	github.com/pion/turn/v2 v2.1.6
	github.com/quic-go/quic-go v0.58.0
	github.com/sheerbytes/sheerbytes v0.0.0
)

require (
	github.com/pion/dtls/v2 v2.2.7 // indirect
	github.com/pion/logging v0.2.4 // indirect
	github.com/pion/randutil v0.1.0 // indirect
	github.com/pion/stun v0.6.1 // indirect
	github.com/pion/transport/v2 v2.2.2 // indirect
	golang.org/x/crypto v0.41.0 // indirect
	golang.org/x/net v0.43.0 // indirect
	golang.org/x/sys v0.35.0 // indirect
)

replace github.com/sheerbytes/sheerbytes => /repo
