module github.com/sheerbytes/sheerbytes/verifharness

go 1.24

require (
	github.com/gorilla/websocket v1.5.1
	github.com/quic-go/quic-go v0.58.0
	github.com/sheerbytes/sheerbytes v0.0.0
)

replace github.com/sheerbytes/sheerbytes => /repo
