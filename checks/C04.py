"""C04 - resuming after an interruption at any point ends in the identical tree.

Resume.tla: from every state reachable through up to MaxKills interruptions a
completed run leaves every chunk good (CompleteIsCorrect), what the receiver
advertises equals what its metadata marked at start (AdvertisedIsPersisted),
and a run can always complete (liveness).  Real code: every kill of the C05
driver is followed by a real resumed run into the same directory (thorough:
a second kill first for a third of them); the resumed run must succeed, the
tree digest must equal the source, the FileResumeInfo bitmaps captured on the
sender's control stream must equal the sidecars found on disk after the kill,
and chunks advertised below the verification point must not all be sent again.
In addition every consistent on-disk state a kill can leave (all 2^n bitmaps,
marked chunks present, optionally one chunk written but not yet marked) is
built with the real Sidecar API and resumed by a real transfer: identical
tree, and no marked chunk below the verification point is framed again.
At the application level (driver e2e-resume) a real `thru join` process is
SIGKILLed at a hook point in mid-transfer; a second real join into the same
directory answers the resume / overwrite prompt and must end with exit 0 and
the identical tree (the real host keeps serving); the receiver processes'
own hook traces are validated with TLC against SessionTrace.tla.
"""
import vlib
import resume_common as rc

PROP = "C04"


def run(tier, seed):
    v = vlib.Verdict(PROP, tier, seed, "fault_enumeration")
    mc = rc.model_check(tier, tamper=False)
    res = rc.kill_runs(tier, seed + 5)
    # every consistent on-disk state (any bitmap, marked chunks present, possibly one written-but-unmarked chunk)
    st = vlib.run_vh_sharded(['resume-states', '-seed', str(seed), '-chunks', '5' if tier == "quick" else '7'], 8 if tier == "quick" else 14, timeout=2400)
    for viol in res['violations'] + st['violations']:
        if viol['sig'].get('property') == 'C04':
            v.violation(viol['sig'], viol.get('replay'))
    import e2e_common
    e2e_common.report_rules(v, PROP, res['trace_rules'])
    # resumed transfers outside the kill grid: leftovers of an attempt with another chunk size (the final tree must be the
    # source's), and resume information that reaches the sender only after its grace period (it must still count)
    sx = vlib.run_vh_sharded(['xfer-special', '-seed', str(seed), '-groups', 'rechunk,lateinfo'], 6, timeout=1800)
    for viol in sx['violations']:
        sig = viol['sig']
        if sig.get('property') == PROP:
            v.violation(sig, viol.get('replay'))
        elif sig.get('property') == 'C01' and sig.get('tree') == 'stale-geometry':
            v.violation(dict(kind='tree_differs_after_resumed_run', tree='stale-geometry'), viol.get('replay'))
    # the application level: a real `thru join` is killed in mid-transfer, a second real join into the same
    # directory answers the resume / overwrite prompt; identical tree required; both joins' traces validated
    import os
    work = vlib.scratch("c04e2e-")
    srv = vlib.build_repo_bin('./cmd/thruserv', 'thruserv')
    thru = vlib.build_repo_bin('./cmd/thru', 'thru')
    tp = os.path.join(work, "resumetrace")
    er = vlib.run_vh_sharded(['e2e-resume', '-n', '6' if tier == "quick" else '36', '-seed', str(seed), '-thruserv', srv, '-thru', thru, '-trace-out', tp], 6, timeout=1800)
    for viol in er['violations']:
        sig = dict(viol['sig'])
        if sig.pop('prop', None) == PROP:
            v.violation(sig, viol.get('replay'))
    lines = e2e_common.collect(tp)
    erules, estats = e2e_common.validate(lines, work, "resume-sessions") if lines else ([], None)
    e2e_common.report_rules(v, PROP, erules)
    v.coverage = dict(evaluations=res['steps'], distinct_nontrivial=res['distinct'], child_hook_traces_validated_by_tlc=res['trace_stats'],
                      rule="interrupted run + resumed run per kill plan (evaluations counts process runs); non-trivial = the first run really died at the kill point",
                      samples=res['samples'][:4] + st['samples'][:3], outcomes=res['extra'].get('outcomes'),
                      consistent_states=dict(resumed=st['behaviours'], partial_bitmaps=st['distinct'], outcomes=st['extra'].get('outcomes')), plans_total=res['extra'].get('plans_total'),
                      skipped_over_budget=res['extra'].get('skipped_over_budget'),
                      special_histories=dict(runs=sx['behaviours'], outcomes=sx['extra'].get('outcomes')),
                      real_binary_sessions=dict(sessions=er['behaviours'], first_run_killed=er['distinct'], outcomes=er['extra'].get('outcomes'), trace_lines_validated=estats),
                      tlc=dict(states=mc['states'], transitions=mc['transitions'], runs=mc['runs']))
    v.assumptions = ["receiver killed by SIGKILL; sender kept healthy and restarted for the resumed run (sender kills / connection drops are exercised by C02's fault positions followed by C06's resumed runs)",
                     "workloads: 1 file x 4 chunks, 3 files (3+3+0 chunks), 1 file x 8 chunks; 64-byte chunks; 1 and 2 streams; verification tail 0 and 1"]
    return v.finish()
