"""C10 - signaling messages stay inside their session and carry the true sender.

Spec: specs/Routing.tla - handler-level semantics of the signaling server
(connect with last-write-wins peer ids, disconnect, addressed / broadcast /
spoofed / malformed messages, the session ending with its host) computing
every client's inbox; Isolation, PairFIFO and IndexOK are checked by TLC
exhaustively to a depth bound and by simulation; the hub's phase-split
interleavings are covered by Hub.tla: its transitions are replayed on the real
hub with the gates of the C11 driver and the routing oracles (a connected peer
is listed and routable, an addressed message reaches it exactly once) are
judged here.
Binding: TLC-simulated histories (3-4 sockets, 2-3 peer ids incl. duplicates,
2 sessions) are executed step by step by real WebSocket clients against the
real thruserv binary built from /repo; after every step every connected
client's receive log must equal the spec's inbox (type, from, to, author,
sequence number), so isolation, the overwritten `from`, exact addressing,
broadcast scope, per-pair order, no duplication / loss and the
unknown-addressee error are all decided on the real logs.  A concurrent
phase (driver routing-concurrent: nine clients in three sessions that use the
same peer ids send addressed, broadcast, spoofed and unknown-addressee
messages at the same time) is judged by the per-pair predicates of the
property on the receive logs: own session only, true `from`, exact
addressing, strictly increasing sequence numbers per author (no duplicate, no
reordering), nothing lost, one error report per unknown addressee, to the
author only.
"""
import os
import vlib

PROP = "C10"
BIG = dict(Clients='{"c1","c2","c3","c4"}', PeerIds='{"p1","p2","p3"}', Sessions='{"s1","s2"}')
SMALL = dict(Clients='{"c1","c2","c3"}', PeerIds='{"p1","p2"}', Sessions='{"s1","s2"}')
INVS = ['Isolation', 'PairFIFO', 'IndexOK']


def run(tier, seed):
    v = vlib.Verdict(PROP, tier, seed, "model_checking")
    work = vlib.scratch("c10-")
    depth = 5 if tier == "quick" else 6
    r = vlib.run_tlc('Routing', dict(constants=dict(SMALL, MaxSteps=depth, Track=True), invariants=INVS, constraint='DepthBound'),
                     workers=vlib.NCPU, want_edges=False, timeout=3000)
    if r['violated']:
        raise vlib.HarnessTrouble("Routing.tla violates its invariants:\n" + r['violation_text'][:2000])
    nsim, dsim, shards = (60, 30, 6) if tier == "quick" else (1500, 40, 14)
    ep = os.path.join(work, "routing.ndjson")
    rs = vlib.run_tlc('Routing', dict(constants=dict(BIG, MaxSteps=1000, Track=True), invariants=INVS, action_constraint='Emit'),
                      simulate=nsim, depth=dsim, seed=seed, edges_path=ep, timeout=1800)
    if rs['violated']:
        raise vlib.HarnessTrouble("Routing.tla violates its invariants in simulation:\n" + rs['violation_text'][:2000])
    srv = vlib.build_repo_bin('./cmd/thruserv', 'thruserv')
    res = vlib.run_vh_sharded(['routing', '-edges', ep, '-thruserv', srv], shards, timeout=3000)
    for viol in res['violations']:
        v.violation(viol['sig'], viol.get('replay'))
    # the hub's phase-split interleavings (a peer joining while the last one is still leaving, ...) decide whether an
    # addressed message reaches a connected peer: gated replay on the real hub (the C11 driver), routing oracles only
    HUBCFG = dict(Conns='<-ConnsA', Sess='<-SessA', PeerOf='<-PeerOfA', Track=True, NB=1, NS=1, MaxObj=3, SendOnClosedPanics=False, GCUsesCapturedMap=False)
    eh = os.path.join(work, "hubA.ndjson")
    try:
        import C11 as c11
        HUBCFG = dict(c11.CFG['A'], Track=True, NB=1, NS=1, MaxObj=3, **c11.CURRENT)
        hinv = c11.INVS
    except Exception:
        hinv = []
    rh = vlib.run_tlc('Hub', dict(constants=HUBCFG, invariants=hinv, view='View', action_constraint='Emit'), workers=vlib.NCPU, edges_path=eh, timeout=1800)
    if rh['violated']:
        raise vlib.HarnessTrouble("Hub.tla violates its invariants:\n" + rh['violation_text'][:1500])
    hub = vlib.run_vh_sharded(['hub', '-edges', eh, '-cfg', 'A', '-ns', '1', '-seed', str(seed), '-sample', '2500' if tier == "quick" else '12000',
                               '-budget', '60s' if tier == "quick" else '8m'], 6, timeout=1800)
    ROUTING = {'connected_peer_not_routable', 'connected_peer_not_listed', 'sendto_live_peer_returns_false',
               'addressed_message_to_live_peer_not_delivered', 'message_delivered_twice'}
    for viol in hub['violations']:
        if viol['sig'].get('kind') in ROUTING:
            v.violation(dict(viol['sig'], via='hub'), viol.get('replay'))
    # concurrent phase: every client of three sessions (same peer ids in each) sends at once
    conc = vlib.run_vh_sharded(['routing-concurrent', '-thruserv', srv, '-rounds', '8' if tier == "quick" else '60'], 4, timeout=1800)
    # the same against a server that issues TURN credentials (they embed the peer id), with peer ids containing ':' '@' '%'
    conc2 = vlib.run_vh_sharded(['routing-concurrent', '-thruserv', srv, '-rounds', '4' if tier == "quick" else '24', '-turn-ids'], 4, timeout=1800)
    conc['violations'] = conc['violations'] + conc2['violations']
    conc['behaviours'] += conc2['behaviours']
    for viol in conc['violations']:
        v.violation(viol['sig'], viol.get('replay'))
    # the author's side of the path: the real signaling client (internal/wsclient) sends a batch and closes at once; the
    # recipient, connected and reading all the while, gets every envelope Send accepted, in order
    cc = vlib.run_vh_sharded(['client-close', '-thruserv', srv, '-rounds', '6' if tier == "quick" else '30'], 3, timeout=900)
    for viol in cc['violations']:
        v.violation(viol['sig'], viol.get('replay'))
    # the recipient's connection stalls until its queue at the hub has overflowed, then comes back while the author keeps
    # sending (real Hub.SendTo): what is delivered is a subsequence of what was sent, in the author's order
    ho = vlib.run_vh_sharded(['hub-order', '-rounds', '6' if tier == "quick" else '60'], 3, timeout=600)
    for viol in ho['violations']:
        v.violation(viol['sig'], viol.get('replay'))
    v.coverage = dict(states=r['distinct'], transitions=r['generated'], traces_validated_against_impl=res['behaviours'],
                      samples=res['samples'][:4],
                      tlc=dict(exhaustive=dict(config=SMALL, depth=depth, generated=r['generated'], distinct=r['distinct']),
                               simulate=dict(config=BIG, traces=nsim, depth=dsim, states=vlib.sim_states(rs))),
                      replay=dict(histories=res['behaviours'], steps=res['steps'], long_histories=res['distinct'],
                                  hub_interleavings_replayed=hub['behaviours'],
                                  concurrent_rounds=conc['behaviours'], concurrent_messages_judged=conc['extra'].get('messages_judged'),
                                  inbox_mismatches=res['drift'], actions_exercised=res['extra'].get('actions_exercised')))
    v.assumptions = ["rate limits off, at most a few undelivered messages per recipient (the 256-entry queue never fills)",
                     "steps are executed one after the other with a settle wait (2 s max) before inboxes are compared; concurrency inside the hub is C11's subject",
                     "turn_credentials messages are ignored in the comparison (TURN issuing off)"]
    return v.finish()
