"""C01 - a transfer that reports success delivers an identical tree (see transfer_common).

Besides the configuration grid: the hook traces of all grid transfers are validated with TLC
against SessionTrace.tla, and driver xfer-special covers two input regions the grid does not
reach - output directories that already hold stale files of other lengths at the same paths, and
single sparse files beyond 4 GiB at the default and at a 1 MiB chunk size (the destination holds the
low chunks, marked complete with the real Sidecar API, so only the chunks around the 2^32 byte
mark travel; sampled regions and the length are compared); leftovers of an attempt that used
another chunk size (partly written file plus metadata with holes, equal and different chunk counts);
trees with symbolic links to regular files; chunk sizes of several MiB up to 64 MiB; sources with
runs of zeros covering whole chunks over stale non-zero files; several selections with the same base
name given out of lexical order, opened through the application's real path resolver."""
import vlib
import transfer_common as tc
import e2e_common

PROP = "C01"


def run(tier, seed):
    v = vlib.Verdict(PROP, tier, seed, "model_checking")
    work = vlib.scratch("c01-")
    mc = tc.model_check(tier, faults=False)
    res = tc.grid(tier, seed, work)
    for viol in res['violations']:
        if viol['sig'].get('property') == 'C01':
            v.violation(viol['sig'], viol.get('replay'))
    other = [x['sig'] for x in res['violations'] if x['sig'].get('property') != 'C01']
    if other:
        v.notes.append("runs that did not end in success on both sides are judged by C03, not here: %s" % str(other[:3])[:400])
    e2e_common.report_rules(v, PROP, res['trace_rules'])
    # two input regions outside the grid: a non-empty output directory (stale longer / shorter files at the
    # same paths) and single files beyond 4 GiB (sparse, only the chunks around the 2^32 byte mark travel)
    sp = vlib.run_vh_sharded(['xfer-special', '-seed', str(seed), '-groups', 'prepop,manychunks,manyfiles,large,rechunk,symlink,geometry,multiselect,resend'], 8, timeout=1800)
    for viol in sp['violations']:
        if viol['sig'].get('property') == 'C01':
            v.violation(viol['sig'], viol.get('replay'))
    # "with or without resume": a second fetch into a directory that already holds the tree, whose last recorded chunk is
    # damaged on disk - success on both sides must still mean an identical tree (cases of the C06 driver)
    rt = vlib.run_vh_sharded(['resume-tamper', '-seed', str(seed), '-only', 'complete-torn-last,torn-first-only'], 4, timeout=1200)
    for viol in rt['violations']:
        if viol['sig'].get('kind') == 'stale_or_damaged_resume_state_trusted':
            v.violation(dict(kind='both_sides_report_success_tree_differs', via='resumed fetch over a damaged last recorded chunk', case=viol['sig'].get('case')), viol.get('replay'))
    v.coverage = dict(states=mc['states'], transitions=mc['transitions'], traces_validated_against_impl=res['behaviours'], resumed_over_damaged_chunk=rt['behaviours'],
                      samples=res['samples'][:6], hook_traces_validated_by_tlc=res['trace_stats'], transfers_not_traced=res['extra'].get('transfers_not_traced'), tlc=dict(runs=mc['runs'], invariant="Fidelity: sres=ok /\\ rres=ok => every chunk of every file written correctly"),
                      grid=dict(rows_in_grid=res['grid_rows'], runs=res['behaviours'], multi_file_runs=res['distinct'], outcomes=res['extra'].get('outcomes'),
                                skipped_over_budget=res['extra'].get('skipped_over_budget')),
                      special_inputs=dict(runs=sp['behaviours'], outcomes=sp['extra'].get('outcomes')))
    v.assumptions = ["file contents are seeded random bytes; trees come from 13 shape classes scaled to the chunk size",
                     "transports: vnet (mock visibility), vnet (QUIC visibility, seeded arrival order), real loopback QUIC; 1..3 connections",
                     "the oracle compares relative paths, types, sizes and sha256 of everything under the output directory except .thruflux_resumedata"]
    return v.finish()
