"""C17, end-to-end binding: the inputs of Dispatch.tla (chunk count, reported bitmap, tail, verification
on/off, hash matches / differs / unknown, report or none) run through the real SendManifestMultiStream
against a scripted, protocol-conformant receiver whose resume report arrives at once or late (after the
grace period, with the first frame held until the sender installed the plan).  Driver: dispatch-e2e."""
import os
import vlib


def run(v, tier, seed, work):
    quick = tier == "quick"
    dims = dict(MaxN=3, W=2, MaxTail=1) if quick else dict(MaxN=4, W=2, MaxTail=2)
    ep = os.path.join(work, "dispatch_inputs.ndjson")
    # only the inputs are needed: depth-1 edges carry them
    r = vlib.run_tlc('Dispatch', dict(constants=dict(Track=True, EndChecksResend=True, VerifyAfterEnd=False, SkipUnverifiable=False, Wide=False, **dims),
                                      view='View', action_constraint='Emit', constraint='DepthOne'),
                     workers=8, edges_path=ep, timeout=900)
    res = vlib.run_vh_sharded(['dispatch-e2e', '-edges', ep], 12, timeout=2400)
    # wide files: 8 and 16 chunks (whole bitmap bytes) with a family of bitmaps
    epw = os.path.join(work, "dispatch_inputs_wide.ndjson")
    rw = vlib.run_tlc('Dispatch', dict(constants=dict(Track=True, EndChecksResend=True, VerifyAfterEnd=False, SkipUnverifiable=False, Wide=True, MaxN=16, W=2, MaxTail=1 if quick else 2),
                                       view='View', action_constraint='Emit', constraint='DepthOne'),
                      workers=8, edges_path=epw, timeout=900)
    resw = vlib.run_vh_sharded(['dispatch-e2e', '-edges', epw, '-sample', '3' if quick else '1'], 12, timeout=2400)
    res = vlib.merge_results([res, resw])
    for viol in res['violations']:
        v.violation(viol['sig'], viol.get('replay'))
    return dict(traces=res['behaviours'], samples=res['samples'][:3],
                summary=dict(runs=res['behaviours'], frames=res['steps'], outcomes=res['extra'].get('outcomes'), inputs=r['edges']))
