"""C07 - the receiver never touches anything outside its output directory.

Spec: specs/Paths.tla - segments over the alphabet {name, "..", ".", "",
name-with-inner-dots, backslash traversal, "..."}, Join/Clean as Go's
filepath does them, the four peer-controlled fields (manifest.root, directory
rel_path, file rel_path = FileBegin path, item.id) with their sinks and
guards, plus FileBegin.rel_path on its own (benign manifest, record with the key and size of a listed file
and another path), both root-directory modes, resume on/off.  TLC enumerates every value
up to MaxLen segments x absolute flag and checks Confined (guard rejects or
the cleaned target stays below the output directory); with the pinned
commit's guards (GuardAllFields = FALSE) TLC must find an escape.
Binding: every enumerated case becomes a hostile scripted sender driving the
real RecvManifestMultiStream into an output directory four levels deep inside
a jail pre-populated with sentinel files (including the names the sinks would
use); everything around the output directory is snapshotted (path, type,
size, mtime, sha256) before and after.  The real accept/reject decision is
compared with the spec's guard (reported as drift).
A fifth peer-controlled value lives outside the transfer package: the root
name of the signaling manifest offer, which `thru join` uses to look up and
clear resume data before the transfer starts.  Driver paths-binary offers
hostile root names to the real binary (scripted host, user answers accept +
overwrite / resume) inside the same kind of jail.
"""
import os
import vlib

PROP = "C07"


def run(tier, seed):
    v = vlib.Verdict(PROP, tier, seed, "exploration")
    work = vlib.scratch("c07-")
    maxlen, variants, shards = (2, 1, 8) if tier == "quick" else (3, 2, 14)
    ep = os.path.join(work, "paths.ndjson")
    r = vlib.run_tlc('Paths', dict(constants=dict(MaxLen=maxlen, GuardAllFields=True, BeginByKey=False, Shape='"all"'), invariants=['Confined'], action_constraint='Emit'),
                     workers=8, edges_path=ep, timeout=900)
    if r['violated']:
        raise vlib.HarnessTrouble("Paths.tla: the modelled guards do not confine:\n" + r['violation_text'][:1500])
    rn = vlib.run_tlc('Paths', dict(constants=dict(MaxLen=2, GuardAllFields=False, BeginByKey=False, Shape='"all"'), invariants=['Confined']), workers=4, want_edges=False, expect_violation=True)
    if not rn['violated']:
        raise vlib.HarnessTrouble("negative control (only FileBegin validated) not refuted")
    rk = vlib.run_tlc('Paths', dict(constants=dict(MaxLen=2, GuardAllFields=True, BeginByKey=True, Shape='"all"'), invariants=['Confined']), workers=4, want_edges=False, expect_violation=True)
    if not rk['violated']:
        raise vlib.HarnessTrouble("negative control (FileBegin matched to its item by key, path from the wire) not refuted")
    res = vlib.run_vh_sharded(['paths-jail', '-edges', ep, '-variants', str(variants)], shards, timeout=2400)
    if tier == "quick":
        # plus every 6th case of the 3-segment space, and all of its cases that climb two levels after a harmless first segment
        ep3 = os.path.join(work, "paths3.ndjson")
        r3 = vlib.run_tlc('Paths', dict(constants=dict(MaxLen=3, GuardAllFields=True, BeginByKey=False, Shape='"all"'), invariants=['Confined'], action_constraint='Emit'),
                          workers=8, edges_path=ep3, timeout=900)
        res3 = vlib.run_vh_sharded(['paths-jail', '-edges', ep3, '-sample', '6', '-deep'], shards, timeout=2400)
        res = vlib.merge_results([res, res3])
    # longer paths of one shape: a harmless first segment (a name, "a..b", "...", a padded ".."), two or three "..", a name
    epd = os.path.join(work, "paths_decoy.ndjson")
    rd = vlib.run_tlc('Paths', dict(constants=dict(MaxLen=5, GuardAllFields=True, BeginByKey=False, Shape='"decoy"'), invariants=['Confined'], action_constraint='Emit'),
                      workers=4, edges_path=epd, timeout=600)
    if rd['violated']:
        raise vlib.HarnessTrouble("Paths.tla (decoy shape): the modelled guards do not confine:\n" + rd['violation_text'][:1500])
    resd = vlib.run_vh_sharded(['paths-jail', '-edges', epd, '-variants', '3'], shards, timeout=2400)
    # paths that climb out only behind 64 harmless components (a guard that looks at a bounded number of components)
    epp = os.path.join(work, "paths_deep.ndjson")
    rp = vlib.run_tlc('Paths', dict(constants=dict(MaxLen=5, GuardAllFields=True, BeginByKey=False, Shape='"deep"'), invariants=['Confined'], action_constraint='Emit'),
                      workers=4, edges_path=epp, timeout=600)
    if rp['violated']:
        raise vlib.HarnessTrouble("Paths.tla (deep shape): the modelled guards do not confine:\n" + rp['violation_text'][:1500])
    resp = vlib.run_vh_sharded(['paths-jail', '-edges', epp, '-variants', '1'], shards, timeout=2400)
    res = vlib.merge_results([res, resd, resp])
    for viol in res['violations']:
        v.violation(viol['sig'], viol.get('replay'))
    # the application level: hostile root names in the signaling offer against the real `thru join` in a jail
    srv = vlib.build_repo_bin('./cmd/thruserv', 'thruserv')
    thru = vlib.build_repo_bin('./cmd/thru', 'thru')
    pb = vlib.run_vh_sharded(['paths-binary', '-thruserv', srv, '-thru', thru, '-edges', ep, '-sample', '3' if tier == "quick" else '1'], 6, timeout=1800)
    for viol in pb['violations']:
        v.violation(viol['sig'], viol.get('replay'))
    if res['drift']:
        print("DRIFT C07: %d cases where the real accept/reject decision differs from Paths.tla's guard (not a verdict)" % res['drift'])
        v.notes.append(str(res['drift_samples'][:2])[:500])
    v.coverage = dict(evaluations=res['behaviours'], distinct_nontrivial=res['distinct'],
                      rule="TLC enumerates field x segment sequence (<= %d segments over 7 classes) x absolute x root-dir mode x resume; each reached case is one hostile transfer; non-trivial = the value is rejected by the guard or would escape without it" % maxlen,
                      samples=res['samples'][:8], outcomes=res['extra'].get('outcomes'), exhaustive=True,
                      offer_root_names_against_the_binary=dict(runs=pb['behaviours'], outcomes=pb['extra'].get('outcomes')),
                      tlc=dict(cases=r['edges'], negative_controls_refuted=dict(only_filebegin_validated=rn['violated'], filebegin_matched_by_key=rk['violated'])), accept_reject_drift=res['drift'])
    v.assumptions = ["Unix path semantics; symlinks already present inside the output directory are not considered",
                     "segment spellings: names, '..', '.', empty, 'a..b', 'c\\\\..\\\\d', '...' (thorough: two spellings each)"]
    return v.finish()
