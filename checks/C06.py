"""C06 - stale, foreign or damaged resume state is never trusted.

Resume.tla with Tamper=TRUE: initial on-disk states {absent, garbage, foreign,
valid(any bitmap)} x {data file present, deleted/shortened} x {highest marked
chunk torn}; CompleteIsCorrect and liveness; the pinned commit's
'trust the sidecar although the data file is gone' is refuted, and TLC shows
the limit of the design (a torn chunk followed by an interrupted repair run).
Real code: a real interrupted output directory is damaged in every way of the
quantifier - every single-bit flip and every truncation of the sidecar, random
garbage, foreign identity fields, data file deleted / truncated around every
chunk boundary, the marked chunks torn at several positions - LoadSidecar is
called on it (no panic, consistent), then a real resumed transfer runs and
must end identical or fail loudly.
"""
import vlib
import resume_common as rc

PROP = "C06"


def run(tier, seed):
    v = vlib.Verdict(PROP, tier, seed, "fault_enumeration")
    mc = rc.model_check(tier, tamper=True)
    neg = rc.negative_controls(['TrustSidecarWithoutFile', 'TornThenKilled'])
    stride, shards, budget = (3, 8, '100s') if tier == "quick" else (1, 14, '15m')
    res = vlib.run_vh_sharded(['resume-tamper', '-seed', str(seed), '-stride', str(stride), '-budget', budget], shards, timeout=2400)
    for viol in res['violations']:
        v.violation(viol['sig'], viol.get('replay'))
    # the damaged highest chunk beyond the 4 GiB mark (sparse file, hash offsets cross 2^32)
    sp = vlib.run_vh_sharded(['xfer-special', '-seed', str(seed), '-groups', 'largetorn,lateinfo'], 4, timeout=1800)
    for viol in sp['violations']:
        if viol['sig'].get('property') == 'C06':
            v.violation(viol['sig'], viol.get('replay'))
    # the application level: real `thru join` killed in mid-transfer, the partly downloaded file changed by hand, second
    # real join answers "overwrite" - the old metadata must not make the new download skip anything
    import os
    work = vlib.scratch("c06e2e-")
    srvb = vlib.build_repo_bin('./cmd/thruserv', 'thruserv')
    thru = vlib.build_repo_bin('./cmd/thru', 'thru')
    er = vlib.run_vh_sharded(['e2e-resume', '-stale', '-n', '3' if tier == "quick" else '12', '-seed', str(seed), '-thruserv', srvb, '-thru', thru,
                              '-trace-out', os.path.join(work, "t")], 3, timeout=1800)
    for viol in er['violations']:
        sig = dict(viol['sig'])
        if sig.pop('prop', None) == PROP:
            v.violation(sig, viol.get('replay'))
    if res['drift']:
        raise vlib.HarnessTrouble("tamper driver could not build its template: %s" % str(res['drift_samples'][:1])[:400])
    v.coverage = dict(evaluations=res['behaviours'], distinct_nontrivial=res['distinct'],
                      rule="one resumed transfer per tampered state of a real interrupted directory; non-trivial = every case except the untouched control",
                      overwrite_choice_on_real_binaries=dict(sessions=er['behaviours'], first_run_killed=er['distinct'], outcomes=er['extra'].get('outcomes')),
                      torn_chunk_beyond_4GiB=dict(runs=sp['behaviours'], outcomes=sp['extra'].get('outcomes')),
                      samples=res['samples'][:8], by_kind=res['extra'].get('by_kind'), outcomes=res['extra'].get('outcomes'),
                      exhaustive=(stride == 1 and not res['extra'].get('skipped_over_budget')),
                      tlc=dict(states=mc['states'], transitions=mc['transitions'], runs=mc['runs'], negative_controls_refuted=neg))
    v.assumptions = ["bit flips and truncations of one valid 49-byte sidecar plus 12 garbage files; arbitrary other byte strings are not covered",
                     "a torn chunk that is not the highest marked one, and metadata with the right identity claiming chunks never written, are outside the property's statement (counted, not judged)",
                     "bit-flip stride %d" % stride]
    return v.finish()
