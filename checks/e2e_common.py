"""Whole sessions with the real binaries (thruserv, thru host, thru join built with -tags verif) and
validation of their hook traces against specs/SessionTrace.tla with TLC.

run_sessions() returns the driver's result (outcome oracles: bytes equal, exit status, same
connection - each violation tagged with the property it belongs to) and the rule violations the
trace specification recorded (rule names are prefixed with the property).  A check reports only
what belongs to its own property; the rest is printed as a note."""
import glob
import json
import os
import vlib


def run_sessions(n, seed, work, shards=6):
    srv = vlib.build_repo_bin('./cmd/thruserv', 'thruserv')
    thru = vlib.build_repo_bin('./cmd/thru', 'thru')
    prefix = os.path.join(work, 'sesstrace')
    res = vlib.run_vh_sharded(['e2e-sessions', '-n', str(n), '-thruserv', srv, '-thru', thru, '-seed', str(seed), '-trace-out', prefix],
                              min(shards, n), timeout=1800)
    tf = os.path.join(work, 'session_trace.ndjson')
    lines = []
    for f in sorted(glob.glob(prefix + '.*')):
        lines += open(f).read().splitlines()
    with open(tf, 'w') as o:
        o.write("\n".join(lines) + "\n")
    out = dict(res=res, lines=len(lines), rules=[], tlc=None)
    if not lines:
        raise vlib.HarnessTrouble("no session produced a trace")
    vp = os.path.join(work, 'session_verdict.ndjson')
    r = vlib.run_tlc('SessionTrace', dict(action_constraint='Emit', postcondition='Consumed'), workers=1, edges_path=vp,
                     extra_files=[tf], timeout=1200, jvm_opts="-Xss64m")
    if r['violated'] or r['edges'] != 1:
        raise vlib.HarnessTrouble("SessionTrace.tla did not consume the trace (%d lines): %s" % (len(lines), "\n".join(r['out_tail'][-8:])))
    verdict = json.loads(open(vp).read().splitlines()[0])['x']
    if verdict['lines'] != len(lines):
        raise vlib.HarnessTrouble("trace length mismatch")
    parsed = [json.loads(x) for x in lines]
    for rule, ln in verdict['viol']:
        ev = parsed[ln - 1]
        out['rules'].append(dict(rule=rule, prop=rule.split('.')[0], line=ln, event=ev,
                                 context=parsed[max(0, ln - 6):ln + 2]))
    out['tlc'] = dict(lines=len(lines), states=r['distinct'])
    return out


def report(v, prop, sess):
    """Adds to Verdict v the violations that belong to prop; prints the others as notes."""
    own = 0
    for viol in sess['res']['violations']:
        sig = dict(viol['sig'])
        p = sig.pop('prop', None)
        if p == prop:
            v.violation(sig, viol.get('replay'))
            own += 1
        else:
            print("NOTE %s: a whole-session run showed an anomaly that belongs to %s: %s" % (prop, p, json.dumps(sig)))
    for r in sess['rules']:
        if r['prop'] == prop:
            v.violation(dict(kind="trace_rule_violated", rule=r['rule'], point=r['event']['pt']), r)
            own += 1
        else:
            print("NOTE %s: trace rule %s (property %s) violated at line %d" % (prop, r['rule'], r['prop'], r['line']))
    return own
