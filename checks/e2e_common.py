"""Whole sessions with the real binaries (thruserv, thru host, thru join built with -tags verif) and
validation of their hook traces against specs/SessionTrace.tla with TLC.

run_sessions() returns the driver's result (outcome oracles: bytes equal, exit status, same
connection - each violation tagged with the property it belongs to) and the rule violations the
trace specification recorded (rule names are prefixed with the property).  A check reports only
what belongs to its own property; the rest is printed as a note."""
import glob
import json
import os
import vlib


def run_sessions(n, seed, work, shards=6):
    srv = vlib.build_repo_bin('./cmd/thruserv', 'thruserv')
    thru = vlib.build_repo_bin('./cmd/thru', 'thru')
    prefix = os.path.join(work, 'sesstrace')
    res = vlib.run_vh_sharded(['e2e-sessions', '-n', str(n), '-thruserv', srv, '-thru', thru, '-seed', str(seed), '-trace-out', prefix],
                              min(shards, n), timeout=1800)
    lines = []
    for f in sorted(glob.glob(prefix + '.*')):
        lines += open(f).read().splitlines()
    out = dict(res=res, lines=len(lines), rules=[], tlc=None)
    if not lines:
        raise vlib.HarnessTrouble("no session produced a trace")
    out['rules'], out['tlc'] = validate(lines, work)
    return out


def validate(lines, work, tag="session"):
    """TLC consumes the hook-trace lines with SessionTrace.tla; returns (rule violations, stats)."""
    sub = os.path.join(work, "tv-" + tag)
    os.makedirs(sub, exist_ok=True)
    tf = os.path.join(sub, 'session_trace.ndjson')
    with open(tf, 'w') as o:
        o.write("\n".join(lines) + "\n")
    vp = os.path.join(sub, 'session_verdict.ndjson')
    r = vlib.run_tlc('SessionTrace', dict(action_constraint='Emit', postcondition='Consumed'), workers=1, edges_path=vp,
                     extra_files=[tf], timeout=2400, jvm_opts="-Xss64m")
    if r['violated'] or r['edges'] != 1:
        raise vlib.HarnessTrouble("SessionTrace.tla did not consume the trace (%d lines): %s" % (len(lines), "\n".join(r['out_tail'][-8:])))
    verdict = json.loads(open(vp).read().splitlines()[0])['x']
    if verdict['lines'] != len(lines):
        raise vlib.HarnessTrouble("trace length mismatch")
    rules = []
    parsed = None
    for rule, ln in verdict['viol']:
        if parsed is None:
            parsed = [json.loads(x) for x in lines]
        ev = parsed[ln - 1]
        rules.append(dict(rule=rule, prop=rule.split('.')[0], line=ln, event=ev, context=parsed[max(0, ln - 8):ln + 2]))
    return rules, dict(lines=len(lines), states=r['distinct'])


def collect(prefix):
    lines = []
    for f in sorted(glob.glob(prefix + '.*')):
        lines += open(f).read().splitlines()
    return lines


def report_rules(v, prop, rules):
    for r in rules:
        if r['prop'] == prop:
            v.violation(dict(kind="trace_rule_violated", rule=r['rule'], point=r['event']['pt']), r)
        else:
            print("NOTE %s: trace rule %s (property %s) violated at line %d" % (prop, r['rule'], r['prop'], r['line']))


def report(v, prop, sess):
    """Adds to Verdict v the violations that belong to prop; prints the others as notes."""
    own = 0
    for viol in sess['res']['violations']:
        sig = dict(viol['sig'])
        p = sig.pop('prop', None)
        if p == prop:
            v.violation(sig, viol.get('replay'))
            own += 1
        else:
            print("NOTE %s: a whole-session run showed an anomaly that belongs to %s: %s" % (prop, p, json.dumps(sig)))
    for r in sess['rules']:
        if r['prop'] == prop:
            v.violation(dict(kind="trace_rule_violated", rule=r['rule'], point=r['event']['pt']), r)
            own += 1
        else:
            print("NOTE %s: trace rule %s (property %s) violated at line %d" % (prop, r['rule'], r['prop'], r['line']))
    return own
