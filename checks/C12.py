"""C12 - the host serves at most max-receivers at once, the rest in arrival order.

Spec: specs/Admission.tla (one action per event handler of SnapshotSender;
maybeStartTransfers as a recursive operator; transfer-function instances as
ground truth).
  1. TLC exhaustive (all event sequences up to MaxDepth over 3 receivers, for
     Max in {1,2}) with the intended-design switches: 11 invariants.
  2. Non-vacuity: the defect switches describing the pinned commit
     (stale completion frees the slot; cleanup drops queued receivers) are
     each refuted by TLC.
  3. Binding (replay, spec -> code): every transition of the explored graph
     becomes a behaviour stepped through a real SnapshotSender with a stub
     transfer function; after every event the real queue / active set /
     statuses / emitted TransferStart+TransferQueued are compared with the
     spec state, and the property oracle is evaluated on ground truth (stub
     census, contexts, FIFO bookkeeping kept by the driver).  Every behaviour
     is then drained (all transfers completed) and "nobody left behind" checked.
  4. TLC -simulate: long random event sequences replayed the same way.
  5. specs/DispatchLoop.tla: the scheduler loop at the grain of its lock
     regions (one iteration = one region; read-loop calls and transfer tails
     interleave between iterations).  TLC exhaustive for (Max, running at the
     start) configurations: Capacity, WorkConserving, FIFO; switch CountOnce
     (free slots read once) refuted.  Every transition replayed on the real
     maybeStartTransfers: dispatcher goroutines - the driver's and the real
     runTransfer tails - park at host.emit.start, the driver releases the one
     TLC moved; queue / slots / dispatcher state compared after each step.
     Driver admission-stress runs the same loop free.
  6. Application level (driver e2e-queue): a real `thru host --max-receivers M`
     and M+2 real `thru join` processes started together over the real
     thruserv; every join must finish with the identical tree, and on the
     host's hook trace the transfers between host.emit.start and
     host.transfer.end / host.peer.left.released never exceed M and start in
     the order in which the receivers were queued.
"""
import os
import vlib

PROP = "C12"
INVS = ['LiveBound', 'QueueNoDup', 'QueuedStatus', 'Exclusive', 'OneRunPerPeer', 'LeftNotServed',
        'NoSilentDrop', 'WorkConserving', 'NoDeadStart', 'SlotTruth', 'StatusTruth']
# what the code does now (after fix d14a883 and 88b1f28); DispatchWithRunCtx stays
# TRUE: the tail still re-dispatches with the run's own context, which TLC shows
# to be harmless once a stale completion cannot free a slot (NoDeadStart holds).
CURRENT = dict(StaleCompletionFreesSlot=False, TickDropsQueued=False, DispatchWithRunCtx=True)
PEERS = '{"a","b","c"}'
BUDGET = dict(quick="60s", thorough="8m")


def run(tier, seed):
    v = vlib.Verdict(PROP, tier, seed, "model_checking")
    work = vlib.scratch("c12-")
    depth = 8 if tier == "quick" else 10
    shards = 4 if tier == "quick" else 12
    tot = dict(states=0, transitions=0, behaviours=0, steps=0, drift=0, distinct=0)
    samples, acts, tlc_runs = [], {}, []
    for mx in (1, 2):
        c = dict(Peers=PEERS, Max=mx, MaxRuns=5, MaxDepth=depth, Track=True, **CURRENT)
        edges = os.path.join(work, "adm%d.ndjson" % mx)
        r = vlib.run_tlc('Admission', dict(constants=c, invariants=INVS, view='View', constraint='DepthBound',
                                           action_constraint='Emit'), workers=vlib.NCPU, edges_path=edges, timeout=1500)
        if r['violated']:
            raise vlib.HarnessTrouble("Admission.tla (current-code switches) violates its invariants:\n" + r['violation_text'][:2500])
        tlc_runs.append(dict(Max=mx, depth_bound=depth, generated=r['generated'], distinct=r['distinct'], wall_s=r['wall_s']))
        res = vlib.run_vh_sharded(['admission', '-edges', edges, '-mode', 'cover', '-max', str(mx), '-seed', str(seed), '-budget', BUDGET[tier]],
                                  shards, timeout=1500)
        absorb(v, res, tot, samples, acts)
        tot['states'] += r['distinct']
        tot['transitions'] += r['generated']
    # simulation: long random histories
    nsim, dsim = (300, 40) if tier == "quick" else (4000, 60)
    sim_states = 0
    for mx in (1, 2, 11):
        # (11: five receivers behind one slot - queues of three and more, receivers leaving from the middle of the queue)
        peers = PEERS
        if mx == 11:
            mx, peers = 1, '{"a","b","c","d","e"}'
        c = dict(Peers=peers, Max=mx, MaxRuns=60, MaxDepth=1000, Track=True, **CURRENT)
        edges = os.path.join(work, "admsim%d_%d.ndjson" % (mx, len(peers)))
        r = vlib.run_tlc('Admission', dict(constants=c, invariants=INVS, action_constraint='Emit'),
                         simulate=nsim, depth=dsim, seed=seed * 100 + mx, edges_path=edges, timeout=900)
        if r['violated']:
            raise vlib.HarnessTrouble("Admission.tla violates its invariants in simulation:\n" + r['violation_text'][:2500])
        sim_states += vlib.sim_states(r)
        res = vlib.run_vh_sharded(['admission', '-edges', edges, '-mode', 'sim', '-max', str(mx), '-seed', str(seed), '-budget', BUDGET[tier]],
                                  shards, timeout=900)
        absorb(v, res, tot, samples, acts)
    # non-vacuity
    refuted = {}
    for name, sw, inv in [
            ("StaleCompletionFreesSlot=TRUE", dict(CURRENT, StaleCompletionFreesSlot=True), 'LiveBound'),
            ("TickDropsQueued=TRUE", dict(CURRENT, TickDropsQueued=True), 'NoSilentDrop')]:
        c = dict(Peers=PEERS, Max=1, MaxRuns=5, MaxDepth=9, Track=True, **sw)
        rn = vlib.run_tlc('Admission', dict(constants=c, invariants=[inv], view='View', constraint='DepthBound'),
                          workers=8, want_edges=False, expect_violation=True)
        refuted[name] = rn['violated']
        if not rn['violated']:
            raise vlib.HarnessTrouble("negative config %s not refuted (vacuous spec?)" % name)
    # the application level: a real host with --max-receivers M and M+2 real joins started together
    srvb = vlib.build_repo_bin('./cmd/thruserv', 'thruserv')
    thru = vlib.build_repo_bin('./cmd/thru', 'thru')
    eq = vlib.run_vh_sharded(['e2e-queue', '-n', '4' if tier == "quick" else '16', '-seed', str(seed), '-thruserv', srvb, '-thru', thru], 4, timeout=1800)
    for viol in eq['violations']:
        sig = dict(viol['sig'])
        if sig.pop('prop', None) == PROP:
            v.violation(sig, viol.get('replay'))
        else:
            print("NOTE C12: a multi-receiver session showed an anomaly that belongs to another property: %s" % sig)
    # the scheduler loop at the grain of its lock regions: several dispatchers (read-loop calls, transfer tails)
    # interleaved between their iterations - DispatchLoop.tla exhaustive, every transition replayed on the real loop
    # with the dispatcher goroutines parked at host.emit.start; the switch CountOnce must be refuted
    dl_runs, dl_tot = [], dict(behaviours=0, steps=0, drift=0)
    work = vlib.scratch("c12dl-")
    # (Max, Busy, NQ, D, Callers, Late): Late = 0 - the queue is fixed at the start; Late > 0 - receivers leave while
    # their transfer runs, their transfer function returns later, others accept in between (F-C12-3)
    if tier == "quick":
        plans = ((1, 1, 4, 4, 2, 0), (2, 2, 4, 4, 2, 0), (3, 1, 4, 4, 2, 0), (2, 2, 1, 5, 3, 1), (1, 1, 2, 4, 2, 1))
    else:
        plans = ((1, 1, 5, 5, 2, 0), (2, 1, 5, 5, 2, 0), (2, 2, 5, 5, 2, 0), (3, 1, 5, 5, 2, 0), (3, 2, 5, 5, 2, 0), (3, 3, 5, 5, 2, 0),
                 (2, 2, 1, 5, 3, 1), (1, 1, 2, 4, 2, 1), (2, 2, 2, 6, 3, 1), (2, 2, 1, 6, 3, 2), (3, 3, 1, 6, 3, 1))
    for mx, busy, nq, nd, callers, late in plans:
        c = dict(Max=mx, NQ=nq, D=nd, Callers=callers, Busy=busy, Late=late, CountOnce=False, TailUsesOwnCtx=False, Track=True)
        ep = os.path.join(work, "dl_%d_%d_%d.ndjson" % (mx, busy, late))
        rd = vlib.run_tlc('DispatchLoop', dict(constants=c, invariants=['Capacity', 'WorkConserving', 'FIFO', 'NoDeadStart'], view='View', action_constraint='Emit'),
                          workers=4, edges_path=ep, timeout=900)
        if rd['violated']:
            raise vlib.HarnessTrouble("DispatchLoop.tla violates its invariants:\n" + rd['violation_text'][:1500])
        if late == 0:
            rn = vlib.run_tlc('DispatchLoop', dict(constants=dict(c, CountOnce=True), invariants=['Capacity'], view='View'), workers=4, want_edges=False, expect_violation=True)
            if not rn['violated']:
                raise vlib.HarnessTrouble("negative control CountOnce not refuted (Max=%d Busy=%d)" % (mx, busy))
        elif busy >= 2:
            rn = vlib.run_tlc('DispatchLoop', dict(constants=dict(c, TailUsesOwnCtx=True), invariants=['NoDeadStart'], view='View'), workers=4, want_edges=False, expect_violation=True)
            if not rn['violated']:
                raise vlib.HarnessTrouble("negative control TailUsesOwnCtx not refuted (Max=%d Busy=%d Late=%d)" % (mx, busy, late))
        else:
            rn = dict(violated=None)
        dr = vlib.run_vh_sharded(['dispatch-loop', '-edges', ep, '-max', str(mx), '-nq', str(nq), '-busy', str(busy), '-late', str(late)], 8, timeout=1800)
        for viol in dr['violations']:
            v.violation(viol['sig'], viol.get('replay'))
        dl_runs.append(dict(Max=mx, Busy=busy, NQ=nq, Late=late, dispatchers=nd, states=rd['distinct'], transitions=rd['edges'], behaviours_replayed=dr['behaviours'], drift=dr['drift'], negative_control_refuted=rn['violated']))
        for k in dl_tot:
            dl_tot[k] += dr[k]
        if dr['drift']:
            v.notes.append("dispatch-loop drift: " + str(dr['drift_samples'][:1])[:500])
    # the same loop free-running: batches of transfers ending together while the read loop keeps admitting receivers
    ast = vlib.run_vh_sharded(['admission-stress', '-rounds', '400' if tier == "quick" else '4000', '-seed', str(seed)], 4, timeout=900)
    for viol in ast['violations']:
        v.violation(viol['sig'], viol.get('replay'))
    if dl_tot['drift']:
        print("DRIFT C12: %d behaviours where the real scheduler loop differs from DispatchLoop.tla (not a verdict)" % dl_tot['drift'])
    if tot['drift']:
        print("DRIFT C12: %d behaviours where the real SnapshotSender differs from Admission.tla (not a verdict)" % tot['drift'])
    v.coverage = dict(
        states=tot['states'], transitions=tot['transitions'],
        traces_validated_against_impl=tot['behaviours'],
        samples=samples[:6], exhaustive=True,
        dispatch_loop=dict(runs=dl_runs, behaviours=dl_tot['behaviours'], steps=dl_tot['steps'], free_running_rounds=ast['behaviours']),
        real_binary_sessions=dict(scenarios=eq['behaviours'], outcomes=eq['extra'].get('outcomes')),
        tlc=dict(exhaustive_runs=tlc_runs, simulate=dict(traces_per_max=nsim, depth=dsim, states=sim_states),
                 negative_configs_refuted=refuted),
        replay=dict(behaviours=tot['behaviours'], steps=tot['steps'], drift=tot['drift'],
                    distinct_behaviours=tot['distinct'], actions_exercised=acts),
    )
    v.assumptions = [
        "environment: a receiver joins, accepts while connected (any number of times), leaves, may join again",
        "transfer function replaced by a stub that blocks until the driver completes it (ground truth for 'simultaneous transfers')",
        "bounds: 3 receivers, Max in {1,2}, exhaustive depth %d, simulated depth %d" % (depth, dsim),
    ]
    return v.finish()


def absorb(v, res, tot, samples, acts):
    for viol in res['violations']:
        v.violation(viol['sig'], viol.get('replay'))
    for k in ('behaviours', 'steps', 'drift', 'distinct'):
        tot[k] += res[k]
    samples += res['samples'][:2]
    for k, n in (res['extra'].get('actions_exercised') or {}).items():
        acts[k] = acts.get(k, 0) + n
    if res['drift']:
        v.notes.append("drift sample: " + str(res['drift_samples'][:1])[:500])
