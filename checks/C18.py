"""C18 - control-protocol encoding round-trips and stays in frame.

Spec: specs/Wire.tla (Mode "values" / "sequences"): every record type as a
field list with widths and length prefixes, EncodedLen derived from it; TLC
enumerates every variable-length class combined with every single and every
pair of numeric fields at the boundary classes {0, 1, max-1, max}, and every
sequence of up to MaxSeq record types.  Binding: each abstract value is
concretised with seeded fillings, encoded with the real write* function, the
number of bytes written must equal EncodedLen (binds the spec's frame layout
to the encoder), then decoded by readControlMessage from a stream that hands
out the bytes whole, in 1200-byte and in 7-byte pieces: equal value, stream
exhausted to the byte, next read reports end of stream.  Manifest headers
(0..300 items, unicode names) round-trip with a record chained behind.
Live streams (driver ctrl-stream): real multi-file resumed transfers over the
simulated connection, the sender giving up the processor after every Write on
the control stream; the bytes each side wrote there are then decoded with the
real decoder - header, then record after record to the last byte.
"""
import os
import vlib

PROP = "C18"


def run(tier, seed):
    v = vlib.Verdict(PROP, tier, seed, "exploration")
    work = vlib.scratch("c18-")
    maxseq = 3 if tier == "quick" else 4
    ev = os.path.join(work, "values.ndjson")
    es = os.path.join(work, "seqs.ndjson")
    r1 = vlib.run_tlc('Wire', dict(constants=dict(Mode='"values"', MaxSeq=maxseq), action_constraint='Emit'), workers=8, edges_path=ev, timeout=900)
    r2 = vlib.run_tlc('Wire', dict(constants=dict(Mode='"sequences"', MaxSeq=maxseq), action_constraint='Emit'), workers=8, edges_path=es, timeout=900)
    res = vlib.run_vh(['wire-values', '-edges', ev, '-seqs', es, '-fill', '3' if tier == "quick" else '40', '-seed', str(seed)], timeout=2400)
    for viol in res['violations']:
        v.violation(viol['sig'], viol.get('replay'))
    # live streams: what real multi-file transfers (resume negotiation, several writer goroutines, the sender yielding
    # after every control-stream write) put on the control stream in either direction decodes record by record to the last byte
    ls = vlib.run_vh_sharded(['ctrl-stream', '-runs', '24' if tier == "quick" else '240', '-seed', str(seed)], 6, timeout=1800)
    for viol in ls['violations']:
        if viol['sig'].pop('property', PROP) == PROP:
            v.violation(viol['sig'], viol.get('replay'))
        else:
            print("NOTE C18: a live transfer showed an anomaly that belongs to another property: %s" % viol['sig'])
    if res['drift']:
        print("DRIFT C18: encoded lengths differ from Wire.tla's EncodedLen on %d values (not a verdict)" % res['drift'])
        v.notes.append(str(res.get('drift_samples', [])[:1])[:400])
    v.coverage = dict(evaluations=res['steps'], distinct_nontrivial=res['distinct'],
                      rule="TLC enumerates (record type, variable-length class, numeric boundary tuple with <=2 fields off nominal) and all type sequences up to MaxSeq; each is concretised with seeded fillings; distinct = abstract values",
                      samples=res['samples'][:10], exhaustive=True, rows_by_type=res['extra'].get('rows_by_type'), sequences=res['extra'].get('sequences'),
                      live_control_streams=dict(transfers=ls['behaviours'], records_decoded=ls['steps'], outcomes=ls['extra'].get('outcomes'), records_by_type=ls['extra'].get('records_by_type')),
                      encoded_length_drift=res['drift'], tlc=dict(value_rows=r1['edges'], sequence_rows=r2['edges']))
    v.assumptions = ["values within the protocol's field limits (paths <= 1024 bytes and accepted by validateRelPath, ids / error texts <= 65535 bytes, bitmaps up to 64 KiB)",
                     "numeric fields: all singles and pairs at boundary classes, not the full product"]
    return v.finish()
