"""C08 - only holders of the join code on the same TLS session pass transport auth.

Specs: specs/Auth.tla - symbolic two-message handshake (key = (code, TLS
session), proof = MAC over version, role, nonce), honest sender and receiver,
an attacker that owns its own TLS sessions (rogue dialer, rogue listener,
relay between two sessions), knows any subset of the codes and a recorded
older session, and may forge under what it knows, replay, reflect, swap or
spoil the role, alter version / nonce / mac, truncate or stay silent; plus a
fault that alters a message between two honest ends.  Invariants: Sound (an
honest end accepts only if the other end of its TLS session holds its code),
Complete, AlteredRejected, DataOnlyAfterAuth.  Three switches are negative
controls (no role check -> reflection; key not bound to the session -> relay;
connection used without a successful handshake).
specs/AuthExtras.tla - the accept / dial loops for the extra connections.
Binding: every terminal behaviour is an attack script executed over real
loopback QUIC: the honest ends run the real authenticateTransport on real
transferquic connections, the attacker is scripted on the other end of real
TLS sessions (its proofs are computed from the property's formula with the
exporter value of its own sessions only); alterations between honest ends are
applied by a wrapper around the sender's connection.  The alteration classes
are refined to every single-bit flip and every truncation length of both
messages.  The extra-connection scripts run the real acceptExtraConns /
dialExtraConns against scripted peers and identify the returned connections
by their TLS exporter value.  The call order on the primary connection is
observed on the real binaries: whole host / join sessions are run and both
processes' hook traces are validated with TLC against SessionTrace.tla (no
transfer-phase event before a successful auth.end, xfer.begin only from the
authenticated state).  Rogue peers (driver auth-binaries): a rogue host
against a real `thru join` (wrong code, garbage, receiver-role proof, manifest
and file instead of authentication) and a rogue receiver against a real
`thru host` (reflection, garbage, wrong code, sender-role proof, close): the
binary must refuse, the receiver exits non-zero with no file written, the
host opens no further stream and writes nothing beyond its 50-byte proof.
"""
import os
import vlib
import e2e_common

PROP = "C08"
ON = dict(RoleCheck=True, BindSession=True, UseOnlyAuthed=True)
INV = ['Sound', 'Complete', 'AlteredRejected', 'DataOnlyAfterAuth']


def run(tier, seed):
    v = vlib.Verdict(PROP, tier, seed, "model_checking")
    work = vlib.scratch("c08-")
    ep = os.path.join(work, "auth.ndjson")
    r = vlib.run_tlc('Auth', dict(constants=ON, invariants=INV, action_constraint='Emit'), workers=8, edges_path=ep, timeout=900)
    if r['violated']:
        raise vlib.HarnessTrouble("Auth.tla: the modelled handshake is refuted:\n" + r['violation_text'][:1500])
    controls = {}
    for sw in ON:
        c = dict(ON)
        c[sw] = False
        rn = vlib.run_tlc('Auth', dict(constants=c, invariants=INV), workers=4, want_edges=False, expect_violation=True)
        controls[sw] = rn['violated']
        if not rn['violated']:
            raise vlib.HarnessTrouble("negative control %s=FALSE not refuted" % sw)
    quick = tier == "quick"
    shards = 14
    scripts = vlib.run_vh_sharded(['auth-scripts', '-edges', ep, '-sample', '10' if quick else '1', '-variants', '1' if quick else '2',
                                   '-seed', str(seed)], shards, timeout=3000)
    bits = vlib.run_vh_sharded(['auth-bits', '-sample', '4' if quick else '1', '-seed', str(seed)], shards, timeout=1500)
    epx = os.path.join(work, "extras.ndjson")
    rx = vlib.run_tlc('AuthExtras', dict(constants=dict(MaxPeers=2 if quick else 3, AppendBeforeAuth=False), invariants=['OnlyAuthed', 'KeepsTheAuthed'],
                                         action_constraint='Emit'), workers=4, edges_path=epx, timeout=600)
    if rx['violated']:
        raise vlib.HarnessTrouble("AuthExtras.tla refuted:\n" + rx['violation_text'][:800])
    rxn = vlib.run_tlc('AuthExtras', dict(constants=dict(MaxPeers=2, AppendBeforeAuth=True), invariants=['OnlyAuthed']), workers=2, want_edges=False, expect_violation=True)
    if not rxn['violated']:
        raise vlib.HarnessTrouble("negative control AppendBeforeAuth not refuted")
    extras = vlib.run_vh_sharded(['auth-extras', '-edges', epx], shards, timeout=1500)
    res = vlib.merge_results([scripts, bits, extras])
    for viol in res['violations']:
        v.violation(viol['sig'], viol.get('replay'))
    # the primary connection's call order in the real run functions: hook traces of real host / join
    # processes validated against SessionTrace.tla (no transfer-phase event before auth.end(ok))
    sess = e2e_common.run_sessions(6 if quick else 36, seed, work)
    e2e_common.report(v, PROP, sess)
    # rogue peers against the real binaries' primary connection (rogue host vs `thru join`, rogue receiver vs `thru host`)
    srv = vlib.build_repo_bin('./cmd/thruserv', 'thruserv')
    thru = vlib.build_repo_bin('./cmd/thru', 'thru')
    rogue = vlib.run_vh_sharded(['auth-binaries', '-thruserv', srv, '-thru', thru] + (['-quick'] if quick else []), 4 if quick else 5, timeout=1200)
    for viol in rogue['violations']:
        sig = dict(viol['sig'])
        sig.pop('prop', None)
        v.violation(sig, viol.get('replay'))
    if res['drift']:
        print("DRIFT C08: %d scripts where the real accept/reject differs from Auth.tla (not a verdict)" % res['drift'])
        v.notes.append(str(res['drift_samples'][:2])[:600])
    v.coverage = dict(states=r['distinct'], transitions=r['generated'], depth=r['depth'],
                      constants=dict(codes=2, topologies=4, attacker_codes="every subset", alteration_classes=6),
                      traces_validated_against_impl=res['behaviours'],
                      replay=dict(attack_scripts=scripts['behaviours'], of=r['edges'], bit_and_truncation_cases=bits['behaviours'], of_bits=901,
                                  extra_connection_scripts=extras['behaviours'], outcomes=scripts['extra'].get('outcomes'),
                                  bit_outcomes=bits['extra'].get('outcomes'), extras_outcomes=extras['extra'].get('outcomes')),
                      whole_sessions=dict(sessions=sess['res']['behaviours'], trace_lines_validated=sess['lines'], outcomes=sess['res']['extra'].get('outcomes')),
                      rogue_peers_against_binaries=dict(runs=rogue['behaviours'], outcomes=rogue['extra'].get('outcomes')),
                      negative_controls_refuted=controls, drift=res['drift'], samples=res['samples'][:8])
    v.assumptions = ["HMAC-SHA256 and the TLS exporter are ideal (symbolic model): no forgery without the key, distinct sessions have unrelated exporter values",
                     "offline guessing of the join code from an observed proof is out of scope",
                     "the primary connection's call order in runICEQUICTransfer / runTransfer is observed on honest whole sessions (trace validation) and with rogue peers that take part in the real signaling and misbehave at the authentication step"]
    return v.finish()
