"""C19 - chunk geometry tiles every file exactly and identically on both sides.

Spec: specs/Geometry.tla - the separately written chunk-count expressions and
the per-index length/offset with Go's uint32 truncation made explicit.
  1. Apalache decides the theorems (tiling, agreement of counts, sidecar
     agreement) symbolically for the whole range 0..10 TiB x 1..2^32-1, and
     refutes the negative control (no `count fits 32 bit` premise).
  2. TLC enumerates the small domain (word size 16 so truncation is visited)
     and emits the function table.
  3. Binding: the table is compared entry by entry with the real chunkTotal,
     chunkSizeForIndex and CreateSidecar/LoadSidecar; an independent tiling
     oracle walks every chunk of every (size, chunk) pair of the small domain
     and of boundary + seeded random large pairs on the real functions; the
     large observations are written to GeoObs.tla and Apalache checks them
     against the operators in arbitrary precision.
  4. Real transfers (driver xfer-special): chunk sizes of several MiB up to
     64 MiB with sizes around their multiples, and resumed transfers over
     metadata left by an attempt with another chunk size - the metadata the
     transfer works with must carry the transfer's chunk size and count.
The receiver-side count (handleFileBegin) is bound through the transfer
drivers (FileResumeInfo.TotalChunks / recv.filebegin hook) in C01/C04.
"""
import os
import vlib

PROP = "C19"


def run(tier, seed):
    v = vlib.Verdict(PROP, tier, seed, "model_checking")
    work = vlib.scratch("c19-")
    # 1. theorems over the full range
    apa = {}
    for inv, expect in (("InvTiling", True), ("InvCounts", True), ("InvSidecar", True), ("InvSidecarAsWas", False), ("InvNoPremise", False)):
        a = vlib.run_apalache('GeometryApa', inv=inv, init='InitSym', cinit='CInitReal', length=0, timeout=600)
        apa[inv] = dict(holds=a['ok'], wall_s=a['wall_s'])
        if a['ok'] != expect:
            raise vlib.HarnessTrouble("Apalache: %s expected %s, got %s" % (inv, expect, a['ok']))
    # 2. small domain, exhaustive
    dom = dict(MaxSize=80, MaxChunk=12, Word=16, MaxIdx=18) if tier == "quick" else dict(MaxSize=200, MaxChunk=24, Word=32, MaxIdx=40)
    edges = os.path.join(work, "geo.ndjson")
    r = vlib.run_tlc('GeometryTable', dict(constants=dom, invariants=['InvTiling', 'InvCounts', 'InvSidecar'], action_constraint='Emit'),
                     workers=vlib.NCPU, edges_path=edges, timeout=900)
    if r['violated']:
        raise vlib.HarnessTrouble("Geometry.tla violates its theorems on the small domain:\n" + r['violation_text'][:1500])
    rn = vlib.run_tlc('GeometryTable', dict(constants=dom, invariants=['InvNoPremise']), workers=8, want_edges=False, expect_violation=True)
    if not rn['violated']:
        raise vlib.HarnessTrouble("negative control InvNoPremise not refuted by TLC")
    # 3. real functions
    res = vlib.run_vh(['geometry', '-edges', edges, '-seed', str(seed)], timeout=900)
    nl, obsmax = (300, 150) if tier == "quick" else (5000, 320)
    batches = 1 if tier == "quick" else 4
    obs_rows, large_beh, large_steps = 0, 0, 0
    results = [res]
    import concurrent.futures as cf

    def one(b):
        obs = os.path.join(work, "b%d" % b, "GeoObs.tla")
        os.makedirs(os.path.dirname(obs))
        rl = vlib.run_vh(['geometry', '-large', str(nl // batches), '-obs', obs, '-obsmax', str(obsmax), '-seed', str(seed * 10 + b)], timeout=900)
        a = vlib.run_apalache('GeoObs', inv='ObsAgree', init='InitSym', cinit='CInitReal', length=0, extra_files=[obs], timeout=900)
        return rl, a
    with cf.ThreadPoolExecutor(max_workers=batches) as ex:
        outs = list(ex.map(one, range(batches)))
    obs_ok = True
    for rl, a in outs:
        results.append(rl)
        obs_rows += rl['extra'].get('obs_rows', 0)
        if not a['ok']:
            obs_ok = False
    tot = vlib.merge_results(results)
    for viol in tot['violations']:
        v.violation(viol['sig'], viol.get('replay'))
    # 4. the tiles real transfers read and write, judged by their effect: chunk sizes of several MiB up to 64 MiB
    # (the sender's block-wise reads), and resumed transfers over metadata left by an attempt with another chunk
    # size (the count the metadata carries must be the transfer's)
    sp = vlib.run_vh_sharded(['xfer-special', '-seed', str(seed), '-groups', 'geometry,rechunk,prepop'], 8, timeout=1800)
    for viol in sp['violations']:
        sig = viol['sig']
        if sig.get('property') == 'C19':
            v.violation(sig, viol.get('replay'))
        elif sig.get('property') == 'C01' and sig.get('tree') == 'prepopulated-output':
            # what the receiver wrote does not tile the file exactly: bytes of an older, longer file remain behind the last chunk
            v.violation(dict(kind='offsets_written_do_not_tile_the_file_exactly', tree='prepopulated-output'), viol.get('replay'))
    # the repair of a chunk that failed resume verification is framed with the geometry of that chunk: when it is the
    # short last chunk, a sender that asks for a full chunk reads beyond the end of the file ("short read")
    rt = vlib.run_vh_sharded(['resume-tamper', '-seed', str(seed), '-only', 'complete-torn-last', '-require-complete'], 4, timeout=1200)
    for viol in rt['violations']:
        if 'short read' in (viol['sig'].get('sendErr') or '') + (viol['sig'].get('recvErr') or ''):
            v.violation(dict(kind='sender_reads_a_range_beyond_the_end_of_the_file', via='repair of the short last chunk'), viol.get('replay'))
    # the sender's side of the sum: source files that shrink / grow / vanish after the scan - the chunks framed must add up to
    # the announced size or the transfer must fail (the source cases of the C02 fault driver)
    sf = vlib.run_vh_sharded(['xfer-faults', '-seed', str(seed), '-stride', '4', '-only', 'source', '-budget', '60s'], 4, timeout=900)
    for viol in sf['violations']:
        v.violation(dict(kind='chunk_lengths_do_not_sum_to_the_announced_size', via=viol['sig'].get('kind')), viol.get('replay'))
    if not obs_ok:
        # real outputs disagree with the spec operators: conformance drift unless the oracle above flagged it
        tot['drift'] += 1
        v.notes.append("Apalache: the observation table of the real functions does not satisfy Geometry.tla's operators")
    if tot['drift']:
        print("DRIFT C19: real functions differ from Geometry.tla on %d rows (not a verdict)" % tot['drift'])
        v.notes.append(str(tot['drift_samples'][:1])[:500])
    v.coverage = dict(
        states=r['distinct'], transitions=r['generated'],
        traces_validated_against_impl=tot['behaviours'],
        samples=tot['samples'][:8], exhaustive=True,
        apalache=dict(theorems=apa, range="size 0..10 TiB, chunk 1..2^32-1, idx 0..2^32, Word 2^32",
                      observation_rows_checked=obs_rows, observations_agree=obs_ok),
        tlc=dict(domain=dom, rows=r['edges'], negative_control_refuted=rn['violated']),
        real_transfers=dict(runs=sp['behaviours'], outcomes=sp['extra'].get('outcomes'), source_changes_after_scan=dict(runs=sf['behaviours'], outcomes=sf['extra'].get('outcomes'))),
        replay=dict(pairs_walked=tot['behaviours'], function_evaluations=tot['steps'], drift=tot['drift']),
    )
    v.assumptions = ["Apalache/z3 for the symbolic theorems", "the receiver-side expression is bound by the transfer drivers, not here",
                     "large pairs: boundary grid + %d seeded random pairs" % nl]
    return v.finish()
