"""C17 - each needed chunk and each file is dispatched exactly once, then one FileEnd.

Spec: specs/Dispatch.tla (per-file dispatch state machine, one action per
mutex region, W workers x report arrival x verdict arrival, all inputs chosen
in Init) (specs/Sched.tla: file activation over P slots).
  1. TLC, exhaustive, intended-design switches: all invariants + deadlock
     freedom before End; a fairness config checks <>(End).
  2. Non-vacuity: the two defect switches (what the code did before the two
     `fix:` commits) must each be refuted by TLC.
  3. Binding A1: every transition of the state graph becomes one behaviour
     replayed call-by-call on the real transfer.sendFileState (through the
     overlay shim); the property oracle is evaluated on the real return
     values, then the run is driven to quiescence and the end-of-run oracle
     applied.
  4. Binding A2 (checks/C17_e2e.py, driver dispatch-e2e): every input of the
     model runs through the real SendManifestMultiStream against a scripted,
     protocol-conformant receiver whose resume report arrives at once or late
     (after the grace period; the first chunk frame is held on the wire until
     the `send.plan.set` hook has fired).  The frames observed on the wrapped
     data streams carry ticks of a logical clock shared with the hook
     handler; the property's clauses are judged on them: exact frame multiset
     when the report precedes dispatch, no reported chunk taken after the
     plan, a delivered report is applied, re-send exactly once, one FileEnd
     after the last frame.
  5. Scheduler (checks/C17_sched.py): Sched.tla model-checked (OnceOnly,
     ReturnedMeansStarted, NoStall, liveness AllBegun); the real
     HybridScheduler is walked along its state graph the way the sender uses
     it (Add, Next, re-Add with the start time, UpdateRemaining, Remove).
"""
import os
import vlib

PROP = "C17"
INVS = ['TypeOK', 'VerifiedOrResent', 'InFlightExact', 'AtMostOnce', 'OneEnd', 'EndIsClean', 'NothingAfterEnd',
        'NoSkippedAfterPlan', 'ResendOnce', 'CompleteAtEnd', 'ResendAtQuiescence', 'NoStuck']
INTENDED = dict(Wide=False, EndChecksResend=True, VerifyAfterEnd=False, SkipUnverifiable=False)


def run(tier, seed):
    v = vlib.Verdict(PROP, tier, seed, "model_checking")
    if tier == "quick":
        dims = dict(MaxN=3, W=2, MaxTail=1)
    else:
        dims = dict(MaxN=4, W=3, MaxTail=2)
    work = vlib.scratch("c17-")
    # 1. exhaustive model check + emission of every transition
    c = dict(Track=True, **dims, **INTENDED)
    edges = os.path.join(work, "dispatch.ndjson")
    r = vlib.run_tlc('Dispatch', dict(constants=c, invariants=INVS, view='View', action_constraint='Emit'),
                     workers=vlib.NCPU, edges_path=edges, timeout=1500)
    if r['violated']:
        raise vlib.HarnessTrouble("Dispatch.tla (intended design) violates its own invariants:\n" + r['violation_text'][:2000])
    # liveness under fairness (no VIEW, no tracking variables)
    cl = dict(Track=False, MaxN=3, W=2, MaxTail=1, **INTENDED)
    rl = vlib.run_tlc('Dispatch', dict(spec='FairSpec', constants=cl, properties=['EventuallyEnd']),
                      workers=vlib.NCPU, want_edges=False, timeout=900)
    if rl['violated']:
        raise vlib.HarnessTrouble("Dispatch.tla liveness violated:\n" + rl['violation_text'][:2000])
    # 2. non-vacuity: each defect switch must be refuted
    refuted = {}
    for name, sw, inv in [("EndChecksResend=FALSE", dict(Wide=False, EndChecksResend=False, VerifyAfterEnd=False, SkipUnverifiable=False), 'EndIsClean'),
                          ("VerifyAfterEnd=TRUE", dict(Wide=False, EndChecksResend=True, VerifyAfterEnd=True, SkipUnverifiable=False), 'NothingAfterEnd'),
                          ("SkipUnverifiable=TRUE", dict(Wide=False, EndChecksResend=True, VerifyAfterEnd=False, SkipUnverifiable=True), 'VerifiedOrResent')]:
        cn = dict(Track=True, MaxN=3, W=2, MaxTail=1, **sw)
        rn = vlib.run_tlc('Dispatch', dict(constants=cn, invariants=[inv], view='View'), workers=8,
                          want_edges=False, expect_violation=True)
        refuted[name] = rn['violated']
        if not rn['violated']:
            raise vlib.HarnessTrouble("negative config %s was not refuted by TLC (vacuous spec?)" % name)
    # 3. replay on the real sendFileState
    res = vlib.run_vh(['dispatch', '-edges', edges, '-mode', 'cover', '-workers', str(dims['W']),
                       '-seed', str(seed), '-verify-after-end=false'], timeout=1500)
    for viol in res['violations']:
        v.violation(viol['sig'], viol.get('replay'))
    if res['drift']:
        v.notes.append("conformance drift on %d behaviours (real sendFileState differs from Dispatch.tla): %s" % (
            res['drift'], str(res.get('drift_samples', [])[:1])[:600]))
        print("DRIFT C17: %d behaviours where the real object differs from the spec (not a verdict)" % res['drift'])
    # the resume report arrives after the grace period, while workers are already active on the file, and the sender's
    # statistics callback is slow: the file must not be ended before the chunk that failed verification has gone out again
    li = vlib.run_vh_sharded(['xfer-special', '-seed', str(seed), '-groups', 'lateinfo'], 4, timeout=900)
    for viol in li['violations']:
        if viol['sig'].get('kind') == 'damaged_last_complete_chunk_not_repaired':
            v.violation(dict(kind='file_ended_without_re_sending_the_chunk_that_failed_verification', via='late resume report'), viol.get('replay'))
    # 4/5. end-to-end sender + scheduler traces
    import C17_e2e
    import C17_sched
    extra = C17_e2e.run(v, tier, seed, work)
    sched = C17_sched.run(v, tier, seed, work)
    extra['traces'] = extra.get('traces', 0) + sched['traces']
    extra['samples'] = extra.get('samples', []) + sched['samples']
    extra['summary'] = dict(sender=extra.get('summary'), scheduler=sched['summary'])
    v.coverage = dict(
        states=r['distinct'], transitions=r['generated'],
        traces_validated_against_impl=res['behaviours'] + extra.get('traces', 0),
        samples=res['samples'][:5] + extra.get('samples', []),
        exhaustive=True,
        tlc=dict(config=c, depth=r['depth'], wall_s=r['wall_s'], liveness=dict(config=cl, states=rl['distinct'], property='EventuallyEnd under WF of every action'),
                 negative_configs_refuted=refuted),
        replay=dict(behaviours=res['behaviours'], steps=res['steps'], drift=res['drift'],
                    distinct_behaviours=res['distinct'], actions_exercised=res['extra'].get('actions_exercised')),
        e2e=extra.get('summary'), late_resume_reports=dict(runs=li['behaviours'], outcomes=li['extra'].get('outcomes')),
    )
    v.assumptions = [
        "SetVerifyPending/SetPlan/Verdict are closures inside SendManifestMultiStream; in the state-machine replay their lock regions are mirrored by the shim and bound to the real closures only by the end-to-end runs",
        "bounds: chunks<=%d workers<=%d tail<=%d" % (dims['MaxN'], dims['W'], dims['MaxTail']),
    ]
    return v.finish()
