"""C09 - connection racing leaves both peers on the same single connection.

Spec: specs/ConnRace.tla - K candidate paths (each reachable or not); per path
the client-side and the server-side completion of the handshake are separate
steps that interleave freely across paths; the dialer's result channel of
capacity one, the caller's Take with the deferred cancel, late finishers; the
listener's accept queue (which keeps connections the dialer has closed), the
arrival of the dialer's close, the acceptor's choice of the primary and
transport authentication at both ends.  Invariants OneConnection,
SameConnection, NoSplit and the liveness property Converges hold for the
repaired code; the two switches that describe the pinned commit
(RefillAfterTake, CommitToFirst) are each refuted (negative controls).
Binding, dialing side: the real ice.Prober.ProbeAndDial against a real
quic-go listener on a wildcard socket that is reachable under several local
addresses (plus unreachable, duplicate and relay-prefixed candidates); every
dial goroutine parks at the `ice.dial.done` hook and is released in the order
of the TLC behaviour; a census of the listener's connections a grace period
after the return is compared (TLS exporter value) with the returned one.
Binding, accepting side: acceptOnce lives in runTransfer, so the real
`thru join` binary is driven by a scripted host over the real thruserv
(session, manifest offer, transfer start, candidates); the host establishes
and abandons connections to the receiver's candidates in the server-visible
order of the TLC behaviour and then runs the real sender-side authentication
on the connection it kept; the receiver's hook trace shows the connection it
committed to.  Finally whole sessions are run with the real host and join
binaries on this multi-address host (5 candidates); outcome, duration and the
hook traces of both processes (validated with TLC against SessionTrace.tla:
one winner, no swap of the primary after authentication) are judged.
The TCP variant of the set-up (dumb-tcp mode: the sender announces the
addresses of one TCP listener and commits to the first accepted connection,
the receiver goes through the addresses) is bound the same way: real
dialAddrs / acceptWithContext with one forwarder per address deciding which
path reaches the listener first, plus whole --dumb-tcp sessions.
Relay: a pion/turn server runs inside the sandbox (coturn's use-auth-secret
scheme, the one thruserv mints credentials for); whole sessions of the real
binaries run with the relay candidate available and with --test-turn (relay
only: the receiver's primary comes in on its relay listener), 1 and 3
connections; success, identical tree, and no stall (> 9 s) are required.
"""
import os
import vlib
import e2e_common

PROP = "C09"
INV = ['OneConnection', 'SameConnection', 'NoSplit']


def run(tier, seed):
    v = vlib.Verdict(PROP, tier, seed, "model_checking")
    work = vlib.scratch("c09-")
    quick = tier == "quick"
    fixed = dict(K=3, RefillAfterTake=False, CommitToFirst=False, RelayPaths='{}', ExtrasOnDirect=False)
    r = vlib.run_tlc('ConnRace', dict(constants=dict(fixed, Track=False), invariants=INV, view='View'), workers=8, want_edges=False, timeout=900)
    if r['violated']:
        raise vlib.HarnessTrouble("ConnRace.tla refuted for the repaired design:\n" + r['violation_text'][:1500])
    rl = vlib.run_tlc('ConnRace', dict(spec='Spec', constants=dict(fixed, Track=False), properties=['Converges']), workers=8, want_edges=False, timeout=900)
    if rl['violated']:
        raise vlib.HarnessTrouble("ConnRace.tla: Converges refuted:\n" + rl['violation_text'][:1500])
    controls = {}
    for sw, inv in (("RefillAfterTake", "OneConnection"), ("CommitToFirst", "NoSplit")):
        c = dict(fixed, Track=False)
        c[sw] = True
        rn = vlib.run_tlc('ConnRace', dict(constants=c, invariants=[inv], view='View'), workers=4, want_edges=False, expect_violation=True)
        controls[sw] = rn['violated']
        if not rn['violated']:
            raise vlib.HarnessTrouble("negative control %s=TRUE not refuted" % sw)
    # the receiver's relay allocation as a second listener: candidates behind it are dialled only after the direct round
    # has failed; the additional connections must be awaited on the listener the primary came in on (ExtrasMeet);
    # the design before fix 3639207 (always the direct listener) must be refuted
    relay_runs = []
    for rp in ('{3}', '{2,3}', '{1,2,3}'):
        c = dict(fixed, Track=False, RelayPaths=rp)
        rr = vlib.run_tlc('ConnRace', dict(constants=c, invariants=INV + ['ExtrasMeet'], view='View'), workers=8, want_edges=False, timeout=900)
        if rr['violated']:
            raise vlib.HarnessTrouble("ConnRace.tla (RelayPaths=%s) refuted for the repaired design:\n" % rp + rr['violation_text'][:1500])
        relay_runs.append(dict(RelayPaths=rp, distinct=rr['distinct'], generated=rr['generated']))
    rn = vlib.run_tlc('ConnRace', dict(constants=dict(fixed, Track=False, RelayPaths='{3}', ExtrasOnDirect=True), invariants=['ExtrasMeet'], view='View'),
                      workers=4, want_edges=False, expect_violation=True)
    controls['ExtrasOnDirect'] = rn['violated']
    if not rn['violated']:
        raise vlib.HarnessTrouble("negative control ExtrasOnDirect=TRUE not refuted")
    ep = os.path.join(work, "connrace.ndjson")
    re_ = vlib.run_tlc('ConnRace', dict(constants=dict(fixed, Track=True), view='View', action_constraint='Emit'), workers=8, edges_path=ep, timeout=900)
    srv = vlib.build_repo_bin('./cmd/thruserv', 'thruserv')
    thru = vlib.build_repo_bin('./cmd/thru', 'thru')
    dial = vlib.run_vh_sharded(['connrace-dial', '-edges', ep, '-max-allfail', '0' if quick else '1', '-free', '12' if quick else '40'], 12, timeout=2400)
    acc = vlib.run_vh_sharded(['connrace-accept', '-edges', ep, '-thruserv', srv, '-thru', thru, '-max', '7' if quick else '0'], 8, timeout=3000)
    # the same scripts against a receiver that also has a TURN allocation (two listeners): the first connection it sees is one the sender abandons
    acct = vlib.run_vh_sharded(['connrace-accept', '-edges', ep, '-thruserv', srv, '-thru', thru, '-turn', '-loser-first', '-max', '2' if quick else '12'], 4, timeout=3000)
    # the TCP variant of the same set-up (dumb-tcp mode): the receiver's real dialAddrs against the sender's real
    # acceptWithContext behind one forwarder per announced address (the driver decides which path reaches the listener
    # first), and whole `--dumb-tcp` sessions with both real binaries
    tcpd = vlib.run_vh_sharded(['dumbtcp-dial', '-rounds', '16' if quick else '160'], 4, timeout=900)
    tcps = vlib.run_vh_sharded(['e2e-dumbtcp', '-n', '4' if quick else '24', '-thruserv', srv, '-thru', thru], 4, timeout=900)
    for viol in tcps['violations']:
        viol['sig'].pop('prop', None)
    # sessions of the real binaries through a TURN server that really relays (pion/turn inside the sandbox, credentials
    # minted by the real thruserv): relay candidate available next to the direct ones / relay only, 1 and 3 connections
    turn = vlib.run_vh_sharded(['e2e-turn', '-n', '4' if quick else '16', '-seed', str(seed), '-thruserv', srv, '-thru', thru], 4, timeout=1800)
    keep = []
    for viol in turn['violations']:
        if viol['sig'].get('prop') == PROP:
            viol['sig'].pop('prop', None)
            keep.append(viol)
        else:
            print("NOTE C09: a relay session showed an anomaly that belongs to another property: %s" % viol['sig'])
    turn['violations'] = keep
    res = vlib.merge_results([dial, acc, acct, tcpd, tcps, turn])
    for viol in res['violations']:
        v.violation(viol['sig'], viol.get('replay'))
    # whole sessions with both real binaries on this multi-address host; traces validated against SessionTrace.tla
    sess = e2e_common.run_sessions(8 if quick else 48, seed, work)
    e2e_common.report(v, PROP, sess)
    v.coverage = dict(states=r['distinct'], transitions=r['generated'], depth=r['depth'], constants=dict(K=3),
                      traces_validated_against_impl=res['behaviours'],
                      replay=dict(dial_schedules=dial['behaviours'], distinct_dial_projections=dial['distinct'],
                                  accept_scripts=acc['behaviours'], accept_scripts_with_relay_listener=acct['behaviours'], distinct_accept_scripts=acc['distinct'],
                                  dial_outcomes=dial['extra'].get('outcomes'), accept_outcomes=acc['extra'].get('outcomes'),
                                  candidate_addresses=dial['extra'].get('candidate_ips'),
                                  relay_sessions=dict(sessions=turn['behaviours'], outcomes=turn['extra'].get('outcomes')),
                                  tcp_variant=dict(dial_rounds=tcpd['behaviours'], dial_outcomes=tcpd['extra'].get('outcomes'),
                                                   dumb_tcp_sessions=tcps['behaviours'], session_outcomes=tcps['extra'].get('outcomes'))),
                      whole_sessions=dict(sessions=sess['res']['behaviours'], outcomes=sess['res']['extra'].get('outcomes'), trace_lines_validated=sess['lines']),
                      liveness=dict(property='Converges', states=rl['distinct']),
                      negative_controls_refuted=controls, samples=res['samples'][:8])
    v.assumptions = ["the order of client-side completions is controlled at the ice.dial.done hook (after the handshake, before the offer); "
                     "handshakes cancelled in mid-flight happen as the scheduler has them",
                     "the accepting side takes a connection as soon as it is queued (the real binary cannot be delayed); later model choices are not realisable and are covered by the model only",
                     "the TURN relay is a pion/turn server on loopback (no NAT between the peers); in the gated dial replay relay-prefixed candidates point at the same listener"]
    return v.finish()
