"""C02 - no false success: faults and aborts never yield a silently wrong tree.

Design level: Transfer.tla with Faults=TRUE (graceful close by the sender's
side, abrupt loss, chunk corruption at any point of any interleaving):
NoFalseSuccessR, NoFalseSuccessS, Fidelity, and <>(both returned).
Implementation level (fault enumeration): a 3-file tree (20, 9 and 0 bytes,
8-byte chunks) moves a few hundred bytes; the fault strikes at every byte
offset of the control stream (both directions) and of the data streams
(graceful close / abrupt loss), every payload byte and checksum byte of every
frame is bit-flipped, either side is cancelled at every 8-byte step, source
files shrink / vanish / grow after the scan, output paths are obstructed.
The same enumeration runs over a second tree of nothing but empty files and
empty directories (obstruction by a directory where a file goes, by a regular
file where a directory goes).
Oracle on the real return values and output tree.
"""
import vlib
import os
import transfer_common as tc
import e2e_common

PROP = "C02"


def run(tier, seed):
    v = vlib.Verdict(PROP, tier, seed, "fault_enumeration")
    mc = tc.model_check(tier, faults=True)
    neg = tc.negative_controls(['CountFailed'])
    stride, shards, budget = (4, 8, '100s') if tier == "quick" else (1, 14, '20m')
    work = vlib.scratch("c02-")
    tp = os.path.join(work, "faulttrace")
    res = vlib.run_vh_sharded(['xfer-faults', '-seed', str(seed), '-stride', str(stride), '-budget', budget, '-trace-out', tp], shards, timeout=3000)
    # the same enumeration over a tree of nothing but empty files and empty directories (no chunk ever flows:
    # the only confirmations are FileDone records; output paths obstructed by a directory / a regular file)
    tp2 = os.path.join(work, "faulttrace_empty")
    res2 = vlib.run_vh_sharded(['xfer-faults', '-tree', 'empty', '-seed', str(seed), '-stride', str(stride), '-budget', budget, '-trace-out', tp2], shards, timeout=3000)
    for viol in res['violations'] + res2['violations']:
        v.violation(viol['sig'], viol.get('replay'))
    # the dumb (benchmark) transfer modes: a stream that ends before the announced size must not be reported as received
    ed = os.path.join(work, "dumb.ndjson")
    vlib.run_tlc('DumbWire', dict(constants={}, action_constraint='Emit'), workers=2, edges_path=ed, timeout=300)
    dw = vlib.run_vh_sharded(['dumb-wire', '-edges', ed], 8, timeout=1200)
    for viol in dw['violations']:
        if viol['sig'].get('kind') == 'incomplete_record_accepted':
            v.violation(dict(kind='receiver_reports_success_for_a_truncated_stream', mode='dumb', cut=viol['sig'].get('cut'), via=viol['sig'].get('via')), viol.get('replay'))
    # the hook traces of the faulted transfers, validated with TLC against SessionTrace.tla
    # (e.g. C02.finalize_ok_short: no file is finalized ok without every chunk written)
    lines = e2e_common.collect(tp) + e2e_common.collect(tp2)
    rules, tstats = e2e_common.validate(lines, work, "faults") if lines else ([], None)
    e2e_common.report_rules(v, PROP, rules)
    v.coverage = dict(evaluations=res['behaviours'], distinct_nontrivial=res['distinct'],
                      rule="one real transfer per (fault kind, stream, direction, byte offset) / (frame, byte, bit) / (cancel side, byte count) / (source or sink fault, file); "
                           "non-trivial = the fault actually struck (position reached) or the case has no position",
                      samples=res['samples'][:8], exhaustive=(stride == 1), hook_traces_validated_by_tlc=tstats,
                      transfers_not_traced=res['extra'].get('transfers_not_traced'),
                      by_kind=res['extra'].get('by_kind'), outcomes=res['extra'].get('outcomes'),
                      dumb_mode_streams=dict(runs=dw['behaviours'], outcomes=dw['extra'].get('outcomes')),
                      empty_files_tree=dict(runs=res2['behaviours'], by_kind=res2['extra'].get('by_kind'), outcomes=res2['extra'].get('outcomes')),
                      skipped_over_budget=res['extra'].get('skipped_over_budget'),
                      tlc=dict(states=mc['states'], transitions=mc['transitions'], runs=mc['runs'], negative_controls_refuted=neg))
    v.assumptions = ["connection faults are injected by the simulated transport (vnet) whose close / loss error texts and stream visibility follow quic-go",
                     "bit flips hit payload and checksum bytes (as the property states); header-field corruption is C15's subject",
                     "byte-offset stride %d" % stride]
    return v.finish()
