"""Shared by C01 (fidelity), C02 (no false success under faults), C03 (completion).

Design level: specs/Transfer.tla checked by TLC (exhaustive): safety invariants,
deadlock freedom, liveness under fairness, with and without the fault actions,
over a family of (files x chunks x streams x slot limit) configurations; the
pinned commit's behaviours are kept as switches and must each be refuted.
Implementation level: specs/TransferGrid.tla enumerates the configuration
grid; every emitted row is one real SendManifestMultiStream /
RecvManifestMultiStream run (vnet with mock visibility, vnet with QUIC
visibility and seeded cross-stream arrival order, real loopback QUIC), judged
by the ground-truth oracle: both return values and the digest of the output
directory against the source tree.
"""
import os
import vlib
import e2e_common

CUR = dict(AcceptAllFirst=False, FinalizeWithoutEnd=False, CountFailed=False, AckBeforeCount=False)
SAFETY = ['TypeOK', 'Fidelity', 'NoFalseSuccessR', 'NoFalseSuccessS', 'NoFailure']
CONFIGS_QUICK = [('K_21', 2, 1), ('K_210', 3, 1), ('K_none', 2, 1), ('K_0', 2, 1), ('K_3', 3, 1)]
CONFIGS_THOROUGH = CONFIGS_QUICK + [('K_210', 3, 2), ('K_111', 3, 3), ('K_12', 2, 2), ('K_11', 3, 2)]


def model_check(tier, faults):
    """TLC on Transfer.tla. Returns dict(states, transitions, runs, refuted)."""
    runs, st, tr = [], 0, 0
    for K, NS, SL in (CONFIGS_QUICK if tier == "quick" else CONFIGS_THOROUGH):
        for vis in (True, False):
            c = dict(K='<-' + K, NS=NS, SlotLimit=SL, QuicVisibility=vis, Faults=faults, **CUR)
            r = vlib.run_tlc('Transfer', dict(constants=c, invariants=SAFETY, deadlock=True), workers=vlib.NCPU, want_edges=False, timeout=1800)
            if r['violated']:
                raise vlib.HarnessTrouble("Transfer.tla (current code) violated for %s:\n%s" % (c, r['violation_text'][:2500]))
            prop = 'BothReturn' if faults else 'BothSucceed'
            if r['distinct'] < 500000 or tier == "thorough":
                rl = vlib.run_tlc('Transfer', dict(spec='FairSpec', constants=c, properties=[prop]), workers=vlib.NCPU, want_edges=False, timeout=1800)
                if rl['violated']:
                    raise vlib.HarnessTrouble("Transfer.tla liveness %s violated for %s:\n%s" % (prop, c, rl['violation_text'][:2500]))
            runs.append(dict(K=K, NS=NS, SlotLimit=SL, quic_visibility=vis, faults=faults, generated=r['generated'], distinct=r['distinct'], depth=r['depth']))
            st += r['distinct']
            tr += r['generated']
    return dict(states=st, transitions=tr, runs=runs)


def negative_controls(which):
    base = dict(K='<-K_21', NS=2, SlotLimit=1, QuicVisibility=True, Faults=False, **CUR)
    out = {}
    table = dict(
        AcceptAllFirst=(dict(AcceptAllFirst=True), ['NoFailure'], True),      # deadlock
        AckBeforeCount=(dict(AckBeforeCount=True), ['NoFailure'], False),
        CountFailed=(dict(CountFailed=True, Faults=True), ['NoFalseSuccessR'], False),
    )
    for name in which:
        sw, invs, dl = table[name]
        c = dict(base, **sw)
        r = vlib.run_tlc('Transfer', dict(constants=c, invariants=invs, deadlock=True), workers=8, want_edges=False, expect_violation=True)
        out[name] = r['violated']
        if not r['violated']:
            raise vlib.HarnessTrouble("negative control %s not refuted" % name)
    return out


def grid(tier, seed, work):
    """Run the configuration grid on the real code. Returns merged driver result."""
    n_v, n_q = (45, 12) if tier == "quick" else (900, 220)     # per shard
    shards = 8 if tier == "quick" else 14
    results = []
    lines = []
    for transports, sample, name in (('{"mock","vquic"}', n_v, "vnet"), ('{"quic"}', n_q, "quic")):
        ep = os.path.join(work, "grid_%s.ndjson" % name)
        r = vlib.run_tlc('TransferGrid', dict(constants=dict(Transports=transports, MaxConns=3), action_constraint='Emit'),
                         workers=4, edges_path=ep, timeout=600)
        tp = os.path.join(work, "gridtrace_%s" % name)
        res = vlib.run_vh_sharded(['xfer-grid', '-edges', ep, '-sample', str(sample), '-seed', str(seed),
                                   '-budget', '100s' if tier == "quick" else '15m', '-trace-out', tp], shards, timeout=2400)
        res['grid_rows'] = r['edges']
        results.append(res)
        lines += e2e_common.collect(tp)
    m = vlib.merge_results(results)
    m['grid_rows'] = sum(r['grid_rows'] for r in results)
    # the hook traces of all those transfers, validated with TLC against SessionTrace.tla
    m['trace_rules'], m['trace_stats'] = e2e_common.validate(lines, work, "grid") if lines else ([], None)
    return m
