"""C17, file activation: Sched.tla (HybridScheduler as the sender uses it) model-checked with TLC
(OnceOnly, ReturnedMeansStarted, NoStall; liveness AllBegun under fairness) and the real scheduler
walked along its state graph (driver sched-walk)."""
import os
import vlib

INV = ['OnceOnly', 'ReturnedMeansStarted', 'NoStall']


def run(v, tier, seed, work):
    quick = tier == "quick"
    n = 3 if quick else 4
    out = dict(configs=[], behaviours=0, transitions=0, covered=0)
    rl = vlib.run_tlc('Sched', dict(spec='FairSpec', constants=dict(NFiles=3, P=2, Track=False), properties=['AllBegun']),
                      workers=8, want_edges=False, timeout=900)
    if rl['violated']:
        raise vlib.HarnessTrouble("Sched.tla: AllBegun refuted:\n" + rl['violation_text'][:1200])
    results = []
    for P in ((1, 2) if quick else (1, 2, 3)):
        ep = os.path.join(work, "sched_p%d.ndjson" % P)
        r = vlib.run_tlc('Sched', dict(next_='NextRel', constants=dict(NFiles=n, P=P, Track=True), invariants=INV, view='View',
                                       action_constraint='Emit'), workers=8, edges_path=ep, timeout=1500)
        if r['violated']:
            raise vlib.HarnessTrouble("Sched.tla refuted:\n" + r['violation_text'][:1200])
        res = vlib.run_vh_sharded(['sched-walk', '-edges', ep, '-sample', '4' if quick else '2'], 12, timeout=2400)
        results.append(res)
        out['configs'].append(dict(files=n, parallel=P, states=r['distinct'], transitions=r['edges']))
    res = vlib.merge_results(results)
    for viol in res['violations']:
        v.violation(viol['sig'], viol.get('replay'))
    if res['drift']:
        print("DRIFT C17: %d scheduler steps where the real Next chose a file Sched.tla does not allow (not a verdict)" % res['drift'])
        v.notes.append("sched drift: " + str(res['drift_samples'][:1])[:500])
    out.update(behaviours=res['behaviours'], steps=res['steps'], drift=res['drift'], liveness_states=rl['distinct'])
    return dict(traces=res['behaviours'], samples=res['samples'][:2], summary=out)
