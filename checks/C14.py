"""C14 - join codes live exactly as long as their session; server limits hold.

Spec: specs/Server.tla - /session and /ws admission paths as little processes
whose checks and acts are separate steps, discrete time with lazy and timer
expiry, host disconnect; TLC checks AdmitOnlyWhileLive, NoAdmitAfterHostLeft,
SessionsBound, ReceiversBound, ConnsBound, ZeroMeansOff over all
interleavings of 4 concurrent requests for limit values {0,1,2}; the pinned
commit's check-then-act enforcement is refuted for both counted limits.
Binding: the real thruserv binary (built from /repo with -tags verif) is
started per scenario with small limits / short lifetimes; real HTTP and
WebSocket clients execute sequential sequences and concurrent bursts (the
verif hook's delay mode holds every request between check and act, which
makes the burst deterministic); the census of successful creates / joins is
compared with the limits; joins after host disconnect / expiry must get 404;
The limiter primitives themselves (connection limiter, per-session receiver
slots, token bucket) are stressed behind a spin barrier by an in-package test
injected with `go test -overlay`; a second injected test forces join-code
collisions in the session store with a scripted crypto/rand.Reader (codes of
live sessions stay pairwise distinct and resolve to their own session).  Routing.tla histories (C10) additionally check the admission flag of every
join against the real HTTP status.
"""
import vlib

PROP = "C14"
CUR = dict(CheckThenAct=False, ReconnectSkipsSlot=False, Pids='{1,2}')   # after fix c34b1e3 and 590f50b
INVS = ['AdmitOnlyWhileLive', 'NoAdmitAfterHostLeft', 'SessionsBound', 'ReceiversBound', 'ReceiverSocketsBound', 'ConnsBound', 'ZeroMeansOff']


def run(tier, seed):
    v = vlib.Verdict(PROP, tier, seed, "model_checking")
    grids = [dict(MaxSessions=1, MaxReceivers=1, MaxConns=2, TTL=2), dict(MaxSessions=0, MaxReceivers=0, MaxConns=0, TTL=0)]
    if tier == "thorough":
        grids += [dict(MaxSessions=2, MaxReceivers=2, MaxConns=0, TTL=1), dict(MaxSessions=2, MaxReceivers=1, MaxConns=3, TTL=0),
                  dict(MaxSessions=0, MaxReceivers=2, MaxConns=1, TTL=2)]
    st = tr = 0
    runs = []
    for gcfg in grids:
        c = dict(Reqs='{1,2,3,4}', MaxTime=3, **gcfg, **CUR)
        r = vlib.run_tlc('Server', dict(constants=c, invariants=INVS), workers=vlib.NCPU, want_edges=False, timeout=3000)
        if r['violated']:
            raise vlib.HarnessTrouble("Server.tla (current code) violated for %s:\n%s" % (c, r['violation_text'][:2000]))
        st += r['distinct']
        tr += r['generated']
        runs.append(dict(gcfg, generated=r['generated'], distinct=r['distinct']))
    refuted = {}
    for inv, extra in (('SessionsBound', {}), ('ReceiversBound', dict(MaxSessions=0))):
        c = dict(Reqs='{1,2,3,4}', MaxTime=3, MaxSessions=1, MaxReceivers=1, MaxConns=2, TTL=2, CheckThenAct=True, ReconnectSkipsSlot=False, Pids='{1,2}')
        c.update(extra)
        rn = vlib.run_tlc('Server', dict(constants=c, invariants=[inv]), workers=8, want_edges=False, expect_violation=True)
        refuted[inv] = rn['violated']
        if not rn['violated']:
            raise vlib.HarnessTrouble("negative control CheckThenAct/%s not refuted" % inv)
    rr = vlib.run_tlc('Server', dict(constants=dict(Reqs='{1,2,3,4}', MaxTime=2, MaxSessions=0, MaxReceivers=1, MaxConns=0, TTL=0, CheckThenAct=False,
                                                    ReconnectSkipsSlot=True, Pids='{1,2}'), invariants=['ReceiversBound']), workers=8, want_edges=False, expect_violation=True)
    refuted['ReconnectSkipsSlot'] = rr['violated']
    if not rr['violated']:
        raise vlib.HarnessTrouble("negative control ReconnectSkipsSlot not refuted")
    srv = vlib.build_repo_bin('./cmd/thruserv', 'thruserv')
    res = vlib.run_vh_sharded(['limits', '-thruserv', srv, '-rounds', '1' if tier == "quick" else '5'], 8, timeout=3000)
    for viol in res['violations']:
        v.violation(viol['sig'], viol.get('replay'))
    # the limiter primitives under a spin barrier (in-package test injected with -overlay)
    lim = vlib.run_repo_overlay_test('./cmd/thruserv', 'shims/thruserv_limiter_test.go', 'zz_verif_limiter_test.go', 'TestVerif')
    for kind, detail in lim['violations']:
        v.violation(dict(kind=kind), dict(test='shims/thruserv_limiter_test.go', detail=detail))
    # join-code collisions (scripted crypto/rand.Reader) in the session store, same mechanism
    col = vlib.run_repo_overlay_test('./internal/session', 'shims/session_collision_test.go', 'zz_verif_collision_test.go', 'TestVerif')
    for kind, detail in col['violations']:
        v.violation(dict(kind=kind), dict(test='shims/session_collision_test.go', detail=detail))
    if res['drift']:
        raise vlib.HarnessTrouble("thruserv did not start for some scenario: %s" % str(res['drift_samples'][:1])[:300])
    v.coverage = dict(states=st, transitions=tr, traces_validated_against_impl=res['behaviours'], samples=res['samples'][:8],
                      tlc=dict(runs=runs, negative_controls_refuted=refuted),
                      scenarios=res['extra'].get('cases'), limiter_primitives_stress=dict(ok=lim['ok']), forced_join_code_collision=dict(ok=col['ok']))
    v.assumptions = ["'admits' is the join-code lookup; a peer that passed the lookup just before the host left is added to the hub of a dead session (observed, not judged)",
                     "rate limits are checked as 'never more than burst + rate x elapsed + 1' and 'at least the burst'",
                     "bursts are made deterministic by the hook's delay mode (120 ms between check and act)"]
    return v.finish()
