"""C16 - clients work against every documented server configuration.

Spec: specs/Config.tla - the configuration is the state: every assignment of
{default, small, zero} to the nine documented limit / timeout flags with at
most two flags off their default, plus all-small and all-zero (165
configurations), and TURN issuing x URL spelling x peer-id class (99); the
contract is the same for every state: create succeeds, both roles connect
with the URL the client builds, minted relay credentials parse back.
Binding: the real thruserv binary is started once per enumerated
configuration; the real clienthttp.CreateSession, the real
app.buildWebSocketURL (through the overlay shim) with a gorilla/websocket
dial, and the real ice.parseTurnServer on the turn_credentials message the
server sends are run; user = '<expiry>:<peer id>', secret =
base64(HMAC-SHA1(static secret, user)) and endpoint / transport / SNI are
recomputed independently.
"""
import os
import vlib

PROP = "C16"


def run(tier, seed):
    v = vlib.Verdict(PROP, tier, seed, "exploration")
    work = vlib.scratch("c16-")
    srv = vlib.build_repo_bin('./cmd/thruserv', 'thruserv')
    results, rows = [], {}
    for mode in ("flags", "turn"):
        ep = os.path.join(work, "config_%s.ndjson" % mode)
        r = vlib.run_tlc('Config', dict(constants=dict(Mode='"%s"' % mode, MaxOff=2 if tier == "quick" else 3), action_constraint='Emit'), workers=4, edges_path=ep, timeout=600)
        rows[mode] = r['edges']
        args = ['config-grid', '-edges', ep, '-thruserv', srv]
        results.append(vlib.run_vh_sharded(args, 12, timeout=3000))
    # the circle closed: a TURN server that really answers (pion/turn inside the sandbox, coturn's use-auth-secret scheme);
    # thruserv started with each spelling of its address, the credentials message taken from a real client connection,
    # the real ice.Prober built with it must obtain a relay allocation under the peer's id
    ta = vlib.run_vh_sharded(['turn-alloc', '-thruserv', srv], 6, timeout=1200)
    results.append(ta)
    res = vlib.merge_results(results)
    for viol in res['violations']:
        v.violation(viol['sig'], viol.get('replay'))
    v.coverage = dict(evaluations=res['behaviours'], distinct_nontrivial=res['distinct'],
                      rule="one real server process per enumerated configuration (flags: <=2 (thorough: <=3) flags off default + all-small + all-zero; turn: spelling x peer-id class); non-trivial = every configuration except the all-default one",
                      samples=res['samples'][:8], exhaustive=True, configurations=rows,
                      relay_allocations_with_minted_credentials=dict(runs=ta['behaviours'], outcomes=ta['extra'].get('outcomes')))
    v.assumptions = ["'small' values still permit one create and two connects (bursts of 3); a host asking for more receivers than the server allows is rightly refused",
                     "the TURN server of the allocation runs is pion/turn on loopback (UDP and TCP, no TLS); turns: spellings are parsed, not dialled"]
    return v.finish()
