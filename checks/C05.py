"""C05 - resume metadata never claims a chunk that is not safely in the file.

Resume.tla: MetadataSound / AtomicReplace / MemSound hold in every reachable
state, i.e. at every kill point of every interleaving of two chunk writers
with the flusher (snapshot, temp file and rename as separate steps); the
orderings mark-before-write and flush-in-place are refuted.  On the real code
a receiver *process* (real RecvManifestMultiStream, loopback QUIC) kills itself
with SIGKILL at the k-th hit of each hook point, optionally after a concurrent
FlushAllFlushers was triggered; after every kill every sidecar LoadSidecar
accepts is compared chunk by chunk with the source bytes in the output file.
Write failures (EFBIG from RLIMIT_FSIZE at each half-chunk boundary) exercise the
failure path's flush.  For arbitrary instants an in-process observer performs the
same post-mortem continuously (sidecar first, data file second) while extra
flusher goroutines race the chunk writers and the receiver's own flushes.
"""
import vlib
import resume_common as rc

PROP = "C05"


def run(tier, seed):
    v = vlib.Verdict(PROP, tier, seed, "fault_enumeration")
    mc = rc.model_check(tier, tamper=False)
    neg = rc.negative_controls(['MarkBeforeWrite', 'FlushInPlace'])
    res = rc.kill_runs(tier, seed)
    # arbitrary instants: an observer does the post-mortem continuously while flushers and writers race
    ob = vlib.run_vh_sharded(['resume-observe', '-seed', str(seed), '-rounds', '3' if tier == "quick" else '12'], 6 if tier == "quick" else 14, timeout=2400)
    for viol in res['violations'] + ob['violations']:
        if viol['sig'].get('property') == 'C05':
            v.violation(viol['sig'], viol.get('replay'))
    if ob['drift']:
        v.notes.append("observed transfers that did not complete cleanly: %s" % str(ob['drift_samples'][:1])[:300])
    import e2e_common
    e2e_common.report_rules(v, PROP, res['trace_rules'])
    # the claim must also hold at the start of a resumed session: metadata that survived while the data file was
    # deleted or shortened claims chunks that are not in the file (the datafile-* cases of the C06 driver)
    df = vlib.run_vh_sharded(['resume-tamper', '-seed', str(seed), '-only', 'datafile'], 4, timeout=1200)
    for viol in df['violations']:
        if viol['sig'].get('kind') == 'stale_or_damaged_resume_state_trusted':
            v.violation(dict(kind='metadata_kept_although_the_data_file_lost_the_chunks', case=viol['sig'].get('case')), viol.get('replay'))
    # "absent or unreadable (and then ignored)": metadata that does not load - cut short, bits flipped, garbage - must not
    # keep the transfer from succeeding
    ur = vlib.run_vh_sharded(['resume-tamper', '-seed', str(seed), '-only', 'sidecar-truncate,sidecar-garbage,sidecar-bitflip', '-stride', '8' if tier == "quick" else '2', '-unreadable-ignored'], 6, timeout=1500)
    for viol in ur['violations']:
        if viol['sig'].get('property') == 'C05':
            v.violation(viol['sig'], viol.get('replay'))
    # metadata against the file after resumed transfers outside the kill grid: leftovers of an attempt with another chunk
    # size (equal / different chunk count), and a sparse file beyond 4 GiB (chunk offsets cross 2^32)
    sp = vlib.run_vh_sharded(['xfer-special', '-seed', str(seed), '-groups', 'rechunk,largemeta,prepop,dupflip,geometry'], 6, timeout=1800)
    for viol in sp['violations']:
        if viol['sig'].get('property') == 'C05':
            v.violation(viol['sig'], viol.get('replay'))
    v.coverage = dict(evaluations=res['behaviours'], distinct_nontrivial=res['distinct'], special_inputs=dict(runs=sp['behaviours'], outcomes=sp['extra'].get('outcomes')), child_hook_traces_validated_by_tlc=res['trace_stats'], data_file_lost_cases=df['behaviours'], unreadable_metadata_cases=ur['behaviours'],
                      rule="one receiver process per (tree, streams, hook point, k-th hit, optional concurrent flush trigger); non-trivial = the process really died at the kill point",
                      samples=res['samples'][:6], outcomes=res['extra'].get('outcomes'),
                      observer=dict(transfers=ob['behaviours'], observations=ob['extra'].get('observations'), sidecar_states_compared=ob['extra'].get('sidecar_loads_compared')),
                      plans_total=res['extra'].get('plans_total'),
                      skipped_over_budget=res['extra'].get('skipped_over_budget'), exhaustive=(tier == "thorough" and not res['extra'].get('skipped_over_budget')),
                      tlc=dict(states=mc['states'], transitions=mc['transitions'], runs=mc['runs'], negative_controls_refuted=neg))
    v.assumptions = ["kill = SIGKILL (page cache intact: the disk shows writes in program order); power loss is not modelled",
                     "kill points are the verifhook points of the receiver (chunk header / written / marked, finalize, flush begin / temp written / renamed)"]
    return v.finish()
