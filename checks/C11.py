"""C11 - the signaling hub survives any interleaving of join, leave and send.

Spec: specs/Hub.tla - every lock region of internal/peers/hub.go is one
action; remove / CloseSession / Broadcast(Except) are multi-phase in-flight
operations, the session's inner map has object identity.
  1. TLC exhaustive on configuration A (one session, reconnect with the same
     peer id) and B (two sessions): NoPanic, Routable, LeftNotListed,
     IndexSound, LinkedOpen, NoLeak, Isolation, NoDup.
  2. Non-vacuity: the two defect switches (the pinned commit's behaviour:
     send on a closed channel; GC on the captured map) are refuted by TLC.
  3. Binding (gated replay, spec -> code): transitions of the state graph are
     replayed on the real peers.Hub.  Each in-flight operation is a goroutine
     calling the real method; verifhook gates park it between its lock
     regions and the driver releases exactly the phase TLC took.  After every
     step the real maps and the messages handed to each connection are
     compared with the spec state; the oracle (recovered panics, List/SendTo
     for live peers, leftovers after everybody left, stuck operations) is
     evaluated on the real hub.
  4. Free-running stress (driver hub-stress): routers (SendTo, Broadcast,
     BroadcastExcept, List) on a quiet session while other goroutines join /
     leave a busy session and CloseSession runs on a third one; a goroutine
     that makes no progress inside a hub call for 4 s means the hub is
     wedged (what the gates cannot show: blocking inside a lock region);
     panics are recovered and reported.
  5. Real server (driver ghost-join): clients complete the WebSocket upgrade
     and reset the TCP connection before / while thruserv writes its first
     frames; a later healthy client must see only live peers in its
     peer_list, and the session must end when the host leaves.
  6. Real server (driver stuck-peer): a peer stays connected but stops
     reading until its server-side writer blocks in the socket write; it then
     reconnects under its own peer id, another peer leaves and rejoins, the
     session expires - every step (and an uninvolved second session, /health,
     session creation) must complete within 6 s.
"""
import os
import vlib

PROP = "C11"
INVS = ['NoPanic', 'Routable', 'LeftNotListed', 'IndexSound', 'LinkedOpen', 'NoLeak', 'Isolation', 'NoDup', 'NothingWaits']
CURRENT = dict(SendOnClosedPanics=False, GCUsesCapturedMap=False, AddWaitsForWriter=False, CloseTakesWriteMu=False, StuckConns='{}')   # after fix 1d868ae and c94e16c
CFG = dict(A=dict(Conns='<-ConnsA', PeerOf='<-PeerOfA', SessOf='<-SessOfA', Sessions='<-SessionsA'),
           B=dict(Conns='<-ConnsB', PeerOf='<-PeerOfB', SessOf='<-SessOfB', Sessions='<-SessionsB'))


def run(tier, seed, prop=PROP):
    v = vlib.Verdict(prop, tier, seed, "model_checking")
    work = vlib.scratch("c11-")
    tlc_runs, tot = [], dict(states=0, transitions=0, behaviours=0, steps=0, drift=0, distinct=0, covered=0)
    samples, acts = [], {}
    # 1. exhaustive design-level check (no emission: fast)
    for name in ("A", "B"):
        c = dict(CFG[name], NB=(1 if tier == "quick" else 2) if name == "A" else 1, NS=1, MaxObj=3, Track=True, **CURRENT)
        r = vlib.run_tlc('Hub', dict(constants=c, invariants=INVS, view='View'), workers=vlib.NCPU, want_edges=False, timeout=2400)
        if r['violated']:
            raise vlib.HarnessTrouble("Hub.tla (current-code switches) violates its invariants:\n" + r['violation_text'][:2500])
        tlc_runs.append(dict(cfg=name, NB=c['NB'], NS=1, generated=r['generated'], distinct=r['distinct'], depth=r['depth'], wall_s=r['wall_s']))
        tot['states'] += r['distinct']
        tot['transitions'] += r['generated']
    # 2. non-vacuity
    refuted = {}
    for nm, sw, inv in [("SendOnClosedPanics=TRUE", dict(CURRENT, SendOnClosedPanics=True), 'NoPanic'),
                        ("GCUsesCapturedMap=TRUE", dict(CURRENT, GCUsesCapturedMap=True), 'Routable'),
                        ("AddWaitsForWriter=TRUE", dict(CURRENT, AddWaitsForWriter=True, StuckConns='{"c1"}'), 'NothingWaits'),
                        ("CloseTakesWriteMu=TRUE", dict(CURRENT, CloseTakesWriteMu=True, StuckConns='{"c1"}'), 'NothingWaits')]:
        c = dict(CFG["A"], NB=1, NS=1, MaxObj=3, Track=True, **sw)
        rn = vlib.run_tlc('Hub', dict(constants=c, invariants=[inv], view='View'), workers=8, want_edges=False, expect_violation=True)
        refuted[nm] = rn['violated']
        if not rn['violated']:
            raise vlib.HarnessTrouble("negative config %s not refuted" % nm)
    # 3. gated replay on the real hub
    plans = [("A", dict(NB=1, NS=0, MaxObj=2), 1500), ("B", dict(NB=1, NS=1, MaxObj=2), 700)] if tier == "quick" else \
            [("A", dict(NB=1, NS=1, MaxObj=3), 12000), ("B", dict(NB=1, NS=1, MaxObj=3), 6000)]
    shards = 6 if tier == "quick" else 14
    # third plan: configuration A again, c1's peer has stopped reading (its writer blocks at the first message)
    plans.append(("A", dict(NB=1, NS=0 if tier == "quick" else 1, MaxObj=2), 60 if tier == "quick" else 1500, "c1"))
    for plan in plans:
        name, dims, sample = plan[:3]
        stuck = plan[3] if len(plan) > 3 else ""
        c = dict(CFG[name], Track=True, **dims, **dict(CURRENT, StuckConns='{"%s"}' % stuck if stuck else '{}'))
        edges = os.path.join(work, "hub%s%s.ndjson" % (name, stuck))
        r = vlib.run_tlc('Hub', dict(constants=c, invariants=INVS, view='View', action_constraint='Emit'),
                         workers=vlib.NCPU, edges_path=edges, timeout=2400)
        if r['violated']:
            raise vlib.HarnessTrouble("Hub.tla violates its invariants:\n" + r['violation_text'][:2500])
        tlc_runs.append(dict(cfg=name, emitted=True, stuck=stuck, **dims, generated=r['generated'], distinct=r['distinct'], wall_s=r['wall_s']))
        res = vlib.run_vh_sharded(['hub', '-edges', edges, '-cfg', name, '-ns', str(dims['NS']), '-seed', str(seed), '-stuck', stuck,
                                   '-sample', str(sample), '-budget', '90s' if tier == 'quick' else '12m'], shards, timeout=2400)
        for viol in res['violations']:
            v.violation(viol['sig'], viol.get('replay'))
        for k in ('behaviours', 'steps', 'drift', 'distinct'):
            tot[k] += res[k]
        tot['covered'] += res['extra'].get('transitions_covered', 0)
        samples += res['samples'][:3]
        for k, n in (res['extra'].get('actions_exercised') or {}).items():
            acts[k] = acts.get(k, 0) + n
        if res['drift']:
            v.notes.append("drift sample: " + str(res['drift_samples'][:1])[:600])
    # free-running readers and writers on the real hub (what happens inside a lock region: a lock taken twice, ...)
    st = vlib.run_vh_sharded(['hub-stress', '-rounds', '4' if tier == "quick" else '24', '-duration', '1500ms' if tier == "quick" else '3s'], 4, timeout=900)
    for viol in st['violations']:
        v.violation(viol['sig'], viol.get('replay'))
    # joins that are reset while the real server writes its first frames: no ghost may stay in the hub
    srvb = vlib.build_repo_bin('./cmd/thruserv', 'thruserv')
    gj = vlib.run_vh_sharded(['ghost-join', '-thruserv', srvb, '-rounds', '40' if tier == "quick" else '200'], 3, timeout=900)
    for viol in gj['violations']:
        v.violation(viol['sig'], viol.get('replay'))
    # a peer that stays connected but has stopped reading (its server-side writer blocks in the socket write):
    # reconnect under the same peer id, another peer leaving and rejoining, session expiry - nothing may wait for it
    sp = vlib.run_vh_sharded(['stuck-peer', '-thruserv', srvb, '-rounds', '1' if tier == "quick" else '4'], 5, timeout=900)
    for viol in sp['violations']:
        v.violation(viol['sig'], viol.get('replay'))
    if tot['drift']:
        print("DRIFT %s: %d behaviours where the real Hub differs from Hub.tla (not a verdict)" % (prop, tot['drift']))
    v.coverage = dict(
        states=tot['states'], transitions=tot['transitions'],
        traces_validated_against_impl=tot['behaviours'], samples=samples[:6],
        tlc=dict(runs=tlc_runs, negative_configs_refuted=refuted),
        replay=dict(behaviours=tot['behaviours'], steps=tot['steps'], drift=tot['drift'], distinct_behaviours=tot['distinct'],
                    transitions_covered_on_real_hub=tot['covered'], actions_exercised=acts,
                    abrupt_joins_against_real_server=dict(sessions=gj['behaviours'], joins=gj['steps'], ghosts_listed=gj['extra'].get('ghosts_listed')),
                    peer_that_stopped_reading_against_real_server=dict(scenarios=sp['behaviours'], steps=sp['steps'], outcomes=sp['extra'].get('outcomes'), trouble=sp['extra'].get('trouble')),
                    free_running_stress=dict(rounds=st['behaviours'], operations=st['extra'].get('operations'))),
    )
    v.assumptions = [
        "3 connections (A: one session with a same-peer-id reconnect; B: two sessions), <=2 concurrent broadcasts, 1 SendTo, channel capacity never reached (256 in the code)",
        "the writer goroutine is not gated: messages accepted for delivery are compared with what each connection's send func received",
        "gates sit at the verifhook points between lock regions; preemption inside a lock region is not modelled (the RWMutex excludes it)",
    ]
    return v.finish()
