"""Shared by C04, C05, C06: TLC runs of specs/Resume.tla and the kill / tamper drivers."""
import os
import vlib

CUR = dict(MarkBeforeWrite=False, FlushInPlace=False, TrustSidecarWithoutFile=False, SizeBeforeMeta=False)   # SizeBeforeMeta: the code up to fix F-C06-3
SAFETY = ['MetadataSound', 'AtomicReplace', 'MemSound', 'CompleteIsCorrect', 'AdvertisedIsPersisted']


def model_check(tier, tamper):
    runs, st, tr = [], 0, 0
    if tamper:
        cfgs = [dict(N=3, MaxKills=2, Tail=1, AllowTorn=False), dict(N=3, MaxKills=0, Tail=1, AllowTorn=True), dict(N=3, MaxKills=0, Tail=0, AllowTorn=True)]
        if tier == "thorough":
            cfgs += [dict(N=4, MaxKills=2, Tail=1, AllowTorn=False), dict(N=4, MaxKills=0, Tail=0, AllowTorn=True)]
    else:
        cfgs = [dict(N=3, MaxKills=2, Tail=1, AllowTorn=False), dict(N=4, MaxKills=2, Tail=0, AllowTorn=False)]
        if tier == "thorough":
            cfgs += [dict(N=4, MaxKills=3, Tail=1, AllowTorn=False), dict(N=5, MaxKills=2, Tail=1, AllowTorn=False)]
    for d in cfgs:
        c = dict(Readers='{1,2}', Tamper=tamper, **d, **CUR)
        r = vlib.run_tlc('Resume', dict(constants=c, invariants=SAFETY, deadlock=True), workers=vlib.NCPU, want_edges=False, timeout=1800)
        if r['violated']:
            raise vlib.HarnessTrouble("Resume.tla (current code) violated for %s:\n%s" % (c, r['violation_text'][:2500]))
        rl = vlib.run_tlc('Resume', dict(spec='FairSpec', constants=c, properties=['EventuallyDone']), workers=vlib.NCPU, want_edges=False, timeout=1800)
        if rl['violated']:
            raise vlib.HarnessTrouble("Resume.tla liveness violated for %s:\n%s" % (c, rl['violation_text'][:2500]))
        runs.append(dict(tamper=tamper, **d, generated=r['generated'], distinct=r['distinct'], depth=r['depth']))
        st += r['distinct']
        tr += r['generated']
    return dict(states=st, transitions=tr, runs=runs)


def negative_controls(which):
    base = dict(N=3, Readers='{1,2}', MaxKills=2, Tail=1, Tamper=False, AllowTorn=False, **CUR)
    table = dict(MarkBeforeWrite=(dict(MarkBeforeWrite=True), 'MetadataSound'),
                 FlushInPlace=(dict(FlushInPlace=True), 'AtomicReplace'),
                 TrustSidecarWithoutFile=(dict(Tamper=True, TrustSidecarWithoutFile=True), 'CompleteIsCorrect'),
                 TornThenKilled=(dict(Tamper=True, AllowTorn=True, MaxKills=1), 'CompleteIsCorrect'),
                 SizeBeforeMeta=(dict(Tamper=True, SizeBeforeMeta=True, MaxKills=1), 'CompleteIsCorrect'))
    out = {}
    for name in which:
        sw, inv = table[name]
        r = vlib.run_tlc('Resume', dict(constants=dict(base, **sw), invariants=[inv], deadlock=True), workers=8, want_edges=False, expect_violation=True)
        out[name] = r['violated']
        if not r['violated']:
            raise vlib.HarnessTrouble("negative control %s not refuted" % name)
    return out


def kill_runs(tier, seed):
    sample, shards, budget = (7, 8, '110s') if tier == "quick" else (0, 14, '25m')
    import e2e_common
    work = vlib.scratch("killtrace-")
    tp = os.path.join(work, "children")
    args = ['resume-kill', '-seed', str(seed), '-sample', str(sample), '-budget', budget, '-trace-out', tp]
    if tier == "thorough":
        args.append('-chains')
    res = vlib.run_vh_sharded(args, shards, timeout=3000)
    # the receiver processes' own hook traces (cut short by the kills), validated with TLC against
    # SessionTrace.tla: C05.mark_before_write, C05.write_unknown_file, C04.flush_order, C02.finalize_*
    lines = e2e_common.collect(tp)
    res['trace_rules'], res['trace_stats'] = e2e_common.validate(lines, work, "children") if lines else ([], None)
    return res
