"""C15 - malformed or hostile protocol input produces an error, not a crash.

Spec: specs/Wire.tla (Mode "mutations"): protocol stages, the record types
legal at each stage, and the mutation kinds that apply to each (truncation at
and inside fields, unknown type bytes, length prefixes 0 / 1 / +1 / 65535 /
2^31 / 2^32-1, inconsistent counts, over-long and escaping paths, chunk index
/ length out of range, CRC mismatch, duplicate FileBegin, records for unknown
files, wrong-direction records, End with files missing, chunk size 0, bad
magic, garbage JSON), each labelled must-reject / may-accept.  Binding: every
enumerated (stage, type, mutation) is concretised n times and, in a child
process with a 3 GiB address-space limit, fed (a) to the real record decoders
over a stream that ends after the bytes and (b) to the real endpoint - a
scripted hostile sender against RecvManifestMultiStream, or a scripted
receiver against SendManifestMultiStream - after which the script half-closes
its streams.  Oracle: no panic / crash, return within 4 s of the end of
input, heap growth <= 64 MB + 4 x bytes received, no success for a
must-reject stream.
specs/DumbWire.tla covers the one record of the dumb transfer modes
(internal/app/dumb_transfer.go): boundary name lengths and sizes x the places
where the peer's stream may end; driver dumb-wire feeds each to the real
recvDumbDiscardReader from memory, over loopback TCP and over a stream of the
simulated connection (same oracle), and runs the real sender against a peer
that goes away early.
"""
import os
import vlib

PROP = "C15"


def run(tier, seed):
    v = vlib.Verdict(PROP, tier, seed, "exploration")
    work = vlib.scratch("c15-")
    em = os.path.join(work, "mut.ndjson")
    r = vlib.run_tlc('Wire', dict(constants=dict(Mode='"mutations"', MaxSeq=3), action_constraint='Emit'), workers=4, edges_path=em, timeout=600)
    fill, shards = (3, 12) if tier == "quick" else (40, 16)
    res = vlib.run_vh_sharded(['wire-mutations', '-edges', em, '-fill', str(fill), '-seed', str(seed)], shards, timeout=3000)
    for viol in res['violations']:
        v.violation(viol['sig'], viol.get('replay'))
    # the record of the dumb (benchmark) transfer modes: DumbWire.tla enumerates values and stream ends, driver
    # dumb-wire feeds them to the real reader from memory, over loopback TCP and over a simulated QUIC stream
    ed = os.path.join(work, "dumb.ndjson")
    rd = vlib.run_tlc('DumbWire', dict(constants={}, action_constraint='Emit'), workers=2, edges_path=ed, timeout=300)
    dw = vlib.run_vh_sharded(['dumb-wire', '-edges', ed], 8, timeout=1200)
    for viol in dw['violations']:
        v.violation(viol['sig'], viol.get('replay'))
    if res['drift']:
        v.notes.append("decoder accepted %d syntactically mutated streams the grammar rejects (conformance drift, not a verdict): %s" % (res['drift'], str(res['drift_samples'][:1])[:300]))
    v.coverage = dict(evaluations=res['steps'], distinct_nontrivial=res['behaviours'],
                      rule="one child process per (stage, record type, mutation, seeded filling); each feeds the decoders and one real endpoint; every case is non-trivial (a mutated stream)",
                      samples=res['samples'][:8], outcomes=res['extra'].get('outcomes'),
                      dumb_mode_record=dict(rows=rd['edges'], runs=dw['behaviours'], outcomes=dw['extra'].get('outcomes'), drift=dw['drift']), mutation_rows=r['edges'], fillings_per_row=fill, exhaustive=True)
    v.assumptions = ["structure-aware mutation of a well-formed conversation plus seeded filling; arbitrary byte strings are not enumerated",
                     "the hostile peer ends its input (FIN on its streams) but keeps the connection open; 4 s to return",
                     "address-space limit 3 GiB turns an allocation taken from a 32-bit length prefix into a crash of the case process"]
    return v.finish()
