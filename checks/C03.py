"""C03 - every transfer between healthy peers completes (see transfer_common)."""
import vlib
import transfer_common as tc
import e2e_common

PROP = "C03"


def run(tier, seed):
    v = vlib.Verdict(PROP, tier, seed, "model_checking")
    work = vlib.scratch("c03-")
    mc = tc.model_check(tier, faults=False)
    neg = tc.negative_controls(['AcceptAllFirst', 'AckBeforeCount'])
    res = tc.grid(tier, seed + 17, work)
    for viol in res['violations']:
        if viol['sig'].get('property') == 'C03':
            v.violation(viol['sig'], viol.get('replay'))
    e2e_common.report_rules(v, PROP, res['trace_rules'])
    # outside the grid: one connection with one stream and files above the scheduler's small-file threshold,
    # many chunks / many files over many workers, large chunk sizes
    sp = vlib.run_vh_sharded(['xfer-special', '-seed', str(seed), '-groups', 'onestream,manychunks,manyfiles,geometry,symlink,longlag,lateinfo,multiselect,large,resend'], 8, timeout=1800)
    # prior histories an interrupted transfer leaves behind (plain, highest chunk torn, complete file with a torn
    # last chunk) resumed with duplicates (verification tail, repair) over data streams that lag behind the
    # control stream: the late chunks must not make the transfer fail
    hist = vlib.run_vh_sharded(['resume-tamper', '-seed', str(seed), '-only', 'untouched,torn-chunk,complete-torn-last', '-require-complete'], 6, timeout=1800)
    # several files in negotiation and completion at once while the sender gives up the processor after every write
    # on the control stream: records written in pieces by different goroutines must not end up interleaved
    cy = vlib.run_vh_sharded(['ctrl-stream', '-runs', '24' if tier == "quick" else '240', '-seed', str(seed + 5)], 6, timeout=1800)
    for viol in sp['violations'] + hist['violations'] + cy['violations']:
        if viol['sig'].get('property') == 'C03':
            v.violation(viol['sig'], viol.get('replay'))
    v.coverage = dict(states=mc['states'], transitions=mc['transitions'], traces_validated_against_impl=res['behaviours'],
                      samples=res['samples'][:6], hook_traces_validated_by_tlc=res['trace_stats'], transfers_not_traced=res['extra'].get('transfers_not_traced'),
                      tlc=dict(runs=mc['runs'], checks="deadlock freedom + <>(both ok) under WF(Next), QUIC and mock visibility", negative_controls_refuted=neg),
                      grid=dict(rows_in_grid=res['grid_rows'], runs=res['behaviours'], outcomes=res['extra'].get('outcomes'),
                                skipped_over_budget=res['extra'].get('skipped_over_budget')),
                      special_inputs=dict(runs=sp['behaviours'], outcomes=sp['extra'].get('outcomes')),
                      yielding_control_stream=dict(runs=cy['behaviours'], outcomes=cy['extra'].get('outcomes')),
                      resumed_histories=dict(runs=hist['behaviours'], by_kind=hist['extra'].get('by_kind'), outcomes=hist['extra'].get('outcomes')))
    v.assumptions = ["watchdog: 5 s without completion on the simulated transports, 10 s on loopback QUIC; a hang is re-run once and only a repeat counts",
                     "legal names covered: spaces, unicode, leading dots, '..' inside a segment, ';' '&'; not covered: non-UTF-8 names (altered by the JSON manifest), names longer than 255 bytes"]
    return v.finish()
