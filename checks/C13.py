"""C13 - the manifest describes exactly what will be read, once, deterministically.

Spec: specs/Scan.tla - a universe forest with every node kind (directories,
regular files incl. empty, links to a file / a directory / nothing) and every
name pattern (equal base names, names that look like the ordinal prefixes,
spaces, a directory next to 'name.txt' / 'name-old'), the ordinal-prefix rule
and the walk transcribed as set comprehensions; TLC enumerates every list of
up to MaxList candidate paths, computes the expected manifest and checks
PerPathOnce and Unique.  Binding: the forest is materialised (real symlinks),
the real manifest.ScanPaths and app.buildPathResolver run on every enumerated
list (with trailing-slash, './' , 'x/../x' and '.'-from-inside spellings), the
result is compared with the spec's expected manifest, and an independent
oracle checks: pairwise distinct, sorted, slash-separated relative paths;
counts and totals add up; every listed file resolves and the bytes readable
through the resolved path equal its size; a second scan is identical.
"""
import os
import vlib

PROP = "C13"


def run(tier, seed):
    v = vlib.Verdict(PROP, tier, seed, "exploration")
    work = vlib.scratch("c13-")
    ep = os.path.join(work, "scan.ndjson")
    maxlist = 3 if tier == "quick" else 4
    r = vlib.run_tlc('Scan', dict(constants=dict(MaxList=maxlist, OnlyMultiGroup=False, SkipIrregular=True), invariants=['PerPathOnce', 'SizesReadable'], action_constraint='Emit'),
                     workers=8, edges_path=ep, timeout=900)
    if r['violated']:
        raise vlib.HarnessTrouble("Scan.tla violates PerPathOnce/SizesReadable:\n" + r['violation_text'][:1500])
    ru = vlib.run_tlc('Scan', dict(constants=dict(MaxList=3, OnlyMultiGroup=False, SkipIrregular=True), invariants=['Unique']), workers=8, want_edges=False, expect_violation=True)
    res = vlib.run_vh_sharded(['scan-check', '-edges', ep], 8, timeout=2400)
    if maxlist < 4:
        # the lists of four paths in which two different base names are each duplicated (two ordinal groups at once)
        ep4 = os.path.join(work, "scan4.ndjson")
        r4 = vlib.run_tlc('Scan', dict(constants=dict(MaxList=4, OnlyMultiGroup=True, SkipIrregular=True), invariants=['PerPathOnce', 'SizesReadable'],
                                       action_constraint='Emit'), workers=8, edges_path=ep4, timeout=900)
        res4 = vlib.run_vh_sharded(['scan-check', '-edges', ep4], 8, timeout=2400)
        res = vlib.merge_results([res, res4])
        r['edges'] += r4['edges']
    for viol in res['violations']:
        v.violation(viol['sig'], viol.get('replay'))
    # the manifest a host scanned is what every receiver of the session is served from: real transfers to two receivers
    # in a row must leave it as it was (entries, order, counts)
    rs = vlib.run_vh_sharded(['xfer-special', '-seed', '1', '-groups', 'resend'], 8, timeout=900)
    for viol in rs['violations']:
        if viol['sig'].get('property') == PROP:
            sig = dict(viol['sig'])
            sig.pop('property', None)
            v.violation(sig, viol.get('replay'))
    if res['drift']:
        print("DRIFT C13: %d lists where the real manifest differs from Scan.tla's expected manifest (not a verdict)" % res['drift'])
        v.notes.append(str(res['drift_samples'][:1])[:500])
    v.coverage = dict(evaluations=res['behaviours'], distinct_nontrivial=res['distinct'],
                      rule="TLC enumerates every list of 1..%d paths over 10 candidates" % maxlist + " of the universe forest; non-trivial = lists with more than one path",
                      samples=res['samples'][:6], outcomes=res['extra'].get('outcomes'), exhaustive=True, one_manifest_two_receivers=dict(runs=rs['behaviours'], outcomes=rs['extra'].get('outcomes')),
                      tlc=dict(lists=r['edges'], unique_violated_in_the_design=ru['violated'],
                               note="Unique is violated at design level by the ordinal-prefix scheme (known finding F-C13-1)"),
                      manifest_drift=res['drift'])
    v.assumptions = ["one fixed universe forest (26 entries) rather than arbitrary trees; unreadable directories and case-insensitive file systems are not covered",
                     "names: ASCII with space, dots and dashes; the prefix-looking names are 1_x and 2_x"]
    return v.finish()
