---------------------------- MODULE AuthExtras ----------------------------
(***************************************************************************)
(* The extra-connection loops around authenticateTransport (C08, last      *)
(* sentence: "... on the primary and on every extra connection"):          *)
(*   receiver  snapshot_receiver.go acceptExtraConns: accept, authenticate,*)
(*             on failure close the connection and stop;                   *)
(*   sender    snapshot_sender.go dialExtraConns: dial, authenticate, on   *)
(*             failure close and go on with the next one.                  *)
(* The connections the loop returns are the ones the transfer then uses    *)
(* (transfer.NewMultiConn).  The i-th peer is of one kind:                 *)
(*   honest    holds the code (completes the handshake of Auth.tla)        *)
(*   wrongcode runs the protocol with another code                         *)
(*   garbage   sends 50 arbitrary bytes / answers with them                *)
(*   reflect   sends the honest side's own proof back (listener side) or a *)
(*             receiver-role proof (dialer side)                           *)
(*   closes    closes the stream without a message                         *)
(*   relay     an attacker on the path terminates this connection (one TLS *)
(*             session towards each honest side) and passes the two        *)
(*             authentication messages on verbatim; the other connections  *)
(*             of the same transfer run end to end (Auth.tla topology      *)
(*             "relay": rejected because the proof is bound to the         *)
(*             session).  Rows with a relay have honest peers otherwise,   *)
(*             and both real loops run against each other.                 *)
(* Auth.tla decides which kinds authenticate: only `honest`.               *)
(* Switch AppendBeforeAuth = FALSE is the code as written.                 *)
(***************************************************************************)
EXTENDS Integers, Sequences, FiniteSets, TLC, Json

CONSTANTS MaxPeers, AppendBeforeAuth

Rogue == {"wrongcode", "garbage", "reflect", "closes"}
Kinds == {"honest", "relay"} \cup Rogue
AuthOK(k) == k = "honest"

VARIABLES side, kinds, i, conns, failed, pc
vars == <<side, kinds, i, conns, failed, pc>>

Init == /\ side \in {"accept", "dial"}
        /\ kinds \in UNION {[1..n -> {"honest"} \cup Rogue] : n \in 1..MaxPeers} \cup UNION {[1..n -> {"honest", "relay"}] : n \in 1..MaxPeers}
        /\ i = 1 /\ conns = {} /\ failed = {} /\ pc = "loop"

\* one iteration: accept/dial the i-th connection, authenticate it
Iterate ==
  /\ pc = "loop" /\ i <= Len(kinds)
  /\ IF AuthOK(kinds[i])
       THEN conns' = conns \cup {i} /\ UNCHANGED failed /\ pc' = "loop"
       ELSE /\ conns' = IF AppendBeforeAuth THEN conns \cup {i} ELSE conns
            /\ failed' = failed \cup {i}
            /\ pc' = IF side = "accept" THEN "done" ELSE "loop"      \* receiver: break; sender: continue
  /\ i' = i + 1
  /\ UNCHANGED <<side, kinds>>

Finish == /\ pc = "loop" /\ i > Len(kinds) /\ pc' = "done" /\ UNCHANGED <<side, kinds, i, conns, failed>>

Next == Iterate \/ Finish
Spec == Init /\ [][Next]_vars

\* every connection handed to the transfer has authenticated
OnlyAuthed == \A c \in conns : AuthOK(kinds[c])
\* the sender keeps every peer that authenticates; the receiver every one before the first failure
Expected == IF side = "dial" THEN {c \in 1..Len(kinds) : AuthOK(kinds[c])}
            ELSE {c \in 1..Len(kinds) : \A j \in 1..c : AuthOK(kinds[j])}
KeepsTheAuthed == pc = "done" => conns = Expected

Emit == IF pc' = "done" /\ pc = "loop"
          THEN PrintT("E " \o ToJson([act |-> [a |-> "extras"], d |-> 1,
                    x |-> [side |-> side, kinds |-> kinds, conns |-> conns', failed |-> failed']]))
          ELSE TRUE
=============================================================================
