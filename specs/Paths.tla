------------------------------ MODULE Paths ------------------------------
(***************************************************************************)
(* Lexical path algebra of the receiver's filesystem sinks (C07).          *)
(* A path value is a sequence of segments over a small alphabet plus an    *)
(* "absolute" flag; Join / Clean transcribe Go's path/filepath semantics   *)
(* on Unix.  The four peer-controlled fields and the sinks they reach      *)
(* (internal/transfer/multistream.go, sidecar.go):                         *)
(*   root   manifest.root      MkdirAll(Join(out, root)) unless NoRootDir; *)
(*                             also the fallback sidecar directory          *)
(*   dir    dir item rel_path  MkdirAll(Join(base, rel))                   *)
(*   file   file item rel_path (and the FileBegin record repeating it)     *)
(*                             MkdirAll(parent), OpenFile, Truncate         *)
(*   begin  FileBegin.rel_path on its own: the manifest is benign, the     *)
(*          record carries the key and size of a listed file and another   *)
(*          path; same sinks as "file".  The receiver opens only paths the *)
(*          manifest lists, so every such value is refused - unless the    *)
(*          record is matched to its item by key alone (BeginByKey = TRUE, *)
(*          a negative control) while the path still comes from the wire.  *)
(*   id     item.id            Join(base, ".thruflux_resumedata", id+ext)  *)
(*                             MkdirAll, WriteFile, Rename, Remove (Resume)*)
(*   offer  root name of the signaling manifest offer (internal/app        *)
(*          snapshot_receiver.go): ReadDir / RemoveAll of                  *)
(*          Join(out, name, ".thruflux_resumedata") before the transfer,   *)
(*          when the user is asked "resume or overwrite"                   *)
(* Property: for every value either the guard rejects it or the cleaned    *)
(* target stays below the output directory.                                *)
(* Switch GuardAllFields = FALSE is the pinned commit (only FileBegin's    *)
(* path is validated).                                                     *)
(***************************************************************************)
EXTENDS Integers, Sequences, FiniteSets, TLC, Json

CONSTANTS MaxLen, GuardAllFields, BeginByKey,
          Shape    \* "all": every segment sequence up to MaxLen; "decoy": <harmless first segment, two or three "..", a name>

\* segment classes: n = normal name, dd = "..", d = ".", e = "" (doubled separator),
\* inner = name containing ".." ("a..b"), bs = "c\..\d" (backslash-separated traversal in one segment),
\* tdd = "..." (three dots: a normal name), long = a name of more than 1024 bytes (over the rel_path limit; behaves
\* like a normal name for Join / Clean - the guard must still reject the path for its ".." segments or its length),
\* pdd = ".." padded with white space (" ..", ".. ", a tab in front): an ordinary name for Join / Clean and for the guards - as long as nobody trims it
Seg == {"n", "dd", "d", "e", "inner", "bs", "tdd", "long", "pdd"}
Fields == {"root", "dir", "file", "id", "offer", "begin"}

VARIABLES field, segs, abs, noRoot, resume, phase
vars == <<field, segs, abs, noRoot, resume, phase>>

Out == <<"OUT">>            \* the user's output directory (already clean, absolute)

\* Clean: drop "" and ".", resolve "..", keep leading ".." only for relative paths
RECURSIVE CleanAcc(_, _, _)
CleanAcc(rest, acc, isAbs) ==
  IF rest = <<>> THEN acc
  ELSE LET h == Head(rest) t == Tail(rest) IN
       IF h \in {"e", "d"} THEN CleanAcc(t, acc, isAbs)
       \* two macro segments (Shape = "deep" only): "deep" = 64 harmless names in a row, "dd66" = 66 ".." in a row - a path
       \* that climbs out only after more components than a bounded scan of the path might look at. They are applied in
       \* one step each (acc always has the form dd* name*), so that the recursion stays as deep as the path has segments
       ELSE IF h = "deep" THEN CleanAcc(t, acc \o [i \in 1..64 |-> "n"], isAbs)
       ELSE IF h = "dd66"
              THEN LET names == Cardinality({i \in 1..Len(acc) : acc[i] # "dd"})
                       pops == IF names < 66 THEN names ELSE 66
                   IN CleanAcc(t, SubSeq(acc, 1, Len(acc) - pops) \o (IF isAbs THEN <<>> ELSE [i \in 1..(66 - pops) |-> "dd"]), isAbs)
       ELSE IF h = "dd"
              THEN IF acc # <<>> /\ acc[Len(acc)] # "dd" THEN CleanAcc(t, SubSeq(acc, 1, Len(acc) - 1), isAbs)
                   ELSE IF isAbs THEN CleanAcc(t, acc, isAbs) ELSE CleanAcc(t, Append(acc, "dd"), isAbs)
              ELSE CleanAcc(t, Append(acc, h), isAbs)

\* Join(a, b...) = Clean(a ++ b); an absolute later element does not reset the path in Go's Join
JoinClean(a, b) == CleanAcc(a \o b, <<>>, TRUE)

IsPrefix(p, q) == Len(p) <= Len(q) /\ SubSeq(q, 1, Len(p)) = p
Below(target) == IsPrefix(Out, target)

\* validateRelPath after fix de01a4b: no ".." segment under either separator, not absolute, not empty
HasDotDotSegment(s) == \E i \in 1..Len(s) : s[i] \in {"dd", "bs", "dd66"}
TooLong(s) == \E i \in 1..Len(s) : s[i] = "long"
ValidRel(s, isAbs) == ~HasDotDotSegment(s) /\ ~TooLong(s) /\ ~isAbs /\ s # <<>> /\ ~(Len(s) = 1 /\ s[1] = "e")
\* an identifier / root name must be a single harmless name
ValidName(s, isAbs) == ~isAbs /\ Len(s) = 1 /\ s[1] \in {"n", "inner", "tdd", "pdd"}

Base(rootSegs) == IF noRoot THEN Out ELSE JoinClean(Out, rootSegs)
Benign == <<"n">>

\* does the guard in front of the sink reject the value?
Rejected ==
  CASE field = "file" -> ~ValidRel(segs, abs)
    [] field = "dir"  -> GuardAllFields /\ ~ValidRel(segs, abs)
    [] field = "root" -> GuardAllFields /\ ~(ValidName(segs, abs) \/ \A i \in 1..Len(segs) : segs[i] = "e")   \* "", "/" join to the output directory itself
    [] field = "id"   -> GuardAllFields /\ ~ValidName(segs, abs)
    [] field = "offer" -> GuardAllFields /\ ~(ValidName(segs, abs) \/ \A i \in 1..Len(segs) : segs[i] = "e")
    [] field = "begin" -> ~BeginByKey     \* never the path of a listed file (the driver spells the values accordingly)

\* the path the sink touches
Target ==
  CASE field = "file" -> JoinClean(Base(Benign), segs)
    [] field = "dir"  -> JoinClean(Base(Benign), segs)
    [] field = "root" -> JoinClean(Out, segs)                       \* MkdirAll(rootedDir) / fallback sidecar dir
    [] field = "id"   -> JoinClean(Base(Benign) \o <<"RESUME">>, segs)   \* sidecar file named after the id
    [] field = "offer" -> JoinClean(Out, segs) \o <<"RESUME">>            \* resume-data directory looked up / cleared
    [] field = "begin" -> JoinClean(Base(Benign), segs)

\* is the sink reached at all in this mode?
Reached ==
  CASE field = "root" -> ~noRoot \/ resume
    [] field = "id"   -> resume
    [] field = "offer" -> resume        \* the receiver binary always runs with resume on; the flag selects the rows
    [] OTHER -> TRUE

Escapes == Reached /\ ~Rejected /\ ~Below(Target)
Confined == ~Escapes

Init ==
  /\ field \in Fields
  /\ segs \in (IF Shape = "deep" THEN {<<"deep", "dd66", "n">>, <<"n", "deep", "dd66", "n">>, <<"deep", "dd66">>, <<"deep", "n">>} ELSE
               IF Shape = "decoy"
                THEN {<<f>> \o up \o <<"n">> : f \in {"n", "inner", "tdd", "pdd"}, up \in {<<"dd", "dd">>, <<"dd", "dd", "dd">>}}
                ELSE UNION {[1..n -> Seg] : n \in 1..MaxLen})
  /\ abs \in BOOLEAN /\ noRoot \in BOOLEAN /\ resume \in BOOLEAN
  /\ phase = "new"
Next == phase = "new" /\ phase' = "done" /\ UNCHANGED <<field, segs, abs, noRoot, resume>>

Emit == PrintT("E " \o ToJson([act |-> [a |-> "case"], d |-> 1,
          x |-> [field |-> field, segs |-> segs, abs |-> abs, noRootDir |-> noRoot, resume |-> resume,
                 rejected |-> Rejected, reached |-> Reached, target |-> Target, escapes |-> Escapes]]))
=============================================================================
