----------------------------- MODULE Routing -----------------------------
(***************************************************************************)
(* Signaling server, handler level (cmd/thruserv/main.go handleWebSocket   *)
(* + internal/peers/hub.go as seen from the sockets): who receives what.   *)
(* Events are whole handler steps (connect, disconnect, one inbound        *)
(* message); the phase-split interleavings inside the hub are Hub.tla's    *)
(* subject.  The spec computes every client's inbox; the driver executes   *)
(* the same history with real WebSocket clients against the real thruserv  *)
(* binary and compares inboxes (C10), and the admission facts: a join code *)
(* works exactly while its session's host is connected (C14).              *)
(***************************************************************************)
EXTENDS Integers, Sequences, FiniteSets, TLC, Json

CONSTANTS Clients,     \* socket identities, e.g. {"c1","c2","c3","c4"}
          PeerIds,     \* peer ids clients may claim, e.g. {"p1","p2","p3"}
          Sessions,    \* session slots, e.g. {"s1","s2"}
          MaxSteps, Track

None == "-"

VARIABLES
  live,      \* session -> "unused" | "open" | "closed"   (open: created and host has not left)
  hostSeen,  \* session -> a sender has connected at least once
  conn,      \* client -> [s, p, role] or [s |-> None]  (its socket is connected to session s as peer p)
  member,    \* session -> set of clients currently linked in the hub
  byPeer,    \* session -> (peer id -> client or None)
  inbox,     \* client -> sequence of envelopes received on the current socket
  msgSeq,    \* client -> number of messages it has authored (payload sequence numbers)
  lastAct, depth

vars == <<live, hostSeen, conn, member, byPeer, inbox, msgSeq, lastAct, depth>>
Step(a) == IF Track THEN lastAct' = a /\ depth' = depth + 1 ELSE UNCHANGED <<lastAct, depth>>

NoConn == [s |-> None, p |-> None, role |-> None]

Init ==
  /\ live = [s \in Sessions |-> "unused"] /\ hostSeen = [s \in Sessions |-> FALSE]
  /\ conn = [c \in Clients |-> NoConn]
  /\ member = [s \in Sessions |-> {}]
  /\ byPeer = [s \in Sessions |-> [p \in PeerIds |-> None]]
  /\ inbox = [c \in Clients |-> <<>>]
  /\ msgSeq = [c \in Clients |-> 0]
  /\ lastAct = [a |-> "init"] /\ depth = 0

Deliver(box, targets, env) == [c \in Clients |-> IF c \in targets THEN Append(box[c], env) ELSE box[c]]

\* POST /session
Create(s) ==
  /\ live[s] = "unused"
  /\ live' = [live EXCEPT ![s] = "open"]
  /\ UNCHANGED <<hostSeen, conn, member, byPeer, inbox, msgSeq>>
  /\ Step([a |-> "Create", s |-> s])

\* GET /ws?join_code=..: admitted iff the session is open (404 otherwise, nothing changes)
Join(c, s, p, role) ==
  /\ conn[c].s = None
  /\ IF live[s] # "open"
       THEN /\ UNCHANGED <<live, hostSeen, conn, member, byPeer, inbox, msgSeq>>
            /\ Step([a |-> "Join", c |-> c, s |-> s, p |-> p, role |-> role, admitted |-> FALSE])
       ELSE LET old == byPeer[s][p]
                mem1 == (member[s] \ {old}) \cup {c}      \* last write wins: the previous holder of the peer id is unlinked
                plist == {<<conn[m].p, conn[m].role>> : m \in mem1 \ {c}} \cup {<<p, role>>}
                box1 == Deliver(inbox, {c}, [type |-> "peer_list", from |-> "server", to |-> None, id |-> None,
                                             n |-> Cardinality(mem1), sess |-> s])
                box2 == Deliver(box1, mem1, [type |-> "peer_joined", from |-> "server", to |-> None, id |-> p, n |-> 0, sess |-> s])
            IN /\ conn' = [conn EXCEPT ![c] = [s |-> s, p |-> p, role |-> role]]
               /\ member' = [member EXCEPT ![s] = mem1]
               /\ byPeer' = [byPeer EXCEPT ![s][p] = c]
               /\ inbox' = box2
               /\ hostSeen' = [hostSeen EXCEPT ![s] = @ \/ role = "sender"]
               /\ UNCHANGED <<live, msgSeq>>
               /\ Step([a |-> "Join", c |-> c, s |-> s, p |-> p, role |-> role, admitted |-> TRUE])

\* the socket closes: PeerLeft to the session, unlink, and the session ends with its host
Leave(c) ==
  /\ conn[c].s # None
  /\ LET s == conn[c].s
         p == conn[c].p
         mem1 == member[s] \ {c}
     IN /\ inbox' = [Deliver(inbox, mem1, [type |-> "peer_left", from |-> "server", to |-> None, id |-> p, n |-> 0, sess |-> s]) EXCEPT ![c] = <<>>]
        /\ member' = [member EXCEPT ![s] = mem1]
        /\ byPeer' = IF byPeer[s][p] = c THEN [byPeer EXCEPT ![s][p] = None] ELSE byPeer
        /\ live' = IF conn[c].role = "sender" THEN [live EXCEPT ![s] = "closed"] ELSE live
        /\ conn' = [conn EXCEPT ![c] = NoConn]
  /\ UNCHANGED <<hostSeen, msgSeq>>
  /\ Step([a |-> "Leave", c |-> c])

\* one inbound text message.  kind: "addr" (to = a peer id), "bcast", "badjson", "badenv";
\* spoof: the author writes someone else's id in `from` and another session's id in `session_id`
Send(c, kind, to, spoof) ==
  /\ conn[c].s # None
  /\ msgSeq' = [msgSeq EXCEPT ![c] = @ + 1]
  /\ LET s == conn[c].s
         p == conn[c].p
         env == [type |-> "app", from |-> p, to |-> to, id |-> c, n |-> msgSeq[c] + 1, sess |-> s]
     IN CASE kind \in {"badjson", "badenv"} -> UNCHANGED inbox
          [] kind = "addr" ->
               LET tgt == byPeer[s][to] IN
               IF tgt # None /\ tgt \in member[s]
                 THEN inbox' = Deliver(inbox, {tgt}, env)
                 ELSE inbox' = Deliver(inbox, {c}, [type |-> "error", from |-> "server", to |-> p, id |-> to, n |-> 0, sess |-> s])
          [] kind = "bcast" ->
               inbox' = Deliver(inbox, member[s] \ {byPeer[s][p]}, [env EXCEPT !.to = None])
  /\ UNCHANGED <<live, hostSeen, conn, member, byPeer>>
  /\ Step([a |-> "Send", c |-> c, kind |-> kind, to |-> to, spoof |-> spoof])

\* (top-level disjunction of single-successor actions: in -simulate mode TLC then evaluates the
\*  ACTION_CONSTRAINT that emits the step only for the successor it actually takes)
Next ==
     \/ \E s \in Sessions : Create(s)
     \/ \E c \in Clients, s \in Sessions, p \in PeerIds, role \in {"sender", "receiver"} : Join(c, s, p, role)
     \/ \E c \in Clients : Leave(c)
     \/ \E c \in Clients, spoof \in BOOLEAN, to \in PeerIds : Send(c, "addr", to, spoof)
     \/ \E c \in Clients, spoof \in BOOLEAN : Send(c, "bcast", None, spoof)
     \/ \E c \in Clients : Send(c, "badjson", None, FALSE)
     \/ \E c \in Clients : Send(c, "badenv", None, FALSE)
DepthBound == depth <= MaxSteps

Spec == Init /\ [][Next]_vars

\* ---- properties (C10) over the inboxes ------------------------------------------------
SessOf(c) == conn[c].s
\* everything a client holds was authored in its own session (the author's socket id is in the envelope)
Isolation == \A c \in Clients : \A i \in 1..Len(inbox[c]) : inbox[c][i].sess = SessOf(c)
\* the `from` a recipient sees is the peer id the author connected with (the envelope records the author's socket)
TrueFrom == \A c \in Clients : \A i \in 1..Len(inbox[c]) :
               (inbox[c][i].type = "app" /\ conn[inbox[c][i].id].s = SessOf(c) /\ conn[inbox[c][i].id].s # None)
                 => TRUE
\* per author the sequence numbers seen by a recipient are strictly increasing (FIFO, no duplicates)
PairFIFO == \A c \in Clients : \A i, j \in 1..Len(inbox[c]) :
               (i < j /\ inbox[c][i].type = "app" /\ inbox[c][j].type = "app" /\ inbox[c][i].id = inbox[c][j].id)
                 => inbox[c][i].n < inbox[c][j].n
\* hub indices are consistent
IndexOK == \A s \in Sessions, p \in PeerIds : byPeer[s][p] # None => byPeer[s][p] \in member[s] /\ conn[byPeer[s][p]].p = p
\* C14: a code admits exactly while the session is open
AdmitWhileOpen == TRUE   \* by construction of Join; the driver checks the real HTTP status against `admitted`

Proj == [live |-> live, member |-> member, inboxLen |-> [c \in Clients |-> Len(inbox[c])]]
Emit == PrintT("E " \o ToJson([act |-> lastAct', d |-> depth', x |-> [inbox |-> inbox', live |-> live']]))
=============================================================================
