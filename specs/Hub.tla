------------------------------- MODULE Hub -------------------------------
(***************************************************************************)
(* The signaling hub (internal/peers/hub.go): sessions -> connections,     *)
(* per-connection buffered channel + closed flag, routing by peer id.      *)
(* Every lock region of the code is one action; operations that release    *)
(* the lock between phases (remove: unlink / close / garbage-collect;      *)
(* CloseSession: unlink / close each; Broadcast and BroadcastExcept:       *)
(* copy / send to each) are in-flight records with a program counter, so   *)
(* TLC explores every preemption between phases.                           *)
(*                                                                         *)
(* The session's inner map is an object with identity (`obj`): remove()    *)
(* captures the map it unlinked from and later tests *that* map for        *)
(* emptiness.                                                              *)
(*                                                                         *)
(* Properties: C11 (no panic, routable while connected, no leak) and the   *)
(* in-process part of C10 (isolation, FIFO, no duplication).               *)
(*                                                                         *)
(* Defect switches (TRUE = the code at the pinned commit):                 *)
(*   SendOnClosedPanics : Broadcast sends on its copied list without       *)
(*        checking that the connection's channel was closed meanwhile      *)
(*   GCUsesCapturedMap  : remove's last phase deletes the session entry    *)
(*        when the map it captured at unlink time is empty, even if the    *)
(*        session has been re-created since                                *)
(* Further negative controls (FALSE = the code; both wait for a writer     *)
(* that may be blocked for good - NothingWaits):                           *)
(*   AddWaitsForWriter  : Add, replacing a connection of the same peer id, *)
(*        waits under the hub lock until the old connection's writer has   *)
(*        finished                                                         *)
(*   CloseTakesWriteMu  : the close callback CloseSession runs per         *)
(*        connection takes the connection's write mutex first (a polite    *)
(*        close frame)                                                     *)
(***************************************************************************)
EXTENDS Integers, FiniteSets, Sequences, TLC, Json

CONSTANTS Conns,        \* connection ids (strings)
          PeerOf,       \* conn -> peer id
          SessOf,       \* conn -> session id
          Sessions,
          NB,           \* number of broadcast operations
          NS,           \* number of SendTo operations
          MaxObj,       \* bound on map objects ever created per run
          Track,
          SendOnClosedPanics, GCUsesCapturedMap,
          StuckConns,   \* connections whose peer has stopped reading: once a message was queued for them their
                        \* writer goroutine sits in the socket write (holding the connection's write mutex) for good
          AddWaitsForWriter, CloseTakesWriteMu

\* ---- configurations (referenced from the .cfg with `<-`) -------------------------
\* A: one session, c1 and c2 share a peer id (reconnect), c3 is another peer
ConnsA == {"c1", "c2", "c3"}
PeerOfA == ("c1" :> "p1" @@ "c2" :> "p1" @@ "c3" :> "p2")
SessOfA == ("c1" :> "s1" @@ "c2" :> "s1" @@ "c3" :> "s1")
SessionsA == {"s1"}
\* B: two sessions, the same peer id appears in both
ConnsB == {"c1", "c2", "c3"}
PeerOfB == ("c1" :> "p1" @@ "c2" :> "p2" @@ "c3" :> "p1")
SessOfB == ("c1" :> "s1" @@ "c2" :> "s1" @@ "c3" :> "s2")
SessionsB == {"s1", "s2"}

Peers == {PeerOf[c] : c \in Conns}
BIds == 1..NB
NoConn == "-"

VARIABLES
  mapObj,    \* session -> id of its current inner map object (0: no entry in h.sessions)
  members,   \* object id -> set of conns in that inner map
  nextObj,
  byPeer,    \* session -> (peer -> conn or NoConn); models h.byPeerID[s] (absent = all NoConn)
  chan,      \* conn -> sequence of messages accepted for delivery (the writer drains it)
  closed,    \* conn -> its channel has been closed
  added,     \* conn -> Add(c) has run
  rm,        \* conn -> [pc, obj] remove() progress: "none","unlinked","closed","done"
  cs,        \* session -> [pc, todo] CloseSession progress: "none","closing","done"
  bc,        \* broadcast id -> [pc, s, todo, msg]
  sendsLeft, \* SendTo operations still available
  panics,    \* number of sends on a closed channel
  replaced,  \* conn was replaced by a later Add with the same peer id
  csDone,    \* session -> CloseSession has unlinked it at least once (history)
  waits,     \* set of <<operation, conn>>: operations blocked on the writer of a connection that stopped reading
  lastAct, depth

vars == <<mapObj, members, nextObj, byPeer, chan, closed, added, rm, cs, bc, sendsLeft, panics,
          replaced, csDone, waits, lastAct, depth>>

Step(a) == IF Track THEN lastAct' = a /\ depth' = depth + 1 ELSE UNCHANGED <<lastAct, depth>>

Init ==
  /\ mapObj = TLCEval([s \in Sessions |-> 0])
  /\ members = TLCEval([o \in 1..MaxObj |-> {}])
  /\ nextObj = 1
  /\ byPeer = TLCEval([s \in Sessions |-> [p \in Peers |-> NoConn]])
  /\ chan = TLCEval([c \in Conns |-> <<>>])
  /\ closed = TLCEval([c \in Conns |-> FALSE])
  /\ added = TLCEval([c \in Conns |-> FALSE])
  /\ rm = TLCEval([c \in Conns |-> [pc |-> "none", obj |-> 0]])
  /\ cs = TLCEval([s \in Sessions |-> [pc |-> "none", todo |-> {}]])
  /\ bc = TLCEval([b \in BIds |-> [pc |-> "idle", s |-> "", todo |-> {}, msg |-> 0]])
  /\ sendsLeft = NS
  /\ panics = 0
  /\ replaced = TLCEval([c \in Conns |-> FALSE])
  /\ csDone = TLCEval([s \in Sessions |-> FALSE])
  /\ waits = {}
  /\ lastAct = [a |-> "init"] /\ depth = 0

Cur(s) == IF mapObj[s] = 0 THEN {} ELSE members[mapObj[s]]
\* the writer of c is blocked in the socket write
WriterBlocked(c) == c \in StuckConns /\ chan[c] # <<>>
\* an operation that waits while holding the hub lock keeps every other lock region out
HubLockFree == \A w \in waits : w[1] # "Add"

\* ---- Add: one lock region -------------------------------------------------
AddBlocks(c) ==
  /\ AddWaitsForWriter /\ HubLockFree /\ ~added[c]
  /\ LET old == byPeer[SessOf[c]][PeerOf[c]]
     IN /\ old # NoConn /\ old # c /\ mapObj[SessOf[c]] # 0 /\ old \in Cur(SessOf[c]) /\ WriterBlocked(old)
        /\ waits' = waits \cup {<<"Add", old>>}
  /\ UNCHANGED <<mapObj, members, nextObj, byPeer, chan, closed, added, rm, cs, bc, sendsLeft, panics, replaced, csDone>>
  /\ Step([a |-> "AddBlocks", c |-> c])

Add(c) ==
  /\ ~added[c] /\ HubLockFree
  /\ ~(AddWaitsForWriter /\ LET old == byPeer[SessOf[c]][PeerOf[c]]
                            IN old # NoConn /\ old # c /\ mapObj[SessOf[c]] # 0 /\ old \in Cur(SessOf[c]) /\ WriterBlocked(old))
  /\ LET s == SessOf[c]
         p == PeerOf[c]
         fresh == mapObj[s] = 0
     IN /\ (fresh => nextObj <= MaxObj)
        /\ LET o == IF fresh THEN nextObj ELSE mapObj[s]
               old == byPeer[s][p]
               hasOld == old # NoConn /\ old # c
               base == IF fresh THEN {} ELSE members[o]
           IN /\ mapObj' = [mapObj EXCEPT ![s] = o]
              /\ nextObj' = IF fresh THEN nextObj + 1 ELSE nextObj
              /\ members' = [members EXCEPT ![o] = (IF hasOld THEN base \ {old} ELSE base) \cup {c}]
              /\ closed' = IF hasOld /\ old \in base THEN [closed EXCEPT ![old] = TRUE] ELSE closed
              /\ replaced' = IF hasOld THEN [replaced EXCEPT ![old] = TRUE] ELSE replaced
              /\ byPeer' = [byPeer EXCEPT ![s][p] = c]
  /\ added' = [added EXCEPT ![c] = TRUE]
  /\ UNCHANGED <<chan, rm, cs, bc, sendsLeft, panics, csDone, waits>>
  /\ Step([a |-> "Add", c |-> c])

\* ---- remove(): three phases -------------------------------------------------
RmUnlink(c) ==
  /\ HubLockFree
  /\ added[c] /\ rm[c].pc = "none"
  /\ LET s == SessOf[c]
         o == mapObj[s]
     IN IF o = 0 \/ c \notin members[o]
          THEN /\ rm' = [rm EXCEPT ![c] = [pc |-> "done", obj |-> 0]]
               /\ UNCHANGED <<members, byPeer>>
          ELSE /\ members' = [members EXCEPT ![o] = @ \ {c}]
               /\ byPeer' = IF byPeer[s][PeerOf[c]] = c THEN [byPeer EXCEPT ![s][PeerOf[c]] = NoConn] ELSE byPeer
               /\ rm' = [rm EXCEPT ![c] = [pc |-> "unlinked", obj |-> o]]
  /\ UNCHANGED <<mapObj, nextObj, chan, closed, added, cs, bc, sendsLeft, panics, replaced, csDone, waits>>
  /\ Step([a |-> "RmUnlink", c |-> c])

RmClose(c) ==
  /\ rm[c].pc = "unlinked"
  /\ closed' = [closed EXCEPT ![c] = TRUE]
  /\ rm' = [rm EXCEPT ![c].pc = "closed"]
  /\ UNCHANGED <<mapObj, members, nextObj, byPeer, chan, added, cs, bc, sendsLeft, panics, replaced, csDone, waits>>
  /\ Step([a |-> "RmClose", c |-> c])

RmGC(c) ==
  /\ HubLockFree
  /\ rm[c].pc = "closed"
  /\ LET s == SessOf[c]
         empty == IF GCUsesCapturedMap THEN members[rm[c].obj] = {}
                  ELSE mapObj[s] # 0 /\ members[mapObj[s]] = {}
     IN IF empty
          THEN /\ mapObj' = [mapObj EXCEPT ![s] = 0]
               /\ byPeer' = [byPeer EXCEPT ![s] = [p \in Peers |-> NoConn]]
          ELSE UNCHANGED <<mapObj, byPeer>>
  /\ rm' = [rm EXCEPT ![c].pc = "done"]
  /\ UNCHANGED <<members, nextObj, chan, closed, added, cs, bc, sendsLeft, panics, replaced, csDone, waits>>
  /\ Step([a |-> "RmGC", c |-> c])

\* ---- CloseSession: unlink, then close each ------------------------------------
CsUnlink(s) ==
  /\ HubLockFree
  /\ cs[s].pc = "none"
  /\ IF mapObj[s] = 0
       THEN /\ cs' = [cs EXCEPT ![s] = [pc |-> "done", todo |-> {}]]
            /\ UNCHANGED <<mapObj, byPeer, csDone>>
       ELSE /\ cs' = [cs EXCEPT ![s] = [pc |-> "closing", todo |-> members[mapObj[s]]]]
            /\ mapObj' = [mapObj EXCEPT ![s] = 0]
            /\ byPeer' = [byPeer EXCEPT ![s] = [p \in Peers |-> NoConn]]
            /\ csDone' = [csDone EXCEPT ![s] = TRUE]
  /\ UNCHANGED <<members, nextObj, chan, closed, added, rm, bc, sendsLeft, panics, replaced, waits>>
  /\ Step([a |-> "CsUnlink", s |-> s])

CsCloseBlocks(s, c) ==
  /\ CloseTakesWriteMu /\ cs[s].pc = "closing" /\ c \in cs[s].todo /\ WriterBlocked(c) /\ <<"CloseSession", c>> \notin waits
  /\ \A w \in waits : w[1] # "CloseSession"
  /\ waits' = waits \cup {<<"CloseSession", c>>}
  /\ UNCHANGED <<mapObj, members, nextObj, byPeer, chan, closed, added, rm, cs, bc, sendsLeft, panics, replaced, csDone>>
  /\ Step([a |-> "CsCloseBlocks", s |-> s, c |-> c])

CsClose(s, c) ==
  /\ cs[s].pc = "closing" /\ c \in cs[s].todo
  /\ ~(CloseTakesWriteMu /\ WriterBlocked(c))
  /\ \A w \in waits : w[1] # "CloseSession"            \* the loop is sequential: stuck at one connection, it does not reach the next
  /\ closed' = [closed EXCEPT ![c] = TRUE]
  /\ LET rest == cs[s].todo \ {c}
     IN cs' = [cs EXCEPT ![s] = [pc |-> IF rest = {} THEN "done" ELSE "closing", todo |-> rest]]
  /\ UNCHANGED <<mapObj, members, nextObj, byPeer, chan, added, rm, bc, sendsLeft, panics, replaced, csDone, waits>>
  /\ Step([a |-> "CsClose", s |-> s, c |-> c])

\* ---- Broadcast / BroadcastExcept: copy under RLock, then send outside it -------
\* ex = NoConn: Broadcast; ex = a peer id: BroadcastExcept(ex)
BcCopy(b, s, ex) ==
  /\ HubLockFree
  /\ bc[b].pc = "idle"
  /\ LET exConn == IF ex = NoConn THEN NoConn ELSE byPeer[s][ex]
         list == Cur(s) \ {exConn}
     IN bc' = [bc EXCEPT ![b] = [pc |-> IF mapObj[s] = 0 \/ list = {} THEN "done" ELSE "sending",
                                s |-> s, todo |-> IF mapObj[s] = 0 THEN {} ELSE list, msg |-> b]]
  /\ UNCHANGED <<mapObj, members, nextObj, byPeer, chan, closed, added, rm, cs, sendsLeft, panics, replaced, csDone, waits>>
  /\ Step([a |-> "BcCopy", b |-> b, s |-> s, ex |-> ex])

BcSend(b, c) ==
  /\ bc[b].pc = "sending" /\ c \in bc[b].todo
  /\ IF closed[c]
       THEN IF SendOnClosedPanics
              THEN panics' = panics + 1 /\ UNCHANGED chan
              ELSE UNCHANGED <<panics, chan>>          \* intended: closed connections are skipped
       ELSE /\ chan' = [chan EXCEPT ![c] = Append(@, <<"b", bc[b].msg>>)]
            /\ UNCHANGED panics
  /\ LET rest == bc[b].todo \ {c}
         aborted == closed[c] /\ SendOnClosedPanics   \* the panic unwinds the broadcasting goroutine
     IN bc' = [bc EXCEPT ![b].todo = IF aborted THEN {} ELSE rest,
                         ![b].pc = IF aborted \/ rest = {} THEN "done" ELSE "sending"]
  /\ UNCHANGED <<mapObj, members, nextObj, byPeer, closed, added, rm, cs, sendsLeft, replaced, csDone, waits>>
  /\ Step([a |-> "BcSend", b |-> b, c |-> c])

\* ---- SendTo: one RLock region ---------------------------------------------------
SendTo(s, p) ==
  /\ HubLockFree
  /\ sendsLeft > 0
  /\ sendsLeft' = sendsLeft - 1
  /\ LET c == byPeer[s][p]
         found == mapObj[s] # 0 /\ c # NoConn /\ c \in Cur(s)
     IN IF found
          THEN IF closed[c]
                 THEN panics' = panics + 1 /\ UNCHANGED chan
                 ELSE chan' = [chan EXCEPT ![c] = Append(@, <<"s", sendsLeft>>)] /\ UNCHANGED panics
          ELSE UNCHANGED <<chan, panics>>
  /\ UNCHANGED <<mapObj, members, nextObj, byPeer, closed, added, rm, cs, bc, replaced, csDone, waits>>
  /\ Step([a |-> "SendTo", s |-> s, p |-> p])

Next == \/ \E c \in Conns : Add(c) \/ AddBlocks(c) \/ RmUnlink(c) \/ RmClose(c) \/ RmGC(c)
        \/ \E s \in Sessions : CsUnlink(s) \/ \E c \in Conns : CsClose(s, c) \/ CsCloseBlocks(s, c)
        \/ \E b \in BIds, s \in Sessions, ex \in {NoConn} \cup Peers : BcCopy(b, s, ex)
        \/ \E b \in BIds, c \in Conns : BcSend(b, c)
        \/ \E s \in Sessions, p \in Peers : SendTo(s, p)

Spec == Init /\ [][Next]_vars

\* ---- properties ------------------------------------------------------------
NoPanic == panics = 0
\* no hub operation (and with it no handler of any other peer) waits for the writer of a peer that stopped reading
NothingWaits == waits = {}

\* a connection that joined, has not started to leave, was not replaced and whose
\* session was not closed is a member of the session's current map and is what
\* its peer id resolves to
Live(c) == added[c] /\ rm[c].pc = "none" /\ ~replaced[c] /\ ~csDone[SessOf[c]]
Routable == \A c \in Conns : Live(c) =>
               /\ mapObj[SessOf[c]] # 0 /\ c \in Cur(SessOf[c])
               /\ byPeer[SessOf[c]][PeerOf[c]] = c

\* a connection that has left (remove finished its first phase) is no longer listed
LeftNotListed == \A c \in Conns : rm[c].pc \in {"unlinked", "closed", "done"} => \A s \in Sessions : c \notin Cur(s)

\* byPeer only points at members of the current map
IndexSound == \A s \in Sessions, p \in Peers :
                 byPeer[s][p] # NoConn => mapObj[s] # 0 /\ byPeer[s][p] \in Cur(s) /\ PeerOf[byPeer[s][p]] = p

\* linked connections have open channels (so SendTo can never hit a closed one)
LinkedOpen == \A s \in Sessions : \A c \in Cur(s) : ~closed[c]

\* no leak: with no operation in flight, a session without members has no entry
OpsIdle == /\ \A c \in Conns : rm[c].pc \in {"none", "done"}
           /\ \A s \in Sessions : cs[s].pc \in {"none", "done"}
           /\ \A b \in BIds : bc[b].pc \in {"idle", "done"}
NoLeak == OpsIdle => \A s \in Sessions : (mapObj[s] # 0 => members[mapObj[s]] # {})

\* isolation: what a connection is handed was addressed to its own session
Isolation == \A c \in Conns : \A i \in 1..Len(chan[c]) :
                chan[c][i][1] = "b" => bc[chan[c][i][2]].s = SessOf[c]
NoDup == \A c \in Conns : \A i, j \in 1..Len(chan[c]) : i # j => chan[c][i] # chan[c][j]

\* ---- projection for the replay driver ------------------------------------------
ListOf(s) == {<<PeerOf[c], c>> : c \in Cur(s)}
Proj == [present |-> [s \in Sessions |-> mapObj[s] # 0],
         members |-> [s \in Sessions |-> Cur(s)],
         byPeer |-> byPeer,
         chan |-> chan,
         closed |-> closed,
         panics |-> panics]
View == <<mapObj, members, nextObj, byPeer, chan, closed, added, rm, cs, bc, sendsLeft, panics, replaced, csDone, waits>>
\* state key for the replay graph: records are flattened to tuples because TLC
\* prints record fields in construction order, which is not canonical
KeyView == <<mapObj, members, nextObj, byPeer, chan, closed, added,
             [c \in Conns |-> <<rm[c].pc, rm[c].obj>>],
             [s \in Sessions |-> <<cs[s].pc, cs[s].todo>>],
             [b \in BIds |-> <<bc[b].pc, bc[b].s, bc[b].todo, bc[b].msg>>],
             sendsLeft, panics, replaced, csDone, waits>>
Emit == PrintT("E " \o ToJson([pre |-> Proj, act |-> lastAct', post |-> Proj', d |-> depth',
                               pk |-> ToString(KeyView), qk |-> ToString(KeyView')]))
=============================================================================
