----------------------------- MODULE Transfer -----------------------------
(***************************************************************************)
(* One multi-stream transfer (internal/transfer/multistream.go):           *)
(* SendManifestMultiStream against RecvManifestMultiStream over one        *)
(* control stream (FIFO both ways) and NS data streams (FIFO each), with   *)
(* QUIC stream visibility: the receiver can accept data stream s only      *)
(* after a frame or FIN was sent on s or on a higher-numbered stream.      *)
(*                                                                         *)
(* Sender: NS workers share the per-file dispatch state; at most SlotLimit *)
(* files are active at once (the scheduler's small-file slot cap); a file  *)
(* is begun (FileBegin), its chunks are framed on the worker's own stream, *)
(* FileEnd follows the last frame, FileDone from the receiver releases the *)
(* slot; workers exit (FIN) when every file is acknowledged, then End.     *)
(* Receiver: main loop handles control records in order; one reader per    *)
(* data stream accepts its stream and applies frames; a file is finalised  *)
(* (FileDone) when all chunks are written and FileEnd was seen.            *)
(*                                                                         *)
(* A single connection fault (graceful close by the sender's side, abrupt  *)
(* loss, chunk corruption) can strike at any point when Faults = TRUE.     *)
(*                                                                         *)
(* Properties: C01 fidelity, C02 no false success, C03 completion          *)
(* (deadlock freedom + eventual success without faults).                   *)
(*                                                                         *)
(* Switches, TRUE = behaviour of the pinned commit (negative controls):    *)
(*   AcceptAllFirst      receiver accepts all NS streams before anything   *)
(*   FinalizeWithoutEnd  receiver finalises on the last missing chunk      *)
(*   CountFailed         a failed file counts as completed                 *)
(*   AckBeforeCount      FileDone is queued before the counter is bumped   *)
(***************************************************************************)
EXTENDS Integers, FiniteSets, Sequences, TLC

CONSTANTS K,            \* sequence: chunks per file, e.g. <<2, 1, 0>>
          NS,           \* data streams = sender workers
          SlotLimit,    \* files active at once on the sender
          QuicVisibility,
          Faults,       \* allow one connection fault / corruption
          AcceptAllFirst, FinalizeWithoutEnd, CountFailed, AckBeforeCount

\* chunk-count vectors referenced from the .cfg with `<-`
K_21 == <<2, 1>>
K_210 == <<2, 1, 0>>
K_3 == <<3>>
K_11 == <<1, 1>>
K_0 == <<0>>
K_none == <<>>
K_12 == <<1, 2>>
K_111 == <<1, 1, 1>>

NF == Len(K)
Files == 1..NF
Streams == 1..NS
Chunks(f) == 0..(K[f] - 1)

VARIABLES
  \* wire
  ctrlSR, ctrlRS, data, fin,
  everSent,     \* stream -> a frame or FIN was ever sent on it (visibility)
  \* sender
  fstate,       \* file -> "pending" | "active" | "ended" | "acked" | "nacked"
  nextc, infl,  \* per-file dispatch cursor / frames being written
  wpc, wfile, wchunk,   \* worker -> "idle" | "hold" | "exited"
  sres,         \* "run" | "ok" | "err"
  \* receiver
  rpc,          \* "init" | "run" | "ret"
  nacc,         \* number of data streams accepted so far (in id order)
  rd,           \* stream -> "none" | "reading" | "exited"
  rfile,        \* file -> "none" | "open" | "final" | "failed"
  written,      \* file -> set of chunk indices written correctly
  badwritten,   \* file -> set of chunk indices written with wrong bytes (must stay empty)
  endr,         \* file -> FileEnd handled
  completed,    \* the receiver's completed-file counter
  pendingAck,   \* files finalised whose counter bump is still outstanding (AckBeforeCount)
  endSeen, rres,
  \* environment
  conn,         \* "up" | "closedByS" (graceful, sender side) | "closedByR" | "lost"
  corrupt       \* the next frame written will be corrupted in flight (at most once)

vars == <<ctrlSR, ctrlRS, data, fin, everSent, fstate, nextc, infl, wpc, wfile, wchunk, sres,
          rpc, nacc, rd, rfile, written, badwritten, endr, completed, pendingAck, endSeen, rres, conn, corrupt>>

Init ==
  /\ ctrlSR = <<[t |-> "HDR"]>> /\ ctrlRS = <<>>
  /\ data = [s \in Streams |-> <<>>] /\ fin = [s \in Streams |-> FALSE]
  /\ everSent = [s \in Streams |-> FALSE]
  /\ fstate = [f \in Files |-> "pending"]
  /\ nextc = [f \in Files |-> 0] /\ infl = [f \in Files |-> 0]
  /\ wpc = [w \in Streams |-> "idle"] /\ wfile = [w \in Streams |-> 0] /\ wchunk = [w \in Streams |-> 0]
  /\ sres = "run"
  /\ rpc = "init" /\ nacc = 0 /\ rd = [s \in Streams |-> "none"]
  /\ rfile = [f \in Files |-> "none"]
  /\ written = [f \in Files |-> {}] /\ badwritten = [f \in Files |-> {}]
  /\ endr = [f \in Files |-> FALSE]
  /\ completed = 0 /\ pendingAck = {} /\ endSeen = FALSE /\ rres = "run"
  /\ conn = "up" /\ corrupt = FALSE

Up == conn = "up"
AllAcked == \A f \in Files : fstate[f] = "acked"
ActiveCount == Cardinality({f \in Files : fstate[f] \in {"active", "ended"}})

\* ---- sender ----------------------------------------------------------------
\* nextTask: begin the next pending file while a slot is free
SBegin(w, f) ==
  /\ Up /\ sres = "run" /\ wpc[w] = "idle"
  /\ fstate[f] = "pending" /\ ActiveCount < SlotLimit
  /\ \A g \in Files : g < f => fstate[g] # "pending"       \* scheduler order: deterministic
  /\ fstate' = [fstate EXCEPT ![f] = "active"]
  /\ ctrlSR' = Append(ctrlSR, [t |-> "FB", f |-> f])
  /\ UNCHANGED <<ctrlRS, data, fin, everSent, nextc, infl, wpc, wfile, wchunk, sres,
                 rpc, nacc, rd, rfile, written, badwritten, endr, completed, pendingAck, endSeen, rres, conn, corrupt>>

\* nextChunkToSend
STake(w, f) ==
  /\ Up /\ sres = "run" /\ wpc[w] = "idle"
  /\ fstate[f] = "active" /\ nextc[f] < K[f]
  /\ wpc' = [wpc EXCEPT ![w] = "hold"]
  /\ wfile' = [wfile EXCEPT ![w] = f] /\ wchunk' = [wchunk EXCEPT ![w] = nextc[f]]
  /\ nextc' = [nextc EXCEPT ![f] = @ + 1]
  /\ infl' = [infl EXCEPT ![f] = @ + 1]
  /\ UNCHANGED <<ctrlSR, ctrlRS, data, fin, everSent, fstate, sres,
                 rpc, nacc, rd, rfile, written, badwritten, endr, completed, pendingAck, endSeen, rres, conn, corrupt>>

\* writeChunkFrame + markChunkDone (+ FileEnd when it was the last frame)
SFrame(w) ==
  /\ Up /\ sres = "run" /\ wpc[w] = "hold"
  /\ LET f == wfile[w]
         last == nextc[f] = K[f] /\ infl[f] = 1
     IN /\ data' = [data EXCEPT ![w] = Append(@, [f |-> f, i |-> wchunk[w], bad |-> corrupt])]
        /\ corrupt' = FALSE
        /\ everSent' = [everSent EXCEPT ![w] = TRUE]
        /\ infl' = [infl EXCEPT ![f] = @ - 1]
        /\ wpc' = [wpc EXCEPT ![w] = "idle"]
        /\ IF last THEN /\ ctrlSR' = Append(ctrlSR, [t |-> "FE", f |-> f])
                        /\ fstate' = [fstate EXCEPT ![f] = "ended"]
                   ELSE UNCHANGED <<ctrlSR, fstate>>
  /\ UNCHANGED <<ctrlRS, fin, nextc, wfile, wchunk, sres,
                 rpc, nacc, rd, rfile, written, badwritten, endr, completed, pendingAck, endSeen, rres, conn>>

\* trySendEnd for a file without chunks (or whose frames are all out)
SEndFile(w, f) ==
  /\ Up /\ sres = "run" /\ wpc[w] = "idle"
  /\ fstate[f] = "active" /\ nextc[f] = K[f] /\ infl[f] = 0
  /\ ctrlSR' = Append(ctrlSR, [t |-> "FE", f |-> f])
  /\ fstate' = [fstate EXCEPT ![f] = "ended"]
  /\ UNCHANGED <<ctrlRS, data, fin, everSent, nextc, infl, wpc, wfile, wchunk, sres,
                 rpc, nacc, rd, rfile, written, badwritten, endr, completed, pendingAck, endSeen, rres, conn, corrupt>>

\* control reader of the sender: FileDone
SAck ==
  /\ Up /\ sres = "run" /\ ctrlRS # <<>>
  /\ LET m == Head(ctrlRS) IN
       /\ ctrlRS' = Tail(ctrlRS)
       /\ IF m.ok THEN /\ fstate' = [fstate EXCEPT ![m.f] = "acked"] /\ UNCHANGED sres
                  ELSE /\ fstate' = [fstate EXCEPT ![m.f] = "nacked"] /\ sres' = "err"   \* setErr: the transfer is cancelled
  /\ UNCHANGED <<ctrlSR, data, fin, everSent, nextc, infl, wpc, wfile, wchunk,
                 rpc, nacc, rd, rfile, written, badwritten, endr, completed, pendingAck, endSeen, rres, conn, corrupt>>

\* a worker exits once every file is acknowledged (or there are no files): FIN on its stream
SExit(w) ==
  /\ Up /\ sres = "run" /\ wpc[w] = "idle" /\ AllAcked
  /\ wpc' = [wpc EXCEPT ![w] = "exited"]
  /\ fin' = [fin EXCEPT ![w] = TRUE]
  /\ everSent' = [everSent EXCEPT ![w] = TRUE]
  /\ UNCHANGED <<ctrlSR, ctrlRS, data, fstate, nextc, infl, wfile, wchunk, sres,
                 rpc, nacc, rd, rfile, written, badwritten, endr, completed, pendingAck, endSeen, rres, conn, corrupt>>

\* wg.Wait() returned: write End; with no files wait for the receiver; the caller then closes the connection
SEnd ==
  /\ Up /\ sres = "run" /\ \A w \in Streams : wpc[w] = "exited"
  /\ ~\E m \in 1..Len(ctrlSR) : ctrlSR[m].t = "END"
  /\ ctrlSR' = Append(ctrlSR, [t |-> "END"])
  /\ UNCHANGED <<ctrlRS, data, fin, everSent, fstate, nextc, infl, wpc, wfile, wchunk, sres,
                 rpc, nacc, rd, rfile, written, badwritten, endr, completed, pendingAck, endSeen, rres, conn, corrupt>>

EndWritten == \E m \in 1..Len(ctrlSR) : ctrlSR[m].t = "END"
EndPending == EndWritten   \* still in the channel, i.e. not yet consumed by the receiver

SReturn ==
  /\ sres = "run" /\ \A w \in Streams : wpc[w] = "exited"
  /\ \/ Up /\ (NF > 0 \/ rres # "run")          \* empty transfer: linger until the receiver is done
     \/ ~Up
  /\ (Up => \/ EndWritten \/ (endSeen))
  /\ sres' = IF Up \/ AllAcked THEN "ok" ELSE "err"
  /\ conn' = IF Up THEN "closedByS" ELSE conn     \* the caller's deferred Close()
  /\ UNCHANGED <<ctrlSR, ctrlRS, data, fin, everSent, fstate, nextc, infl, wpc, wfile, wchunk,
                 rpc, nacc, rd, rfile, written, badwritten, endr, completed, pendingAck, endSeen, rres, corrupt>>

\* the connection died under the sender: every blocked operation fails
SFail ==
  /\ sres = "run" /\ ~Up
  /\ ~(\A w \in Streams : wpc[w] = "exited")
  /\ sres' = "err"
  /\ UNCHANGED <<ctrlSR, ctrlRS, data, fin, everSent, fstate, nextc, infl, wpc, wfile, wchunk,
                 rpc, nacc, rd, rfile, written, badwritten, endr, completed, pendingAck, endSeen, rres, conn, corrupt>>

\* ---- receiver ----------------------------------------------------------------
Visible(s) == IF QuicVisibility THEN \E t \in Streams : t >= s /\ everSent[t] ELSE TRUE
MainMayRun == rpc = "run" /\ (AcceptAllFirst => nacc = NS)

\* header + DataStreams read: readers start (each will accept one stream)
RStart ==
  /\ Up /\ rpc = "init" /\ ctrlSR # <<>> /\ Head(ctrlSR).t = "HDR"
  /\ ctrlSR' = Tail(ctrlSR)
  /\ rpc' = "run"
  /\ UNCHANGED <<ctrlRS, data, fin, everSent, fstate, nextc, infl, wpc, wfile, wchunk, sres,
                 nacc, rd, rfile, written, badwritten, endr, completed, pendingAck, endSeen, rres, conn, corrupt>>

\* a reader (or the up-front loop) accepts the next data stream, in id order
RAccept ==
  /\ Up /\ rpc = "run" /\ nacc < NS /\ Visible(nacc + 1)
  /\ nacc' = nacc + 1
  /\ rd' = [rd EXCEPT ![nacc + 1] = "reading"]
  /\ UNCHANGED <<ctrlSR, ctrlRS, data, fin, everSent, fstate, nextc, infl, wpc, wfile, wchunk, sres,
                 rpc, rfile, written, badwritten, endr, completed, pendingAck, endSeen, rres, conn, corrupt>>

Finalize(f, ok, cnt, pend, crs) ==
  \* returns the new <<completed, pendingAck, ctrlRS>> through the primed variables
  /\ ctrlRS' = Append(crs, [f |-> f, ok |-> ok])
  /\ IF ok \/ CountFailed
       THEN IF AckBeforeCount THEN completed' = cnt /\ pendingAck' = pend \cup {f}
                              ELSE completed' = cnt + 1 /\ pendingAck' = pend
       ELSE completed' = cnt /\ pendingAck' = pend

\* with AckBeforeCount the counter is bumped in a later step of finalizeFile
RCountLate(f) ==
  /\ f \in pendingAck
  /\ completed' = completed + 1 /\ pendingAck' = pendingAck \ {f}
  /\ UNCHANGED <<ctrlSR, ctrlRS, data, fin, everSent, fstate, nextc, infl, wpc, wfile, wchunk, sres,
                 rpc, nacc, rd, rfile, written, badwritten, endr, endSeen, rres, conn, corrupt>>

\* main loop: next control record
RCtrl ==
  /\ Up /\ MainMayRun /\ rres = "run" /\ ctrlSR # <<>>
  /\ LET m == Head(ctrlSR) IN
     /\ ctrlSR' = Tail(ctrlSR)
     /\ CASE m.t = "FB" ->
               /\ rfile' = [rfile EXCEPT ![m.f] = "open"]
               /\ UNCHANGED <<endr, endSeen, completed, pendingAck, ctrlRS, rres>>
          [] m.t = "FE" ->
               /\ endr' = [endr EXCEPT ![m.f] = TRUE]
               /\ IF rfile[m.f] = "open" /\ written[m.f] \cup badwritten[m.f] = Chunks(m.f)
                    THEN /\ rfile' = [rfile EXCEPT ![m.f] = "final"]
                         /\ Finalize(m.f, TRUE, completed, pendingAck, ctrlRS)
                    ELSE UNCHANGED <<rfile, completed, pendingAck, ctrlRS>>
               /\ UNCHANGED <<endSeen, rres>>
          [] m.t = "END" ->
               /\ endSeen' = TRUE
               /\ rres' = IF completed >= NF THEN "ok" ELSE rres
               /\ UNCHANGED <<rfile, endr, completed, pendingAck, ctrlRS>>
          [] OTHER -> FALSE
  /\ UNCHANGED <<data, fin, everSent, fstate, nextc, infl, wpc, wfile, wchunk, sres,
                 rpc, nacc, rd, written, badwritten, conn, corrupt>>

\* doneCh: the last file completed after End was already seen
RDone ==
  /\ rres = "run" /\ rpc = "run" /\ endSeen /\ completed >= NF
  /\ rres' = "ok"
  /\ UNCHANGED <<ctrlSR, ctrlRS, data, fin, everSent, fstate, nextc, infl, wpc, wfile, wchunk, sres,
                 rpc, nacc, rd, rfile, written, badwritten, endr, completed, pendingAck, endSeen, conn, corrupt>>

\* data-stream reader: next frame (waits while the file has not begun)
RData(s) ==
  /\ Up /\ rres = "run" /\ rd[s] = "reading" /\ data[s] # <<>>
  /\ LET fr == Head(data[s])
         f == fr.f
     IN /\ rfile[f] # "none"                                   \* fileReady.wait (sticky signal)
        /\ data' = [data EXCEPT ![s] = Tail(@)]
        /\ IF fr.bad
             THEN \* CRC mismatch: the file fails, the reader reports the error
                  /\ rfile' = [rfile EXCEPT ![f] = "failed"]
                  /\ IF rfile[f] = "open" THEN Finalize(f, FALSE, completed, pendingAck, ctrlRS)
                                          ELSE UNCHANGED <<completed, pendingAck, ctrlRS>>
                  /\ rres' = "err"
                  /\ UNCHANGED <<written, badwritten>>
             ELSE /\ written' = [written EXCEPT ![f] = @ \cup {fr.i}]
                  /\ UNCHANGED badwritten
                  /\ LET full == written'[f] = Chunks(f)
                         fire == rfile[f] = "open" /\ full /\ (FinalizeWithoutEnd \/ endr[f])
                     IN IF fire THEN /\ rfile' = [rfile EXCEPT ![f] = "final"]
                                     /\ Finalize(f, TRUE, completed, pendingAck, ctrlRS)
                                ELSE UNCHANGED <<rfile, completed, pendingAck, ctrlRS>>
                  /\ UNCHANGED rres
  /\ UNCHANGED <<ctrlSR, fin, everSent, fstate, nextc, infl, wpc, wfile, wchunk, sres,
                 rpc, nacc, rd, endr, endSeen, conn, corrupt>>

RReaderExit(s) ==
  /\ Up /\ rd[s] = "reading" /\ data[s] = <<>> /\ fin[s]
  /\ rd' = [rd EXCEPT ![s] = "exited"]
  /\ UNCHANGED <<ctrlSR, ctrlRS, data, fin, everSent, fstate, nextc, infl, wpc, wfile, wchunk, sres,
                 rpc, nacc, rfile, written, badwritten, endr, completed, pendingAck, endSeen, rres, conn, corrupt>>

\* the connection died while a reader was in the middle of a frame of an open file:
\* the read fails, the file is finalised as failed, the error is reported to the main loop
RReaderFail(s) ==
  /\ ~Up /\ rres = "run" /\ rd[s] = "reading" /\ data[s] # <<>>
  /\ LET f == Head(data[s]).f IN
       /\ rfile[f] = "open"
       /\ rfile' = [rfile EXCEPT ![f] = "failed"]
       /\ Finalize(f, FALSE, completed, pendingAck, ctrlRS)
  /\ rd' = [rd EXCEPT ![s] = "exited"]
  /\ UNCHANGED <<ctrlSR, data, fin, everSent, fstate, nextc, infl, wpc, wfile, wchunk, sres,
                 rpc, nacc, written, badwritten, endr, endSeen, rres, conn, corrupt>>

\* the connection died under the receiver (any blocked read / accept fails)
RFail ==
  /\ rres = "run" /\ ~Up
  /\ rres' = IF conn = "closedByS" /\ completed >= NF /\ rpc = "run" THEN "ok" ELSE "err"
  /\ UNCHANGED <<ctrlSR, ctrlRS, data, fin, everSent, fstate, nextc, infl, wpc, wfile, wchunk, sres,
                 rpc, nacc, rd, rfile, written, badwritten, endr, completed, pendingAck, endSeen, conn, corrupt>>

\* the receiving application exits after the call returned: its connection closes
RClose ==
  /\ rres # "run" /\ Up
  /\ conn' = "closedByR"
  /\ UNCHANGED <<ctrlSR, ctrlRS, data, fin, everSent, fstate, nextc, infl, wpc, wfile, wchunk, sres,
                 rpc, nacc, rd, rfile, written, badwritten, endr, completed, pendingAck, endSeen, rres, corrupt>>

\* ---- faults ----------------------------------------------------------------------
FaultClose(kind) ==
  /\ Faults /\ Up /\ sres = "run" /\ rres = "run"
  /\ conn' = kind
  /\ UNCHANGED <<ctrlSR, ctrlRS, data, fin, everSent, fstate, nextc, infl, wpc, wfile, wchunk, sres,
                 rpc, nacc, rd, rfile, written, badwritten, endr, completed, pendingAck, endSeen, rres, corrupt>>

FaultCorrupt ==
  /\ Faults /\ Up /\ ~corrupt /\ sres = "run"
  /\ ~\E s \in Streams : \E j \in 1..Len(data[s]) : data[s][j].bad
  /\ \A f \in Files : rfile[f] # "failed"
  /\ corrupt' = TRUE
  /\ UNCHANGED <<ctrlSR, ctrlRS, data, fin, everSent, fstate, nextc, infl, wpc, wfile, wchunk, sres,
                 rpc, nacc, rd, rfile, written, badwritten, endr, completed, pendingAck, endSeen, rres, conn>>

Terminated == sres # "run" /\ rres # "run" /\ UNCHANGED vars

Next ==
  \/ \E w \in Streams : \/ SFrame(w) \/ SExit(w)
                        \/ \E f \in Files : SBegin(w, f) \/ STake(w, f) \/ SEndFile(w, f)
  \/ SAck \/ SEnd \/ SReturn \/ SFail
  \/ RStart \/ RAccept \/ RCtrl \/ RDone \/ RFail \/ RClose
  \/ \E s \in Streams : RData(s) \/ RReaderExit(s) \/ RReaderFail(s)
  \/ \E f \in Files : RCountLate(f)
  \/ FaultClose("closedByS") \/ FaultClose("lost") \/ FaultCorrupt
  \/ Terminated

Spec == Init /\ [][Next]_vars
FairSpec == Spec /\ WF_vars(Next)

\* ---- properties ------------------------------------------------------------
Complete == \A f \in Files : written[f] = Chunks(f) /\ badwritten[f] = {}

\* C01: success on both sides => identical tree
Fidelity == (sres = "ok" /\ rres = "ok") => Complete
\* C02: the receiver never reports success with an incomplete tree; the sender never
\* reports success unless the receiver confirmed every file
NoFalseSuccessR == rres = "ok" => Complete
NoFalseSuccessS == sres = "ok" => AllAcked
\* C03 (no faults): nobody fails ...
NoFailure == ~Faults => (sres # "err" /\ rres # "err")
\* ... and (deadlock check + this liveness property) everybody finishes
BothSucceed == <>(sres = "ok" /\ rres = "ok")
\* C02: after a fault both sides still return
BothReturn == <>(sres # "run" /\ rres # "run")

TypeOK == /\ completed \in 0..NF /\ nacc \in 0..NS
          /\ \A f \in Files : nextc[f] \in 0..K[f] /\ infl[f] \in 0..NS
=============================================================================
