-------------------------- MODULE TransferGrid --------------------------
(***************************************************************************)
(* The configuration space of an end-to-end transfer (C01, C03): a        *)
(* constant-only module whose "states" are configurations, so that the    *)
(* grid the conformance runs cover is explicit, counted and reproducible. *)
(* TLC enumerates it; every emitted row becomes one real transfer.         *)
(***************************************************************************)
EXTENDS Integers, Sequences, TLC, Json

CONSTANTS Transports, MaxConns

Trees == {"empty", "dirsOnly", "zeroFile", "oneByte", "exactChunk", "chunkPlus1", "chunkMinus1",
          "threeChunks", "mixedSmall", "manyFiles", "oddNames", "dotdotNames", "prefixSiblings", "deepNest", "deviceNames"}
Chunks == {7, 64, 4096, 65536}
Streams == {1, 2, 3, 8}

VARIABLES tree, chunk, streams, conns, resume, noRoot, scanPaths, transport, phase
vars == <<tree, chunk, streams, conns, resume, noRoot, scanPaths, transport, phase>>

Init ==
  /\ tree \in Trees /\ chunk \in Chunks /\ streams \in Streams
  /\ conns \in 1..MaxConns /\ resume \in BOOLEAN /\ noRoot \in BOOLEAN /\ scanPaths \in BOOLEAN
  /\ transport \in Transports
  /\ conns <= streams + 1            \* more connections than streams+control cannot be used
  /\ phase = "new"

Next == phase = "new" /\ phase' = "done" /\ UNCHANGED <<tree, chunk, streams, conns, resume, noRoot, scanPaths, transport>>

Emit == PrintT("E " \o ToJson([act |-> [a |-> "cfg"], d |-> 1,
          x |-> [tree |-> tree, chunk |-> chunk, streams |-> streams, conns |-> conns, resume |-> resume,
                 noRootDir |-> noRoot, scanPaths |-> scanPaths, transport |-> transport]]))
=============================================================================
