--------------------------- MODULE DispatchLoop ---------------------------
(***************************************************************************)
(* The host's scheduler loop at the grain of its lock regions (C12).       *)
(* Admission.tla treats maybeStartTransfers as one atomic step of the      *)
(* handler that calls it.  In the code (internal/app/snapshot_sender.go)   *)
(* it is a loop; every iteration is one region under s.mu that checks      *)
(* "slot free and somebody queued" and claims the slot for the head of the *)
(* queue, then the lock is released (status line, queue updates and        *)
(* transfer_start are sent, the transfer goroutine is launched) before the *)
(* next iteration.  Several callers run that loop at the same time: the    *)
(* signaling read loop (accept, peer left) and the tail of every transfer  *)
(* that has just ended.                                                    *)
(*                                                                         *)
(* Dispatcher d: Start(d) is its first iteration, Iter(d) every further    *)
(* one; between two iterations it sits after the claim and before the      *)
(* launch of the transfer goroutine (hook point host.emit.start).          *)
(* Finish(p, d): the transfer of p returns; its goroutine releases the     *)
(* slot under the lock and becomes dispatcher d (the tail call).           *)
(*                                                                         *)
(* Switch CountOnce = FALSE is the code.  TRUE: the number of free slots   *)
(* is read once, in a lock region of its own, and the loop then claims     *)
(* that many heads without looking at the capacity again.                  *)
(***************************************************************************)
EXTENDS Integers, Sequences, FiniteSets, TLC, Json

CONSTANTS Max,        \* max-receivers
          NQ,         \* receivers that have accepted and wait in the queue at the start
          D,          \* dispatcher activations (read-loop calls + transfer tails)
          Callers,    \* how many of them are calls from the read loop (the rest are transfer tails)
          Busy,       \* transfers already running at the start (receivers NQ+1 .. NQ+Busy)
          CountOnce, Track

Peers == 1..(NQ + Busy)
Running0 == (NQ + 1)..(NQ + Busy)
Disp == 1..D

VARIABLES queue,     \* receivers waiting, head first
          active,    \* receivers holding a slot (s.active)
          launched,  \* of those: the ones whose transfer goroutine is running
          pc,        \* dispatcher -> "idle" | "claimed" (between two iterations) | "done"
          claim,     \* dispatcher -> the receiver it claimed in its last region and has not launched yet (0: none)
          free,      \* (CountOnce only) dispatcher -> slots it still believes to be free
          lastAct, depth
vars == <<queue, active, launched, pc, claim, free, lastAct, depth>>
Step(a) == IF Track THEN lastAct' = a /\ depth' = depth + 1 ELSE UNCHANGED <<lastAct, depth>>

Init == /\ queue = [i \in 1..NQ |-> i] /\ active = Running0 /\ launched = Running0
        /\ pc = [d \in Disp |-> "idle"] /\ claim = [d \in Disp |-> 0] /\ free = [d \in Disp |-> 0]
        /\ lastAct = [a |-> "init"] /\ depth = 0

\* one lock region of the loop, for dispatcher d, given the slot set it sees
Region(d, act, fr) ==
  LET room == IF CountOnce THEN fr > 0 ELSE Cardinality(act) < Max
  IN IF room /\ queue # <<>>
       THEN /\ active' = act \cup {Head(queue)} /\ queue' = Tail(queue)
            /\ pc' = [pc EXCEPT ![d] = "claimed"] /\ claim' = [claim EXCEPT ![d] = Head(queue)]
            /\ free' = [free EXCEPT ![d] = fr - 1]
       ELSE /\ active' = act /\ UNCHANGED queue
            /\ pc' = [pc EXCEPT ![d] = "done"] /\ claim' = [claim EXCEPT ![d] = 0]
            /\ free' = [free EXCEPT ![d] = fr]

FreeNow(act) == IF queue = <<>> THEN 0 ELSE Max - Cardinality(act)

\* CountOnce: the count is taken in a lock region of its own; the claims follow in later regions
Count(d, act) ==
  /\ active' = act /\ UNCHANGED queue
  /\ pc' = [pc EXCEPT ![d] = "counted"] /\ claim' = [claim EXCEPT ![d] = 0]
  /\ free' = [free EXCEPT ![d] = FreeNow(act)]

\* a call from the signaling read loop; the read loop is one goroutine: its calls do not overlap each other
Start(d) ==
  /\ d <= Callers /\ pc[d] = "idle"
  /\ \A e \in 1..Callers : pc[e] \in {"idle", "done"}
  /\ IF CountOnce THEN Count(d, active) ELSE Region(d, active, 0)
  /\ UNCHANGED launched
  /\ Step([a |-> "Start", d |-> d])

\* the dispatcher leaves its park: launches the transfer it claimed, runs the next region
Iter(d) ==
  /\ pc[d] \in {"claimed", "counted"}
  /\ launched' = IF claim[d] # 0 THEN launched \cup {claim[d]} ELSE launched
  /\ Region(d, active, free[d])
  /\ Step([a |-> "Iter", d |-> d])

\* the transfer of p returns: slot released under the lock, tail dispatch as dispatcher d
Finish(p, d) ==
  /\ d > Callers /\ pc[d] = "idle" /\ p \in launched /\ p \in active
  /\ launched' = launched \ {p}
  /\ IF CountOnce THEN Count(d, active \ {p}) ELSE Region(d, active \ {p}, 0)
  /\ Step([a |-> "Finish", p |-> p, d |-> d])

Next == \E d \in Disp : Start(d) \/ Iter(d) \/ \E p \in Peers : Finish(p, d)
Spec == Init /\ [][Next]_vars

\* ---- properties (C12) --------------------------------------------------------------------
Capacity == Cardinality(active) <= Max
\* when no dispatcher is between two iterations, nobody waits while a slot is free
Quiet == \A d \in Disp : pc[d] \in {"idle", "done"}
WorkConserving == (Quiet /\ \E d \in Disp : pc[d] = "done") => (queue = <<>> \/ Cardinality(active) >= Max)
FIFO == \A i, j \in 1..Len(queue) : i < j => queue[i] < queue[j]

View == <<queue, active, launched, pc, claim, free>>
Emit == PrintT("E " \o ToJson([act |-> lastAct', d |-> depth', pk |-> ToString(View), qk |-> ToString(View'),
                               x |-> [queue |-> queue', active |-> active', pc |-> pc', claim |-> claim']]))
=============================================================================
