--------------------------- MODULE DispatchLoop ---------------------------
(***************************************************************************)
(* The host's scheduler loop at the grain of its lock regions (C12).       *)
(* Admission.tla treats maybeStartTransfers as one atomic step of the      *)
(* handler that calls it.  In the code (internal/app/snapshot_sender.go)   *)
(* it is a loop; every iteration is one region under s.mu that checks      *)
(* "slot free and somebody queued" and claims the slot for the head of the *)
(* queue, then the lock is released (status line, queue updates and        *)
(* transfer_start are sent, the transfer goroutine is launched) before the *)
(* next iteration.  Several callers run that loop at the same time: the    *)
(* signaling read loop (accept, peer left) and the tail of every transfer  *)
(* that has just ended.                                                    *)
(*                                                                         *)
(* Dispatcher d: Start(d) is its first iteration, Iter(d) every further    *)
(* one; between two iterations it sits after the claim and before the      *)
(* launch of the transfer goroutine (hook point host.emit.start).          *)
(* Finish(p, d): the transfer of p returns; its goroutine releases the     *)
(* slot under the lock and becomes dispatcher d (the tail call).           *)
(*                                                                         *)
(* Switch CountOnce = FALSE is the code.  TRUE: the number of free slots   *)
(* is read once, in a lock region of its own, and the loop then claims     *)
(* that many heads without looking at the capacity again.                  *)
(*                                                                         *)
(* Contexts.  Every transfer runs under a context of its own, derived from *)
(* the context of the dispatcher that started it; it is cancelled when the *)
(* receiver leaves (handlePeerLeft: slot released, context cancelled, a     *)
(* dispatch with a fresh context - LeaveRunning).  The transfer function   *)
(* of a receiver that left returns because of that cancellation, and its   *)
(* tail then dispatches too (FinishLeft).  A receiver may accept at any    *)
(* time: the read loop puts it into the queue in one region (Enqueue) and  *)
(* dispatches in the next (Start) - a tail can get in between.             *)
(* Switch TailUsesOwnCtx = TRUE (the code up to fix F-C12-3): the tail      *)
(* dispatches with the context of the transfer that has just ended; if     *)
(* that one was cancelled, the receiver it starts is started dead.         *)
(***************************************************************************)
EXTENDS Integers, Sequences, FiniteSets, TLC, Json

CONSTANTS Max,        \* max-receivers
          NQ,         \* receivers that have accepted and wait in the queue at the start
          D,          \* dispatcher activations (read-loop calls + transfer tails)
          Callers,    \* how many of them are calls from the read loop (the rest are transfer tails)
          Busy,       \* transfers already running at the start (receivers NQ+1 .. NQ+Busy)
          Late,       \* receivers that accept later (NQ+Busy+1 .. NQ+Busy+Late)
          CountOnce, TailUsesOwnCtx, Track

Peers == 1..(NQ + Busy + Late)
LatePeers == (NQ + Busy + 1)..(NQ + Busy + Late)
Running0 == (NQ + 1)..(NQ + Busy)
Disp == 1..D

VARIABLES queue,     \* receivers waiting, head first
          active,    \* receivers holding a slot (s.active)
          launched,  \* of those: the ones whose transfer goroutine is running
          pc,        \* dispatcher -> "idle" | "claimed" (between two iterations) | "done"
          claim,     \* dispatcher -> the receiver it claimed in its last region and has not launched yet (0: none)
          free,      \* (CountOnce only) dispatcher -> slots it still believes to be free
          left,      \* receivers that left while their transfer was running (context cancelled, slot released)
          deadCtx,   \* dispatcher -> it dispatches with a cancelled context
          deadStarts,\* receivers whose transfer was started with a cancelled context
          accepted,  \* late receivers that have accepted
          owed,      \* the read loop has queued a receiver and not yet made the dispatch that follows
          lastAct, depth
vars == <<queue, active, launched, pc, claim, free, left, deadCtx, deadStarts, accepted, owed, lastAct, depth>>
Step(a) == IF Track THEN lastAct' = a /\ depth' = depth + 1 ELSE UNCHANGED <<lastAct, depth>>

Init == /\ queue = [i \in 1..NQ |-> i] /\ active = Running0 /\ launched = Running0
        /\ pc = [d \in Disp |-> "idle"] /\ claim = [d \in Disp |-> 0] /\ free = [d \in Disp |-> 0]
        /\ left = {} /\ deadCtx = [d \in Disp |-> FALSE] /\ deadStarts = {} /\ accepted = {} /\ owed = FALSE
        /\ lastAct = [a |-> "init"] /\ depth = 0

\* one lock region of the loop, for dispatcher d, given the slot set it sees
Region(d, act, fr, dead) ==
  LET room == IF CountOnce THEN fr > 0 ELSE Cardinality(act) < Max
  IN IF room /\ queue # <<>>
       THEN /\ active' = act \cup {Head(queue)} /\ queue' = Tail(queue)
            /\ deadStarts' = IF dead THEN deadStarts \cup {Head(queue)} ELSE deadStarts
            /\ pc' = [pc EXCEPT ![d] = "claimed"] /\ claim' = [claim EXCEPT ![d] = Head(queue)]
            /\ free' = [free EXCEPT ![d] = fr - 1]
       ELSE /\ active' = act /\ UNCHANGED <<queue, deadStarts>>
            /\ pc' = [pc EXCEPT ![d] = "done"] /\ claim' = [claim EXCEPT ![d] = 0]
            /\ free' = [free EXCEPT ![d] = fr]

FreeNow(act) == IF queue = <<>> THEN 0 ELSE Max - Cardinality(act)

\* CountOnce: the count is taken in a lock region of its own; the claims follow in later regions
Count(d, act) ==
  /\ active' = act /\ UNCHANGED <<queue, deadStarts>>
  /\ pc' = [pc EXCEPT ![d] = "counted"] /\ claim' = [claim EXCEPT ![d] = 0]
  /\ free' = [free EXCEPT ![d] = FreeNow(act)]

\* a call from the signaling read loop; the read loop is one goroutine: its calls do not overlap each other
Start(d) ==
  /\ d <= Callers /\ pc[d] = "idle"
  /\ \A e \in 1..Callers : pc[e] \in {"idle", "done"}
  /\ IF CountOnce THEN Count(d, active) ELSE Region(d, active, 0, FALSE)
  /\ deadCtx' = [deadCtx EXCEPT ![d] = FALSE] /\ owed' = FALSE
  /\ UNCHANGED <<launched, left, accepted>>
  /\ Step([a |-> "Start", d |-> d])

\* the dispatcher leaves its park: launches the transfer it claimed, runs the next region
Iter(d) ==
  /\ pc[d] \in {"claimed", "counted"}
  /\ launched' = IF claim[d] # 0 THEN launched \cup {claim[d]} ELSE launched
  /\ Region(d, active, free[d], deadCtx[d])
  /\ UNCHANGED <<left, deadCtx, accepted, owed>>
  /\ Step([a |-> "Iter", d |-> d])

\* the transfer of p returns: slot released under the lock, tail dispatch as dispatcher d
Finish(p, d) ==
  /\ d > Callers /\ pc[d] = "idle" /\ p \in launched /\ p \in active
  /\ launched' = launched \ {p}
  /\ IF CountOnce THEN Count(d, active \ {p}) ELSE Region(d, active \ {p}, 0, FALSE)
  /\ deadCtx' = [deadCtx EXCEPT ![d] = FALSE]
  /\ UNCHANGED <<left, accepted, owed>>
  /\ Step([a |-> "Finish", p |-> p, d |-> d])

\* the receiver of a running transfer leaves: handlePeerLeft releases the slot, cancels the transfer's context and
\* dispatches with a fresh context - a call of the read loop (dispatcher d)
LeaveRunning(p, d) ==
  /\ ~CountOnce /\ ~owed /\ d <= Callers /\ pc[d] = "idle" /\ p \in launched /\ p \in active
  /\ \A e \in 1..Callers : pc[e] \in {"idle", "done"}
  /\ left' = left \cup {p}
  /\ Region(d, active \ {p}, 0, FALSE)
  /\ deadCtx' = [deadCtx EXCEPT ![d] = FALSE]
  /\ UNCHANGED <<launched, accepted, owed>>
  /\ Step([a |-> "LeaveRunning", p |-> p, d |-> d])

\* the transfer function of a receiver that left returns (its context is cancelled); the slot is gone already;
\* the tail dispatches - with that cancelled context, or with the context its own was derived from
FinishLeft(p, d) ==
  /\ ~CountOnce /\ d > Callers /\ pc[d] = "idle" /\ p \in launched /\ p \in left
  /\ launched' = launched \ {p}
  /\ Region(d, active, 0, TailUsesOwnCtx)
  /\ deadCtx' = [deadCtx EXCEPT ![d] = TailUsesOwnCtx]
  /\ UNCHANGED <<left, accepted, owed>>
  /\ Step([a |-> "FinishLeft", p |-> p, d |-> d])

\* a late receiver accepts: the read loop puts it into the queue (its dispatch is a Start of its own)
Enqueue(q) ==
  /\ q \in LatePeers \ accepted /\ ~owed
  /\ \A r \in LatePeers : r < q => r \in accepted     \* (numbered in the order in which they accept: FIFO compares numbers)
  /\ \A e \in 1..Callers : pc[e] \in {"idle", "done"}
  /\ \E e \in 1..Callers : pc[e] = "idle"      \* (the bounded model keeps a call for the dispatch that follows)
  /\ accepted' = accepted \cup {q} /\ queue' = Append(queue, q) /\ owed' = TRUE
  /\ UNCHANGED <<active, launched, pc, claim, free, left, deadCtx, deadStarts>>
  /\ Step([a |-> "Enqueue", q |-> q])

Next == \/ \E d \in Disp : Start(d) \/ Iter(d) \/ \E p \in Peers : Finish(p, d) \/ LeaveRunning(p, d) \/ FinishLeft(p, d)
        \/ \E q \in LatePeers : Enqueue(q)
Spec == Init /\ [][Next]_vars

\* ---- properties (C12) --------------------------------------------------------------------
Capacity == Cardinality(active) <= Max
\* when no dispatcher is between two iterations, nobody waits while a slot is free
Quiet == \A d \in Disp : pc[d] \in {"idle", "done"}
WorkConserving == (Quiet /\ ~owed /\ \E d \in Disp : pc[d] = "done") => (queue = <<>> \/ Cardinality(active) >= Max)
\* nobody is started with a context that is already cancelled (he never left: only a receiver that leaves is cancelled)
NoDeadStart == deadStarts = {}
FIFO == \A i, j \in 1..Len(queue) : i < j => queue[i] < queue[j]

View == <<queue, active, launched, pc, claim, free, left, deadCtx, deadStarts, accepted, owed>>
Emit == PrintT("E " \o ToJson([act |-> lastAct', d |-> depth', pk |-> ToString(View), qk |-> ToString(View'),
                               x |-> [queue |-> queue', active |-> active', pc |-> pc', claim |-> claim', dead |-> deadStarts']]))
=============================================================================
