------------------------------ MODULE Server ------------------------------
(***************************************************************************)
(* Session lifecycle and limits of the signaling server                    *)
(* (cmd/thruserv/main.go /session and /ws admission paths,                 *)
(* internal/session/session.go Store).  Every request is a little process: *)
(* the checks and the acts of the code are separate steps, so that TLC     *)
(* explores concurrent arrivals (C14).                                     *)
(*   /session : [rate] -> count check -> store.Create (+ expiry timer)     *)
(*   /ws      : lookup (the linearization point of "the code admits")      *)
(*              -> connection-limit acquire -> receiver-count check        *)
(*              -> upgrade + hub.Add -> ... -> disconnect                  *)
(* Time is discrete; a session expires lazily at lookup (now > expiry) and *)
(* by its timer (now >= expiry).                                           *)
(* Switch CheckThenAct = TRUE is the pinned commit: the two counted limits *)
(* (sessions, receivers per host) are tested and enforced in different     *)
(* steps; FALSE reserves the slot atomically with the test.                *)
(* A /ws request carries a peer id.  A receiver that connects under a peer *)
(* id that is already registered in the session replaces that hub entry    *)
(* (last write wins); the replaced socket stays open until it disconnects  *)
(* and keeps its slot until then.  Switch ReconnectSkipsSlot = TRUE (a     *)
(* negative control): such a reconnect is admitted without a slot of its   *)
(* own.                                                                    *)
(***************************************************************************)
EXTENDS Integers, FiniteSets, Sequences, TLC

CONSTANTS Reqs,          \* request ids
          MaxSessions,   \* 0 = unlimited
          MaxReceivers,  \* per host, 0 = unlimited
          MaxConns,      \* concurrent sockets, 0 = unlimited
          TTL,           \* session lifetime in ticks, 0 = never expires
          MaxTime,
          Pids,          \* peer ids a /ws request may carry
          CheckThenAct, ReconnectSkipsSlot

SessIds == 1..Cardinality(Reqs)

VARIABLES
  store,     \* set of live session ids
  expiry,    \* session id -> expiry tick (0 = none)
  hostLeft,  \* session ids whose host has disconnected
  nextSess,
  reserved,  \* sessions slots reserved by /session requests between check and create (atomic variant)
  now,
  rq,        \* request -> [kind, pc, s, role]
  socks,     \* number of sockets holding a connection-limit slot
  recvRes,   \* session -> receiver slots reserved between check and add (atomic variant)
  admitted,  \* history: <<request, session, tick>> of successful lookups
  created    \* history: session -> creation tick

vars == <<store, expiry, hostLeft, nextSess, reserved, now, rq, socks, recvRes, admitted, created>>

Idle == [kind |-> "none", pc |-> "idle", s |-> 0, role |-> "none", pid |-> 0, noslot |-> FALSE, replaced |-> FALSE]

Init ==
  /\ store = {} /\ expiry = [s \in SessIds |-> 0] /\ hostLeft = {} /\ nextSess = 1 /\ reserved = 0
  /\ now = 0 /\ rq = [r \in Reqs |-> Idle] /\ socks = 0 /\ recvRes = [s \in SessIds |-> 0]
  /\ admitted = {} /\ created = [s \in SessIds |-> -1]

ConnRecv(s) == {r \in Reqs : rq[r].kind = "ws" /\ rq[r].pc = "connected" /\ rq[r].s = s /\ rq[r].role = "receiver"}
\* receiver sockets holding a slot of the per-session counter
SlotHolders(s) == Cardinality({r \in ConnRecv(s) : ~rq[r].noslot})
\* receivers registered in the hub (what the host sees; what the pinned commit counted through hub.List)
Registered(s) == Cardinality({r \in ConnRecv(s) : ~rq[r].replaced})
Receivers(s) == Cardinality(ConnRecv(s))
Expired(s) == expiry[s] # 0 /\ now > expiry[s]

\* ---- POST /session -----------------------------------------------------------------------
CreateCheck(r) ==
  /\ rq[r].pc = "idle" /\ nextSess \in SessIds
  /\ IF MaxSessions > 0 /\ Cardinality(store) + (IF CheckThenAct THEN 0 ELSE reserved) >= MaxSessions
       THEN rq' = [rq EXCEPT ![r] = [Idle EXCEPT !.kind = "create", !.pc = "rejected"]] /\ UNCHANGED reserved
       ELSE /\ rq' = [rq EXCEPT ![r] = [Idle EXCEPT !.kind = "create", !.pc = "checked"]]
            /\ reserved' = IF CheckThenAct THEN reserved ELSE reserved + 1
  /\ UNCHANGED <<store, expiry, hostLeft, nextSess, now, socks, recvRes, admitted, created>>

CreateAct(r) ==
  /\ rq[r].kind = "create" /\ rq[r].pc = "checked" /\ nextSess \in SessIds
  /\ store' = store \cup {nextSess}
  /\ expiry' = [expiry EXCEPT ![nextSess] = IF TTL > 0 THEN now + TTL ELSE 0]
  /\ created' = [created EXCEPT ![nextSess] = now]
  /\ rq' = [rq EXCEPT ![r] = [@ EXCEPT !.pc = "done", !.s = nextSess]]
  /\ nextSess' = nextSess + 1
  /\ reserved' = IF CheckThenAct THEN reserved ELSE reserved - 1
  /\ UNCHANGED <<hostLeft, now, socks, recvRes, admitted>>

\* ---- GET /ws ---------------------------------------------------------------------------------
WsLookup(r, s, role, pid) ==
  /\ rq[r].pc = "idle" /\ s \in SessIds /\ created[s] >= 0
  /\ IF s \in store /\ ~Expired(s)
       THEN /\ rq' = [rq EXCEPT ![r] = [Idle EXCEPT !.kind = "ws", !.pc = "lookedup", !.s = s, !.role = role, !.pid = pid]]
            /\ admitted' = admitted \cup {<<r, s, now>>}
            /\ UNCHANGED store
       ELSE /\ rq' = [rq EXCEPT ![r] = [Idle EXCEPT !.kind = "ws", !.pc = "rejected", !.s = s, !.role = role, !.pid = pid]]
            /\ store' = store \ {s}                          \* lazy expiry deletes the entry
            /\ UNCHANGED admitted
  /\ UNCHANGED <<expiry, hostLeft, nextSess, reserved, now, socks, recvRes, created>>

WsConnLimit(r) ==
  /\ rq[r].kind = "ws" /\ rq[r].pc = "lookedup"
  /\ IF MaxConns > 0 /\ socks >= MaxConns
       THEN rq' = [rq EXCEPT ![r].pc = "rejected"] /\ UNCHANGED socks
       ELSE rq' = [rq EXCEPT ![r].pc = "acquired"] /\ socks' = IF MaxConns > 0 THEN socks + 1 ELSE socks
  /\ UNCHANGED <<store, expiry, hostLeft, nextSess, reserved, now, recvRes, admitted, created>>

WsRecvCheck(r) ==
  /\ rq[r].kind = "ws" /\ rq[r].pc = "acquired"
  /\ LET s == rq[r].s
         present == ReconnectSkipsSlot /\ rq[r].role = "receiver"
                    /\ \E q \in ConnRecv(s) : rq[q].pid = rq[r].pid /\ ~rq[q].replaced
         over == MaxReceivers > 0 /\ rq[r].role = "receiver"
                 /\ (IF CheckThenAct THEN Registered(s) ELSE SlotHolders(s) + recvRes[s]) >= MaxReceivers
     IN IF present
          THEN /\ rq' = [rq EXCEPT ![r].pc = "checked", ![r].noslot = TRUE]
               /\ UNCHANGED <<socks, recvRes>>
          ELSE IF over
          THEN /\ rq' = [rq EXCEPT ![r].pc = "rejected"]
               /\ socks' = IF MaxConns > 0 THEN socks - 1 ELSE socks
               /\ UNCHANGED recvRes
          ELSE /\ rq' = [rq EXCEPT ![r].pc = "checked"]
               /\ recvRes' = IF ~CheckThenAct /\ rq[r].role = "receiver" THEN [recvRes EXCEPT ![s] = @ + 1] ELSE recvRes
               /\ UNCHANGED socks
  /\ UNCHANGED <<store, expiry, hostLeft, nextSess, reserved, now, admitted, created>>

WsAdd(r) ==
  /\ rq[r].kind = "ws" /\ rq[r].pc = "checked"
  /\ rq' = [q \in Reqs |-> IF q = r THEN [rq[r] EXCEPT !.pc = "connected"]
                           ELSE IF rq[r].role = "receiver" /\ q \in ConnRecv(rq[r].s) /\ rq[q].pid = rq[r].pid
                                  THEN [rq[q] EXCEPT !.replaced = TRUE]      \* hub.Add: last write wins
                                  ELSE rq[q]]
  /\ recvRes' = IF ~CheckThenAct /\ rq[r].role = "receiver" /\ ~rq[r].noslot THEN [recvRes EXCEPT ![rq[r].s] = @ - 1] ELSE recvRes
  /\ UNCHANGED <<store, expiry, hostLeft, nextSess, reserved, now, socks, admitted, created>>

Disconnect(r) ==
  /\ rq[r].kind = "ws" /\ rq[r].pc = "connected"
  /\ rq' = [rq EXCEPT ![r].pc = "closed"]
  /\ socks' = IF MaxConns > 0 THEN socks - 1 ELSE socks
  /\ IF rq[r].role = "sender"
       THEN store' = store \ {rq[r].s} /\ hostLeft' = hostLeft \cup {rq[r].s}
       ELSE UNCHANGED <<store, hostLeft>>
  /\ UNCHANGED <<expiry, nextSess, reserved, now, recvRes, admitted, created>>

\* ---- time ------------------------------------------------------------------------------------
Tick == /\ now < MaxTime /\ now' = now + 1
        /\ UNCHANGED <<store, expiry, hostLeft, nextSess, reserved, rq, socks, recvRes, admitted, created>>

\* the expiry timer: CloseSession (every socket of the session is closed) + store.Delete
TimerFires(s) ==
  /\ s \in store /\ expiry[s] # 0 /\ now >= expiry[s]
  /\ store' = store \ {s}
  /\ rq' = [r \in Reqs |-> IF rq[r].kind = "ws" /\ rq[r].pc = "connected" /\ rq[r].s = s THEN [rq[r] EXCEPT !.pc = "closed"] ELSE rq[r]]
  /\ socks' = IF MaxConns > 0 THEN socks - Cardinality({r \in Reqs : rq[r].kind = "ws" /\ rq[r].pc = "connected" /\ rq[r].s = s}) ELSE socks
  /\ UNCHANGED <<expiry, hostLeft, nextSess, reserved, now, recvRes, admitted, created>>

Next == \/ \E r \in Reqs : CreateCheck(r) \/ CreateAct(r) \/ WsConnLimit(r) \/ WsRecvCheck(r) \/ WsAdd(r) \/ Disconnect(r)
        \/ \E r \in Reqs, s \in SessIds, role \in {"sender", "receiver"} :
              \E pid \in (IF role = "sender" THEN {0} ELSE Pids) : WsLookup(r, s, role, pid)
        \/ Tick \/ \E s \in SessIds : TimerFires(s)

Spec == Init /\ [][Next]_vars

\* ---- properties (C14) ----------------------------------------------------------------------
\* a code admits only between creation and (host disconnect or expiry)
AdmitOnlyWhileLive == \A a \in admitted : LET s == a[2] t == a[3] IN
                         /\ created[s] >= 0 /\ t >= created[s]
                         /\ (expiry[s] # 0 => t <= expiry[s])
\* ... and never after the host left (a lookup after the host's disconnect step finds nothing)
NoAdmitAfterHostLeft == \A s \in hostLeft : s \notin store
\* limits
SessionsBound == MaxSessions > 0 => Cardinality(store) <= MaxSessions
\* the host never has more receivers registered than the limit (in the code as written not even more receiver sockets)
ReceiversBound == MaxReceivers > 0 => \A s \in SessIds : Registered(s) <= MaxReceivers
ReceiverSocketsBound == (MaxReceivers > 0 /\ ~CheckThenAct /\ ~ReconnectSkipsSlot) => \A s \in SessIds : Receivers(s) <= MaxReceivers
ConnsBound == MaxConns > 0 => Cardinality({r \in Reqs : rq[r].kind = "ws" /\ rq[r].pc \in {"acquired", "checked", "connected"}}) <= MaxConns
\* 0 means no limit: nothing is ever rejected by a limit that is off
ZeroMeansOff == (MaxSessions = 0 /\ MaxReceivers = 0 /\ MaxConns = 0) =>
                  \A r \in Reqs : rq[r].pc = "rejected" => (rq[r].kind = "ws" /\ (rq[r].s \notin store \/ Expired(rq[r].s)))
=============================================================================
