------------------------------ MODULE Config ------------------------------
(***************************************************************************)
(* The documented configuration space of the signaling server and the     *)
(* client-visible contract for each configuration (C16): a host can create *)
(* a session, both roles can connect with the URL the client builds, and   *)
(* the relay credentials the server mints parse back into the same user,   *)
(* secret and endpoint.  A configuration is a state; TLC enumerates        *)
(*  - Mode "flags": every assignment of {default, small, zero} to the      *)
(*    documented limit / timeout flags in which at most two flags deviate  *)
(*    from their default, plus all-small and all-zero;                     *)
(*  - Mode "turn": TURN URL spelling x peer-id class (and TURN off).       *)
(***************************************************************************)
EXTENDS Integers, FiniteSets, Sequences, TLC, Json

CONSTANTS Mode,
          MaxOff   \* how many flags may be off their default at once

Flags == <<"max-sessions", "max-receivers-per-sender", "max-message-bytes", "ws-connects", "ws-msgs", "session-creates",
           "max-ws-connections", "ws-idle-timeout", "session-timeout">>
Levels == {"default", "small", "zero"}
NF == Len(Flags)

TurnSpellings == {"off", "turn:h:p", "turn://h:p", "turns:h:p", "turns://h:p", "h:p", "turn:h:p?transport=tcp",
                  "turns:h:p?servername=x", "turn:h:p?transport=udp", "turn:[v6]:p", "turns://[v6]:p", "[v6]:p"}
PeerIdClasses == {"hex", "colon", "at", "slash", "question", "percent", "plus", "space", "unicode", "amp-eq", "hash"}

VARIABLES cfg, turn, peer, phase
vars == <<cfg, turn, peer, phase>>

Deviating(f) == Cardinality({i \in 1..NF : f[i] # "default"})

Init ==
  /\ phase = "new"
  /\ \/ /\ Mode = "flags"
        /\ cfg \in {f \in [1..NF -> Levels] : Deviating(f) <= MaxOff \/ (\A i \in 1..NF : f[i] = "small") \/ (\A i \in 1..NF : f[i] = "zero")}
        /\ turn = "off" /\ peer = "hex"
     \/ /\ Mode = "turn"
        /\ cfg = [i \in 1..NF |-> "default"]
        /\ turn \in TurnSpellings /\ peer \in PeerIdClasses
Next == phase = "new" /\ phase' = "done" /\ UNCHANGED <<cfg, turn, peer>>

\* the contract, the same for every configuration
Contract == [create |-> TRUE, senderConnects |-> TRUE, receiverConnects |-> TRUE, turnRoundTrips |-> turn # "off"]

Emit == PrintT("E " \o ToJson([act |-> [a |-> Mode], d |-> 1,
          x |-> [flags |-> [i \in 1..NF |-> <<Flags[i], cfg[i]>>], turn |-> turn, peer |-> peer, contract |-> Contract]]))
=============================================================================
