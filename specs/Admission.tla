---------------------------- MODULE Admission ----------------------------
(***************************************************************************)
(* Host-side admission scheduler (internal/app/snapshot_sender.go):        *)
(* handlePeerJoined, handleManifestAccept, handlePeerLeft, runTransfer     *)
(* (tail), cleanup and maybeStartTransfers.  One action per event handler; *)
(* maybeStartTransfers is the recursive operator Dispatch, called exactly  *)
(* where the code calls it and with the context the code passes.           *)
(*                                                                         *)
(* Environment assumption: a receiver joins, accepts (any number of         *)
(* times) while connected, leaves, and may join again.                     *)
(*                                                                         *)
(* Ground truth for "simultaneous transfers" is the set `runs` of transfer *)
(* function instances: live = started, context not cancelled, not returned.*)
(*                                                                         *)
(* Defect switches (TRUE = what the code at the pinned commit does):       *)
(*   StaleCompletionFreesSlot : runTransfer's tail deletes active[peer]    *)
(*       and overwrites the status without checking that the finishing     *)
(*       instance still owns the slot                                      *)
(*   TickDropsQueued : cleanup removes QUEUED receivers older than the TTL *)
(*   DispatchWithRunCtx : the tail re-dispatches with the finished         *)
(*       transfer's own (possibly cancelled) context                       *)
(***************************************************************************)
EXTENDS Integers, FiniteSets, Sequences, TLC, Json

CONSTANTS Peers, Max, MaxRuns, MaxDepth, Track,
          StaleCompletionFreesSlot, TickDropsQueued, DispatchWithRunCtx

VARIABLES
  connected,   \* environment: peer has a live signaling connection
  status,      \* receivers[p].Status, "absent" when there is no entry
  age,         \* 0 fresh, 1 seen less than TTL ago, 2 older than TTL
  queue,       \* s.queue
  active,      \* s.active: peer -> owning run id (0 = no slot)
  runs,        \* run id -> [peer, cancelled, returned, dead]  (dead: started with a cancelled ctx)
  nextId,
  waiting,     \* oracle: peer accepted since it joined and has not been started since
  emits,       \* messages emitted by the last step, in order (<<"S",p>> start, <<"Q",p>> queued update)
  lastAct, depth

vars == <<connected, status, age, queue, active, runs, nextId, waiting, emits, lastAct, depth>>

RunIds == 1..MaxRuns
NoRun == [peer |-> "", cancelled |-> FALSE, returned |-> TRUE, dead |-> FALSE, used |-> FALSE]

Step(a) == IF Track THEN lastAct' = a /\ depth' = depth + 1 ELSE UNCHANGED <<lastAct, depth>>

Init ==
  /\ connected = TLCEval([p \in Peers |-> FALSE])    \* TLCEval: TLC keeps function constructors lazy,
  /\ status = TLCEval([p \in Peers |-> "absent"])    \* which breaks its disk queue when a VIEW is used
  /\ age = TLCEval([p \in Peers |-> 0])
  /\ queue = <<>>
  /\ active = TLCEval([p \in Peers |-> 0])
  /\ runs = TLCEval([i \in RunIds |-> NoRun])
  /\ nextId = 1
  /\ waiting = {}
  /\ emits = <<>>
  /\ lastAct = [a |-> "init"] /\ depth = 0

InSeq(s, x) == \E i \in 1..Len(s) : s[i] = x
Filter(s, keep(_)) == SelectSeq(s, keep)
QueuedUpdates(q) == TLCEval([i \in 1..Len(q) |-> <<"Q", q[i]>>])
ActiveCount(act) == Cardinality({p \in Peers : act[p] # 0})

\* maybeStartTransfers(ctx): st = [q, act, stat, ag, rn, nid, wt, em]; ctxDead = ctx already cancelled
RECURSIVE Dispatch(_, _)
Dispatch(st, ctxDead) ==
  IF ActiveCount(st.act) >= Max \/ st.q = <<>> THEN st
  ELSE LET p == Head(st.q)
           q2 == Tail(st.q)
       IN IF st.stat[p] = "absent" \/ st.stat[p] = "TRANSFERRING"
            THEN Dispatch([st EXCEPT !.q = q2], ctxDead)
            ELSE Dispatch([st EXCEPT !.q = q2,
                                     !.stat[p] = "TRANSFERRING",
                                     !.ag[p] = 0,
                                     !.act[p] = st.nid,
                                     !.rn[st.nid] = [peer |-> p, cancelled |-> ctxDead, returned |-> FALSE,
                                                     dead |-> ctxDead, used |-> TRUE],
                                     !.nid = st.nid + 1,
                                     !.wt = st.wt \ {p},
                                     !.em = st.em \o QueuedUpdates(q2) \o << <<"S", p>> >>],
                          ctxDead)

Pack(q, act, stat, ag, rn, nid, wt, em) ==
  [q |-> q, act |-> act, stat |-> stat, ag |-> ag, rn |-> rn, nid |-> nid, wt |-> wt, em |-> em]

Apply(st) ==
  /\ queue' = st.q /\ active' = st.act /\ status' = st.stat /\ age' = st.ag
  /\ runs' = st.rn /\ nextId' = st.nid /\ waiting' = st.wt /\ emits' = st.em

\* the number of run ids a dispatch could consume is bounded so that ids stay in RunIds
Room == nextId + Max <= MaxRuns + 1

\* ---- events ------------------------------------------------------------------
Join(p) ==
  /\ ~connected[p]
  /\ connected' = [connected EXCEPT ![p] = TRUE]
  /\ status' = [status EXCEPT ![p] = "JOINED"]
  /\ age' = [age EXCEPT ![p] = 0]
  /\ emits' = <<>>
  /\ UNCHANGED <<queue, active, runs, nextId, waiting>>
  /\ Step([a |-> "Join", p |-> p])

Accept(p) ==
  /\ connected[p] /\ Room
  /\ IF status[p] = "TRANSFERRING"
       THEN Apply(Dispatch(Pack(queue, active, status, [age EXCEPT ![p] = 0], runs, nextId, waiting, <<>>), FALSE))
       ELSE LET q1 == IF InSeq(queue, p) THEN queue ELSE Append(queue, p)
                st == Pack(q1, active, [status EXCEPT ![p] = "QUEUED"], [age EXCEPT ![p] = 0], runs, nextId,
                           waiting \cup {p}, QueuedUpdates(q1))
            IN Apply(Dispatch(st, FALSE))
  /\ UNCHANGED connected
  /\ Step([a |-> "Accept", p |-> p])

Leave(p) ==
  /\ connected[p] /\ Room
  /\ connected' = [connected EXCEPT ![p] = FALSE]
  /\ LET stat1 == IF status[p] \notin {"absent", "DONE"} THEN [status EXCEPT ![p] = "FAILED"] ELSE status
         ag1 == IF status[p] \notin {"absent", "DONE"} THEN [age EXCEPT ![p] = 0] ELSE age
         rn1 == IF active[p] # 0 THEN [runs EXCEPT ![active[p]].cancelled = TRUE] ELSE runs
         act1 == [active EXCEPT ![p] = 0]
         q1 == Filter(queue, LAMBDA x : x # p)
         st == Pack(q1, act1, stat1, ag1, rn1, nextId, waiting \ {p}, QueuedUpdates(q1))
     IN Apply(Dispatch(st, FALSE))
  /\ Step([a |-> "Leave", p |-> p])

\* tail of runTransfer for instance i returning ok / error
Complete(i, ok) ==
  /\ i \in RunIds /\ runs[i].used /\ ~runs[i].returned /\ Room
  /\ LET p == runs[i].peer
         owns == active[p] = i
         \* the owner publishes and releases; so does the transfer of a peer that
         \* left and has not come back (slot released by Leave, status still FAILED)
         publish == StaleCompletionFreesSlot \/ owns \/ (active[p] = 0 /\ status[p] = "FAILED")
         release == StaleCompletionFreesSlot \/ owns
         stat1 == IF status[p] # "absent" /\ publish
                    THEN [status EXCEPT ![p] = IF ok THEN "DONE" ELSE "FAILED"] ELSE status
         ag1 == IF status[p] # "absent" /\ publish THEN [age EXCEPT ![p] = 0] ELSE age
         act1 == IF release THEN [active EXCEPT ![p] = 0] ELSE active
         rn1 == [runs EXCEPT ![i].returned = TRUE]
         st == Pack(queue, act1, stat1, ag1, rn1, nextId, waiting, QueuedUpdates(queue))
     IN Apply(Dispatch(st, DispatchWithRunCtx /\ runs[i].cancelled))
  /\ UNCHANGED connected
  /\ Step([a |-> "Complete", i |-> i, p |-> runs[i].peer, ok |-> ok])

\* cleanup(): time advances by d (0: none, 1: less than the TTL, 2: more than the TTL)
Tick(d) ==
  /\ LET ag1 == [p \in Peers |-> IF status[p] = "absent" THEN age[p]
                                 ELSE IF age[p] + d > 2 THEN 2 ELSE age[p] + d]
         drop == {p \in Peers : /\ status[p] # "absent" /\ status[p] # "TRANSFERRING" /\ ag1[p] = 2
                                /\ (status[p] = "QUEUED" => TickDropsQueued)}
         stat1 == [p \in Peers |-> IF p \in drop THEN "absent" ELSE status[p]]
         q1 == IF drop = {} THEN queue ELSE Filter(queue, LAMBDA x : stat1[x] # "absent")
     IN /\ age' = TLCEval([p \in Peers |-> IF p \in drop THEN 0 ELSE ag1[p]])
        /\ status' = TLCEval(stat1)
        /\ queue' = q1
  /\ emits' = <<>>
  /\ UNCHANGED <<connected, active, runs, nextId, waiting>>
  /\ Step([a |-> "Tick", d |-> d])

Next == \/ \E p \in Peers : Join(p) \/ Accept(p) \/ Leave(p)
        \/ \E i \in RunIds, ok \in BOOLEAN : Complete(i, ok)
        \/ \E d \in 1..2 : Tick(d)

Spec == Init /\ [][Next]_vars
DepthBound == depth <= MaxDepth

\* ---- properties ------------------------------------------------------------
Live == {i \in RunIds : runs[i].used /\ ~runs[i].cancelled /\ ~runs[i].returned}
LiveBound     == Cardinality(Live) <= Max
QueueNoDup    == \A i, j \in 1..Len(queue) : i # j => queue[i] # queue[j]
QueuedStatus  == \A i \in 1..Len(queue) : status[queue[i]] = "QUEUED" /\ connected[queue[i]]
Exclusive     == \A p \in Peers : ~(InSeq(queue, p) /\ (active[p] # 0 \/ \E i \in Live : runs[i].peer = p))
OneRunPerPeer == \A i, j \in Live : runs[i].peer = runs[j].peer => i = j
LeftNotServed == \A p \in Peers : ~connected[p] => ~InSeq(queue, p) /\ ~\E i \in Live : runs[i].peer = p
NoSilentDrop  == \A p \in waiting : InSeq(queue, p)
WorkConserving == queue # <<>> => Cardinality(Live) >= Max
NoDeadStart   == \A i \in RunIds : ~runs[i].dead
SlotTruth     == \A p \in Peers : active[p] # 0 =>
                    /\ status[p] = "TRANSFERRING" /\ runs[active[p]].peer = p /\ ~runs[active[p]].returned
StatusTruth   == \A p \in Peers : status[p] = "TRANSFERRING" => active[p] # 0

\* FIFO: a start always takes the head of the queue as it was before the step -
\* holds by construction of Dispatch; the replay driver checks it on the real
\* object against its own accept-order bookkeeping.

\* ---- projection for the replay driver ------------------------------------------
Proj == [queue |-> queue,
         active |-> [p \in Peers |-> active[p] # 0],
         status |-> status]
LiveOf == [p \in Peers |-> Cardinality({i \in Live : runs[i].peer = p})]
View == <<connected, status, age, queue, active, runs, nextId, waiting>>
Emit == PrintT("E " \o ToJson([pre |-> Proj, act |-> lastAct', post |-> Proj', d |-> depth',
                               pk |-> ToString(View), qk |-> ToString(View'),
                               x |-> [emits |-> emits', live |-> LiveOf']]))
=============================================================================
