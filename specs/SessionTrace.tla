--------------------------- MODULE SessionTrace ---------------------------
(***************************************************************************)
(* Trace validation of real `thru host` / `thru join` processes            *)
(* (direction: implementation -> specification).                           *)
(*                                                                         *)
(* Each process, built with -tags verif, writes one line per hook point    *)
(* (sequence number assigned under the hook mutex).  The driver            *)
(* concatenates the per-process traces, separated by `trace.reset` lines   *)
(* that name the role, and replaces 64-bit file keys by small ids.  This   *)
(* module is the session / transfer lifecycle those processes must follow; *)
(* Traces of in-process transfers (driver-level SendManifestMultiStream /   *)
(* RecvManifestMultiStream pairs, role "inproc") start in the transfer     *)
(* phase and carry both ends' events; traces of the receiver child         *)
(* processes of the kill drivers (role "child") likewise, possibly cut     *)
(* short by the kill.                                                      *)
(* It is written as a monitor: every line is consumed, a line whose guard  *)
(* does not hold is recorded in `viol` with the name of the rule, so that  *)
(* the rest of the trace is still checked.                                 *)
(*                                                                         *)
(* Rules (the prefix names the property the rule belongs to):              *)
(*  C08.data_before_auth   no transfer-phase event before auth.end(ok)     *)
(*  C08.xfer_without_auth  xfer.begin only directly from the authenticated *)
(*                         state                                           *)
(*  C09.two_winners        at most one ice.dial.won per process            *)
(*  C09.primary_after_auth the primary connection is not swapped after a   *)
(*                         successful authentication                       *)
(*  C09.auth_without_conn  authentication starts on a committed connection *)
(*  C05.mark_before_write  a chunk is marked complete only after its write *)
(*  C05.write_unknown_file a chunk is written only into a begun file,       *)
(*                         inside its chunk range                          *)
(*  OBS.write_after_ok_finalize  (observation, no listed property): a      *)
(*                         chunk frame written after the file was          *)
(*                         finalized ok - a forced tail re-send whose      *)
(*                         frame is overtaken by FileEnd on the control    *)
(*                         stream; harmless because the receive call       *)
(*                         drains its data streams before it returns       *)
(*  C02.finalize_ok_short  a fresh file is finalized ok only with all its  *)
(*                         chunks written (the `written` hook precedes the *)
(*                         bitmap update in the writing goroutine, so its  *)
(*                         event is ordered before the finalize event; the *)
(*                         `marked` event of the last chunk may come after)*)
(*  C02.finalize_twice     a file is finalized once                        *)
(*  C04.flush_order        sidecar flush: begin -> tmp written -> renamed  *)
(*  C17.chunk_after_end    no chunk is framed after the file's End         *)
(*  C17.end_twice          one End per file                                *)
(*  C17.done_before_end    the receiver's FileDone is consumed after End   *)
(***************************************************************************)
EXTENDS Integers, Sequences, FiniteSets, TLC, Json

Trace == ndJsonDeserialize("session_trace.ndjson")

VARIABLES l, role, phase, won, fb, total, written, marked, fin, sEnded, sDone, flush, fresh, viol

vars == <<l, role, phase, won, fb, total, written, marked, fin, sEnded, sDone, flush, fresh, viol>>

XferPoints == {"recv.datastreams", "recv.accept.stream", "recv.main.ctrl", "recv.main.done", "recv.main.ctrlerr", "recv.main.dataerr",
               "recv.filebegin", "recv.chunk.header", "recv.chunk.written", "recv.chunk.marked", "recv.finalize",
               "send.verify.hash", "send.resume.info", "send.fileend", "send.filedone", "send.take.none", "send.worker.take",
               "send.chunk.framed"}

Init ==
  /\ l = 1 /\ role = "?" /\ phase = "idle" /\ won = 0
  /\ fb = {} /\ total = {} /\ written = {} /\ marked = {} /\ fin = {}
  /\ sEnded = {} /\ sDone = {} /\ flush = {} /\ fresh = TRUE /\ viol = {}

Flag(cond, rule) == IF cond THEN {} ELSE {<<rule, l>>}

\* total chunks of file f (0 when unknown)
TotalOf(f) == IF \E p \in total : p[1] = f THEN (CHOOSE p \in total : p[1] = f)[2] ELSE 0

Handle(e) ==
  LET pt == e.pt a == e.a b == e.b s == e.s IN
  CASE pt = "trace.reset" ->
         /\ role' = s /\ phase' = (IF s \in {"inproc", "child"} THEN "xfer" ELSE "idle") /\ won' = 0 /\ fb' = {} /\ total' = {} /\ written' = {} /\ marked' = {} /\ fin' = {}
         /\ sEnded' = {} /\ sDone' = {} /\ flush' = {} /\ fresh' = (a = 0) /\ UNCHANGED viol
    [] pt = "host.emit.start" ->
         \* the host starts serving a receiver: the per-transfer state begins afresh (the host processes of the
         \* sessions driven here serve one receiver at a time)
         /\ phase' = "idle" /\ won' = 0 /\ sEnded' = {} /\ sDone' = {}
         /\ UNCHANGED <<role, fb, total, written, marked, fin, flush, fresh, viol>>
    [] pt = "ice.dial.won" ->
         /\ won' = won + 1 /\ viol' = viol \cup Flag(won = 0, "C09.two_winners")
         /\ UNCHANGED <<role, phase, fb, total, written, marked, fin, sEnded, sDone, flush, fresh>>
    [] pt = "conn.primary" ->
         /\ phase' = IF phase \in {"idle", "authfail", "connected"} THEN "connected" ELSE phase
         /\ viol' = viol \cup Flag(phase \in {"idle", "authfail"}, "C09.primary_after_auth")
         /\ UNCHANGED <<role, won, fb, total, written, marked, fin, sEnded, sDone, flush, fresh>>
    [] pt = "auth.begin" ->
         /\ phase' = "authing" /\ viol' = viol \cup Flag(phase = "connected", "C09.auth_without_conn")
         /\ UNCHANGED <<role, won, fb, total, written, marked, fin, sEnded, sDone, flush, fresh>>
    [] pt = "auth.end" ->
         /\ phase' = IF a = 1 THEN "authed" ELSE "authfail"
         /\ viol' = viol \cup Flag(phase = "authing", "C08.auth_end_without_begin")
         /\ UNCHANGED <<role, won, fb, total, written, marked, fin, sEnded, sDone, flush, fresh>>
    [] pt = "xfer.begin" ->
         /\ phase' = "xfer" /\ viol' = viol \cup Flag(phase = "authed", "C08.xfer_without_auth")
         /\ UNCHANGED <<role, won, fb, total, written, marked, fin, sEnded, sDone, flush, fresh>>
    [] pt = "recv.filebegin" ->
         /\ fb' = fb \cup {a} /\ total' = total \cup {<<a, b>>}
         /\ viol' = viol \cup Flag(phase = "xfer", "C08.data_before_auth") \cup Flag(a \notin fb, "C15.filebegin_twice")
         /\ UNCHANGED <<role, phase, won, written, marked, fin, sEnded, sDone, flush, fresh>>
    [] pt = "recv.chunk.written" ->
         /\ written' = written \cup {<<a, b>>}
         /\ viol' = viol \cup Flag(phase = "xfer", "C08.data_before_auth")
                         \cup Flag(a \in fb /\ b < TotalOf(a), "C05.write_unknown_file")
                         \cup Flag(<<a, 1>> \notin fin, "OBS.write_after_ok_finalize")
         /\ UNCHANGED <<role, phase, won, fb, total, marked, fin, sEnded, sDone, flush, fresh>>
    [] pt = "recv.chunk.marked" ->
         /\ marked' = marked \cup {<<a, b>>}
         /\ viol' = viol \cup Flag(phase = "xfer", "C08.data_before_auth") \cup Flag(<<a, b>> \in written, "C05.mark_before_write")
         /\ UNCHANGED <<role, phase, won, fb, total, written, fin, sEnded, sDone, flush, fresh>>
    [] pt = "recv.finalize" ->
         /\ fin' = fin \cup {<<a, b>>}
         /\ viol' = viol \cup Flag(phase = "xfer", "C08.data_before_auth")
                         \cup Flag(a \notin {x[1] : x \in fin}, "C02.finalize_twice")
                         \cup Flag(~(b = 1 /\ fresh) \/ Cardinality({m \in written : m[1] = a}) = TotalOf(a), "C02.finalize_ok_short")
         /\ UNCHANGED <<role, phase, won, fb, total, written, marked, sEnded, sDone, flush, fresh>>
    [] pt = "send.chunk.framed" ->
         /\ viol' = viol \cup Flag(phase = "xfer", "C08.data_before_auth") \cup Flag(a \notin sEnded, "C17.chunk_after_end")
         /\ UNCHANGED <<role, phase, won, fb, total, written, marked, fin, sEnded, sDone, flush, fresh>>
    [] pt = "send.fileend" ->
         /\ sEnded' = sEnded \cup {a}
         /\ viol' = viol \cup Flag(phase = "xfer", "C08.data_before_auth") \cup Flag(a \notin sEnded, "C17.end_twice")
         /\ UNCHANGED <<role, phase, won, fb, total, written, marked, fin, sDone, flush, fresh>>
    [] pt = "send.filedone" ->
         /\ sDone' = sDone \cup {a}
         /\ viol' = viol \cup Flag(phase = "xfer", "C08.data_before_auth") \cup Flag(a \in sEnded, "C17.done_before_end")
         /\ UNCHANGED <<role, phase, won, fb, total, written, marked, fin, sEnded, flush, fresh>>
    [] pt = "sidecar.flush.begin" ->
         /\ flush' = (flush \ {x \in flush : x[1] = s}) \cup {<<s, "begun">>}
         /\ viol' = viol \cup Flag(~\E x \in flush : x[1] = s /\ x[2] # "idle", "C04.flush_order")
         /\ UNCHANGED <<role, phase, won, fb, total, written, marked, fin, sEnded, sDone, fresh>>
    [] pt = "sidecar.flush.tmp" ->
         /\ flush' = (flush \ {x \in flush : x[1] = s}) \cup {<<s, "tmp">>}
         /\ viol' = viol \cup Flag(<<s, "begun">> \in flush, "C04.flush_order")
         /\ UNCHANGED <<role, phase, won, fb, total, written, marked, fin, sEnded, sDone, fresh>>
    [] pt = "sidecar.flush.renamed" ->
         /\ flush' = (flush \ {x \in flush : x[1] = s}) \cup {<<s, "idle">>}
         /\ viol' = viol \cup Flag(<<s, "tmp">> \in flush, "C04.flush_order")
         /\ UNCHANGED <<role, phase, won, fb, total, written, marked, fin, sEnded, sDone, fresh>>
    [] pt \in XferPoints ->
         /\ viol' = viol \cup Flag(phase = "xfer", "C08.data_before_auth")
         /\ UNCHANGED <<role, phase, won, fb, total, written, marked, fin, sEnded, sDone, flush, fresh>>
    [] OTHER -> UNCHANGED <<role, phase, won, fb, total, written, marked, fin, sEnded, sDone, flush, fresh, viol>>

Next == /\ l <= Len(Trace)
        /\ l' = l + 1
        /\ Handle(Trace[l])

Spec == Init /\ [][Next]_vars

\* the whole trace was consumed: one state per line plus the initial state
Consumed == TLCGet("stats").diameter - 1 = Len(Trace)
Emit == IF l' = Len(Trace) + 1
          THEN PrintT("E " \o ToJson([act |-> [a |-> "verdict"], d |-> 1, x |-> [lines |-> Len(Trace), viol |-> viol']]))
          ELSE TRUE
=============================================================================
