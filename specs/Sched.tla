------------------------------- MODULE Sched -------------------------------
(***************************************************************************)
(* File activation of the multi-stream sender (C17: "every file of the     *)
(* manifest is begun exactly once ... for all orders in which file slots   *)
(* free up"; mechanism "started files are never returned again by the      *)
(* scheduler"): internal/scheduler/hybrid.go HybridScheduler as            *)
(* SendManifestMultiStream uses it - Add for every manifest file, Next     *)
(* when a slot is free, Add again with StartedAt set after FileBegin went  *)
(* out, UpdateRemaining while chunks are sent, Remove at FileDone.         *)
(*                                                                         *)
(* A file is pending until Next returns it.  Next: when fewer than         *)
(* smallSlots small files are active and a small file is pending, the      *)
(* pending small file with the least remaining bytes (then the smaller     *)
(* path) is returned; otherwise one of the pending medium / large files    *)
(* (the credit arithmetic that picks among them is left open: any of them  *)
(* conforms); otherwise nothing.                                           *)
(* Sizes are abstracted to a class and a rank inside the class.            *)
(***************************************************************************)
EXTENDS Integers, FiniteSets, Sequences, TLC, Json

CONSTANTS NFiles,     \* files 1..NFiles (the path order is the numeric order)
          P,          \* ParallelFiles
          Track

Files == 1..NFiles
Classes == {"S", "M", "L"}
SmallSlots == LET q == P \div 4 IN IF q < 1 THEN 1 ELSE IF q > P THEN P ELSE q   \* floor(P * 0.25), at least 1

VARIABLES
  cls,       \* file -> class of its remaining bytes
  rank,      \* file -> 1..2, order of remaining bytes inside the class (smaller = fewer bytes)
  st,        \* file -> "pending" | "active" | "gone"
  returned,  \* file -> how often Next returned it
  lastNone,  \* the last Next returned nothing: <<TRUE, pending set, active set at that moment>> or <<FALSE, {}, {}>>
  lastAct, depth

vars == <<cls, rank, st, returned, lastNone, lastAct, depth>>
Step(a) == IF Track THEN lastAct' = a /\ depth' = depth + 1 ELSE UNCHANGED <<lastAct, depth>>

Init ==
  /\ cls \in [Files -> Classes] /\ rank \in [Files -> 1..2]
  /\ st = [f \in Files |-> "pending"] /\ returned = [f \in Files |-> 0]
  /\ lastNone = <<FALSE, {}, {}>>
  /\ lastAct = [a |-> "init"] /\ depth = 0

Pending == {f \in Files : st[f] = "pending"}
Active == {f \in Files : st[f] = "active"}
PendSmall == {f \in Pending : cls[f] = "S"}
PendWeighted == {f \in Pending : cls[f] \in {"M", "L"}}
ActiveSmall == Cardinality({f \in Active : cls[f] = "S"})
Least(S) == CHOOSE f \in S : \A g \in S : rank[f] < rank[g] \/ (rank[f] = rank[g] /\ f <= g)

\* the set of results Next may return (0 = nothing)
NextChoices ==
  IF ActiveSmall < SmallSlots /\ PendSmall # {} THEN {Least(PendSmall)}
  ELSE IF PendWeighted # {} THEN PendWeighted
  ELSE {0}

Next(r) ==
  /\ r \in NextChoices
  /\ IF r = 0
       THEN /\ lastNone' = <<TRUE, Pending, Active>> /\ UNCHANGED <<st, returned>>
       ELSE /\ st' = [st EXCEPT ![r] = "active"] /\ returned' = [returned EXCEPT ![r] = @ + 1]
            /\ lastNone' = <<FALSE, {}, {}>>
  /\ UNCHANGED <<cls, rank>>
  /\ Step([a |-> "Next", r |-> r])

\* an active file's remaining bytes shrink: its class can only move towards small
Shrink(f, c, k) ==
  /\ st[f] = "active"
  /\ \/ c = cls[f] /\ k < rank[f]
     \/ (cls[f] = "L" /\ c \in {"M", "S"})
     \/ (cls[f] = "M" /\ c = "S")
  /\ cls' = [cls EXCEPT ![f] = c] /\ rank' = [rank EXCEPT ![f] = k]
  /\ UNCHANGED <<st, returned, lastNone>>
  /\ Step([a |-> "Shrink", f |-> f, c |-> c, k |-> k])

Remove(f) ==
  /\ st[f] = "active"
  /\ st' = [st EXCEPT ![f] = "gone"]
  /\ UNCHANGED <<cls, rank, returned, lastNone>>
  /\ Step([a |-> "Remove", f |-> f])

\* the sender asks for the next file only while it has a free slot
NextStep == Cardinality(Active) < P /\ \E r \in Files \cup {0} : Next(r)
Env == \E f \in Files : Remove(f) \/ \E c \in Classes, k \in 1..2 : Shrink(f, c, k)
NextRel == NextStep \/ Env
Spec == Init /\ [][NextRel]_vars
FairSpec == Spec /\ WF_vars(NextStep) /\ \A f \in Files : WF_vars(Remove(f))

\* ---- properties -------------------------------------------------------------------------
OnceOnly == \A f \in Files : returned[f] <= 1
\* a started file is never returned again (returned only from the pending state)
ReturnedMeansStarted == \A f \in Files : (returned[f] = 1) <=> st[f] # "pending"
\* Next says "nothing" only when nothing is pending or something is still active
NoStall == lastNone[1] => (lastNone[2] = {} \/ lastNone[3] # {})
\* every file is begun
AllBegun == <>(\A f \in Files : returned[f] = 1)

View == <<cls, rank, st, returned, lastNone>>
Emit == PrintT("E " \o ToJson([act |-> lastAct', d |-> depth', pk |-> ToString(View), qk |-> ToString(View'),
                               x |-> [cls |-> cls, rank |-> rank, p |-> P]]))
=============================================================================
