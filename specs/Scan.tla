------------------------------- MODULE Scan -------------------------------
(***************************************************************************)
(* What the manifest must list for a set of paths to share (C13):          *)
(* pkg/manifest ScanPaths (base-name collision prefixes, directory item +  *)
(* walk, lstat entries) and internal/app buildPathResolver (the same       *)
(* prefix rule, written a second time).                                    *)
(*                                                                         *)
(* A fixed universe forest contains every node kind (directory, regular    *)
(* file incl. empty, symlink to file / directory / nothing) and every name *)
(* collision pattern (equal base names, names that look like the tool's    *)
(* own ordinal prefixes, unicode / spaces, names containing ".." and a    *)
(* backslash).  TLC enumerates the path lists *)
(* (length <= MaxList over the candidate paths) and computes, with the      *)
(* transcribed rules, the display name of every listed path and the set of *)
(* relative paths the manifest will contain; Unique is the design-level    *)
(* property (violated by the ordinal-prefix scheme: known finding).        *)
(* The Go driver materialises the forest, runs the real ScanPaths and      *)
(* buildPathResolver on every enumerated list and compares.                *)
(***************************************************************************)
EXTENDS Integers, Sequences, FiniteSets, TLC, Json

CONSTANTS MaxList,
          OnlyMultiGroup, \* TRUE: only the lists in which at least two different base names occur more than once
          SkipIrregular   \* TRUE: entries that are neither regular files nor directories (after following
                          \* a symlink to a regular file) are left out; FALSE: pinned commit (lstat entries listed)

\* ---- the universe: entries as <<path, kind, size>>; path = sequence of names below the scratch root
\* kinds: "dir", "reg", "lnreg" (symlink -> regular file), "lndir" (symlink -> directory), "lnnone" (dangling)
Forest == {
  << <<"A">>, "dir", 0 >>, << <<"A", "x">>, "dir", 0 >>, << <<"A", "x", "f1">>, "reg", 3 >>,
  << <<"A", "x", "sub">>, "dir", 0 >>, << <<"A", "x", "sub", "f2">>, "reg", 0 >>, << <<"A", "x", "emptydir">>, "dir", 0 >>,
  << <<"A", "x", "sub.txt">>, "reg", 2 >>, << <<"A", "x", "sub-old">>, "dir", 0 >>, << <<"A", "x", "sub-old", "k">>, "reg", 1 >>,
  << <<"A", "x", "notes..txt">>, "reg", 4 >>, << <<"A", "x", "v1..v2">>, "dir", 0 >>, << <<"A", "x", "v1..v2", "d...p">>, "reg", 2 >>,
  << <<"A", "x", "sub\\f2">>, "reg", 6 >>,        \* one name containing a backslash, next to the directory sub with its file f2
  << <<"A", "y.txt">>, "reg", 7 >>,
  << <<"B">>, "dir", 0 >>, << <<"B", "x">>, "dir", 0 >>, << <<"B", "x", "f1">>, "reg", 5 >>,
  << <<"B", "x", "ln_file">>, "lnreg", 3 >>, << <<"B", "x", "ln_dir">>, "lndir", 0 >>, << <<"B", "x", "ln_broken">>, "lnnone", 0 >>,
  << <<"B", "y.txt">>, "reg", 2 >>,
  << <<"C">>, "dir", 0 >>, << <<"C", "1_x">>, "dir", 0 >>, << <<"C", "1_x", "g">>, "reg", 1 >>,
  << <<"D">>, "dir", 0 >>, << <<"D", "u n">>, "dir", 0 >>, << <<"D", "u n", "z z">>, "reg", 4 >>,
  << <<"E">>, "dir", 0 >>, << <<"E", "2_x">>, "dir", 0 >>, << <<"E", "2_x", "h">>, "reg", 6 >> }

\* paths a user may list (each resolves to a directory or a regular file)
Candidates == { <<"A", "x">>, <<"B", "x">>, <<"C", "1_x">>, <<"E", "2_x">>, <<"A", "y.txt">>, <<"B", "y.txt">>,
                <<"D", "u n">>, <<"A">>, <<"A", "x", "sub">>, <<"B", "x", "ln_file">>, <<"A", "x", "notes..txt">>, <<"A", "x", "v1..v2">> }

VARIABLES list, phase
vars == <<list, phase>>

Kind(p) == (CHOOSE e \in Forest : e[1] = p)[2]
SizeOf(p) == (CHOOSE e \in Forest : e[1] = p)[3]
BaseName(p) == p[Len(p)]
IsPrefixSeq(p, q) == Len(p) <= Len(q) /\ SubSeq(q, 1, Len(p)) = p

\* ordinal prefix rule of ScanPaths / buildPathResolver
CountBase(b) == Cardinality({i \in 1..Len(list) : BaseName(list[i]) = b})
Ordinal(i) == Cardinality({j \in 1..(i - 1) : BaseName(list[j]) = BaseName(list[i])}) + 1
Display(i) == IF CountBase(BaseName(list[i])) > 1
                THEN <<"ORD", Ordinal(i), BaseName(list[i])>>     \* "<ordinal>_<base>"
                ELSE <<"PLAIN", 0, BaseName(list[i])>>

\* entries the walk lists below a listed directory (the walk does not follow symlinks)
Listed(e) == IF SkipIrregular THEN e[2] \in {"dir", "reg", "lnreg"} ELSE TRUE
Below(i) == {e \in Forest : IsPrefixSeq(list[i], e[1]) /\ Len(e[1]) > Len(list[i]) /\ Listed(e)
                            /\ ~\E k \in (Len(list[i]) + 1)..(Len(e[1]) - 1) : Kind(SubSeq(e[1], 1, k)) \in {"lndir", "lnreg", "lnnone"}}

\* the manifest: one record per listed path and per entry below it
ItemsOf(i) ==
  { [disp |-> Display(i), rest |-> <<>>, isDir |-> Kind(list[i]) = "dir", origin |-> list[i],
     size |-> IF Kind(list[i]) = "dir" THEN 0 ELSE SizeOf(list[i])] }
  \cup
  (IF Kind(list[i]) # "dir" THEN {}
   ELSE { [disp |-> Display(i), rest |-> SubSeq(e[1], Len(list[i]) + 1, Len(e[1])), isDir |-> e[2] = "dir", origin |-> e[1],
           size |-> IF e[2] = "dir" THEN 0 ELSE e[3]] : e \in Below(i) })

\* the textual relative path: "<ordinal>_<base>/<rest...>"; two items collide when their texts are equal.
\* A plain base name that itself looks like "<k>_<name>" spells the same text as an ordinal prefix.
LooksLikeOrd(name) == name \in {"1_x", "2_x"}
OrdOf(name) == IF name = "1_x" THEN 1 ELSE 2
TextKey(it) ==
  IF it.disp[1] = "ORD" THEN <<it.disp[2], it.disp[3], it.rest>>
  ELSE IF LooksLikeOrd(it.disp[3]) THEN <<OrdOf(it.disp[3]), "x", it.rest>>
  ELSE <<0, it.disp[3], it.rest>>

AllItems == UNION {ItemsOf(i) : i \in 1..Len(list)}
Unique == \A a, b \in AllItems : TextKey(a) = TextKey(b) => a = b
\* same path listed twice gets two distinct display names, so "exactly once for that path" holds per list position
PerPathOnce == \A i \in 1..Len(list) : \A a, b \in ItemsOf(i) : (a.rest = b.rest /\ a.disp = b.disp) => a = b
\* every file's size is what can be read through its path (symlink entries carry the target's size)
SizesReadable == \A it \in AllItems : it.size >= 0

DupBases(l) == {b \in {l[i][Len(l[i])] : i \in 1..Len(l)} : Cardinality({i \in 1..Len(l) : l[i][Len(l[i])] = b}) > 1}
Init == /\ list \in UNION {[1..n -> Candidates] : n \in 1..MaxList}
        /\ (OnlyMultiGroup => Cardinality(DupBases(list)) >= 2)
        /\ phase = "new"
Next == phase = "new" /\ phase' = "done" /\ UNCHANGED list

ItemRow(it) == [disp |-> it.disp, rest |-> it.rest, isDir |-> it.isDir, size |-> it.size, origin |-> it.origin]
Emit == PrintT("E " \o ToJson([act |-> [a |-> "list"], d |-> 1,
          x |-> [list |-> list, items |-> {ItemRow(it) : it \in AllItems}, unique |-> Unique]]))
=============================================================================
