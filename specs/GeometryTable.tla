------------------------- MODULE GeometryTable -------------------------
(* TLC front end of Geometry.tla: emits one table row per (size, chunk, idx). *)
EXTENDS Geometry, TLC, Json, Sequences
Emit == PrintT("E " \o ToJson([act |-> [a |-> "row"], d |-> 1,
          x |-> [size |-> size, chunk |-> chunk, idx |-> idx,
                 fits |-> Fits(size, chunk),
                 senderTotal |-> SenderTotal(size, chunk), recvTotal |-> RecvTotal(size, chunk),
                 legacyTotal |-> LegacySendTotal(size, chunk), sidecarTotal |-> SidecarTotal(size, chunk),
                 len |-> LenAt(size, chunk, idx), off |-> OffsetAt(chunk, idx)]]))
=============================================================================
