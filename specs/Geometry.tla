---------------------------- MODULE Geometry ----------------------------
(***************************************************************************)
(* Chunk geometry (C19): the separately written chunk-count expressions of *)
(* sender (chunkTotal), multi-stream receiver (handleFileBegin), legacy    *)
(* windowed sender/receiver and resume metadata (CreateSidecar), and the   *)
(* per-index length/offset (chunkSizeForIndex), with Go's integer          *)
(* semantics made explicit (uint32 conversion = modulo Word).              *)
(*                                                                         *)
(* Checked two ways: Apalache decides the theorems symbolically for the    *)
(* whole range 0..10 TiB x 1..2^32-1 (Word = 2^32); TLC enumerates a small *)
(* domain with a small Word so that truncation is actually visited, and    *)
(* emits the function table that is compared with the real Go functions.   *)
(***************************************************************************)
EXTENDS Integers

CONSTANTS
  \* @type: Int;
  MaxSize,
  \* @type: Int;
  MaxChunk,
  \* @type: Int;
  Word,
  \* @type: Int;
  MaxIdx

VARIABLES
  \* @type: Int;
  size,
  \* @type: Int;
  chunk,
  \* @type: Int;
  idx,
  \* @type: Str;
  phase

U(x) == x % Word                         \* uint32(x) for x >= 0

Ceil(s, c) == (s + c - 1) \div c

\* internal/transfer/multistream.go chunkTotal
SenderTotal(s, c) == IF c = 0 THEN 0 ELSE IF s <= 0 THEN 0 ELSE U(Ceil(s, c))
\* multistream.go handleFileBegin (and manifestproto.go receiveFileChunksWindowed)
RecvTotal(s, c) == IF c > 0 THEN U(Ceil(s, c)) ELSE 0
\* manifestproto.go sendFileChunksWindowed
LegacySendTotal(s, c) == U(Ceil(s, c))
\* sidecar.go CreateSidecar (after fix 6ddb6e9)
SidecarTotal(s, c) == U(Ceil(s, c))
\* ... as it was at the pinned commit: an empty file got one chunk (kept as a negative control)
SidecarTotalAsWas(s, c) == LET t == U(Ceil(s, c)) IN IF t = 0 THEN 1 ELSE t
\* multistream.go chunkSizeForIndex
LenAt(s, c, i) == IF c = 0 THEN 0
                  ELSE LET off == i * c IN
                       IF off >= s THEN 0
                       ELSE IF s - off < c THEN s - off ELSE c
OffsetAt(c, i) == i * c

Fits(s, c) == Ceil(s, c) < Word          \* the chunk count fits the 32-bit wire field

\* ---- theorems ---------------------------------------------------------------
\* for an arbitrary index: inside the file the length is 1..chunk, only the last
\* chunk may be short, the last chunk ends exactly at the file size, indices at
\* or beyond the count have length 0
Tiling(s, c, i) ==
  LET t == SenderTotal(s, c) IN
  Fits(s, c) =>
    /\ (i < t => /\ LenAt(s, c, i) >= 1 /\ LenAt(s, c, i) <= c
                 /\ (i < t - 1 => LenAt(s, c, i) = c)
                 /\ OffsetAt(c, i) + LenAt(s, c, i) <= s)
    /\ (i = t - 1 /\ t > 0 => OffsetAt(c, i) + LenAt(s, c, i) = s)
    /\ (i >= t => LenAt(s, c, i) = 0)
    /\ (t = 0 <=> s = 0)
    /\ (t > 0 => (t - 1) * c < s /\ s <= t * c)

\* sender, both receivers and the legacy sender agree on the count
CountsAgree(s, c) ==
  Fits(s, c) => /\ SenderTotal(s, c) = RecvTotal(s, c)
                /\ SenderTotal(s, c) = LegacySendTotal(s, c)

\* resume metadata agrees with them
SidecarAgrees(s, c) == Fits(s, c) => SidecarTotal(s, c) = SenderTotal(s, c)
SidecarAgreesAsWas(s, c) == Fits(s, c) => SidecarTotalAsWas(s, c) = SenderTotal(s, c)

\* negative control: without the Fits premise the counts wrap and tiling fails
TilingNoPremise(s, c, i) ==
  LET t == SenderTotal(s, c) IN (i >= t => LenAt(s, c, i) = 0)

InvTiling == Tiling(size, chunk, idx)
InvCounts == CountsAgree(size, chunk)
InvSidecar == SidecarAgrees(size, chunk)
InvSidecarAsWas == SidecarAgreesAsWas(size, chunk)
InvNoPremise == TilingNoPremise(size, chunk, idx)

\* ---- state machine: pick a point, then evaluate ---------------------------------
Init ==
  /\ size \in 0..MaxSize
  /\ chunk \in 1..MaxChunk
  /\ idx \in 0..MaxIdx
  /\ phase = "new"

\* symbolic initial states for Apalache (no enumeration)
InitSym ==
  /\ size \in Int /\ size >= 0 /\ size <= MaxSize
  /\ chunk \in Int /\ chunk >= 1 /\ chunk <= MaxChunk
  /\ idx \in Int /\ idx >= 0 /\ idx <= MaxIdx
  /\ phase = "new"

Next == phase = "new" /\ phase' = "done" /\ UNCHANGED <<size, chunk, idx>>

=============================================================================
