------------------------------- MODULE Wire -------------------------------
(***************************************************************************)
(* The control protocol's frame layout (internal/transfer/controlproto.go) *)
(* as a grammar: every record is a list of typed fields; EncodedLen is     *)
(* derived from the field list.  Two uses:                                 *)
(*  - C18 (Mode = "values"): every tuple of boundary classes of every      *)
(*    record type, and every sequence of up to MaxSeq record types, is     *)
(*    enumerated; the real encoder must produce exactly EncodedLen bytes   *)
(*    and the real decoder must return the same value consuming exactly    *)
(*    those bytes.                                                         *)
(*  - C15 (Mode = "mutations"): every (protocol stage, record type, field, *)
(*    mutation kind) is enumerated; the real decoders / endpoints must     *)
(*    answer each mutated stream with a prompt error (or, where the        *)
(*    grammar still accepts it, success) - never a panic, a hang on ended  *)
(*    input, or an allocation out of proportion to the bytes received.     *)
(***************************************************************************)
EXTENDS Integers, Sequences, FiniteSets, TLC, Json

CONSTANTS Mode, MaxSeq

Types == {"FileBegin", "Credit", "CreditBatch", "FileEnd", "FileDone", "FileResumeInfo", "ResumeRequest", "DataStreams", "End"}

\* numeric boundary classes (TLC integers are 32-bit: the values live in the Go driver)
Num == {"0", "1", "max-1", "max"}
PathLens == {1, 2, 255, 1024, 1025, 1026}     \* 1025: one byte over the limit; 1026: over in bytes, under in characters (multi-byte)
PathLimit == 1024
IdLens == {0, 1, 16, 65535}
ErrLens == {0, 1, 200, 65535}
BitmapLens == {0, 1, 2, 8192, 65536}
BatchCounts == {0, 1, 3, 100}

\* field lists: <<name, kind>>; kinds: u8 u16 u32 u64 bool, bytes16 (u16 length prefix), bytes32, batch (u32 count x 12 bytes)
Fields(t) ==
  CASE t = "FileBegin" -> << <<"path", "bytes16">>, <<"size", "u64">>, <<"chunk", "u32">>, <<"sid", "u64">>, <<"hash", "u8">>,
                             <<"stripeIndex", "u16">>, <<"stripeCount", "u16">>, <<"stripeStart", "u32">>, <<"stripeChunks", "u32">> >>
    [] t = "Credit" -> << <<"sid", "u64">>, <<"credits", "u32">> >>
    [] t = "CreditBatch" -> << <<"entries", "batch">> >>
    [] t = "FileEnd" -> << <<"sid", "u64">>, <<"crc", "u32">> >>
    [] t = "FileDone" -> << <<"sid", "u64">>, <<"ok", "bool">>, <<"err", "bytes16">> >>
    [] t = "FileResumeInfo" -> << <<"id", "bytes16">>, <<"sid", "u64">>, <<"total", "u32">>, <<"bitmap", "bytes32">>,
                                  <<"lvc", "u32">>, <<"lvh", "u64">> >>
    [] t = "ResumeRequest" -> << <<"id", "bytes16">>, <<"sid", "u64">> >>
    [] t = "DataStreams" -> << <<"count", "u16">> >>
    [] t = "End" -> << >>

Width(kind) == CASE kind = "u8" -> 1 [] kind = "bool" -> 1 [] kind = "u16" -> 2 [] kind = "u32" -> 4 [] kind = "u64" -> 8
                 [] kind = "bytes16" -> 2 [] kind = "bytes32" -> 4 [] kind = "batch" -> 4

\* a value: type + the variable-length parts (everything else has fixed width)
VARIABLES typ, vlen, nums, seq, mut, phase
vars == <<typ, vlen, nums, seq, mut, phase>>

VarLens(t) == CASE t = "FileBegin" -> PathLens
                [] t = "FileDone" -> ErrLens
                [] t = "FileResumeInfo" -> IdLens \X BitmapLens
                [] t = "ResumeRequest" -> IdLens
                [] t = "CreditBatch" -> BatchCounts
                [] OTHER -> {0}

\* numeric (fixed-width) fields of a type, in order
NumFieldCount(t) == Cardinality({i \in 1..Len(Fields(t)) : Fields(t)[i][2] \in {"u8", "u16", "u32", "u64", "bool"}})
\* boundary tuples: every field at its nominal class "1", and every single and every pair of fields at any boundary class
NumTuples(t) == {f \in [1..NumFieldCount(t) -> Num] : Cardinality({i \in 1..NumFieldCount(t) : f[i] # "1"}) <= 2}

Sum(f, n) == LET RECURSIVE S(_) S(i) == IF i = 0 THEN 0 ELSE Width(f[i][2]) + S(i - 1) IN S(n)
FixedLen(t) == 1 + Sum(Fields(t), Len(Fields(t)))

EncodedLen(t, v) ==
  FixedLen(t) + CASE t = "FileBegin" -> v
                  [] t = "FileDone" -> v
                  [] t = "FileResumeInfo" -> v[1] + v[2]
                  [] t = "ResumeRequest" -> v
                  [] t = "CreditBatch" -> 12 * v
                  [] OTHER -> 0

\* ---- C15: protocol stages and mutation kinds ------------------------------------------------
Stages == {"header", "announce", "perfile", "acks", "data"}
\* which record types a well-formed peer sends at a stage
LegalAt(stage) == CASE stage = "header" -> {"Header"}
                    [] stage = "announce" -> {"DataStreams"}
                    [] stage = "perfile" -> {"FileBegin", "ResumeRequest", "FileEnd", "End"}
                    [] stage = "acks" -> {"FileDone", "FileResumeInfo"}
                    [] stage = "data" -> {"ChunkFrame"}
Mutations == {"truncate-at-field", "truncate-inside-field", "unknown-type", "length-0", "length-1", "length-plus1",
              "length-65535", "length-2^31", "length-2^32-1", "count-inconsistent", "path-too-long", "path-traversal",
              "index-ge-total", "chunk-length-0", "chunk-length-gt-chunksize", "duplicate-begin", "end-for-unknown-file",
              "request-for-unknown-file", "wrong-direction-record", "end-with-files-missing", "bad-magic", "crc-mismatch",
              "garbage-json", "chunksize-0", "chunksize-0-empty-file", "chunksize-huge", "filedone-twice", "begin-after-done", "count-consistent-huge", "item-without-id"}
\* which mutations make sense where
Applies(stage, t, m) ==
  CASE m \in {"truncate-at-field", "truncate-inside-field"} -> TRUE
    [] m = "unknown-type" -> stage \in {"announce", "perfile", "acks"}
    [] m \in {"length-0", "length-1", "length-plus1", "length-65535"} -> t \in {"FileBegin", "FileDone", "FileResumeInfo", "ResumeRequest"}
    [] m \in {"length-2^31", "length-2^32-1"} -> t \in {"Header", "FileResumeInfo", "CreditBatch"}
    [] m = "count-inconsistent" -> t \in {"DataStreams", "FileResumeInfo"}
    [] m \in {"path-too-long", "path-traversal", "duplicate-begin", "chunksize-0", "chunksize-0-empty-file", "chunksize-huge", "begin-after-done"} -> t = "FileBegin"
    [] m = "filedone-twice" -> t = "FileDone"
    [] m = "count-consistent-huge" -> t = "FileResumeInfo"
    [] m \in {"index-ge-total", "chunk-length-0", "chunk-length-gt-chunksize", "crc-mismatch"} -> t = "ChunkFrame"
    [] m = "end-for-unknown-file" -> t = "FileEnd"
    [] m = "request-for-unknown-file" -> t = "ResumeRequest"
    [] m = "wrong-direction-record" -> stage \in {"perfile", "acks"}
    [] m = "end-with-files-missing" -> t = "End"
    [] m \in {"bad-magic", "garbage-json", "item-without-id"} -> t = "Header"
    [] OTHER -> FALSE
AllTypesC15 == Types \cup {"Header", "ChunkFrame", "CreditBatch"}

\* the grammar's verdict: may a conforming decoder accept the mutated stream?
MustReject(m) == m \in {"truncate-at-field", "truncate-inside-field", "unknown-type", "path-too-long", "path-traversal", "bad-magic",
                        "garbage-json", "index-ge-total", "chunk-length-0", "chunk-length-gt-chunksize", "crc-mismatch",
                        "duplicate-begin", "end-for-unknown-file", "request-for-unknown-file", "wrong-direction-record",
                        "length-2^31", "length-2^32-1", "length-plus1", "chunksize-0", "chunksize-0-empty-file", "begin-after-done", "count-consistent-huge"}

Init ==
  /\ phase = "new"
  /\ \/ /\ Mode = "values"
        /\ typ \in Types /\ vlen \in VarLens(typ) /\ nums \in NumTuples(typ)
        /\ seq = <<>> /\ mut = <<>>
     \/ /\ Mode = "sequences"
        /\ typ = "seq" /\ vlen = 0 /\ nums = <<>>
        /\ seq \in UNION {[1..n -> Types] : n \in 1..MaxSeq}
        /\ mut = <<>>
     \/ /\ Mode = "mutations"
        /\ typ \in AllTypesC15 /\ vlen = 0 /\ nums = <<>> /\ seq = <<>>
        /\ \E st \in Stages, m \in Mutations :
             /\ (typ \in LegalAt(st) \/ (typ = "CreditBatch" /\ st = "perfile"))
             /\ Applies(st, typ, m)
             /\ mut = <<st, m>>

Next == phase = "new" /\ phase' = "done" /\ UNCHANGED <<typ, vlen, nums, seq, mut>>

\* values over a field's limit must be refused by the encoder (nothing written), never emitted as a record the decoder rejects
OverLimit == typ = "FileBegin" /\ vlen > PathLimit
Row == IF Mode = "values" THEN [type |-> typ, vlen |-> vlen, nums |-> nums, len |-> EncodedLen(typ, vlen), over |-> OverLimit]
       ELSE IF Mode = "sequences" THEN [seq |-> seq]
       ELSE [type |-> typ, stage |-> mut[1], mutation |-> mut[2], mustReject |-> MustReject(mut[2])]
Emit == PrintT("E " \o ToJson([act |-> [a |-> Mode], d |-> 1, x |-> Row]))
=============================================================================
