---------------------------- MODULE Dispatch ----------------------------
(***************************************************************************)
(* Per-file chunk dispatch of the multi-stream sender                      *)
(* (internal/transfer/multistream.go: sendFileState.nextChunkToSend /      *)
(* markChunkDone / trySendEnd, and the closures applyResumeInfo + the      *)
(* verification goroutine inside SendManifestMultiStream).                 *)
(*                                                                         *)
(* One action per mutex region of the code.  W workers interleave freely   *)
(* with the arrival of the receiver's resume report (two lock regions:     *)
(* SetVerifyPending, SetPlan), the verification verdict and the grace      *)
(* timer (Ready).  The file's inputs (chunk count, reported bitmap, tail,  *)
(* hash-unknown, verdict) are chosen in Init, so one run covers the whole  *)
(* input product.                                                          *)
(*                                                                         *)
(* Property C17.  Defect switches (CONSTANTS) select what the code does    *)
(* ("as is") or the intended design:                                       *)
(*   EndChecksResend = FALSE : markChunkDone/trySendEnd ignore             *)
(*                             resendPending (End may precede the re-send) *)
(*   VerifyAfterEnd  = TRUE  : a report arriving after End still starts    *)
(*                             verification (re-send after End)            *)
(***************************************************************************)
EXTENDS Integers, FiniteSets, Sequences, TLC, Json

CONSTANTS Track,           \* BOOLEAN: maintain lastAct/depth (replay emission); FALSE for liveness
          MaxN,            \* largest chunk count explored
          W,               \* number of workers
          MaxTail,         \* largest ResumeVerifyTail explored
          EndChecksResend, \* BOOLEAN, see above
          VerifyAfterEnd,  \* BOOLEAN, see above
          SkipUnverifiable, \* BOOLEAN: TRUE = the code up to fix 4b89ae6 - when the receiver could not hash its highest
                           \* recorded chunk in time, that chunk is skipped like any other recorded one (neither compared nor sent)
          Wide             \* BOOLEAN: instead of every bitmap of up to MaxN chunks, a family of bitmaps over 8 and 16 chunks
                           \* (whole bitmap bytes: used with the constraint DepthOne to enumerate inputs for the end-to-end runs)

Workers == 1..W
NONE == -1

VARIABLES
  \* ---- inputs, fixed in Init
  n,            \* totalChunks
  bits,         \* set of chunk indices the receiver reports complete
  tail,         \* ResumeVerifyTail
  hashUnknown,  \* receiver could not hash in time (LastVerifiedHash = ^0)
  mismatch,     \* sender-side hash differs from the reported one
  verifyOn,     \* ResumeVerify mode is not "none" and a hash algorithm is set
  report,       \* a FileResumeInfo will arrive at all
  \* ---- sendFileState (under state.mu)
  next, inFlight, schedDone, endSent, verifyPending, resendPending, resendChunk,
  planSet,      \* state.plan # nil
  \* ---- surrounding closures
  ready,        \* readyCh closed (grace expiry or report applied)
  rpc,          \* report processing: "wait" -> "vp" -> "planned" ; "none" if no report
  vpc,          \* verification goroutine: "off" | "running" | "done"
  wpc,          \* worker -> "idle" | "hold" | "none"   ("none": Take returned nothing, TryEnd next)
  wchunk,       \* worker -> chunk index held (or NONE)
  wresend,      \* worker -> the held chunk is the verification re-send
  \* ---- observation (history) variables
  handed,       \* chunk index -> times returned by the normal pass
  resends,      \* times the re-send path fired
  ends,         \* FileEnd records emitted
  endClean,     \* at every End so far: nothing in flight, no verification / re-send pending
  afterEnd,     \* a chunk was handed out after End
  skipAfterPlan,\* a skippable chunk was handed out after the plan was set
  \* ---- replay support (excluded from VIEW)
  lastAct, depth

vars == <<n, bits, tail, hashUnknown, mismatch, verifyOn, report,
          next, inFlight, schedDone, endSent, verifyPending, resendPending, resendChunk, planSet,
          ready, rpc, vpc, wpc, wchunk, wresend,
          handed, resends, ends, endClean, afterEnd, skipAfterPlan, lastAct, depth>>

inputs == <<n, bits, tail, hashUnknown, mismatch, verifyOn, report>>
obsv   == <<handed, resends, ends, endClean, afterEnd, skipAfterPlan>>

Max(S) == CHOOSE x \in S : \A y \in S : y <= x

\* ---- arithmetic of applyResumeInfo, transcribed --------------------------
HasV     == bits # {}
V        == IF HasV THEN Max(bits) ELSE n           \* info.LastVerifiedChunk
Force0   == IF V < n THEN V + 1 ELSE n
AllComplete == n > 0 /\ Cardinality(bits) >= n
Force1   == IF ~AllComplete /\ tail > 0 /\ Force0 > 0
              THEN (IF tail >= Force0 THEN 0 ELSE Force0 - tail)
              ELSE Force0
Force2   == IF Force1 > n THEN n ELSE Force1
HU       == hashUnknown /\ HasV
ForceFrom == IF HU /\ n > 0
               THEN LET t == IF tail = 0 THEN 1 ELSE tail
                        minForce == IF n > t THEN n - t ELSE 0
                        f == IF Force2 > minForce THEN minForce ELSE Force2
                    IN IF ~SkipUnverifiable /\ V < n /\ f > V THEN V ELSE f     \* a chunk that cannot be verified is sent again
               ELSE Force2
VerifyNeeded == verifyOn /\ V < n /\ ~HU
Skippable(i) == i \in bits /\ i < ForceFrom
\* the highest recorded chunk is either compared by hash or sent again - never taken on trust
VerifiedOrResent == (HasV /\ V < n /\ verifyOn) => (VerifyNeeded \/ ~Skippable(V))

\* ---- initial states --------------------------------------------------------
\* bitmaps over a wide file: nothing, everything, all but the last, the last four, all but the last four,
\* all but the last eight, every other chunk, the first half, one hole in the last byte
Family(k) == { {}, 0..(k-1), 0..(k-2), (k-4)..(k-1), 0..(k-5), 0..(k-9), {i \in 0..(k-1) : i % 2 = 0}, 0..(k \div 2), (0..(k-1)) \ {k-3} }

Init ==
  /\ n \in (IF Wide THEN {8, 16} ELSE 0..MaxN)
  /\ bits \in (IF Wide THEN Family(n) ELSE SUBSET (0..(n-1)))
  /\ tail \in 0..MaxTail
  /\ hashUnknown \in BOOLEAN
  /\ (hashUnknown => bits # {})
  /\ mismatch \in BOOLEAN
  /\ verifyOn \in BOOLEAN
  /\ report \in BOOLEAN
  /\ (n = 0 => ~report)               \* startResume: totalChunks = 0 => no request at all
  /\ (~report => bits = {} /\ tail = 0 /\ ~hashUnknown /\ ~mismatch /\ verifyOn)
  /\ next = 0 /\ inFlight = 0 /\ schedDone = FALSE /\ endSent = FALSE
  /\ verifyPending = FALSE /\ resendPending = FALSE /\ resendChunk = 0
  /\ planSet = FALSE
  /\ ready = (n = 0 \/ ~report)       \* no resume => setReady at once
  /\ rpc = IF report THEN "wait" ELSE "none"
  /\ vpc = "off"
  /\ wpc = [w \in Workers |-> "idle"]
  /\ wchunk = [w \in Workers |-> NONE]
  /\ wresend = [w \in Workers |-> FALSE]
  /\ handed = [i \in 0..(MaxN-1) |-> 0]
  /\ resends = 0 /\ ends = 0 /\ endClean = TRUE /\ afterEnd = FALSE /\ skipAfterPlan = FALSE
  /\ lastAct = [a |-> "init"] /\ depth = 0

Step(a) == IF Track THEN lastAct' = a /\ depth' = depth + 1 ELSE UNCHANGED <<lastAct, depth>>

\* ---- closures --------------------------------------------------------------
\* grace timer fires before the report was applied
Ready ==
  /\ ~ready /\ rpc = "wait"
  /\ ready' = TRUE
  /\ UNCHANGED <<inputs, next, inFlight, schedDone, endSent, verifyPending, resendPending, resendChunk,
                 planSet, rpc, vpc, wpc, wchunk, wresend, obsv>>
  /\ Step([a |-> "Ready"])

\* applyResumeInfo, first lock region (only when verification is needed)
SetVerifyPending ==
  /\ rpc = "wait" /\ VerifyNeeded
  /\ rpc' = "vp"
  /\ IF endSent /\ ~VerifyAfterEnd
       THEN verifyPending' = verifyPending /\ vpc' = vpc
       ELSE verifyPending' = TRUE /\ vpc' = "running"
  /\ UNCHANGED <<inputs, next, inFlight, schedDone, endSent, resendPending, resendChunk, planSet,
                 ready, wpc, wchunk, wresend, obsv>>
  /\ Step([a |-> "SetVerifyPending"])

\* applyResumeInfo, second lock region, followed by setReady
SetPlan ==
  /\ \/ rpc = "vp"
     \/ rpc = "wait" /\ ~VerifyNeeded
  /\ rpc' = "planned"
  /\ planSet' = TRUE
  /\ ready' = TRUE
  /\ UNCHANGED <<inputs, next, inFlight, schedDone, endSent, verifyPending, resendPending, resendChunk,
                 vpc, wpc, wchunk, wresend, obsv>>
  /\ Step([a |-> "SetPlan"])

\* verification goroutine finishes (one lock region)
Verdict ==
  /\ vpc = "running"
  /\ vpc' = "done"
  /\ verifyPending' = FALSE
  /\ IF mismatch THEN resendPending' = TRUE /\ resendChunk' = V
                 ELSE UNCHANGED <<resendPending, resendChunk>>
  /\ UNCHANGED <<inputs, next, inFlight, schedDone, endSent, planSet, ready, rpc, wpc, wchunk, wresend, obsv>>
  /\ Step([a |-> "Verdict", mismatch |-> mismatch])

\* ---- workers -----------------------------------------------------------------
\* index the normal pass of nextChunkToSend stops at (first non-skipped >= next), or n
RECURSIVE FirstSend(_)
FirstSend(i) == IF i >= n THEN n
                ELSE IF planSet /\ Skippable(i) THEN FirstSend(i + 1) ELSE i

\* nextChunkToSend (one lock region)
Take(w) ==
  /\ ready /\ wpc[w] = "idle"
  /\ IF resendPending
       THEN \* re-send path (both branches of the code do the same thing)
            /\ resendPending' = FALSE
            /\ inFlight' = inFlight + 1
            /\ wpc' = [wpc EXCEPT ![w] = "hold"]
            /\ wchunk' = [wchunk EXCEPT ![w] = resendChunk]
            /\ wresend' = [wresend EXCEPT ![w] = TRUE]
            /\ resends' = resends + 1
            /\ afterEnd' = (afterEnd \/ endSent)
            /\ UNCHANGED <<next, schedDone, handed, skipAfterPlan>>
       ELSE IF schedDone
         THEN /\ wpc' = [wpc EXCEPT ![w] = "none"]
              /\ UNCHANGED <<resendPending, inFlight, wchunk, wresend, resends, afterEnd, next, schedDone,
                             handed, skipAfterPlan>>
         ELSE LET i == FirstSend(next) IN
              IF i < n
                THEN /\ next' = i + 1
                     /\ inFlight' = inFlight + 1
                     /\ schedDone' = (i + 1 >= n)
                     /\ wpc' = [wpc EXCEPT ![w] = "hold"]
                     /\ wchunk' = [wchunk EXCEPT ![w] = i]
                     /\ wresend' = [wresend EXCEPT ![w] = FALSE]
                     /\ handed' = [handed EXCEPT ![i] = @ + 1]
                     /\ afterEnd' = (afterEnd \/ endSent)
                     /\ skipAfterPlan' = (skipAfterPlan \/ (planSet /\ Skippable(i)))
                     /\ UNCHANGED <<resendPending, resends>>
                ELSE /\ next' = n
                     /\ schedDone' = TRUE
                     /\ wpc' = [wpc EXCEPT ![w] = "none"]
                     /\ UNCHANGED <<resendPending, inFlight, wchunk, wresend, resends, afterEnd, handed,
                                    skipAfterPlan>>
  /\ UNCHANGED <<inputs, endSent, verifyPending, resendChunk, planSet, ready, rpc, vpc, ends, endClean>>
  /\ Step([a |-> "Take", w |-> w])

EmitEnd(cleanNow) ==
  /\ endSent' = TRUE
  /\ ends' = ends + 1
  /\ endClean' = (endClean /\ cleanNow)

\* markChunkDone after the frame was written (one lock region)
Finish(w) ==
  /\ wpc[w] = "hold"
  /\ inFlight' = IF inFlight > 0 THEN inFlight - 1 ELSE 0
  /\ wpc' = [wpc EXCEPT ![w] = "idle"]
  /\ wchunk' = [wchunk EXCEPT ![w] = NONE]
  /\ wresend' = [wresend EXCEPT ![w] = FALSE]
  /\ LET others == {x \in Workers \ {w} : wpc[x] = "hold"}
         guard == schedDone /\ inFlight' = 0 /\ ~endSent /\ ~verifyPending
                  /\ (EndChecksResend => ~resendPending)
     IN IF guard
          THEN EmitEnd(others = {} /\ ~resendPending /\ vpc # "running")
          ELSE UNCHANGED <<endSent, ends, endClean>>
  /\ UNCHANGED <<inputs, next, schedDone, verifyPending, resendPending, resendChunk, planSet, ready, rpc, vpc,
                 handed, resends, afterEnd, skipAfterPlan>>
  /\ Step([a |-> "Finish", w |-> w])

\* trySendEnd, called by a worker whose Take returned nothing (one lock region)
TryEnd(w) ==
  /\ wpc[w] = "none"
  /\ wpc' = [wpc EXCEPT ![w] = "idle"]
  /\ LET holders == {x \in Workers : wpc[x] = "hold"}
         guard == schedDone /\ inFlight = 0 /\ ~endSent /\ ~verifyPending
                  /\ (EndChecksResend => ~resendPending)
     IN IF guard
          THEN EmitEnd(holders = {} /\ ~resendPending /\ vpc # "running")
          ELSE UNCHANGED <<endSent, ends, endClean>>
  /\ UNCHANGED <<inputs, next, inFlight, schedDone, verifyPending, resendPending, resendChunk, planSet, ready,
                 rpc, vpc, wchunk, wresend, handed, resends, afterEnd, skipAfterPlan>>
  /\ Step([a |-> "TryEnd", w |-> w])

Next == Ready \/ SetVerifyPending \/ SetPlan \/ Verdict
        \/ \E w \in Workers : Take(w) \/ Finish(w) \/ TryEnd(w)

Spec == Init /\ [][Next]_vars

\* ---- properties ------------------------------------------------------------
TypeOK == /\ next \in 0..n /\ inFlight \in 0..W /\ ends \in 0..2

\* the code's inFlight counter is the number of workers holding a chunk
InFlightExact == inFlight = Cardinality({w \in Workers : wpc[w] = "hold"})

AtMostOnce   == \A i \in 0..(MaxN-1) : handed[i] <= 1
OneEnd       == ends <= 1
EndIsClean   == endClean          \* End only with nothing in flight, verification decided, re-send out
NothingAfterEnd == ~afterEnd      \* no chunk is handed out after End
NoSkippedAfterPlan == ~skipAfterPlan
ResendOnce   == resends <= 1 /\ (resends = 1 => mismatch /\ VerifyNeeded)

\* quiescent = every process is at rest and nothing but polling remains
Quiescent == /\ \A w \in Workers : wpc[w] = "idle"
             /\ rpc \in {"none", "planned"} /\ vpc # "running"
             /\ schedDone /\ ~resendPending /\ inFlight = 0 /\ ready

\* at End every needed chunk was handed out exactly once; needed = not reported complete
CompleteAtEnd ==
  ends >= 1 =>
    /\ \A i \in 0..(n-1) : (i \notin bits \/ ~report) => handed[i] = 1
    /\ \A i \in 0..(n-1) : handed[i] <= 1

\* a mismatch verdict leads to exactly one re-send by the time everything is quiet
ResendAtQuiescence ==
  (Quiescent /\ vpc = "done" /\ mismatch) => resends = 1

\* progress (checked in the fairness config): End is eventually emitted
Fair == /\ WF_vars(Ready) /\ WF_vars(SetVerifyPending) /\ WF_vars(SetPlan) /\ WF_vars(Verdict)
        /\ \A w \in Workers : WF_vars(Take(w)) /\ WF_vars(Finish(w)) /\ WF_vars(TryEnd(w))
FairSpec == Init /\ [][Next]_vars /\ Fair
EventuallyEnd == <>(ends = 1)
\* and once everything has settled with End emitted, the re-send has happened

\* no deadlock before End: if End was not emitted something is enabled
NoStuck == (ends = 0) => ENABLED Next

\* state constraint for runs that only need the inputs (every initial state and its first steps)
DepthOne == depth <= 1

\* ---- projection used by the replay driver ------------------------------------
Proj == [next |-> next, inFlight |-> inFlight, schedDone |-> schedDone, endSent |-> endSent,
         verifyPending |-> verifyPending, resendPending |-> resendPending,
         planSet |-> planSet, ends |-> ends]
In == [n |-> n, bits |-> bits, tail |-> tail, hashUnknown |-> hashUnknown, mismatch |-> mismatch,
       verifyOn |-> verifyOn, report |-> report, v |-> V, forceFrom |-> ForceFrom,
       verifyNeeded |-> VerifyNeeded]
View == <<n, bits, tail, hashUnknown, mismatch, verifyOn, report,
          next, inFlight, schedDone, endSent, verifyPending, resendPending, resendChunk, planSet,
          ready, rpc, vpc, wpc, wchunk, wresend, handed, resends, ends, endClean, afterEnd, skipAfterPlan>>
Emit == PrintT("E " \o ToJson([in |-> In, pre |-> Proj, act |-> lastAct', post |-> Proj', d |-> depth',
                               pk |-> ToString(View), qk |-> ToString(View'),
                               x |-> [w \in Workers |-> wchunk'[w]]]))

=============================================================================
