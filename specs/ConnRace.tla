----------------------------- MODULE ConnRace -----------------------------
(***************************************************************************)
(* Connection racing (C09).                                                *)
(* Dialing side: internal/ice/ice.go ProbeAndDial / probeWithTransport -   *)
(* one goroutine per candidate address, a result channel of capacity one,  *)
(* the caller takes the first result and cancels the rest through the      *)
(* context.  Accepting side: internal/app/snapshot_receiver.go runTransfer *)
(* acceptOnce - the first connection that comes out of the listener's      *)
(* accept queue becomes the primary - followed by transport authentication *)
(* on "their" connection at both ends.                                     *)
(*                                                                         *)
(* A candidate path k is reachable or not.  Its QUIC handshake completes   *)
(* on the client (ClientDone) strictly before it completes on the server   *)
(* (ServerDone, the connection enters the accept queue); the two events of *)
(* different paths interleave freely.  A connection the dialer closes      *)
(* ("race_lost") stays in the accept queue (quic-go returns it from Accept *)
(* all the same); the close reaches the acceptor as a separate step.       *)
(*                                                                         *)
(* Relay: the paths in RelayPaths lead to the acceptor's TURN allocation,  *)
(* i.e. to its second (relay) listener; the dialer tries them only after   *)
(* every direct path has failed.  After authentication the dialer opens    *)
(* its additional connections towards the address of the primary one, so   *)
(* they arrive at the listener the primary came in on; the acceptor waits  *)
(* for them on the listener it chooses (extraL).                           *)
(*                                                                         *)
(* Switches (TRUE = the pinned commit):                                    *)
(*   RefillAfterTake  a dial goroutine that finishes after the caller took *)
(*                    the winner out of the channel finds room in it,      *)
(*                    declares itself the winner and is never closed       *)
(*   CommitToFirst    the acceptor commits to the head of the accept queue *)
(*                    even when the dialer has abandoned that connection   *)
(*   ExtrasOnDirect   the acceptor always waits for the additional         *)
(*                    connections on its direct listener (up to fix        *)
(*                    3639207)                                             *)
(***************************************************************************)
EXTENDS Integers, Sequences, FiniteSets, TLC, Json

CONSTANTS K, RefillAfterTake, CommitToFirst, Track,
          RelayPaths,      \* subset of 1..K: candidates behind the acceptor's relay allocation
          ExtrasOnDirect

Paths == 1..K
Direct == Paths \ RelayPaths
ListenerOf(k) == IF k \in RelayPaths THEN "relay" ELSE "direct"

VARIABLES
  reach,      \* set of reachable paths (chosen in Init)
  cpc,        \* path -> "dialing" | "failed" | "cancelled" | "estab" | "inch" | "won" | "lost"
  ch,         \* content of resultCh: 0 or a path
  decided,    \* (repaired dialer) a winner has been declared
  ret,        \* 0: ProbeAndDial has not returned; k: returned connection k; -1: returned an error
  cancelled,  \* the dial context is cancelled (deferred cancel at return)
  sdone,      \* path -> the server side of the handshake has completed (was queued)
  queue,      \* the listener's accept queue
  closedSrv,  \* set of paths whose close has reached the acceptor
  primary,    \* 0 or the connection the acceptor took as primary
  apc,        \* acceptor: "accepting" | "auth" | "ok" | "fail"
  dpc,        \* dialer's caller: "probing" | "auth" | "ok" | "fail"
  extraL,     \* "" | "direct" | "relay": the listener on which the acceptor waits for the additional connections
  lastAct, depth

vars == <<reach, cpc, ch, decided, ret, cancelled, sdone, queue, closedSrv, primary, apc, dpc, extraL, lastAct, depth>>
Step(a) == IF Track THEN lastAct' = a /\ depth' = depth + 1 ELSE UNCHANGED <<lastAct, depth>>

Init ==
  /\ reach \in SUBSET Paths
  /\ cpc = [k \in Paths |-> "dialing"] /\ ch = 0 /\ decided = FALSE /\ ret = 0 /\ cancelled = FALSE
  /\ sdone = [k \in Paths |-> FALSE] /\ queue = <<>> /\ closedSrv = {} /\ primary = 0
  /\ apc = "accepting" /\ dpc = "probing" /\ extraL = ""
  /\ lastAct = [a |-> "init"] /\ depth = 0

\* ---- dialing side -------------------------------------------------------------------
\* the relay round starts when the direct round is over without a connection
RoundOpen(k) == k \in Direct \/ \A d \in Direct : cpc[d] \in {"failed", "cancelled"}

ClientDone(k) ==
  /\ cpc[k] = "dialing" /\ k \in reach /\ ~cancelled /\ RoundOpen(k)
  /\ cpc' = [cpc EXCEPT ![k] = "estab"]
  /\ UNCHANGED <<reach, ch, decided, ret, cancelled, sdone, queue, closedSrv, primary, apc, dpc, extraL>>
  /\ Step([a |-> "ClientDone", k |-> k])

DialFail(k) ==
  /\ cpc[k] = "dialing" /\ (k \notin reach \/ cancelled) /\ (RoundOpen(k) \/ cancelled)
  /\ cpc' = [cpc EXCEPT ![k] = IF cancelled THEN "cancelled" ELSE "failed"]
  /\ UNCHANGED <<reach, ch, decided, ret, cancelled, sdone, queue, closedSrv, primary, apc, dpc, extraL>>
  /\ Step([a |-> "DialFail", k |-> k])

\* select { case resultCh <- conn: won; default: close }
Offer(k) ==
  /\ cpc[k] = "estab"
  /\ LET room == IF RefillAfterTake THEN ch = 0 ELSE ~decided IN
       IF room THEN ch' = k /\ decided' = TRUE /\ cpc' = [cpc EXCEPT ![k] = "inch"]
               ELSE cpc' = [cpc EXCEPT ![k] = "lost"] /\ UNCHANGED <<ch, decided>>
  /\ UNCHANGED <<reach, ret, cancelled, sdone, queue, closedSrv, primary, apc, dpc, extraL>>
  /\ Step([a |-> "Offer", k |-> k, won |-> (IF RefillAfterTake THEN ch = 0 ELSE ~decided)])

\* the caller's select takes the result; the deferred cancel stops the other dials
Take ==
  /\ ret = 0 /\ ch # 0
  /\ ret' = ch /\ cpc' = [cpc EXCEPT ![ch] = "won"] /\ ch' = 0 /\ cancelled' = TRUE /\ dpc' = "auth"
  /\ UNCHANGED <<reach, decided, sdone, queue, closedSrv, primary, apc, extraL>>
  /\ Step([a |-> "Take", k |-> ch])

AllFailed ==
  /\ ret = 0 /\ ch = 0 /\ \A k \in Paths : cpc[k] \in {"failed", "cancelled", "lost"}
  /\ ret' = -1 /\ dpc' = "fail" /\ cancelled' = TRUE
  /\ UNCHANGED <<reach, cpc, ch, decided, sdone, queue, closedSrv, primary, apc, extraL>>
  /\ Step([a |-> "AllFailed"])

\* ---- accepting side -----------------------------------------------------------------
ServerDone(k) ==
  /\ cpc[k] \in {"estab", "inch", "won", "lost"} /\ ~sdone[k]
  /\ sdone' = [sdone EXCEPT ![k] = TRUE] /\ queue' = Append(queue, k)
  /\ UNCHANGED <<reach, cpc, ch, decided, ret, cancelled, closedSrv, primary, apc, dpc, extraL>>
  /\ Step([a |-> "ServerDone", k |-> k])

CloseArrives(k) ==
  /\ cpc[k] = "lost" /\ sdone[k] /\ k \notin closedSrv
  /\ closedSrv' = closedSrv \cup {k}
  /\ UNCHANGED <<reach, cpc, ch, decided, ret, cancelled, sdone, queue, primary, apc, dpc, extraL>>
  /\ Step([a |-> "CloseArrives", k |-> k])

AcceptPrimary ==
  /\ apc = "accepting" /\ queue # <<>>
  /\ queue' = Tail(queue)
  /\ IF ~CommitToFirst /\ Head(queue) \in closedSrv
       THEN UNCHANGED <<primary, apc>>                           \* abandoned before it was accepted: skip it
       ELSE primary' = Head(queue) /\ apc' = "auth"
  /\ UNCHANGED <<reach, cpc, ch, decided, ret, cancelled, sdone, closedSrv, dpc, extraL>>
  /\ Step([a |-> "AcceptPrimary", k |-> Head(queue)])

\* authentication on an abandoned connection fails at once (stream accept returns the peer's close)
AuthOnClosed ==
  /\ apc = "auth" /\ primary \in closedSrv
  /\ IF CommitToFirst THEN apc' = "fail" /\ UNCHANGED primary
                      ELSE apc' = "accepting" /\ primary' = 0   \* go back to accepting
  /\ UNCHANGED <<reach, cpc, ch, decided, ret, cancelled, sdone, queue, closedSrv, dpc, extraL>>
  /\ Step([a |-> "AuthOnClosed"])

AuthOK ==
  /\ apc = "auth" /\ dpc = "auth" /\ primary = ret
  /\ apc' = "ok" /\ dpc' = "ok"
  /\ extraL' = IF ExtrasOnDirect THEN "direct" ELSE ListenerOf(primary)
  /\ UNCHANGED <<reach, cpc, ch, decided, ret, cancelled, sdone, queue, closedSrv, primary>>
  /\ Step([a |-> "AuthOK"])

\* both ends wait on two different live connections until the 10 s authentication timeout
\* (long against everything else: it fires only when every dial goroutine has finished)
AuthSplitTimeout ==
  /\ apc = "auth" /\ dpc = "auth" /\ primary # ret /\ primary \notin closedSrv /\ cpc[primary] # "lost"
  /\ \A k \in Paths : cpc[k] \notin {"dialing", "estab"}
  /\ apc' = "fail" /\ dpc' = "fail"
  /\ UNCHANGED <<reach, cpc, ch, decided, ret, cancelled, sdone, queue, closedSrv, primary, extraL>>
  /\ Step([a |-> "AuthSplitTimeout"])

\* the dialer's authentication times out because the acceptor has given up
DialerAuthAlone ==
  /\ dpc = "auth" /\ apc = "fail"
  /\ dpc' = "fail"
  /\ UNCHANGED <<reach, cpc, ch, decided, ret, cancelled, sdone, queue, closedSrv, primary, apc, extraL>>
  /\ Step([a |-> "DialerAuthAlone"])

Next ==
  \/ \E k \in Paths : ClientDone(k) \/ DialFail(k) \/ Offer(k) \/ ServerDone(k) \/ CloseArrives(k)
  \/ Take \/ AllFailed \/ AcceptPrimary \/ AuthOnClosed \/ AuthOK \/ AuthSplitTimeout \/ DialerAuthAlone

Spec == Init /\ [][Next]_vars /\ WF_vars(Next)

\* ---- properties (C09) ------------------------------------------------------------------
\* the dialing side keeps exactly one connection: once every dial goroutine has finished, every
\* established connection other than the returned one has been closed
DialsSettled == \A k \in Paths : cpc[k] \notin {"dialing", "estab"}
OneConnection == (ret # 0 /\ DialsSettled) =>
                   /\ \A k \in Paths : cpc[k] \in {"won", "lost", "failed", "cancelled"}
                   /\ (ret > 0 => Cardinality({k \in Paths : cpc[k] = "won"}) = 1)
\* both ends run authentication on the same connection
SameConnection == (apc = "ok" \/ dpc = "ok") => primary = ret
\* the accepting side never gives up while the dialing side holds a connection
NoSplit == ret > 0 => apc # "fail"
\* the additional connections of the transfer meet: the acceptor waits where the dialer's extra connections arrive
ExtrasMeet == (apc = "ok" /\ dpc = "ok") => extraL = ListenerOf(ret)
\* with a reachable address both sides get there
Converges == <>((ret > 0 /\ apc = "ok" /\ dpc = "ok") \/ ret = -1)

View == <<reach, cpc, ch, decided, ret, cancelled, sdone, queue, closedSrv, primary, apc, dpc, extraL>>
Emit == PrintT("E " \o ToJson([act |-> lastAct', d |-> depth', pk |-> ToString(View), qk |-> ToString(View'),
                               x |-> [reach |-> reach, ret |-> ret', primary |-> primary', apc |-> apc', dpc |-> dpc', cpc |-> cpc']]))
=============================================================================
