------------------------------ MODULE DumbWire ------------------------------
(***************************************************************************)
(* The record of the dumb (benchmark) transfer modes, internal/app/         *)
(* dumb_transfer.go (C15 anchors it):                                      *)
(*      u16 name length | name | u64 size | <size> payload bytes           *)
(* written by sendDumbDataWriter on one stream per connection and consumed *)
(* by recvDumbDiscardReader (QUIC stream or TCP connection).  The module   *)
(* enumerates values (boundary name lengths and sizes, including sizes     *)
(* that do not fit a signed 64-bit integer) and the places at which the    *)
(* peer's stream may end; a conforming reader reports an error for every   *)
(* stream that ends before the announced size and returns as soon as the   *)
(* input has ended.                                                        *)
(***************************************************************************)
EXTENDS Integers, Sequences, TLC, Json

NameLens == {0, 1, 255, 65535}
\* size classes: exact small values, around the reader's 1 MiB buffer, and values whose top bit is set
Sizes == {"0", "1", "1MiB-1", "1MiB", "1MiB+1", "3MiB+7", "2^63", "2^64-1"}
Huge(s) == s \in {"2^63", "2^64-1"}
Cuts == {"none", "in-namelen", "after-namelen", "in-name", "after-name", "in-size", "after-size",
         "in-payload", "one-short", "extra-bytes"}

VARIABLES nameLen, size, cut, phase
vars == <<nameLen, size, cut, phase>>

\* can the cut be applied to the value at all?
Applies == /\ (cut = "in-name" => nameLen > 1)
           /\ (cut \in {"in-payload", "one-short", "after-size"} => size # "0")     \* with size 0 the record ends with the size field
           /\ (cut = "in-payload" => size # "1")
           /\ (Huge(size) => cut \notin {"none", "one-short", "extra-bytes"})      \* nobody can deliver 2^63 bytes

\* the stream ends before the record is complete
Incomplete == cut \notin {"none", "extra-bytes"}
MustReject == Incomplete

Init == /\ nameLen \in NameLens /\ size \in Sizes /\ cut \in Cuts /\ phase = "new" /\ Applies
Next == phase = "new" /\ phase' = "done" /\ UNCHANGED <<nameLen, size, cut>>

Emit == PrintT("E " \o ToJson([act |-> [a |-> "dumb"], d |-> 1,
          x |-> [nameLen |-> nameLen, size |-> size, cut |-> cut, mustReject |-> MustReject]]))
=============================================================================
