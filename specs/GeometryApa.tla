---------------------------- MODULE GeometryApa ----------------------------
(* Apalache front end of Geometry.tla: the real limits (TLC cannot parse 64-bit literals). *)
EXTENDS Geometry

\* constants for Apalache (--cinit)
CInitReal ==
  /\ MaxSize = 10995116277760      \* 10 TiB
  /\ MaxChunk = 4294967295         \* 2^32 - 1
  /\ Word = 4294967296             \* 2^32
  /\ MaxIdx = 4294967296
=============================================================================
