------------------------------ MODULE Resume ------------------------------
(***************************************************************************)
(* Receiver-side resume state of one file across process kills            *)
(* (internal/transfer/sidecar.go, multistream.go data reader, finalize,    *)
(* handleFileBegin, buildResumeInfo; sender side applyResumeInfo).         *)
(*                                                                         *)
(* Disk state survives a kill: the output file's chunks (`file`), the      *)
(* sidecar under its final name (`disk`) and its temp file (`tmp`).        *)
(* Volatile state is lost: the in-memory bitmap, dirty flag, the chunk a   *)
(* reader is working on, the flusher's progress.                           *)
(* SIGKILL keeps the page cache, so the disk shows writes in program order.*)
(*                                                                         *)
(* Run structure: any number of (interrupted) runs; in each run the sender *)
(* plans from what the receiver advertises, skipped chunks are not sent,   *)
(* the highest marked chunk is verified by hash and re-sent on mismatch.   *)
(*                                                                         *)
(* Properties: C05 (metadata never claims a chunk that is not in the file; *)
(* atomic replacement), C04 (after any chain of kills a completed run      *)
(* leaves every chunk good; advertised = persisted), C06 (tampered initial *)
(* states: foreign / damaged sidecar, deleted / shortened data file, torn  *)
(* last chunk).                                                            *)
(*                                                                         *)
(* Switches (TRUE = negative control / the pinned commit):                 *)
(*   MarkBeforeWrite     reader marks the bit before the positional write  *)
(*   FlushInPlace        flush writes the final name directly (no rename)  *)
(*   TrustSidecarWithoutFile  a valid sidecar is trusted although the data *)
(*                       file did not exist / was shorter (pinned commit)  *)
(*   SizeBeforeMeta      handleFileBegin creates the data file and sets its *)
(*                       full length BEFORE it removes metadata it does not *)
(*                       trust (the code up to fix F-C06-3): a kill between *)
(*                       the two leaves a full-length empty file next to    *)
(*                       metadata that still claims chunks                  *)
(***************************************************************************)
EXTENDS Integers, FiniteSets, TLC

CONSTANTS N,            \* chunks of the file
          Readers,      \* concurrent data-stream readers, e.g. {1, 2}
          MaxKills,     \* bound on interruptions
          Tail,         \* ResumeVerifyTail (0 or 1)
          Tamper,       \* BOOLEAN: start from tampered on-disk states (C06)
          AllowTorn,    \* BOOLEAN: tampered states include a torn highest-marked chunk (use with MaxKills = 0:
                        \* TLC shows that a torn chunk followed by an *interrupted* repair run gets buried below
                        \* the next verification point - outside C06's single-resume statement, noted in DESIGN.md)
          MarkBeforeWrite, FlushInPlace, TrustSidecarWithoutFile, SizeBeforeMeta

Chunks == 0..(N - 1)
NoBits == {}

VARIABLES
  file,      \* chunk -> "zero" | "good" | "torn"          (output file contents; "short": beyond EOF)
  fileThere, \* the data file exists with its full length
  disk,      \* "absent" | "garbage" | "foreign" | [bits: SUBSET Chunks]   (sidecar under its final name)
  tmp,       \* "absent" | "partial" | [bits]                               (sidecar temp file)
  alive,     \* a receiver process is running
  mem,       \* in-memory bitmap
  dirty,
  rpc,       \* reader -> [st: "idle"|"got"|"claimed"|"written", c]
  fpc,       \* flusher: [st: "idle" | "snap" | "tmp", bits]   (holds the sidecar mutex unless idle)
  plan,      \* sender: "none" | [skip, resend]     (set when the report of this run arrived)
  tosend,    \* chunks the sender still has to deliver in this run
  advertised,\* what the receiver reported in this run ("none" before)
  atRestart, \* the sidecar bits found at the start of this run (history, for C04-ii)
  kills,
  done,      \* the current run completed (FileDone ok)
  spc,       \* handleFileBegin of this run: "off" | "stat" (looked at the data file) | "one" (first of size / metadata done) | "run"
  saw        \* what the look at the data file found (priorComplete)

vars == <<file, fileThere, disk, tmp, alive, mem, dirty, rpc, fpc, plan, tosend, advertised, atRestart, kills, done, spc, saw>>

\* on-disk sidecar values are records [k, bits] (TLC cannot compare strings with records)
D(k, b) == [k |-> k, bits |-> b]
Absent == D("absent", {})
Garbage == D("garbage", {})
Foreign == D("foreign", {})
Partial == D("partial", {})
Valid(b) == D("valid", b)
IsBits(x) == x.k = "valid"
NoPlan == [known |-> FALSE, skip |-> {}, resend |-> {}]
NoAdv == [known |-> FALSE, bits |-> {}]
Max(S) == CHOOSE x \in S : \A y \in S : y <= x
Idle == [st |-> "idle", c |-> 0]

InitFresh ==
  /\ file = [c \in Chunks |-> "zero"] /\ fileThere = FALSE
  /\ disk = Absent /\ tmp = Absent

\* C06: what a previous life may have left behind
InitTampered ==
  /\ \E b \in SUBSET Chunks :
       /\ disk \in {Absent, Garbage, Foreign, Valid(b)}
       /\ \/ /\ fileThere = TRUE
             /\ \E t \in (IF AllowTorn THEN b ELSE {}) \cup {-1} :      \* at most the highest marked chunk torn (power loss), the rest as marked
                  file = [c \in Chunks |-> IF c \in b THEN (IF c = t /\ c = Max(b \cup {-1}) THEN "torn" ELSE "good") ELSE "zero"]
          \/ /\ fileThere = FALSE               \* data file deleted (or shortened): nothing of it can be trusted
             /\ file = [c \in Chunks |-> "zero"]
  /\ tmp \in {Absent, Partial}

Init ==
  /\ IF Tamper THEN InitTampered ELSE InitFresh
  /\ alive = FALSE /\ mem = NoBits /\ dirty = FALSE
  /\ rpc = [r \in Readers |-> Idle] /\ fpc = [st |-> "idle", bits |-> NoBits]
  /\ plan = NoPlan /\ tosend = {} /\ advertised = NoAdv /\ atRestart = NoBits
  /\ kills = 0 /\ done = FALSE
  /\ spc = "off" /\ saw = FALSE

\* ---- start of a run: handleFileBegin + LoadOrCreateSidecarWithFallback + buildResumeInfo ---------
\* three steps, a kill may strike between them: look at the data file; then - in the order of the code -
\* create it / set its length, and decide about the metadata found on disk
StartStat ==
  /\ ~alive /\ ~done
  /\ alive' = TRUE /\ spc' = "stat" /\ saw' = fileThere
  /\ mem' = NoBits /\ dirty' = FALSE
  /\ rpc' = [r \in Readers |-> Idle] /\ fpc' = [st |-> "idle", bits |-> NoBits]
  /\ UNCHANGED <<file, fileThere, disk, tmp, plan, tosend, advertised, atRestart, kills, done>>

StartSize ==
  /\ alive /\ spc = (IF SizeBeforeMeta THEN "stat" ELSE "one")
  /\ fileThere' = TRUE                                              \* O_CREATE + Truncate(full size)
  /\ spc' = IF SizeBeforeMeta THEN "one" ELSE "run"
  /\ UNCHANGED <<file, disk, tmp, alive, mem, dirty, rpc, fpc, plan, tosend, advertised, atRestart, kills, done, saw>>

StartMeta ==
  /\ alive /\ spc = (IF SizeBeforeMeta THEN "one" ELSE "stat")
  /\ spc' = IF SizeBeforeMeta THEN "run" ELSE "one"
  /\ LET usable == IsBits(disk) /\ (saw \/ TrustSidecarWithoutFile)
         bits == IF usable THEN disk.bits ELSE NoBits
     IN /\ mem' = bits
        /\ atRestart' = bits
        /\ disk' = IF usable THEN disk ELSE Valid(NoBits)           \* unreadable / foreign / untrusted: removed and re-created (flushed)
        /\ advertised' = [known |-> TRUE, bits |-> bits]
        /\ \* sender plan: skip marked chunks below forceFrom, verify the highest marked chunk
           LET V == IF bits = {} THEN -1 ELSE Max(bits)
               force0 == V + 1
               allc == bits = Chunks
               force == IF ~allc /\ Tail > 0 /\ force0 > 0 THEN (IF Tail >= force0 THEN 0 ELSE force0 - Tail) ELSE force0
               skip == {c \in bits : c < force}
               mismatch == V >= 0 /\ file[V] # "good"
           IN /\ plan' = [known |-> TRUE, skip |-> skip, resend |-> IF mismatch THEN {V} ELSE {}]
              /\ tosend' = (Chunks \ skip) \cup (IF mismatch THEN {V} ELSE {})
  /\ UNCHANGED <<file, fileThere, tmp, alive, dirty, rpc, fpc, kills, done, saw>>

Start == StartStat \/ StartSize \/ StartMeta
Running == alive /\ spc = "run"

\* ---- data-stream readers: receive, write, mark --------------------------------------------
Recv(r, c) ==
  /\ Running /\ rpc[r].st = "idle" /\ c \in tosend
  /\ ~\E q \in Readers : rpc[q].st # "idle" /\ rpc[q].c = c
  /\ rpc' = [rpc EXCEPT ![r] = [st |-> "got", c |-> c]]
  /\ tosend' = tosend \ {c}
  /\ UNCHANGED <<file, fileThere, disk, tmp, alive, mem, dirty, fpc, plan, advertised, atRestart, kills, done, spc, saw>>

WriteChunk(r) ==
  /\ Running /\ rpc[r].st = (IF MarkBeforeWrite THEN "claimed" ELSE "got")
  /\ file' = [file EXCEPT ![rpc[r].c] = "good"]
  /\ rpc' = [rpc EXCEPT ![r].st = IF MarkBeforeWrite THEN "idle" ELSE "written"]
  /\ UNCHANGED <<fileThere, disk, tmp, alive, mem, dirty, fpc, plan, tosend, advertised, atRestart, kills, done, spc, saw>>

\* markChunkComplete needs the sidecar mutex: blocked while a flush is in progress
Mark(r) ==
  /\ Running /\ rpc[r].st = (IF MarkBeforeWrite THEN "got" ELSE "written") /\ fpc.st = "idle"
  /\ mem' = mem \cup {rpc[r].c}
  /\ dirty' = TRUE
  /\ rpc' = [rpc EXCEPT ![r].st = IF MarkBeforeWrite THEN "claimed" ELSE "idle"]
  /\ UNCHANGED <<file, fileThere, disk, tmp, alive, fpc, plan, tosend, advertised, atRestart, kills, done, spc, saw>>

\* ---- flusher (ticker / FlushAllFlushers / finalize): snapshot, temp file, rename ---------------
FlushSnap ==
  /\ Running /\ fpc.st = "idle" /\ dirty
  /\ fpc' = [st |-> "snap", bits |-> mem]
  /\ UNCHANGED <<file, fileThere, disk, tmp, alive, mem, dirty, rpc, plan, tosend, advertised, atRestart, kills, done, spc, saw>>

FlushTmp ==
  /\ Running /\ fpc.st = "snap"
  /\ IF FlushInPlace
       THEN /\ disk' = Garbage /\ tmp' = tmp          \* the final name is being rewritten in place: torn while in progress
       ELSE /\ tmp' = Valid(fpc.bits) /\ disk' = disk
  /\ fpc' = [fpc EXCEPT !.st = "tmp"]
  /\ UNCHANGED <<file, fileThere, alive, mem, dirty, rpc, plan, tosend, advertised, atRestart, kills, done, spc, saw>>

FlushRename ==
  /\ Running /\ fpc.st = "tmp"
  /\ disk' = Valid(fpc.bits)
  /\ tmp' = IF FlushInPlace THEN tmp ELSE Absent
  /\ dirty' = FALSE
  /\ fpc' = [st |-> "idle", bits |-> NoBits]
  /\ UNCHANGED <<file, fileThere, alive, mem, rpc, plan, tosend, advertised, atRestart, kills, done, spc, saw>>

\* ---- the run completes: every chunk the sender planned has been applied, final flush done ------
Complete ==
  /\ Running /\ tosend = {} /\ \A r \in Readers : rpc[r].st = "idle"
  /\ fpc.st = "idle" /\ ~dirty
  /\ mem = Chunks
  /\ done' = TRUE /\ alive' = FALSE /\ spc' = "off"
  /\ UNCHANGED <<file, fileThere, disk, tmp, mem, dirty, rpc, fpc, plan, tosend, advertised, atRestart, kills, saw>>

\* ---- SIGKILL at any instant ---------------------------------------------------------------
Kill ==
  /\ alive /\ kills < MaxKills
  /\ alive' = FALSE /\ kills' = kills + 1
  /\ mem' = NoBits /\ dirty' = FALSE
  /\ rpc' = [r \in Readers |-> Idle] /\ fpc' = [st |-> "idle", bits |-> NoBits]
  /\ plan' = NoPlan /\ tosend' = {} /\ advertised' = NoAdv
  /\ tmp' = IF fpc.st = "snap" /\ ~FlushInPlace THEN Partial ELSE tmp   \* a temp file being written may be partial; it is never read
  /\ spc' = "off"
  /\ UNCHANGED <<file, fileThere, disk, atRestart, done, saw>>

Terminated == done /\ UNCHANGED vars

Next == Start \/ FlushSnap \/ FlushTmp \/ FlushRename \/ Complete \/ Kill \/ Terminated
        \/ \E r \in Readers : WriteChunk(r) \/ Mark(r) \/ \E c \in Chunks : Recv(r, c)

Spec == Init /\ [][Next]_vars
FairSpec == Spec /\ WF_vars(StartStat) /\ WF_vars(StartSize) /\ WF_vars(StartMeta) /\ WF_vars(FlushSnap) /\ WF_vars(FlushTmp) /\ WF_vars(FlushRename) /\ WF_vars(Complete)
            /\ \A r \in Readers : WF_vars(WriteChunk(r)) /\ WF_vars(Mark(r)) /\ WF_vars(\E c \in Chunks : Recv(r, c))

\* ---- properties ------------------------------------------------------------
\* C05: whatever is under the final name and readable marks only chunks that are in the file
\* (holds for runs that started from a clean or self-produced state)
MetadataSound == (~Tamper /\ IsBits(disk)) => \A c \in disk.bits : file[c] = "good"
\* C05: the final name never holds a torn file produced by this implementation
AtomicReplace == ~Tamper => disk.k # "garbage"
\* the in-memory bitmap is sound too (what the next flush will persist)
MemSound == (~Tamper /\ Running) => \A c \in mem : file[c] = "good" \/ (MarkBeforeWrite /\ \E r \in Readers : rpc[r].c = c)
\* C04 / C06: a run that completes leaves the identical file
CompleteIsCorrect == done => \A c \in Chunks : file[c] = "good"
\* C04-ii: the receiver advertises exactly what its metadata marked when the run started
AdvertisedIsPersisted == (Running /\ advertised.known) => advertised.bits = atRestart
\* C04: progress - a run can always be completed (checked with FairSpec, kills bounded)
EventuallyDone == <>done
=============================================================================
