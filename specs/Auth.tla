------------------------------- MODULE Auth -------------------------------
(***************************************************************************)
(* Transport authentication of the QUIC transfer connection (C08):         *)
(* internal/app/transport_auth.go authenticateTransport / authAsSender /   *)
(* authAsReceiver, and the places that call it before any manifest or file *)
(* byte moves (snapshot_sender.go runICEQUICTransfer, dialExtraConns;      *)
(* snapshot_receiver.go runTransfer, acceptExtraConns).                    *)
(*                                                                         *)
(* Symbolic (Dolev-Yao style) model.  A TLS session is an abstract id; its *)
(* exporter keying material is known to exactly its two ends.  The         *)
(* handshake key is Key(code, session); a message is                       *)
(*   [ver, role, nonce, mac]  with  mac = MAC(key, ver=1, role, nonce),    *)
(* represented by the fields the MAC was computed over (mk, mr, mn), a     *)
(* flag for "mac bytes unaltered" and a flag for "all 50 bytes arrived".   *)
(*                                                                         *)
(* Honest ends: S (role sender, code cS), R (role receiver, code cR).      *)
(* Attacker A knows the codes in adv, the keying material of its own       *)
(* sessions, everything it has seen on them and a recorded older session   *)
(* s0 between the honest ends.  Topologies:                                *)
(*   direct         S ==s1== R       (plus a fault that alters a message)  *)
(*   rogueDialer    A ==s1== R                                             *)
(*   rogueListener  S ==s1== A                                             *)
(*   relay          S ==s1== A ==s2== R                                    *)
(* One action per step of the code: SSend (write proof), RRecv (read,      *)
(* version, role, MAC checks, reply), SRecv (read, checks), timeouts, and  *)
(* Commit: the caller starts using the connection for the transfer.        *)
(*                                                                         *)
(* Switches (TRUE = the code as written):                                  *)
(*   RoleCheck       the received role byte must be the peer's role        *)
(*   BindSession     the key depends on the TLS session's exporter value   *)
(*   UseOnlyAuthed   the caller hands the connection to the transfer only  *)
(*                   when authenticateTransport returned nil               *)
(***************************************************************************)
EXTENDS Integers, Sequences, FiniteSets, TLC, Json

CONSTANTS RoleCheck, BindSession, UseOnlyAuthed

None == [ver |-> 0, role |-> "-", nonce |-> "-", mk |-> <<"-", "-">>, mr |-> "-", mn |-> "-", mok |-> FALSE, full |-> FALSE, src |-> "-"]

Codes == {"c1", "c2"}
Scens == {"direct", "rogueDialer", "rogueListener", "relay"}
AlterClasses == {"ver", "roleSwap", "roleBad", "nonce", "mac", "trunc"}

VARIABLES
  scen, cS, cR, adv,     \* the configuration, chosen in Init
  pcS, pcR,              \* "na" | "init" | "wait" | "ok" | "fail"
  toR, toS,              \* the message the honest end will read next (None: nothing yet)
  seen,                  \* messages the attacker holds
  altered,               \* {"S","R"}: honest ends that were handed an altered genuine message (direct topology)
  used,                  \* honest ends whose caller went on to use the connection for manifest / file bytes
  hist

vars == <<scen, cS, cR, adv, pcS, pcR, toR, toS, seen, altered, used, hist>>

Key(code, sess) == IF BindSession THEN <<code, sess>> ELSE <<code, "any">>
SessS == "s1"
SessR == IF scen = "relay" THEN "s2" ELSE "s1"
AdvSessions == CASE scen = "direct" -> {}
                 [] scen = "relay" -> {"s1", "s2"}
                 [] OTHER -> {"s1"}

Msg(role, nonce, key, src) ==
  [ver |-> 1, role |-> role, nonce |-> nonce, mk |-> key, mr |-> role, mn |-> nonce, mok |-> TRUE, full |-> TRUE, src |-> src]

Other(r) == IF r = "S" THEN "R" ELSE "S"
Alter(m, cls) ==
  CASE cls = "ver"      -> [m EXCEPT !.ver = 2]
    [] cls = "roleSwap" -> [m EXCEPT !.role = Other(m.role)]
    [] cls = "roleBad"  -> [m EXCEPT !.role = "X"]
    [] cls = "nonce"    -> [m EXCEPT !.nonce = "flipped"]
    [] cls = "mac"      -> [m EXCEPT !.mok = FALSE]
    [] cls = "trunc"    -> [m EXCEPT !.full = FALSE]

\* readAuthMessage + the checks of authAsSender / authAsReceiver
Verify(m, key, wantRole) ==
  /\ m.full                                   \* io.ReadFull of 50 bytes
  /\ m.ver = 1
  /\ IF RoleCheck THEN m.role = wantRole ELSE m.role \in {"S", "R"}
  /\ m.mok /\ m.mk = key /\ m.mr = m.role /\ m.mn = m.nonce      \* hmac.Equal(mac, HMAC(key, 1 || role || nonce))

\* what the attacker can put on a stream
Forged == {Msg(r, "nA", Key(c, s), "forge") : r \in {"S", "R"}, c \in adv \cup {"guess"}, s \in AdvSessions}
Replayable == seen \cup {Alter(m, cls) : m \in seen, cls \in AlterClasses}
Derivable == Forged \cup Replayable

OldTranscript == {Msg("S", "n0", Key(cS, "s0"), "oldS"), Msg("R", "n0r", Key(cR, "s0"), "oldR")}

Init ==
  /\ scen \in Scens /\ cS = "c1" /\ cR \in Codes /\ adv \in SUBSET Codes
  /\ pcS = IF scen = "rogueDialer" THEN "na" ELSE "init"
  /\ pcR = IF scen = "rogueListener" THEN "na" ELSE "init"
  /\ toR = None /\ toS = None
  /\ seen = IF scen = "direct" THEN {} ELSE OldTranscript
  /\ altered = {} /\ used = {} /\ hist = <<>>

Log(e) == hist' = Append(hist, e)

\* ---- honest sender ---------------------------------------------------------------
SSend ==
  /\ pcS = "init" /\ pcS' = "wait"
  /\ LET m == Msg("S", "nS", Key(cS, SessS), "S") IN
       IF scen = "direct" THEN toR' = m /\ UNCHANGED seen ELSE seen' = seen \cup {m} /\ UNCHANGED toR
  /\ Log([a |-> "SSend"])
  /\ UNCHANGED <<scen, cS, cR, adv, pcR, toS, altered, used>>

SRecv ==
  /\ pcS = "wait" /\ toS # None
  /\ pcS' = IF Verify(toS, Key(cS, SessS), "R") THEN "ok" ELSE "fail"
  /\ toS' = None
  /\ Log([a |-> "SRecv", ok |-> Verify(toS, Key(cS, SessS), "R")])
  /\ UNCHANGED <<scen, cS, cR, adv, pcR, toR, seen, altered, used>>

\* nothing arrives (the peer failed and closed, or the attacker stays silent): read error or the caller's timeout
STimeout ==
  /\ pcS = "wait" /\ toS = None
  /\ IF scen = "direct" THEN pcR = "fail" ELSE TRUE
  /\ pcS' = "fail"
  /\ Log([a |-> "STimeout"])
  /\ UNCHANGED <<scen, cS, cR, adv, pcR, toR, toS, seen, altered, used>>

\* ---- honest receiver -------------------------------------------------------------
RRecv ==
  /\ pcR = "init" /\ toR # None
  /\ LET ok == Verify(toR, Key(cR, SessR), "S")
         reply == Msg("R", "nR", Key(cR, SessR), "R")
     IN /\ pcR' = IF ok THEN "ok" ELSE "fail"
        /\ IF ok THEN (IF scen = "direct" THEN toS' = reply /\ UNCHANGED seen ELSE seen' = seen \cup {reply} /\ UNCHANGED toS)
                 ELSE UNCHANGED <<toS, seen>>
        /\ Log([a |-> "RRecv", ok |-> ok])
  /\ toR' = None
  /\ UNCHANGED <<scen, cS, cR, adv, pcS, altered, used>>

RTimeout ==
  /\ pcR = "init" /\ toR = None /\ scen \in {"rogueDialer", "relay"}
  /\ pcR' = "fail"
  /\ Log([a |-> "RTimeout"])
  /\ UNCHANGED <<scen, cS, cR, adv, pcS, toR, toS, seen, altered, used>>

\* ---- attacker / fault ------------------------------------------------------------
AdvToR(m) ==
  /\ scen \in {"rogueDialer", "relay"} /\ pcR = "init" /\ toR = None
  /\ toR' = m
  /\ Log([a |-> "AdvToR", m |-> m])
  /\ UNCHANGED <<scen, cS, cR, adv, pcS, pcR, toS, seen, altered, used>>

AdvToS(m) ==
  /\ scen \in {"rogueListener", "relay"} /\ pcS = "wait" /\ toS = None
  /\ toS' = m
  /\ Log([a |-> "AdvToS", m |-> m])
  /\ UNCHANGED <<scen, cS, cR, adv, pcS, pcR, toR, seen, altered, used>>

\* an alteration of a genuine message between two honest ends
TamperToR(cls) ==
  /\ scen = "direct" /\ toR # None /\ altered = {}
  /\ toR' = Alter(toR, cls) /\ altered' = {"R"}
  /\ Log([a |-> "Tamper", to |-> "R", cls |-> cls])
  /\ UNCHANGED <<scen, cS, cR, adv, pcS, pcR, toS, seen, used>>
TamperToS(cls) ==
  /\ scen = "direct" /\ toS # None /\ altered = {}
  /\ toS' = Alter(toS, cls) /\ altered' = {"S"}
  /\ Log([a |-> "Tamper", to |-> "S", cls |-> cls])
  /\ UNCHANGED <<scen, cS, cR, adv, pcS, pcR, toR, seen, used>>

\* ---- the callers ------------------------------------------------------------------
Final(pc) == pc \in {"na", "ok", "fail"}
Commit ==
  /\ Final(pcS) /\ Final(pcR) /\ hist # <<>> /\ hist[Len(hist)].a # "Commit"
  /\ used' = {x \in {"S", "R"} : LET pc == IF x = "S" THEN pcS ELSE pcR IN
                                   IF UseOnlyAuthed THEN pc = "ok" ELSE pc \in {"ok", "fail"}}
  /\ Log([a |-> "Commit"])
  /\ UNCHANGED <<scen, cS, cR, adv, pcS, pcR, toR, toS, seen, altered>>

Next ==
  \/ SSend \/ SRecv \/ STimeout \/ RRecv \/ RTimeout \/ Commit
  \/ \E m \in Derivable : AdvToR(m) \/ AdvToS(m)
  \/ \E cls \in AlterClasses : TamperToR(cls) \/ TamperToS(cls)

Spec == Init /\ [][Next]_vars

\* ---- properties (C08) ---------------------------------------------------------------
\* does the other end of X's TLS session hold X's code?
PeerHoldsS == IF scen = "direct" THEN cS = cR ELSE cS \in adv
PeerHoldsR == IF scen = "direct" THEN cS = cR ELSE cR \in adv
Sound == (pcS = "ok" => PeerHoldsS) /\ (pcR = "ok" => PeerHoldsR)
\* two honest ends of one session with the same code accept each other when nothing is altered
Complete == (scen = "direct" /\ cS = cR /\ altered = {} /\ Final(pcS) /\ Final(pcR)) => (pcS = "ok" /\ pcR = "ok")
\* the honest end that is handed an altered message rejects
AlteredRejected == /\ ("R" \in altered /\ Final(pcR)) => pcR = "fail"
                   /\ ("S" \in altered /\ Final(pcS)) => pcS = "fail"
\* no manifest or file byte on a connection whose authentication did not succeed
DataOnlyAfterAuth == /\ "S" \in used => pcS = "ok"
                     /\ "R" \in used => pcR = "ok"

Terminal == hist # <<>> /\ hist[Len(hist)].a = "Commit"
Emit == IF Terminal'
          THEN PrintT("E " \o ToJson([act |-> [a |-> "script"], d |-> 1,
                  x |-> [scen |-> scen, cS |-> cS, cR |-> cR, adv |-> adv, hist |-> hist',
                         pcS |-> pcS', pcR |-> pcR', used |-> used', peerHoldsS |-> PeerHoldsS, peerHoldsR |-> PeerHoldsR]]))
          ELSE TRUE
=============================================================================
