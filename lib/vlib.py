"""Shared machinery for the /verif checks (python3 stdlib only).

 * scratch dirs (removed at exit)
 * TLC / Apalache runners that collect statistics and the transitions a spec
   emits through its ACTION_CONSTRAINT (`PrintT("E " \\o ToJson(...))`)
 * building the Go harness from /repo's current working tree with the
   `verif` tag and the overlay-injected export shims
 * evidence writer (schema-shaped), known-findings matcher, verdict printing
"""
import atexit
import json
import os
import re
import shutil
import subprocess
import sys
import tempfile
import time

ROOT = os.path.dirname(os.path.dirname(os.path.abspath(__file__)))
REPO = os.environ.get("VERIF_REPO", "/repo")
SPECS = os.path.join(ROOT, "specs")
HARNESS = os.path.join(ROOT, "harness")
EVIDENCE = os.path.join(ROOT, "evidence")
REPLAYS = os.path.join(ROOT, "replays")
KNOWN = os.path.join(ROOT, "known_findings.json")
NCPU = os.cpu_count() or 4

_scratch_dirs = []


def _cleanup():
    for d in _scratch_dirs:
        shutil.rmtree(d, ignore_errors=True)


atexit.register(_cleanup)


def scratch(prefix="verif-"):
    base = os.environ.get("VERIF_SCRATCH") or tempfile.gettempdir()
    d = tempfile.mkdtemp(prefix=prefix, dir=base)
    _scratch_dirs.append(d)
    return d


def log(*a):
    print(*a, file=sys.stderr, flush=True)


class HarnessTrouble(Exception):
    """Tool failure / timeout / dead driver: exit 2, never a violation."""


# --------------------------------------------------------------------------
# TLC
# --------------------------------------------------------------------------

_RE_STATS = re.compile(r"(\d+) states generated, (\d+) distinct states found")
_RE_DEPTH = re.compile(r"depth of the complete state graph search is (\d+)")
_RE_COV = re.compile(r"^<(\w+) line (\d+), col (\d+) to line (\d+), col (\d+) of module (\w+)>: (\d+):(\d+)")


def write_cfg(path, *, init="Init", next_="Next", spec=None, constants=None,
              invariants=(), properties=(), view=None, constraint=None,
              action_constraint=None, deadlock=False, postcondition=None, symmetry=None):
    lines = []
    if spec:
        lines.append("SPECIFICATION %s" % spec)
    else:
        lines.append("INIT %s" % init)
        lines.append("NEXT %s" % next_)
    if constants:
        lines.append("CONSTANTS")
        for k, v in constants.items():
            if isinstance(v, str) and v.startswith("<-"):
                lines.append("  %s <- %s" % (k, v[2:].strip()))
            else:
                lines.append("  %s = %s" % (k, tla_value(v)))
    for i in invariants:
        lines.append("INVARIANT %s" % i)
    for p in properties:
        lines.append("PROPERTY %s" % p)
    if view:
        lines.append("VIEW %s" % view)
    if constraint:
        lines.append("CONSTRAINT %s" % constraint)
    if action_constraint:
        lines.append("ACTION_CONSTRAINT %s" % action_constraint)
    if postcondition:
        lines.append("POSTCONDITION %s" % postcondition)
    if symmetry:
        lines.append("SYMMETRY %s" % symmetry)
    lines.append("CHECK_DEADLOCK %s" % ("TRUE" if deadlock else "FALSE"))
    with open(path, "w") as f:
        f.write("\n".join(lines) + "\n")


def tla_value(v):
    if isinstance(v, bool):
        return "TRUE" if v else "FALSE"
    if isinstance(v, int):
        return str(v)
    if isinstance(v, str):
        return v  # raw TLA+ text (use '"x"' for strings, '{a,b}' for sets)
    if isinstance(v, (list, tuple)):
        return "<<" + ", ".join(tla_value(x) for x in v) + ">>"
    if isinstance(v, (set, frozenset)):
        return "{" + ", ".join(tla_value(x) for x in sorted(v)) + "}"
    raise TypeError(v)


def run_tlc(module, cfg_kwargs, **kw):
    """run_tlc_once, tried a second time when the JVM itself failed (rc 255 without a verdict: several TLC
    processes started at the same moment on a busy machine)."""
    try:
        return run_tlc_once(module, cfg_kwargs, **kw)
    except HarnessTrouble as e:
        if "rc=255" not in str(e):
            raise
        time.sleep(3)
        return run_tlc_once(module, cfg_kwargs, **kw)


def run_tlc_once(module, cfg_kwargs, *, workers=None, simulate=None, depth=None, seed=None,
                 timeout=600, edges_path=None, coverage=False, extra_files=(), want_edges=True,
                 dfid=None, expect_violation=False, jvm_opts=None, keep_dir=None, compact_keys=True):
    """Run TLC on specs/<module>.tla with a generated cfg.

    Returns dict(generated, distinct, depth, violated, violation_text, edges(int),
    edges_path, wall_s, out_tail, coverage{action:count}).
    Lines emitted by the spec as PrintT("E " \\o json) are written to edges_path
    (ndjson) as they arrive.
    """
    work = keep_dir or scratch("tlc-")
    for fn in os.listdir(SPECS):
        if fn.endswith(".tla"):
            shutil.copy(os.path.join(SPECS, fn), work)
    for fn in extra_files:
        shutil.copy(fn, work)
    cfg = os.path.join(work, module + "_run.cfg")
    write_cfg(cfg, **cfg_kwargs)
    meta = os.path.join(work, "meta")
    cmd = ["tlc", "-metadir", meta, "-config", cfg, "-noGenerateSpecTE"]
    if simulate:
        cmd += ["-workers", "1", "-simulate", "num=%d" % simulate]
        if depth:
            cmd += ["-depth", str(depth)]
    else:
        cmd += ["-workers", str(workers or min(NCPU, 8))]
        if dfid:
            cmd += ["-dfid", str(dfid)]
    if seed is not None:
        cmd += ["-seed", str(seed)]
    if coverage:
        cmd += ["-coverage", "1"]
    cmd.append(module + ".tla")
    env = dict(os.environ)
    if jvm_opts:
        env["JAVA_TOOL_OPTIONS"] = jvm_opts
    t0 = time.time()
    p = subprocess.Popen(["timeout", str(int(timeout))] + cmd, cwd=work, stdout=subprocess.PIPE,
                         stderr=subprocess.STDOUT, text=True, env=env)
    res = dict(generated=0, distinct=0, depth=0, violated=False, violation_text="", edges=0,
               edges_path=edges_path, coverage={}, out_tail=[])
    ef = open(edges_path, "w") if (edges_path and want_edges) else None
    keyids = {}
    tail = []
    viol = []
    in_viol = False
    for line in p.stdout:
        if line.startswith('"E '):
            if ef is not None:
                try:
                    s = json.loads(line)
                    if compact_keys:
                        o = json.loads(s[2:])
                        for kk in ("pk", "qk"):
                            if kk in o:
                                o[kk] = str(keyids.setdefault(o[kk], len(keyids)))
                        ef.write(json.dumps(o, separators=(",", ":")) + "\n")
                    else:
                        ef.write(s[2:] + "\n")
                except Exception:
                    continue
            res["edges"] += 1
            continue
        line = line.rstrip("\n")
        m = _RE_STATS.search(line)
        if m:
            res["generated"], res["distinct"] = int(m.group(1)), int(m.group(2))
        m = _RE_DEPTH.search(line)
        if m:
            res["depth"] = int(m.group(1))
        m = _RE_COV.match(line)
        if m:
            res["coverage"][m.group(1)] = res["coverage"].get(m.group(1), 0) + int(m.group(8))
        if ("Error:" in line and ("violated" in line or "Deadlock" in line or "is violated" in line)) or \
                line.startswith("Error: Invariant") or line.startswith("Error: Action property") or \
                line.startswith("Error: Temporal properties were violated") or line.startswith("Error: Deadlock reached"):
            res["violated"] = True
            in_viol = True
        if in_viol and len(viol) < 400:
            viol.append(line)
        tail.append(line)
        if len(tail) > 60:
            tail.pop(0)
    rc = p.wait()
    if ef is not None:
        ef.close()
    res["wall_s"] = round(time.time() - t0, 2)
    res["out_tail"] = tail
    res["violation_text"] = "\n".join(viol)
    res["rc"] = rc
    if rc == 124:
        raise HarnessTrouble("TLC timed out after %ss on %s" % (timeout, module))
    if simulate:
        # simulation ends by itself after num traces: rc 0
        pass
    if not res["violated"] and rc not in (0,):
        # parse / semantic / runtime errors
        raise HarnessTrouble("TLC failed rc=%s on %s:\n%s" % (rc, module, "\n".join(tail[-25:])))
    if res["violated"] and not expect_violation:
        pass  # caller decides (model-level counterexample)
    return res


def run_apalache(module, *, inv, init="Init", next_="Next", length=0, cinit=None, timeout=300, extra_files=()):
    work = scratch("apa-")
    for fn in os.listdir(SPECS):
        if fn.endswith(".tla"):
            shutil.copy(os.path.join(SPECS, fn), work)
    for fn in extra_files:
        shutil.copy(fn, work)
    cmd = ["timeout", str(timeout), "apalache-mc", "check", "--init=" + init, "--next=" + next_,
           "--inv=" + inv, "--length=%d" % length, "--out-dir=" + os.path.join(work, "out")]
    if cinit:
        cmd.append("--cinit=" + cinit)
    cmd.append(module + ".tla")
    t0 = time.time()
    p = subprocess.run(cmd, cwd=work, stdout=subprocess.PIPE, stderr=subprocess.STDOUT, text=True)
    out = p.stdout
    ok = "The outcome is: NoError" in out
    bad = "The outcome is: Error" in out
    if p.returncode == 124:
        raise HarnessTrouble("apalache timed out on %s/%s" % (module, inv))
    if not ok and not bad:
        raise HarnessTrouble("apalache failed on %s/%s:\n%s" % (module, inv, out[-2000:]))
    return dict(ok=ok, out=out, wall_s=round(time.time() - t0, 2), work=work)


# --------------------------------------------------------------------------
# Go harness
# --------------------------------------------------------------------------

GOENV = {"GOFLAGS": "-mod=mod", "GOPROXY": "off"}

SHIMS = {
    "internal/transfer/export_verif.go": "shims/transfer_export.go",
    "internal/app/export_verif.go": "shims/app_export.go",
    "internal/ice/export_verif.go": "shims/ice_export.go",
    "internal/peers/export_verif.go": "shims/peers_export.go",
}


def goenv():
    env = dict(os.environ)
    env.update(GOENV)
    env.pop("GOSUMDB", None) if env.get("GOSUMDB") == "off" else None
    env.pop("GOTOOLCHAIN", None) if env.get("GOTOOLCHAIN") == "local" else None
    return env


_built = {}


def overlay_file(outdir):
    rep = {}
    for dst, src in SHIMS.items():
        srcp = os.path.join(HARNESS, src)
        if os.path.exists(srcp):
            rep[os.path.join(REPO, dst)] = srcp
    p = os.path.join(outdir, "overlay.json")
    with open(p, "w") as f:
        json.dump({"Replace": rep}, f)
    return p


def build_harness(race=False):
    """Build /verif/harness/cmd/vh against /repo's working tree (tag verif)."""
    key = "race" if race else "norace"
    if key in _built:
        return _built[key]
    out = scratch("vh-")
    shutil.copy(os.path.join(REPO, "go.sum"), os.path.join(HARNESS, "go.sum"))
    ov = overlay_file(out)
    binp = os.path.join(out, "vh")
    cmd = ["go", "build", "-tags", "verif", "-overlay", ov, "-o", binp]
    if race:
        cmd.append("-race")
    cmd.append("./cmd/vh")
    t0 = time.time()
    p = subprocess.run(cmd, cwd=HARNESS, env=goenv(), stdout=subprocess.PIPE, stderr=subprocess.STDOUT, text=True)
    if p.returncode != 0:
        raise HarnessTrouble("harness build failed:\n" + p.stdout[-4000:])
    log("[build] vh (%s) %.1fs" % (key, time.time() - t0))
    _built[key] = binp
    return binp


def build_repo_bin(pkg, name, tags="verif"):
    """Build a real binary (cmd/thru, cmd/thruserv) from /repo's working tree."""
    key = "bin:" + pkg
    if key in _built:
        return _built[key]
    out = scratch("bin-")
    binp = os.path.join(out, name)
    cmd = ["go", "build", "-tags", tags, "-o", binp, pkg]
    p = subprocess.run(cmd, cwd=REPO, env=goenv(), stdout=subprocess.PIPE, stderr=subprocess.STDOUT, text=True)
    if p.returncode != 0:
        raise HarnessTrouble("build %s failed:\n%s" % (pkg, p.stdout[-4000:]))
    _built[key] = binp
    return binp


def run_vh(args, *, timeout=900, race=False, env_extra=None, stdin=None):
    """Run a harness sub-command; it must print one JSON object on its last stdout line."""
    binp = build_harness(race=race)
    env = goenv()
    if env_extra:
        env.update(env_extra)
    t0 = time.time()
    try:
        p = subprocess.run([binp] + list(args), stdout=subprocess.PIPE, stderr=subprocess.PIPE, text=True,
                           timeout=timeout, env=env, input=stdin)
    except subprocess.TimeoutExpired:
        raise HarnessTrouble("vh %s timed out after %ss" % (args[0], timeout))
    lines = [l for l in p.stdout.splitlines() if l.strip()]
    if p.returncode != 0 or not lines:
        raise HarnessTrouble("vh %s failed rc=%s\nstdout: %s\nstderr: %s" % (
            " ".join(args), p.returncode, p.stdout[-2000:], p.stderr[-4000:]))
    try:
        res = json.loads(lines[-1])
    except Exception:
        raise HarnessTrouble("vh %s: last line is not JSON: %s\nstderr: %s" % (args[0], lines[-1][:500], p.stderr[-2000:]))
    res["_wall_s"] = round(time.time() - t0, 2)
    res["_stderr_tail"] = p.stderr[-1500:]
    return res


# --------------------------------------------------------------------------
# verdicts, known findings, evidence
# --------------------------------------------------------------------------

def load_known():
    if not os.path.exists(KNOWN):
        return []
    with open(KNOWN) as f:
        return json.load(f).get("findings", [])


def match_known(prop, sig):
    """sig: dict describing a violation; a known entry matches when every key of
    its `signature` equals the violation's value for that key."""
    for k in load_known():
        if k.get("property") != prop or k.get("status") != "known":
            continue
        ks = k.get("signature", {})
        if all(sig.get(a) == b for a, b in ks.items()):
            return k
    return None


class Verdict:
    def __init__(self, prop, tier, seed, level):
        self.prop, self.tier, self.seed, self.level = prop, tier, seed, level
        self.violations = []   # (sig, replay_path)
        self.known_hits = {}   # id -> (entry, count)
        self.notes = []
        self.t0 = time.time()
        self.coverage = {}
        self.assumptions = []

    def violation(self, sig, replay_obj=None):
        """Record a property violation observed on the real code.  If it matches
        a known finding it is reported as such, otherwise as VIOLATION."""
        k = match_known(self.prop, sig)
        if k is not None:
            e = self.known_hits.setdefault(k["id"], [k, 0])
            e[1] += 1
            return False
        path = save_replay(self.prop, sig, replay_obj)
        self.violations.append((sig, path))
        return True

    def finish(self):
        os.makedirs(EVIDENCE, exist_ok=True)
        for kid, (k, n) in sorted(self.known_hits.items()):
            print("KNOWN-FINDING: property=%s %s [%s x%d]" % (self.prop, k.get("summary", ""), kid, n))
        seen = set()
        for sig, path in self.violations:
            key = json.dumps(sig, sort_keys=True)
            if key in seen:
                continue
            seen.add(key)
            if len(seen) <= 10:
                print("VIOLATION property=%s replay=%s" % (self.prop, path))
                print("  detail: %s" % json.dumps(sig, sort_keys=True)[:600])
        cov = dict(self.coverage)
        cov.setdefault("known_findings_hit", {kid: n for kid, (k, n) in self.known_hits.items()})
        if self.notes:
            cov.setdefault("notes", self.notes)
        ev = dict(property_id=self.prop, tier=self.tier, seed=int(self.seed), level=self.level,
                  coverage=cov, assumptions=self.assumptions,
                  wall_s=round(time.time() - self.t0, 2), violations=len(seen))
        with open(os.path.join(EVIDENCE, self.prop + ".json"), "w") as f:
            json.dump(ev, f, indent=1, sort_keys=True, default=str)
        print("[%s %s seed=%s] %s in %.1fs (%d violation(s), %d known finding(s) hit)" % (
            self.prop, self.tier, self.seed, "FAIL" if seen else "ok", time.time() - self.t0,
            len(seen), len(self.known_hits)))
        return 1 if seen else 0


def save_replay(prop, sig, obj):
    d = os.path.join(REPLAYS, prop)
    os.makedirs(d, exist_ok=True)
    body = json.dumps({"signature": sig, "replay": obj}, sort_keys=True, default=str)
    import hashlib
    h = hashlib.sha1(body.encode()).hexdigest()[:12]
    p = os.path.join(d, "viol-%s.json" % h)
    with open(p, "w") as f:
        f.write(body + "\n")
    return p


def seed_from_env(default=1):
    try:
        return int(os.environ.get("VERIF_SEED", default))
    except ValueError:
        return default


def run_vh_sharded(args, shards, **kw):
    """Run a driver as `shards` parallel processes (-shard i -shards n) and merge the results."""
    import concurrent.futures as cf
    build_harness(race=kw.get("race", False))
    with cf.ThreadPoolExecutor(max_workers=shards) as ex:
        futs = [ex.submit(run_vh, list(args) + ["-shard", str(i), "-shards", str(shards)], **kw) for i in range(shards)]
        results = [f.result() for f in futs]
    return merge_results(results)


def merge_results(results):
    out = dict(behaviours=0, steps=0, distinct=0, drift=0, viol_count=0, violations=[], samples=[], drift_samples=[],
               states=0, transitions=0, extra={})
    seen = set()
    for r in results:
        for k in ("behaviours", "steps", "distinct", "drift", "viol_count"):
            out[k] += r.get(k, 0)
        out["states"] = max(out["states"], r.get("states", 0))
        out["transitions"] = max(out["transitions"], r.get("transitions", 0))
        for vi in r.get("violations", []):
            key = json.dumps(vi["sig"], sort_keys=True)
            if key not in seen:
                seen.add(key)
                out["violations"].append(vi)
        out["samples"] += r.get("samples", [])[:2]
        out["drift_samples"] += r.get("drift_samples", [])[:1]
        for k, v in (r.get("extra") or {}).items():
            if isinstance(v, dict):
                d = out["extra"].setdefault(k, {})
                for kk, vv in v.items():
                    d[kk] = d.get(kk, 0) + vv if isinstance(vv, (int, float)) else vv
            elif isinstance(v, (int, float)):
                out["extra"][k] = out["extra"].get(k, 0) + v
            else:
                out["extra"][k] = v
    return out


def sim_states(res):
    """number of states a -simulate run generated (from TLC's summary line)"""
    for l in res.get("out_tail", []):
        m = re.search(r"number of states generated: (\d+)", l)
        if m:
            return int(m.group(1))
    return res.get("edges", 0)


def run_repo_overlay_test(pkg, test_src_rel, overlay_name, run_pat, timeout=600):
    """Run an in-package test kept under /verif/harness/shims inside a /repo package via `go test -overlay`."""
    out = scratch("ovt-")
    ov = os.path.join(out, "overlay.json")
    with open(ov, "w") as f:
        json.dump({"Replace": {os.path.join(REPO, pkg.lstrip("./"), overlay_name): os.path.join(HARNESS, test_src_rel)}}, f)
    cmd = ["go", "test", "-tags", "verif", "-overlay", ov, "-vet=off", "-count=1", "-run", run_pat, "-timeout", "%ds" % timeout, pkg]
    p = subprocess.run(cmd, cwd=REPO, env=goenv(), stdout=subprocess.PIPE, stderr=subprocess.STDOUT, text=True, timeout=timeout + 60)
    viols = re.findall(r"VERIF-VIOLATION (\w+): ([^\n]*)", p.stdout)
    ok = p.returncode == 0
    if not ok and not viols:
        raise HarnessTrouble("overlay test %s failed without a verdict:\n%s" % (pkg, p.stdout[-3000:]))
    return dict(ok=ok, violations=viols, output_tail=p.stdout[-800:])
