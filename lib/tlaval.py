"""Parser for TLA+ values as printed by TLC (ToString / state dumps) into a
canonical python structure: sets -> ('set', sorted tuple), records/functions ->
('fn', sorted items), tuples -> ('seq', tuple)."""


def parse(s):
    v, i = _val(s, _ws(s, 0))
    return v


def canon(s):
    return repr(parse(s))


def _ws(s, i):
    while i < len(s) and s[i] in " \n\t\r":
        i += 1
    return i


def _val(s, i):
    c = s[i]
    if s.startswith("<<", i):
        i = _ws(s, i + 2)
        items = []
        while not s.startswith(">>", i):
            v, i = _val(s, i)
            items.append(v)
            i = _ws(s, i)
            if s[i] == ",":
                i = _ws(s, i + 1)
        return ("seq", tuple(items)), i + 2
    if c == "{":
        i = _ws(s, i + 1)
        items = []
        while s[i] != "}":
            v, i = _val(s, i)
            items.append(v)
            i = _ws(s, i)
            if s[i] == ",":
                i = _ws(s, i + 1)
        return ("set", tuple(sorted(items, key=repr))), i + 1
    if c == "[":
        i = _ws(s, i + 1)
        items = []
        while s[i] != "]":
            j = i
            while s[j] not in " |":
                j += 1
            name = s[i:j]
            i = _ws(s, j)
            assert s.startswith("|->", i), s[i:i + 20]
            i = _ws(s, i + 3)
            v, i = _val(s, i)
            items.append((name, v))
            i = _ws(s, i)
            if s[i] == ",":
                i = _ws(s, i + 1)
        return ("fn", tuple(sorted(items, key=repr))), i + 1
    if c == "(":
        i = _ws(s, i + 1)
        items = []
        while s[i] != ")":
            k, i = _val(s, i)
            i = _ws(s, i)
            assert s.startswith(":>", i), s[i:i + 20]
            i = _ws(s, i + 2)
            v, i = _val(s, i)
            items.append((repr(k), v))
            i = _ws(s, i)
            if s.startswith("@@", i):
                i = _ws(s, i + 2)
        return ("fn", tuple(sorted(items, key=repr))), i + 1
    if c == '"':
        j = i + 1
        while s[j] != '"':
            if s[j] == "\\":
                j += 1
            j += 1
        return s[i:j + 1], j + 1
    j = i
    while j < len(s) and (s[j].isalnum() or s[j] in "-_"):
        j += 1
    assert j > i, s[i:i + 30]
    return s[i:j], j
