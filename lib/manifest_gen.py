#!/usr/bin/env python3
"""Regenerates /verif/MANIFEST.json from the table below (kept in one place so
the manifest is always valid and in step with the checks that exist)."""
import json
import os
import subprocess

ROOT = os.path.dirname(os.path.dirname(os.path.abspath(__file__)))

CHECKS = {
    "C17": dict(
        category="model_checking", design_ref="5.12",
        technique="TLA+ specs Dispatch.tla and Sched.tla checked exhaustively with TLC (invariants + liveness under fairness); every transition of Dispatch replayed on the real sendFileState, every input of the model run through the real SendManifestMultiStream against a scripted receiver, the real HybridScheduler walked along Sched.tla's state graph",
        text="TLC explores every interleaving of <=3 workers with report/verdict arrival for all inputs up to 4 chunks (invariants + liveness under fairness); each transition of that state graph is replayed call-by-call on the real sendFileState with the property oracle evaluated on the real return values; every input (bitmap, tail, hash verdict, report early / late / none) runs through the real sender against a scripted conformant receiver and the frames are judged with a logical clock shared with the hooks; the real scheduler is stepped the way the sender uses it and must answer within what Sched.tla allows, every file begun exactly once. The end-to-end runs also take a family of bitmaps over 8 and 16 chunks and use the CLI's resume timeout.",
        note="trusted: TLC, the shim's mirror of the applyResumeInfo lock regions (bound by the end-to-end runs), bounds chunks<=4 workers<=3"),
}

CHECKS["C12"] = dict(
    category="model_checking", design_ref="5.7",
    technique="TLA+ spec Admission.tla checked exhaustively with TLC (all event sequences to a depth bound) and by simulation; every transition replayed on a real SnapshotSender with stub transfers; multi-receiver sessions of the real thru host / thru join binaries judged on the host's hook trace; DispatchLoop.tla (the scheduler loop at the grain of its lock regions) checked exhaustively and replayed on the real maybeStartTransfers with gated dispatcher goroutines",
    text="TLC enumerates every sequence of join/accept/leave/complete/tick events over 3 receivers up to the depth bound for max-receivers 1 and 2 (11 invariants incl. live-transfer bound, FIFO, no silent drop, work conservation); each transition is replayed on the real SnapshotSender, comparing queue/slots/statuses/emitted messages with the spec and evaluating the property on the stub-transfer census after every event. Real binaries: a host with max-receivers M and M+2 joins started together; all trees identical, never more than M transfers between start and end / peer-left-release, queued receivers started in order. DispatchLoop.tla models the scheduler loop at the grain of its lock regions (dispatchers = read-loop calls and transfer tails, one action per iteration; negative control: free slots counted once); every transition is replayed on the real maybeStartTransfers with all dispatcher goroutines - the real runTransfer tails included - parked at host.emit.start; the same loop also runs free with batches of transfers ending together. Five receivers behind one slot in simulation (queues of three and more, receivers leaving from the middle).",
    note="trusted: TLC, the stub transfer function as ground truth, the environment assumption join->accept*->leave per receiver; bounds 3 receivers, depth 8 (quick) / 10 (thorough) + simulated depth 40/60")

CHECKS["C11"] = dict(
    category="model_checking", design_ref="5.6",
    technique="TLA+ spec Hub.tla (phase-split operations, map-object identity) checked exhaustively with TLC; transitions replayed on the real peers.Hub with goroutine gates at the verifhook points; free-running stress of the real hub with a progress watchdog; reset-during-join clients against the real thruserv; a peer that stopped reading (blocked server-side writer) against the real thruserv",
    text="TLC visits every interleaving of Add / three-phase remove / CloseSession / Broadcast(Except) copy-then-send / SendTo over 3 connections (same-peer-id reconnect, two sessions) and checks no-panic, routability, no-leak, isolation; sampled transitions of that graph are forced on the real Hub by parking each operation's goroutine between its lock regions, comparing maps and delivered messages with the spec and evaluating the oracle (recovered panics, List/SendTo for live peers, leftovers, stuck operations) on the real object. What gates cannot force is added on the real code: routers, churners and CloseSession running freely against one hub (a goroutine stuck inside a hub call = wedged), and WebSocket clients that reset the connection while the real server writes its first frames (no ghost may stay listed). Peers that stay connected but stop reading: Hub.tla carries the set of operations waiting for a blocked writer (NothingWaits; two negative controls), the replay uses blocking send functions and a timed Add, and against the real thruserv a peer is flooded until its writer blocks, then reconnects under its own id / another peer leaves and rejoins / the session expires - every step, an uninvolved session, /health and session creation must complete within 6 s.",
    note="trusted: TLC, the gate placement at the hook points, goroutine-id based routing of hook events; bounds 3 connections, <=2 broadcasts, 1 SendTo; writer goroutine not gated")

CHECKS["C19"] = dict(
    category="model_checking", design_ref="5.14",
    technique="TLA+ spec Geometry.tla: theorems decided symbolically by Apalache over the full 10 TiB x 2^32 range, small domain enumerated by TLC; function table and Apalache-checked observation table bind the spec to the real Go functions",
    text="Apalache proves tiling and agreement of the four chunk-count expressions for every size up to 10 TiB and every chunk size up to 2^32-1 (and refutes the negative controls); TLC enumerates a small domain with a small word so truncation is visited; every table row and boundary/random large pairs are evaluated on the real chunkTotal / chunkSizeForIndex / CreateSidecar with an independent tiling oracle, and the large observations are re-checked against the operators by Apalache. Real transfers with chunk sizes of 1 to 64 MiB and sizes around their multiples (the sender's block-wise reads), and resumed transfers over metadata left by an attempt with another chunk size (the metadata the transfer works with must carry the transfer's chunk size and count). Source files that shrink / grow / vanish after the scan and stale longer files in the output directory are judged for the sums and the tiling as well.",
    note="trusted: Apalache + z3, TLC; the receiver-side expression is bound by the transfer checks")

_T = "TLA+ spec Transfer.tla (control + data streams with QUIC visibility, workers, readers, faults) checked exhaustively with TLC; TransferGrid.tla enumerates the configuration grid whose rows are executed as real transfers over simulated and real QUIC transports, judged by return values and output-tree digest; the hook traces of those transfers are validated with TLC against SessionTrace.tla"
CHECKS["C01"] = dict(
    category="model_checking", design_ref="5.1",
    technique=_T,
    text="TLC checks Fidelity (both ok => every chunk written correctly) for every interleaving of workers, readers and control handling over a family of file/chunk/stream/slot configurations, under QUIC and mock stream visibility; a seeded sample (thorough: thousands) of the TLC-enumerated configuration grid (13 tree classes x chunk sizes x streams x connections x resume x root-dir mode x scan mode x 3 transports) is run on the real code and the output directory is compared byte for byte with the source whenever both sides report success; plus non-empty output directories with stale files, sparse files beyond 4 GiB and many-chunk / many-file contention runs (xfer-special). Further input regions (xfer-special): leftovers of an attempt with another chunk size (partly written file plus metadata with holes), trees with symbolic links to regular files, chunk sizes of 1 to 64 MiB. Also: sources with runs of zeros covering whole chunks over stale non-zero files, and several selections with the same base name given out of lexical order, opened through the application's real path resolver.",
    note="trusted: TLC, the vnet transport model (checked against loopback QUIC by running the same grid on both), sha256; contents are seeded random bytes")
CHECKS["C03"] = dict(
    category="model_checking", design_ref="5.1",
    technique=_T,
    text="TLC checks deadlock freedom and eventual success (fair scheduling) of Transfer.tla without faults, including QUIC stream visibility with fewer busy workers than streams, empty manifests and zero-length files; the pinned commit's blocking accept loop and ack-before-count orderings are refuted as negative controls; the configuration grid is run on the real code under a watchdog, hangs are classified from goroutine dumps. Further: one connection with one stream and files above the scheduler's small-file threshold, large chunk sizes, and prior histories of interrupted transfers (plain, torn highest chunk, complete file with a torn last chunk) resumed with duplicates over data streams that lag behind the control stream - all must succeed. Also: data streams 6.5 s behind the control stream, resume information that arrives after the sender's grace period, names that are reserved devices on another platform.",
    note="trusted: TLC, watchdog windows (5 s simulated, 10 s loopback QUIC, repeat required), vnet's visibility rule")
CHECKS["C02"] = dict(
    category="fault_enumeration", design_ref="5.1",
    technique="TLA+ spec Transfer.tla with fault actions checked exhaustively with TLC (no false success, both sides return); fault enumeration on the real code: connection close/loss at every byte offset of every stream, payload/checksum bit flips per frame, cancellation steps, source and sink faults",
    text="TLC explores a graceful close, an abrupt loss or a corrupted chunk at every point of every interleaving of the protocol model; on the real code a tiny transfer is repeated with the fault injected at every byte position of every stream and direction (thorough: stride 1), every payload/CRC byte flipped, each side cancelled at every 8-byte step and the source/sink damaged; the oracle is the pair of return values, the receiver's per-file confirmations and the output-tree digest. The enumeration runs a second time over a tree of nothing but empty files and empty directories (no chunk flows; obstruction by a directory where a file goes and by a regular file where a directory goes). Payload flips are repeated under every hash option of the sender; the dumb-mode reader is fed streams that end before the announced size.",
    note="trusted: TLC, vnet's fault semantics (connection error texts follow quic-go), the 6 s watchdog")

_R = "TLA+ spec Resume.tla (output-file chunks, in-memory bitmap, sidecar and temp file, two chunk writers, phase-split flusher, Kill in every state, restart and sender plan) checked exhaustively with TLC"
CHECKS["C05"] = dict(
    category="fault_enumeration", design_ref="5.2",
    technique=_R + "; real receiver process SIGKILLed at every hook point / hit, write faults, and an in-process post-mortem observer; disk inspected with the real LoadSidecar; data-file-lost resume cases; child traces validated with TLC against SessionTrace.tla",
    text="TLC shows that in every reachable state (every kill point of every interleaving of two writers with snapshot / temp-file / rename) a readable sidecar marks only chunks present in the file and that the final name is never torn, and refutes mark-before-write and flush-in-place. On the real code a receiver process kills itself at the k-th hit of each hook point (with and without a concurrent flush), writes fail at every half-chunk boundary, and an observer performs the post-mortem continuously during transfers with racing flushers. Further: metadata against the file after resumed transfers over leftovers of an attempt with another chunk size, and over a sparse file beyond 4 GiB (chunk offsets cross 2^32). Also: zero-run sources over stale files and a damaged duplicate of an already marked chunk, each followed by the post-mortem.",
    note="trusted: TLC, SIGKILL semantics (page cache kept), hook placement")
CHECKS["C04"] = dict(
    category="fault_enumeration", design_ref="5.2",
    technique=_R + "; every kill is followed by a real resumed run (digest, advertised bitmap vs sidecar on disk, chunks framed again); all consistent on-disk states (2^n bitmaps) built with the real Sidecar API and resumed; real thru join processes killed in mid-transfer and resumed / overwritten by a second real join; child traces validated with TLC against SessionTrace.tla",
    text="TLC shows that after any chain of up to 3 kills a completed run leaves every chunk good, that the advertised bitmap equals the persisted one and that a run can always complete. On the real code each kill of the enumeration is followed by a resumed run over loopback QUIC that must succeed with an identical tree; FileResumeInfo frames captured on the sender's control stream are compared with the sidecars found after the kill; every bitmap of a 5- (thorough 7-) chunk file is resumed. Also: leftovers of an attempt with another chunk size, and resume information that reaches the sender only after its grace period (it must still count).",
    note="trusted: TLC, loopback QUIC, the tap on the sender's control stream")
CHECKS["C06"] = dict(
    category="fault_enumeration", design_ref="5.2",
    technique=_R + " from tampered initial states; every single-bit flip / truncation / garbage / foreign identity of a real sidecar and every damage class of the data file applied to a real interrupted directory, then LoadSidecar and a real resumed transfer (also over a transport whose data streams lag behind the control stream)",
    text="TLC starts Resume.tla from every combination of {absent, garbage, foreign, valid(any bitmap)} sidecar with {present, deleted/shortened} data file and a torn highest chunk, and refutes the pinned commit's trust in a sidecar whose data file is gone. The real code is run from each concretised state (thorough: all 392 bit flips, 49 truncations, garbage, foreign fields, truncation around every chunk boundary, torn chunks, completed-file-with-torn-last-chunk) and must end identical or fail loudly. Further: the highest complete chunk of a sparse file torn beyond the 4 GiB mark (hash offsets cross 2^32) must be repaired; on the real binaries a completed or interrupted download is changed by hand and the second join answers 'overwrite' - the old metadata must not make the new download skip anything. Resume.tla models handleFileBegin in three steps with a kill possible in between (negative control: file sized before untrusted metadata is dropped); a real receiver process is killed at that point (hook recv.file.sized) after the data file was deleted or shortened, then resumed. Late resume information with a torn highest chunk and a slow statistics callback must still lead to the repair.",
    note="trusted: TLC; covers flips/truncations of one valid sidecar and sampled garbage, not arbitrary byte strings")

_W = "TLA+ spec Wire.tla (record grammar: typed field lists, length prefixes, protocol stages, mutation kinds) enumerated exhaustively with TLC"
CHECKS["C18"] = dict(
    category="exploration", design_ref="5.13",
    technique=_W + "; every enumerated abstract value and record sequence is concretised, encoded with the real encoder, length-checked against the spec's EncodedLen and decoded with the real decoder from whole / 1200-byte / 7-byte reads",
    text="The specification is the frame layout; TLC enumerates every record type x variable-length boundary class x single and pairwise numeric boundary tuple (about 2600 abstract values) and all type sequences up to length 3 (thorough 4); each is concretised with seeded fillings and must round-trip through the real encoder and decoder consuming exactly the written bytes, also when the stream returns short reads. The spec acts as generator and oracle for a pure function, so the level claimed is exploration. Live streams: the control-stream bytes that real multi-file resumed transfers write in either direction (the sender yielding the processor after every write) are decoded with the real decoder, header then record after record to the last byte. Delivery patterns include the last piece arriving together with end-of-stream; decoded values are compared after the whole sequence has been decoded.",
    note="trusted: TLC as enumerator; values inside the protocol's field limits, plus path lengths just over the limit (the encoder must refuse or stay decodable)")
CHECKS["C15"] = dict(
    category="exploration", design_ref="5.10",
    technique=_W + "; every (stage, record type, mutation) is concretised and fed to the real decoders and to the real receiving / sending endpoint by a scripted hostile peer, in child processes with an address-space limit; DumbWire.tla enumerates the dumb-mode record and its truncations for the real reader",
    text="TLC enumerates the structured mutation space (72 stage/type/mutation rows); each row is concretised with seeded fillings and run against the real record decoders and the real endpoints (RecvManifestMultiStream with a scripted sender, SendManifestMultiStream with a scripted receiver). Oracle on the real behaviour: no panic or crash (child exit status), return within 4 s after the input ended, heap growth bounded by the bytes received (plus a 3 GiB address-space limit), and no success for a stream the grammar rejects; data streams that end inside a frame are also run with the control stream kept open and silent. DumbWire.tla enumerates the record of the dumb transfer modes (name length x size class x place where the stream ends); the real reader is fed each from memory, over loopback TCP and over a simulated stream, the real writer runs against a peer that goes away. Further mutations: chunk size far beyond the file, FileBegin after the file is done, every FileDone sent twice, resume information whose huge chunk count and bitmap length agree.",
    note="trusted: TLC as enumerator, the scripted peers; structure-aware mutation, not arbitrary byte strings")

CHECKS["C07"] = dict(
    category="exploration", design_ref="5.3",
    technique="TLA+ spec Paths.tla (lexical path algebra, the five peer-controlled values with sinks and guards) enumerated exhaustively with TLC; each case is a hostile scripted sender against the real receiver - or, for the signaling offer's root name, a scripted host against the real thru join binary - inside a jail with before/after snapshots",
    text="TLC enumerates every segment sequence up to 2 (thorough 3) segments over 8 segment classes (incl. a path over the 1024-byte limit) for each of manifest.root, directory rel_path, file rel_path / FileBegin, item.id and the root name of the signaling manifest offer, in both root-directory modes with resume on and off, and checks that the guard rejects the value or the cleaned target stays below the output directory (the pinned commit's guards are refuted). Every case is then transmitted by a scripted sender to the real RecvManifestMultiStream (offer root names: offered by a scripted host to the real binary whose user accepts and chooses overwrite / resume); nothing around the output directory may be created, modified or deleted. FileBegin.rel_path is also enumerated on its own (benign manifest, record carrying the key and size of a listed file and another path; negative control: record matched by key alone); the process's temporary directory lies inside the observed jail and every third case blocks the metadata directory with a listed file of that name. Padded '..' names (' ..', '.. ', tab) are a segment class of their own and are offered as root names to the real binary; longer paths of the shape harmless first segment, two or three '..', a name are enumerated in full.",
    note="trusted: TLC as enumerator and oracle of the guard decision; the snapshot of the jail; Unix semantics")

CHECKS["C08"] = dict(
    category="model_checking", design_ref="5.4",
    technique="TLA+ specs Auth.tla (symbolic two-message HMAC handshake bound to the TLS session, Dolev-Yao attacker with rogue dialer / rogue listener / relay positions) and AuthExtras.tla model-checked exhaustively with TLC; every terminal behaviour is an attack script replayed against the real authenticateTransport / acceptExtraConns / dialExtraConns over real loopback QUIC, with the alteration classes refined to every bit flip and truncation length; whole sessions and rogue peers against the real thru host / thru join binaries, hook traces validated with TLC against SessionTrace.tla",
    text="TLC explores every attacker strategy (forge under known or guessed codes with its own sessions' keying material, replay of the current and an older session, reflection, role swap, alteration of version / role / nonce / mac, truncation, silence) in four topologies for every pair of codes and every set of codes the attacker knows, and checks that an honest end accepts only a peer that holds its code on its own TLS session, that two honest ends accept each other, that an altered message is rejected and that a connection is used only after a successful handshake (three switches are refuted as controls). Each behaviour is executed over real QUIC/TLS sessions with the real handshake code at the honest ends; the real extra-connection loops are run against scripted peers; rogue hosts and rogue receivers that take part in the real signaling misbehave at the authentication step against the real binaries (no transfer-phase event, no file, no byte beyond the proof), and honest whole sessions' traces must show no transfer-phase event before a successful auth.end. Extra connections are also attacked by an on-path relay: both real extra-connection loops run against each other through a UDP demultiplexer that forwards the earlier connections raw and terminates the last one, passing the two authentication messages on verbatim. Honest proofs are delivered in two pieces (an honest peer that is rejected is a violation); a rogue dialer abandons k connections the way an honest sender abandons the losers of its dial race and then pushes a file without authentication.",
    note="trusted: the symbolic treatment of HMAC and the TLS exporter; quic-go; the harness attacker's independent implementation of the proof formula")

CHECKS["C09"] = dict(
    category="model_checking", design_ref="5.5",
    technique="TLA+ spec ConnRace.tla (per-path client/server handshake completion, result channel, cancel, accept queue, abandoned connections, authentication at both ends) model-checked exhaustively with TLC incl. a liveness property; TLC behaviours are replayed into the real ProbeAndDial (goroutines gated at the ice.dial.done hook, census at a real listener) and into the real `thru join` binary driven by a scripted host over the real thruserv; free-running dials and whole sessions of both binaries with traces validated against SessionTrace.tla",
    text="TLC explores every interleaving of the client-side and server-side completions of up to three parallel handshakes, the offers to the result channel, the caller's take, cancellations, the acceptor's choice and the arrival of closes, and checks that the dialer keeps exactly one connection, that both ends authenticate on the same connection and that the acceptor never gives up while the dialer holds a connection (the pinned commit's two behaviours are refuted as controls). Each distinct dialing schedule is enforced on the real ProbeAndDial and the listener's open connections are compared with the returned one; each distinct server-visible order is played against the real receiver binary, whose hook trace shows the connection it ends up on. The TCP variant of the set-up (dumb-tcp mode) is bound the same way: real dialAddrs against real acceptWithContext behind one forwarder per announced address, plus whole --dumb-tcp sessions of the real binaries. A pion TURN server inside the sandbox (credentials minted by the real thruserv) relays whole sessions of the real binaries - relay available / relay only, 1 and 3 connections - and the accept scripts are replayed against a receiver that has a relay listener.",
    note="trusted: quic-go; the gate placement (after the client handshake); the scripted host's faithfulness to what a racing dialer does (connect, abandon with race_lost, authenticate on the kept connection)")

CHECKS["C13"] = dict(
    category="exploration", design_ref="5.8",
    technique="TLA+ spec Scan.tla (universe forest, ordinal-prefix rule and walk transcribed as set comprehensions) enumerated exhaustively with TLC; the real ScanPaths and buildPathResolver run on every enumerated path list over the materialised forest and are compared with the spec's expected manifest and an independent oracle",
    text="The specification computes, for every list of up to 3 (thorough 4; quick adds the 4-lists with two duplicated base names) paths over 10 candidates of a forest containing every node kind and name-collision pattern, the manifest that must result (and shows at design level that the ordinal-prefix scheme can produce duplicate paths). The real ScanPaths/resolver are run on each list with several spellings; the output must equal the expected manifest and satisfy uniqueness, order, totals, resolvability, size = readable bytes and determinism. The universe also has names containing '..' and a backslash.",
    note="trusted: TLC as enumerator and reference implementation; a fixed forest, not arbitrary trees")

CHECKS["C10"] = dict(
    category="model_checking", design_ref="5.6",
    technique="TLA+ spec Routing.tla (handler-level routing semantics computing every client's inbox) checked exhaustively to a depth bound and simulated with TLC; simulated histories executed by real WebSocket clients against the real thruserv binary with inbox-by-inbox comparison; Hub.tla transitions replayed on the real hub (routing oracles); a concurrent phase against the real server",
    text="TLC checks isolation, per-pair FIFO and index consistency of the routing model for every history up to depth 5 (thorough 6) over 3 sockets / 2 peer ids / 2 sessions and on long simulated histories over 4 sockets / 3 peer ids; each simulated history (create, join incl. duplicate peer ids, leave, addressed / broadcast / spoofed / malformed sends) is replayed on the real server and after every step each client's real receive log must equal the model's inbox. The hub's phase-split interleavings are forced on the real hub and judged by the routing oracles; nine clients in three sessions with identical peer ids send addressed / broadcast / spoofed / unknown-addressee messages at once and the logs are judged by the per-pair predicates. The concurrent phase is repeated against a TURN-issuing server with peer ids containing ':' '@' '%'.",
    note="trusted: TLC, the settle wait before comparing inboxes; concurrency inside the hub is C11's subject")
CHECKS["C14"] = dict(
    category="model_checking", design_ref="5.9",
    technique="TLA+ spec Server.tla (admission paths as processes with separate check and act steps, discrete time, expiry, host disconnect) checked exhaustively with TLC; real thruserv binary driven through sequential and hook-delayed concurrent scenarios, plus overlay-injected in-package tests: stress of the limiter primitives and forced join-code collisions",
    text="TLC explores all interleavings of 4 concurrent requests under limit values {0,1,2} and checks admission-only-while-live, the three counted limits and 'zero means off' (check-then-act enforcement is refuted); the real binary is started per scenario and the census of admitted creates / joins / sockets / messages is compared with the configured limits, joins after host disconnect or expiry must get 404; clients that keep hammering after a refusal must not earn tokens faster than the rate; a scripted random source forces join-code collisions (codes stay pairwise distinct and resolve to their own session). Server.tla carries peer ids: a receiver reconnecting under its own id replaces its hub entry while the old socket keeps its slot (negative control: reconnect admitted without a slot); scenarios against the real server: reconnect under the same peer id followed by another receiver, and hammering with forged X-Forwarded-For / X-Real-IP / Forwarded headers. In-package test moving the bucket clock back (a silent minute must not restore the burst); a session lifetime of 800 ms must admit at 600 ms whatever the wall-clock phase at creation.",
    note="trusted: TLC, the delay mode of the hooks for deterministic bursts, wall-clock rate checks with slack")
CHECKS["C16"] = dict(
    category="exploration", design_ref="5.11",
    technique="TLA+ spec Config.tla (configuration space as states, one contract) enumerated with TLC; every enumerated configuration is a real thruserv process exercised by the real client functions",
    text="TLC enumerates 165 flag configurations (every flag at default / small / 0 with at most two (thorough three) flags off default, all-small, all-zero) and 99 TURN-spelling x peer-id-class combinations; for each the real server is started and the real CreateSession, URL builder and TURN URL parser must succeed and agree with independently recomputed credentials. In every configuration the two connected clients then exchange three rounds of addressed messages and must still be connected afterwards. A TURN server that really answers (pion/turn in the sandbox, coturn's use-auth-secret scheme): for every spelling of its address and several peer-id classes the real ice.Prober must obtain a relay allocation with the minted credentials; IPv6 spellings; a second session must not invalidate the first.",
    note="trusted: TLC as enumerator; TURN servers are not contacted")

NOT_APPLICABLE = {}

ROUND6 = {
    "C01": "A second fetch over a complete tree whose last recorded chunk is damaged must not end in success over a different tree; trees with unlisted entries (dangling link, named pipe, link to a directory) in front of later-sorting siblings; one scanned manifest served to two receivers in a row.",
    "C02": "After a run that a damaged chunk made fail, the ordinary retry (resume on) must not report success over a different tree; an output path that is a link to /dev/null must not end in success.",
    "C03": "One directory spelled '.', './', 'sub/..', '..', '../proj' from the matching working directory goes through the real ScanPaths and path resolver; transfers whose sender yields after every control-stream write must complete.",
    "C05": "Metadata that does not load (cut short, flipped bits, garbage) is ignored: the transfer must still succeed; post-mortem of the metadata after transfers with chunks of several MiB.",
    "C06": "Leftover metadata in the fallback location below the root directory; only the first chunk recorded and torn; the receiver's hash of the highest recorded chunk taking longer than its own timeout (hook recv.resume.hash): the chunk must still be repaired.",
    "C07": "Paths that climb out only behind 64 harmless components (Paths.tla shape 'deep'); hostile ids on empty files; a regular file of the user in the place of the metadata directory.",
    "C09": "ConnRace.tla covers the receiver's relay listener (ExtrasMeet, switch ExtrasOnDirect refuted); every direct candidate unreachable and listed twice, with and without a reachable relay candidate.",
    "C10": "The real signaling client (internal/wsclient) sends a batch and closes at once (with its reader running, and with what the server sent it still unread): the reading recipient gets every envelope Send accepted, in order; a recipient whose connection stalls until its hub queue overflows and then comes back receives an increasing subsequence of what the author sent.",
    "C11": "Expiry with a stuck peer among eight: every other peer must be disconnected whatever the stuck one's position in the close loop.",
    "C12": "DispatchLoop.tla covers receivers leaving while their transfer runs, their transfer function returning later and late accepts (NoDeadStart, switch TailUsesOwnCtx refuted), replayed on the real loop; the replay uses the real status logger as state-change callback and bounds every handler call.",
    "C13": "One scanned manifest served to two receivers in a row must be unchanged afterwards.",
    "C14": "A receiver that joined under the host's peer id must not keep the code alive after the host left.",
    "C15": "Manifest entries without id under a resume negotiation; the multi-connection dumb receive with every connection ending early; receivers run with resume on for every other case.",
    "C16": "Twelve receivers joining at once each get the TURN user and secret minted for their own peer id.",
    "C17": "Resume reports that arrive after the grace period with a slow statistics callback: the file must not be ended before the chunk that failed verification went out again.",
    "C18": "Names with control characters, DEL, a tag character, an emoji and quotes; one manifest document of about 25 MiB.",
    "C19": "The repair of a short last chunk must be framed with that chunk's own length (a full-size request reads beyond the end of the file).",
}
for _k, _t in ROUND6.items():
    CHECKS[_k]["text"] = CHECKS[_k]["text"] + " " + _t

HOOK_COMMITS = ["6b59734", "6335744", "5382be1", "5e921af", "851c4ba", "5063793", "42c67f4", "011cabf", "c6a49db"]


def main():
    props = [json.loads(l)["id"] for l in open(os.path.join(ROOT, "properties.jsonl"))]
    checks = []
    for pid in props:
        if pid not in CHECKS:
            continue
        c = CHECKS[pid]
        checks.append(dict(
            property_id=pid,
            quick_cmd="bin/check %s quick" % pid,
            thorough_cmd="bin/check %s thorough" % pid,
            evidence_file="/verif/evidence/%s.json" % pid,
            replay_cmd_template="bin/check %s quick --replay {path}" % pid,
            engine="tlc+vh",
            level_claimed=dict(category=c["category"], text=c["text"], design_ref="DESIGN.md section " + c["design_ref"]),
            level_note=c["note"],
            technique=c["technique"],
        ))
    na = []
    for pid in props:
        if pid in CHECKS:
            continue
        na.append(dict(property_id=pid, reason=NOT_APPLICABLE.get(pid, "check not built yet in this round (planned, see DESIGN.md section 5); not claimed until its check exists and is green on the unchanged tree")))
    m = dict(
        version=1,
        setup_cmd="bin/setup",
        hooks=dict(
            guard="verif",
            enable="go build -tags verif (plus -overlay of /verif/harness/shims/*.go for exported access to unexported symbols; the shims live only in /verif)",
            baseline_off_cmd="cd /repo && GOFLAGS=-mod=mod GOPROXY=off go test -vet=off -count=1 -timeout 25m ./...",
            source_commits=HOOK_COMMITS,
            add_only=True,
        ),
        engines=[
            dict(name="tlc", path="/usr/local/bin/tlc", serves_properties=sorted(CHECKS), kind_free_text="TLA+ explicit-state model checker (exhaustive, simulation, trace validation)"),
            dict(name="apalache", path="/usr/local/bin/apalache-mc", serves_properties=["C19"], kind_free_text="symbolic TLA+ checker used for the unbounded-integer chunk geometry theorems"),
            dict(name="vh", path="/verif/harness/cmd/vh", serves_properties=sorted(CHECKS), kind_free_text="Go conformance harness: replays TLC behaviours on the real code / records real traces"),
        ],
        checks=checks,
        not_applicable=na,
        notes="Every check: `bin/check <ID> <quick|thorough>`; specs in /verif/specs, Go drivers in /verif/harness, orchestration in /verif/checks. Known findings: /verif/known_findings.json.",
    )
    with open(os.path.join(ROOT, "MANIFEST.json"), "w") as f:
        json.dump(m, f, indent=1)
        f.write("\n")


if __name__ == "__main__":
    main()
